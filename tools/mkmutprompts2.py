#!/usr/bin/env python3
"""Prompts for a round of seeded changes, from properties.jsonl and tools/mutprompt_template.txt.
usage: mkmutprompts2.py DIR TAG PID...   (then: git -C /repo worktree add --detach DIR/PID for each; one fresh
sub-agent per PID with the prompt 'Read the file DIR/PID.prompt.txt and follow its instructions exactly.';
afterwards MUTDIR=DIR MUTTAG=TAG tools/procmut.sh)"""
import sys, os, json, glob
V = os.path.dirname(os.path.dirname(os.path.abspath(__file__)))
d, tag, pids = sys.argv[1], sys.argv[2], sys.argv[3:]
os.makedirs(d, exist_ok=True)
props = {json.loads(l)['id']: json.loads(l) for l in open(os.path.join(V, 'properties.jsonl'))}
tpl = open(os.path.join(V, 'tools', 'mutprompt_template.txt')).read()
V5 = "The existing suite: `cd {DIR}/{PID}/v5 && go build ./... && go test -vet=off -count=1 ./...`. The demo test is `package jsonpatch`, will be copied into `v5/` next to the sources and run with `go test -run`."
LEGACY = ("The property is about the LEGACY package: the files `patch.go`, `merge.go`, `errors.go` in the ROOT of the worktree (package `jsonpatch`, import path `github.com/evanphx/json-patch`; the root has no go.mod). To build and test it, copy those three files plus the root `*_test.go` files into a scratch directory under {DIR}/{PID}/MUT/scratch with a go.mod containing `module github.com/evanphx/json-patch` and `go 1.18`, and run `go test -vet=off -count=1 .` there. Your change must be to the ROOT files (patch.go / merge.go / errors.go), the root tests must still pass in such a scratch module, and ALSO the v5 suite must still pass (`cd {DIR}/{PID}/v5 && go build ./... && go test -vet=off -count=1 ./...`). The demo test is `package jsonpatch` and is run in such a scratch module next to the root files.")
for pid in pids:
    p = props[pid]
    suite = LEGACY if pid in ('C18', 'C19') else V5
    if pid == 'C20': suite += " (for the command `v5/cmd/json-patch` the demo may build the binary with `go build` into a temp dir and run it with os/exec)"
    if pid == 'C10': suite += " The demo is run under `go test -race`."
    tried = []
    for m in sorted(glob.glob(os.path.join(V, 'seeded', pid + '*', 'meta.json'))):
        try: tried.append('      - ' + json.load(open(m))['summary'].replace('\n', ' ')[:170])
        except Exception: pass
    s = tpl.replace('{SUITE}', suite).replace('{TRIED}', '\n'.join(tried)).replace('{TITLE}', p['title']).replace('{STATEMENT}', p['statement']).replace('{QUANT}', p['quantifier']['text'])
    s = s.replace('{DIR}', d).replace('{PID}', pid).replace('{TAG}', tag)
    open(os.path.join(d, pid + '.prompt.txt'), 'w').write(s)
    print(pid, len(tried), 'tried')
