#!/usr/bin/env python3
"""write coq/_CoqProject listing every .v file of the development (Extract.v is compiled separately)"""
import os, glob
C = os.path.join(os.path.dirname(os.path.dirname(os.path.abspath(__file__))), 'coq')
fs = sorted(os.path.relpath(f, C) for f in glob.glob(os.path.join(C, '*.v')) + glob.glob(os.path.join(C, 'gen', '*.v')) + glob.glob(os.path.join(C, 'Properties', '*.v')))
wip = os.path.join(C, 'WIP')
skip = set(open(wip).read().split()) if os.path.exists(wip) else set()
fs = [f for f in fs if f != 'Extract.v' and f not in skip and not os.path.basename(f).startswith(('Scratch', 'scratch', 'Tmp', 'tmp', 'Probe', 'probe'))]
new = '-Q . JP\n' + '\n'.join(fs) + '\n'
p = os.path.join(C, '_CoqProject')
if not os.path.exists(p) or open(p).read() != new:
    open(p, 'w').write(new)
print(len(fs), 'files')
