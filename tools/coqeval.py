#!/usr/bin/env python3
"""coqeval.py — cross-check of the extraction and of the OCaml driver (DESIGN 7, trusted base).

  coqeval.py <cases-file> <oracle-binary> [--n 150] [--seed 1] [--workdir DIR]
             [--maxbytes 1500] [--chunk 150] [--timeout 300] [--coqdir /verif/coq]

The correspondence run judges the Go implementation against the EXTRACTED model (OCaml), fed by an
OCaml driver that decodes the case lines.  This tool re-evaluates a sample of the same cases INSIDE
Coq: it
  (a) samples N case lines of the supported kinds from <cases-file> (deterministically from --seed),
  (b) runs `<oracle-binary> -dump` on them: one line  id <TAB> canonical result  per case, what the
      extracted model returned for the main model call of the case kind,
  (c) writes a Coq file that states each case's inputs as explicit byte lists (decoded HERE, in
      Python, from the case line: independent of the OCaml decoding), the same model call, and the
      result the oracle printed; `Eval vm_compute` compares the two inside Coq and the file prints
      the list of case numbers whose in-Coq result differs from the oracle's,
  (d) compiles it with  coqc -Q <coqdir> JP  under a timeout,
  (e) prints a one-line JSON summary {"sampled", "kinds", "mismatches", "seconds", ...}.
Exit status: 0 no mismatch (also when the file holds no case of a supported kind: "sampled": 0);
1 at least one mismatch; 2 infrastructure failure (nothing decided; "error" says why).

Supported kinds (first field of a case line) and the model call compared:
  apply            api_decode patch, then api_apply (mkOpts neg limit allow ensure esc [] None) indent ops doc
  apply4           api_decode4 patch, then api_apply4 (mkOpts4 neg limit None) indent ops doc
  merge            api_merge (mode = mm) doc patch          merge4   api_merge4 false doc patch
  merge3           api_merge true p1 p2                     merge34  api_merge4 true p1 p2
  create, create4  api_create a b
  equal            api_equal a b                            equal4   api_equal4 a b
  decode           api_decode in (accepted?  how many operations)
  valid            valid_gen in, parse in (accepted?)
  cli              cli_run files stdin
"""
import sys, os, re, json, time, random, argparse, subprocess, tempfile, shutil, collections

HERE = os.path.dirname(os.path.abspath(__file__))
SUPPORTED = ('apply', 'apply4', 'merge', 'merge4', 'merge3', 'merge34', 'create', 'create4',
             'equal', 'equal4', 'decode', 'valid', 'cli')

class Infra(Exception):
    pass

# ------------------------------------------------------------------ case lines

def fields(line):
    """kind, {key: value}; the first occurrence of a key wins (List.assoc in the oracle)"""
    parts = line.rstrip('\n').split('\t')
    d = {}
    for p in parts[1:]:
        if '=' in p:
            k, v = p.split('=', 1)
            d.setdefault(k, v)
    return parts[0], d

def unhex(v):
    if not v.startswith('x'):
        raise ValueError('not hex: %r' % v[:40])
    return bytes.fromhex(v[1:])

def inputs_of(kind, f):
    """the byte-string inputs of the model call (used for the size cap), or raises"""
    if kind in ('apply', 'apply4'):
        return [unhex(f['indent']), unhex(f['patch']), unhex(f['doc'])]
    if kind in ('merge', 'merge4'):
        return [unhex(f['doc']), unhex(f['patch'])]
    if kind in ('merge3', 'merge34'):
        return [unhex(f['p1']), unhex(f['p2'])]
    if kind in ('create', 'create4', 'equal', 'equal4'):
        return [unhex(f['a']), unhex(f['b'])]
    if kind in ('decode', 'valid'):
        return [unhex(f['in'])]
    if kind == 'cli':
        return [unhex(f['stdin'])] + [unhex(x.split(':', 1)[1]) for x in f.get('files', '').split(';') if x.startswith('file:')]
    raise ValueError(kind)

# ------------------------------------------------------------------ Coq terms

def cb(b):
    return '[' + ';'.join('x%02x' % c for c in b) + ']'

def cbool(x):
    return 'true' if x else 'false'

def call_of(kind, f):
    """the Coq term (of type canon) for the model call of this case"""
    if kind == 'apply':
        fl = f['flags']
        o = '(mkOpts %s (%d)%%Z %s %s %s [] None)' % (cbool(fl[0] == '1'), int(f['limit']), cbool(fl[1] == '1'), cbool(fl[2] == '1'), cbool(fl[3] == '1'))
        return 'k_apply %s %s %s %s' % (o, cb(unhex(f['indent'])), cb(unhex(f['patch'])), cb(unhex(f['doc'])))
    if kind == 'apply4':
        g = '(mkOpts4 %s (%d)%%Z None)' % (cbool(f['flags'][0] == '1'), int(f['limit']))
        return 'k_apply4 %s %s %s %s' % (g, cb(unhex(f['indent'])), cb(unhex(f['patch'])), cb(unhex(f['doc'])))
    if kind == 'merge':
        return 'k_mres (api_merge %s %s %s)' % (cbool(f.get('mode', '') == 'mm'), cb(unhex(f['doc'])), cb(unhex(f['patch'])))
    if kind == 'merge4':
        return 'k_mres (api_merge4 false %s %s)' % (cb(unhex(f['doc'])), cb(unhex(f['patch'])))
    if kind == 'merge3':
        return 'k_mres (api_merge true %s %s)' % (cb(unhex(f['p1'])), cb(unhex(f['p2'])))
    if kind == 'merge34':
        return 'k_mres (api_merge4 true %s %s)' % (cb(unhex(f['p1'])), cb(unhex(f['p2'])))
    if kind in ('create', 'create4'):
        return 'k_mres (api_create %s %s)' % (cb(unhex(f['a'])), cb(unhex(f['b'])))
    if kind == 'equal':
        return 'CBools [api_equal %s %s]' % (cb(unhex(f['a'])), cb(unhex(f['b'])))
    if kind == 'equal4':
        return 'k_equal4 %s %s' % (cb(unhex(f['a'])), cb(unhex(f['b'])))
    if kind == 'decode':
        return 'k_decode %s' % cb(unhex(f['in']))
    if kind == 'valid':
        return 'k_valid %s' % cb(unhex(f['in']))
    if kind == 'cli':
        fs = [x for x in f.get('files', '').split(';')] if f.get('files', '') != '' else []
        pf = ['(PFile %s)' % cb(unhex(x.split(':', 1)[1])) if x.startswith('file:') else 'PUnreadable' for x in fs]
        return 'k_cli [%s] %s' % ('; '.join(pf), cb(unhex(f['stdin'])))
    raise ValueError(kind)

ERRCLASS = {'test-failed': 'ETestFailed', 'missing': 'EMissing', 'invalid-index': 'EInvalidIndex', 'invalid': 'EInvalid',
            'expected-object': 'EExpectedObject', 'atoi': 'EAtoi', 'decode': 'EDecode', 'other': 'EOther'}
MERR = {'bad-doc': 'MBadDoc', 'bad-patch': 'MBadPatch', 'bad-types': 'MBadTypes'}

def expected_of(r):
    """the Coq term (of type canon) for a canonical rendering printed by `oracle -dump`"""
    w = r.split(' ')
    if w[0] == 'OUT' and len(w) == 2:
        return 'COut %s' % cb(unhex(w[1]))
    if w[0] == 'ERR' and len(w) in (3, 5):
        idx = 'None' if w[1] == '-' else '(Some %d%%nat)' % int(w[1])
        if w[2] == 'copy-limit' and len(w) == 5:
            return 'CErr %s (ECopyLimit (%d)%%Z (%d)%%Z)' % (idx, int(w[3]), int(w[4]))
        if len(w) == 3 and w[2] in ERRCLASS:
            return 'CErr %s %s' % (idx, ERRCLASS[w[2]])
    if w[0] == 'MERR' and len(w) == 2 and w[1] in MERR:
        return 'CMErr %s' % MERR[w[1]]
    if r == 'PANIC':
        return 'CPanic'
    if r == 'NONE':
        return 'CNone'
    if w[0] == 'SOME' and len(w) == 2:
        return 'CSome %d%%nat' % int(w[1])
    if w and all(x in ('TRUE', 'FALSE') for x in w):
        return 'CBools [%s]' % '; '.join(cbool(x == 'TRUE') for x in w)
    raise Infra('oracle -dump printed a rendering this tool does not know: %r' % r[:200])

PREAMBLE = r'''(* generated by tools/coqeval.py: do not edit.  Each r_<i> is [true] iff the model call of sampled
   case <i>, evaluated here by vm_compute, equals what the extracted OCaml model returned. *)
From JP Require Import Bytes Json Text Strings Den Pointer Rfc6902 Rfc7396 ImplV5 ImplMerge ImplV4 Scan Cli.
Local Open Scope list_scope.

Inductive canon :=
| COut (b : bytes) | CErr (i : option nat) (e : errclass) | CMErr (e : merr) | CPanic | CNone
| CSome (n : nat) | CBools (l : list bool).

Fixpoint bytes_eqb (a b : bytes) : bool :=
  match a, b with
  | [], [] => true
  | x :: a', y :: b' => Byte.eqb x y && bytes_eqb a' b'
  | _, _ => false
  end.
Fixpoint bools_eqb (a b : list bool) : bool :=
  match a, b with
  | [], [] => true
  | x :: a', y :: b' => Bool.eqb x y && bools_eqb a' b'
  | _, _ => false
  end.
Definition errclass_eqb (a b : errclass) : bool :=
  match a, b with
  | ETestFailed, ETestFailed | EMissing, EMissing | EInvalidIndex, EInvalidIndex | EInvalid, EInvalid
  | EExpectedObject, EExpectedObject | EAtoi, EAtoi | EDecode, EDecode | EOther, EOther => true
  | ECopyLimit l t, ECopyLimit l' t' => Z.eqb l l' && Z.eqb t t'
  | _, _ => false
  end.
Definition merr_eqb (a b : merr) : bool :=
  match a, b with
  | MBadDoc, MBadDoc | MBadPatch, MBadPatch | MBadTypes, MBadTypes => true
  | _, _ => false
  end.
Definition optnat_eqb (a b : option nat) : bool :=
  match a, b with
  | None, None => true
  | Some x, Some y => Nat.eqb x y
  | _, _ => false
  end.
Definition canon_eqb (a b : canon) : bool :=
  match a, b with
  | COut x, COut y => bytes_eqb x y
  | CErr i e, CErr j e' => optnat_eqb i j && errclass_eqb e e'
  | CMErr e, CMErr e' => merr_eqb e e'
  | CPanic, CPanic => true
  | CNone, CNone => true
  | CSome n, CSome m => Nat.eqb n m
  | CBools x, CBools y => bools_eqb x y
  | _, _ => false
  end.

Definition k_apply (o : opts) (indent patch doc : bytes) : canon :=
  match api_decode patch with
  | None => CNone
  | Some ops => match api_apply o indent ops doc with ROut b => COut b | RErr i e => CErr i e | RPanic => CPanic end
  end.
Definition k_apply4 (g : opts4) (indent patch doc : bytes) : canon :=
  match api_decode4 patch with
  | None => CNone
  | Some ops => match api_apply4 g indent ops doc with Out4 b => COut b | Err4 i e => CErr i e | Panic4 => CPanic end
  end.
Definition k_mres (r : mres) : canon := match r with MOut b => COut b | MErr e => CMErr e end.
Definition k_equal4 (a b : bytes) : canon := match api_equal4 a b with None => CNone | Some r => CBools [r] end.
Definition k_decode (bs : bytes) : canon := match api_decode bs with None => CNone | Some ops => CSome (length ops) end.
Definition k_valid (bs : bytes) : canon :=
  CBools [valid_gen bs; match parse bs with Some _ => true | None => false end].
Definition k_cli (files : list pfile) (stdin : bytes) : canon :=
  match cli_run files stdin with Some b => COut b | None => CNone end.

'''

def coq_file(cases):
    """cases: list of (number, call term, expected term)"""
    out = [PREAMBLE]
    for i, call, exp in cases:
        out.append('Definition r_%d := Eval vm_compute in canon_eqb (%s) (%s).\n' % (i, call, exp))
    out.append('\nDefinition results : list (N * bool) := [%s].\n' % '; '.join('(%d%%N, r_%d)' % (i, i) for i, _, _ in cases))
    out.append('Definition nchecked := Eval vm_compute in N.of_nat (length results).\n')
    out.append('Definition mismatches := Eval vm_compute in map fst (filter (fun p => negb (snd p)) results).\n')
    out.append('Print nchecked.\nPrint mismatches.\n')
    return ''.join(out)

def detail_file(cases):
    """diagnostics: what Coq computes for the given cases (output bytes as numbers: readable whatever they are)"""
    out = [PREAMBLE,
           'Inductive dcanon := DOut (b : list N) | DOther (c : canon).\n'
           'Definition detail (c : canon) : dcanon := match c with COut b => DOut (map Byte.to_N b) | _ => DOther c end.\n']
    for i, call, exp in cases:
        out.append('Definition a_%d := Eval vm_compute in detail (%s).\nPrint a_%d.\n' % (i, call, i))
    return ''.join(out)

def render_detail(term):
    m = re.match(r'DOut \[([0-9;%N ]*)\]$', term)
    if m:
        return 'OUT x' + ''.join('%02x' % int(x) for x in re.findall(r'\d+', m.group(1).replace('%N', '')))
    m = re.match(r'DOther \((.*)\)$', term) or re.match(r'DOther (.*)$', term)
    return m.group(1) if m else term

def run_coqc(path, coqdir, timeout):
    cmd = ['bash', '-c', 'ulimit -s unlimited 2>/dev/null; exec coqc -noglob -Q "$0" JP "$1"', coqdir, path]
    try:
        p = subprocess.run(cmd, cwd=os.path.dirname(path), stdout=subprocess.PIPE, stderr=subprocess.STDOUT, text=True, timeout=timeout)
    except subprocess.TimeoutExpired:
        raise Infra('coqc timed out after %d s on %s' % (timeout, path))
    return p.returncode, p.stdout

def parse_result(out, want):
    flat = ' '.join(out.split())
    m = re.search(r'nchecked = (\d+)(?:%N)? : N', flat)
    if not m or int(m.group(1)) != want:
        raise Infra('coqc output does not report %d checked cases: %s' % (want, flat[-600:]))
    m = re.search(r'mismatches = (\[[^\]]*\]) : list N', flat)
    if not m:
        raise Infra('coqc output has no mismatch list: %s' % flat[-600:])
    return [int(x) for x in re.findall(r'(\d+)(?:%N)?', m.group(1))]

# ------------------------------------------------------------------ main

def main():
    ap = argparse.ArgumentParser(description='re-evaluate a sample of correspondence cases inside Coq and compare with the extracted model')
    ap.add_argument('cases'); ap.add_argument('oracle')
    ap.add_argument('--n', type=int, default=150, help='cases to sample (default 150)')
    ap.add_argument('--seed', type=int, default=1)
    ap.add_argument('--workdir', default=None, help='where the generated files go (kept); default: a fresh temp dir, removed')
    ap.add_argument('--maxbytes', type=int, default=1500, help='skip cases whose inputs total more bytes than this (coqc parses long byte lists slowly)')
    ap.add_argument('--chunk', type=int, default=150, help='cases per generated Coq file')
    ap.add_argument('--timeout', type=int, default=300, help='seconds per coqc run')
    ap.add_argument('--coqdir', default=os.path.join(os.path.dirname(HERE), 'coq'))
    a = ap.parse_args()
    t0 = time.time()
    summary = dict(sampled=0, kinds={}, mismatches=[], seconds=0.0)
    own = a.workdir is None
    wd = tempfile.mkdtemp(prefix='coqeval_') if own else a.workdir
    rc = 2
    try:
        os.makedirs(wd, exist_ok=True)
        # (a) sample
        eligible, unsupported, toolarge = [], 0, 0
        with open(a.cases) as fh:
            for ln, line in enumerate(fh, 1):
                if not line.strip():
                    continue
                kind, f = fields(line)
                if kind not in SUPPORTED:
                    unsupported += 1; continue
                try:
                    sz = sum(len(b) for b in inputs_of(kind, f))
                except (KeyError, ValueError, IndexError):
                    unsupported += 1; continue
                if sz > a.maxbytes:
                    toolarge += 1; continue
                eligible.append((ln, line if line.endswith('\n') else line + '\n'))
        rnd = random.Random(a.seed)
        picked = sorted(rnd.sample(range(len(eligible)), min(a.n, len(eligible))))
        sample = [eligible[i] for i in picked]
        summary.update(eligible=len(eligible), skipped_unsupported=unsupported, skipped_large=toolarge)
        if not sample:
            # nothing to compare (a stream of kinds without a single model call, e.g. history): not a failure
            summary['note'] = 'no case line of a supported kind'
            rc = 0
            return finish(summary, t0, own, wd, rc)
        # (b) the extracted model's answers
        inp = os.path.join(wd, 'sample_cases.txt')
        open(inp, 'w').writelines(l for _, l in sample)
        with open(inp) as fin:
            p = subprocess.run(['bash', '-c', 'ulimit -s unlimited 2>/dev/null; exec "$0" -dump', a.oracle], stdin=fin,
                               stdout=subprocess.PIPE, stderr=subprocess.PIPE, text=True, timeout=a.timeout)
        if p.returncode != 0:
            raise Infra('oracle -dump failed (status %d): %s' % (p.returncode, p.stderr[-500:]))
        open(os.path.join(wd, 'sample_dump.txt'), 'w').write(p.stdout)
        dump = p.stdout.splitlines()
        if len(dump) != len(sample):
            raise Infra('oracle -dump printed %d lines for %d cases (is the oracle built from an oracle.ml with the dump mode?)' % (len(dump), len(sample)))
        cases, meta = [], {}
        kinds = collections.Counter()
        for i, ((ln, line), d) in enumerate(zip(sample, dump), 1):
            kind, f = fields(line)
            did, _, rendering = d.partition('\t')
            if did != f.get('id', ''):
                raise Infra('oracle -dump line %d is for id %r, expected %r' % (i, did, f.get('id', '')))
            if rendering.startswith('EXN'):
                raise Infra('oracle exception on case id %s (line %d): %s' % (did, ln, rendering))
            cases.append((i, call_of(kind, f), expected_of(rendering)))
            meta[i] = dict(id=f.get('id', ''), line=ln, kind=kind, oracle=rendering[:400])
            kinds[kind] += 1
        summary['sampled'] = len(cases); summary['kinds'] = dict(kinds)
        # (c) (d) inside Coq
        bad = []
        for c in range(0, len(cases), a.chunk):
            part = cases[c:c + a.chunk]
            path = os.path.join(wd, 'CoqEval%d.v' % (c // a.chunk))
            open(path, 'w').write(coq_file(part))
            st, out = run_coqc(path, a.coqdir, a.timeout)
            if st != 0:
                raise Infra('coqc failed on %s: %s' % (path, out[-800:]))
            bad += parse_result(out, len(part))
        if bad:
            # what Coq computed for the differing cases (diagnostics only)
            sel = [x for x in cases if x[0] in set(bad)][:5]
            path = os.path.join(wd, 'CoqEvalDetail.v')
            open(path, 'w').write(detail_file(sel))
            try:
                st, out = run_coqc(path, a.coqdir, a.timeout)
                flat = ' '.join(out.split())
                for i, _, _ in sel:
                    m = re.search(r'a_%d = (.*?) : dcanon' % i, flat)
                    meta[i]['coq'] = render_detail(m.group(1))[:400] if m else '?'
            except Infra:
                pass
            summary['mismatches'] = [meta[i]['id'] for i in bad]
            summary['details'] = [meta[i] for i in bad[:5]]
            rc = 1
        else:
            rc = 0
    except Infra as e:
        summary['error'] = str(e); rc = 2
    except (OSError, subprocess.SubprocessError, ValueError, KeyError, IndexError) as e:
        summary['error'] = '%s: %s' % (type(e).__name__, e); rc = 2
    return finish(summary, t0, own, wd, rc)

def finish(summary, t0, own, wd, rc):
    if own:
        shutil.rmtree(wd, ignore_errors=True)
    else:
        summary['workdir'] = wd
    summary['seconds'] = round(time.time() - t0, 2)
    print(json.dumps(summary))
    return rc

if __name__ == '__main__':
    sys.exit(main())
