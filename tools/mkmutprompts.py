#!/usr/bin/env python3
"""Prompts for a new round of seeded changes, from the prompts of an earlier round.
usage: mkmutprompts.py OLD_DIR OLD_TAG NEW_DIR NEW_TAG  (e.g. /tmp/mut7 m8 /tmp/mut9 m10)
The list of changes 'tried already' is refreshed from /verif/seeded/<pid>-*/meta.json."""
import sys, os, re, json, glob
old, oldtag, new, newtag = sys.argv[1:5]
os.makedirs(new, exist_ok=True)
for f in sorted(glob.glob(os.path.join(old, 'C??.prompt.txt'))):
    pid = os.path.basename(f)[:3]
    s = open(f).read().replace(old, new).replace('MUT/' + oldtag, 'MUT/' + newtag)
    tried = []
    for m in sorted(glob.glob('/verif/seeded/%s*/meta.json' % pid)):
        try:
            tried.append('      - ' + json.load(open(m))['summary'].replace('\n', ' ')[:170])
        except Exception:
            pass
    lines = s.split('\n')
    out, skip = [], False
    for ln in lines:
        if ln.startswith('      - '):
            if not skip:
                out.extend(tried); skip = True
            continue
        out.append(ln)
    open(os.path.join(new, pid + '.prompt.txt'), 'w').write('\n'.join(out))
    print(pid, len(tried), 'tried')
