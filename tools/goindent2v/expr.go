package main

import (
	"fmt"
	"go/ast"
	"go/token"
	"regexp"
	"strconv"
	"strings"
)

// ---------------------------------------------------------------- environment

type typ int

const (
	tInt typ = iota
	tByte
	tBool
	tScanner
	tBytes // a []byte or string parameter
	tConst // an untyped integer constant
)

func (t typ) String() string {
	return [...]string{"int", "byte", "bool", "*scanner", "string", "constant"}[t]
}

func (t typ) coq() string {
	return [...]string{"Z", "byte", "bool", "scanner", "bytes", "Z"}[t]
}

type variable struct {
	name string
	t    typ
}

// env: the translation context of a statement list
type env struct {
	buf     string         // name of the *bytes.Buffer parameter
	vars    map[string]typ // parameters and locals in scope
	frozen  map[string]bool
	failC   string                                 // constructor for a failure in this context
	next    func(e *env, d int) string             // the end of the list (and continue)
	brk     func(e *env, d int) string             // break, nil where it is not allowed
	ret     func(e *env, d int, err string) string // return, nil where it is not allowed; err is "" for nil
	inBody  bool                                   // inside a loop body
	preLoop bool                                   // before the loop: declarations allowed
}

func (e *env) clone() *env {
	c := *e
	c.vars = map[string]typ{}
	for k, v := range e.vars {
		c.vars[k] = v
	}
	return &c
}

var reserved = map[string]bool{}

func init() {
	for _, w := range strings.Fields(`out rest fuel pooled eofv f len at_ slice in_idx in_slice bz fail res vres
		OutOfRange OutOfFuel RFail RErr ROk VFail VOk step endTop parseState err mkScanner scanner step_fn scanner_eof
		scanner_reset set_step set_err st ps isSpace maxNestingDepth
		bytes byte bool nat list Z N S O B bn nb nth length firstn skipn app cons nil fst snd pair
		negb andb orb true false Some None
		if then else let in match with end fun forall exists return as fix cofix at using where for
		Definition Fixpoint Inductive Set Prop Type SProp _`) {
		reserved[w] = true
	}
	reserved[coqHex] = true
}

var identRe = regexp.MustCompile(`^[A-Za-z][A-Za-z0-9_]*$`)
var byteCtorRe = regexp.MustCompile(`^x[0-9a-f][0-9a-f]$`)

func checkName(id *ast.Ident) {
	n := id.Name
	if !identRe.MatchString(n) {
		die(id.Pos(), "identifier %q cannot be used as a Coq name", n)
	}
	if reserved[n] || byteCtorRe.MatchString(n) || n == hexName || scanConsts[n] || strings.HasPrefix(n, "St_") || strings.HasPrefix(n, "state") {
		die(id.Pos(), "name %q clashes with a name of the generated file or of the package; rename it or extend goindent2v", n)
	}
	for _, w := range wanted {
		if strings.HasPrefix(n, strings.ToLower(w)+"_") {
			die(id.Pos(), "name %q clashes with a name of the generated file", n)
		}
	}
}

func (e *env) declare(id *ast.Ident, t typ) {
	checkName(id)
	if _, old := e.vars[id.Name]; old || id.Name == e.buf {
		die(id.Pos(), "%s is already declared (shadowing is not modelled)", id.Name)
	}
	e.vars[id.Name] = t
}

// ---------------------------------------------------------------- expressions
//
// An expression is translated into a Coq term and a guard: a Coq term of type bool that says that
// every index expression that Go evaluates is in range ("" if there is none).

func unparen(x ast.Expr) ast.Expr {
	for {
		p, ok := x.(*ast.ParenExpr)
		if !ok {
			return x
		}
		x = p.X
	}
}

func atom(s string) string {
	if !strings.ContainsAny(s, " ") {
		return s
	}
	return "(" + s + ")"
}

func zlit(n int64) string {
	if n < 0 {
		return fmt.Sprintf("(%d)", n)
	}
	return strconv.FormatInt(n, 10)
}

func conj(a, b string) string {
	switch {
	case a == "":
		return b
	case b == "":
		return a
	}
	return a + " && " + b
}

func constValue(x ast.Expr) (int64, bool) {
	if v, ok := unparen(x).(*ast.BasicLit); ok {
		switch v.Kind {
		case token.INT:
			if strings.Contains(v.Value, "_") {
				die(v.Pos(), "unsupported int literal %s", v.Value)
			}
			n, err := strconv.ParseInt(v.Value, 0, 64)
			if err != nil {
				die(v.Pos(), "unsupported int literal %s", v.Value)
			}
			return n, true
		case token.CHAR:
			if len(v.Value) < 3 {
				die(v.Pos(), "bad character literal")
			}
			r, _, tail, err := strconv.UnquoteChar(v.Value[1:], '\'')
			if err != nil || tail != "'" {
				die(v.Pos(), "bad character literal %s", v.Value)
			}
			return int64(r), true
		}
	}
	return 0, false
}

func (e *env) isVar(x ast.Expr, t typ) (string, bool) {
	id, ok := unparen(x).(*ast.Ident)
	if !ok {
		return "", false
	}
	vt, ok := e.vars[id.Name]
	return id.Name, ok && vt == t
}

// indexed: the Coq name and kind of the thing an index or slice expression is applied to
func (e *env) indexed(x ast.Expr) string {
	id, ok := unparen(x).(*ast.Ident)
	if !ok {
		die(x.Pos(), "index or slice expression on something that is not a name")
	}
	if t, ok := e.vars[id.Name]; ok {
		if t != tBytes {
			die(x.Pos(), "%s is not a []byte or string", id.Name)
		}
		return id.Name
	}
	if id.Name == hexName {
		return coqHex
	}
	die(x.Pos(), "index or slice expression on %s, which is neither a parameter nor %s", id.Name, hexName)
	return ""
}

// byteExpr: a Coq term of type byte
func (e *env) byteExpr(x ast.Expr) (string, string) {
	x = unparen(x)
	if n, ok := constValue(x); ok {
		if n < 0 || n > 255 {
			die(x.Pos(), "constant %d does not fit a byte", n)
		}
		return fmt.Sprintf("x%02x", n), ""
	}
	switch v := x.(type) {
	case *ast.Ident:
		if n, ok := e.isVar(v, tByte); ok {
			return n, ""
		}
		die(v.Pos(), "%s is not a byte local", v.Name)
	case *ast.IndexExpr:
		arr := e.indexed(v.X)
		i, t, g := e.numExpr(v.Index)
		if t == tBool {
			die(v.Pos(), "bool as index")
		}
		g = conj(g, fmt.Sprintf("in_idx %s (len %s)", atom(i), arr))
		return fmt.Sprintf("at_ %s %s", arr, atom(i)), g
	}
	die(x.Pos(), "unsupported byte expression %T", x)
	return "", ""
}

// numExpr: a Coq term of type Z, the Go type of the expression, the guard
func (e *env) numExpr(x ast.Expr) (string, typ, string) {
	x = unparen(x)
	if n, ok := constValue(x); ok {
		return zlit(n), tConst, ""
	}
	switch v := x.(type) {
	case *ast.Ident:
		if scanConsts[v.Name] {
			if _, shadow := e.vars[v.Name]; shadow {
				die(v.Pos(), "%s is shadowed", v.Name)
			}
			return v.Name, tConst, ""
		}
		t, ok := e.vars[v.Name]
		if !ok {
			die(v.Pos(), "%s is not an integer local or a scan code", v.Name)
		}
		switch t {
		case tByte:
			return "bz " + v.Name, tByte, ""
		case tInt:
			return v.Name, tInt, ""
		}
		die(v.Pos(), "%s is a %s where an integer is expected", v.Name, t)
	case *ast.IndexExpr:
		b, g := e.byteExpr(v)
		return "bz (" + b + ")", tByte, g
	case *ast.CallExpr:
		id, ok := v.Fun.(*ast.Ident)
		if !ok || id.Name != "len" || len(v.Args) != 1 || v.Ellipsis != token.NoPos {
			die(v.Pos(), "unsupported call in an integer expression (only len)")
		}
		if _, shadow := e.vars["len"]; shadow {
			die(v.Pos(), "len is shadowed")
		}
		n, ok := e.isVar(v.Args[0], tBytes)
		if !ok {
			die(v.Pos(), "len of something other than a []byte or string parameter")
		}
		return "len " + n, tInt, ""
	case *ast.BinaryExpr:
		a, ta, ga := e.numExpr(v.X)
		b, tb, gb := e.numExpr(v.Y)
		g := conj(ga, gb)
		switch v.Op {
		case token.ADD, token.SUB:
			if (ta != tInt && ta != tConst) || (tb != tInt && tb != tConst) || (ta == tConst && tb == tConst) {
				die(v.Pos(), "%s on %s and %s (only on ints: the wrap-around of the narrow types is not modelled)", v.Op, ta, tb)
			}
			op := "+"
			if v.Op == token.SUB {
				op = "-"
			}
			return fmt.Sprintf("%s %s %s", atom(a), op, atom(b)), tInt, g
		case token.SHR:
			n, ok := constValue(v.Y)
			if !ok || n < 0 || n > 63 || ta == tConst {
				die(v.Pos(), "unsupported shift (only <variable expression> >> <constant 0..63>)")
			}
			return fmt.Sprintf("Z.shiftr %s %s", atom(a), atom(b)), ta, g
		case token.AND, token.AND_NOT:
			t := ta
			switch {
			case ta == tConst && tb == tConst:
				die(v.Pos(), "%s of two constants", v.Op)
			case ta == tConst:
				t = tb
			case tb == tConst || ta == tb:
			default:
				die(v.Pos(), "%s on %s and %s", v.Op, ta, tb)
			}
			for _, c := range []ast.Expr{v.X, v.Y} {
				if n, ok := constValue(c); ok && (n < 0 || (t == tByte && n > 255)) {
					die(c.Pos(), "constant %d as operand of %s on a %s", n, v.Op, t)
				}
			}
			if v.Op == token.AND_NOT {
				if tb != tConst {
					die(v.Pos(), "&^ with a right operand that is not a constant")
				}
				return fmt.Sprintf("Z.ldiff %s %s", atom(a), atom(b)), t, g
			}
			return fmt.Sprintf("Z.land %s %s", atom(a), atom(b)), t, g
		}
		die(v.Pos(), "unsupported integer operator %s", v.Op)
	}
	die(x.Pos(), "unsupported integer expression %T", x)
	return "", tInt, ""
}

// strExpr: a string literal, a string parameter, or a slice of a []byte parameter
func (e *env) strExpr(x ast.Expr) (string, string) {
	x = unparen(x)
	switch v := x.(type) {
	case *ast.BasicLit:
		if v.Kind != token.STRING {
			die(v.Pos(), "unsupported literal %s where a string is expected", v.Value)
		}
		s, err := strconv.Unquote(v.Value)
		if err != nil {
			die(v.Pos(), "bad string literal")
		}
		return byteList(s), ""
	case *ast.Ident:
		if n, ok := e.isVar(v, tBytes); ok {
			return n, ""
		}
		die(v.Pos(), "%s is not a string or []byte parameter", v.Name)
	case *ast.SliceExpr:
		if v.Slice3 {
			die(v.Pos(), "three-index slice expression")
		}
		arr := e.indexed(v.X)
		a, b, g := "0", "len "+arr, ""
		if v.Low != nil {
			var t typ
			var ga string
			a, t, ga = e.numExpr(v.Low)
			if t != tInt && t != tConst {
				die(v.Low.Pos(), "slice bound of type %s", t)
			}
			g = conj(g, ga)
		}
		if v.High != nil {
			var t typ
			var gb string
			b, t, gb = e.numExpr(v.High)
			if t != tInt && t != tConst {
				die(v.High.Pos(), "slice bound of type %s", t)
			}
			g = conj(g, gb)
		}
		g = conj(g, fmt.Sprintf("in_slice %s %s (len %s)", atom(a), atom(b), arr))
		return fmt.Sprintf("slice %s %s %s", arr, atom(a), atom(b)), g
	}
	die(x.Pos(), "unsupported string expression %T", x)
	return "", ""
}

func comparable(ta, tb typ) bool {
	return ta == tb || ta == tConst || tb == tConst
}

// boolExpr: a Coq term of type bool and the guard (short-circuit aware)
func (e *env) boolExpr(x ast.Expr) (string, string) {
	switch v := x.(type) {
	case *ast.ParenExpr:
		return e.boolExpr(v.X)
	case *ast.Ident:
		if v.Name == "true" || v.Name == "false" {
			if _, shadow := e.vars[v.Name]; shadow {
				die(v.Pos(), "%s is shadowed", v.Name)
			}
			return v.Name, ""
		}
		if n, ok := e.isVar(v, tBool); ok {
			return n, ""
		}
		die(v.Pos(), "%s is not a bool", v.Name)
	case *ast.UnaryExpr:
		if v.Op != token.NOT {
			die(v.Pos(), "unsupported unary operator %s in a condition", v.Op)
		}
		c, g := e.boolExpr(v.X)
		return "negb " + atom(c), g
	case *ast.BinaryExpr:
		switch v.Op {
		case token.LAND, token.LOR:
			a, ga := e.boolExpr(v.X)
			b, gb := e.boolExpr(v.Y)
			op := "&&"
			if v.Op == token.LOR {
				op = "||"
			}
			g := ga
			if gb != "" {
				// the right operand is evaluated only if the left one is true (&&) resp. false (||)
				var r string
				if v.Op == token.LAND {
					r = fmt.Sprintf("(negb %s || %s)", atom(a), atom(gb))
				} else {
					r = fmt.Sprintf("(%s || %s)", atom(a), atom(gb))
				}
				g = conj(ga, r)
			}
			return fmt.Sprintf("%s %s %s", atom(a), op, atom(b)), g
		case token.LSS, token.LEQ, token.GTR, token.GEQ, token.EQL, token.NEQ:
			a, ta, ga := e.numExpr(v.X)
			b, tb, gb := e.numExpr(v.Y)
			if !comparable(ta, tb) {
				die(v.Pos(), "comparison of %s and %s", ta, tb)
			}
			g := conj(ga, gb)
			a, b = atom(a), atom(b)
			switch v.Op {
			case token.LSS:
				return fmt.Sprintf("%s <? %s", a, b), g
			case token.LEQ:
				return fmt.Sprintf("%s <=? %s", a, b), g
			case token.GTR:
				return fmt.Sprintf("%s <? %s", b, a), g
			case token.GEQ:
				return fmt.Sprintf("%s <=? %s", b, a), g
			case token.EQL:
				return fmt.Sprintf("%s =? %s", a, b), g
			case token.NEQ:
				return fmt.Sprintf("negb (%s =? %s)", a, b), g
			}
		}
		die(v.Pos(), "unsupported operator %s in a condition", v.Op)
	}
	die(x.Pos(), "unsupported condition %T", x)
	return "", ""
}

func (e *env) guard(g string, d int) string {
	if g == "" {
		return ""
	}
	return fmt.Sprintf("%sif negb (%s) then %s OutOfRange else\n", ind(d), g, e.failC)
}
