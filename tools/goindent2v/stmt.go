package main

import (
	"fmt"
	"go/ast"
	"go/token"
	"strings"
)

// ---------------------------------------------------------------- statements
//
// A statement list is translated in continuation style: block(l) is a Coq expression of the result
// type of the context; what follows an if or a switch is repeated in every branch (break, continue
// and the failing guards end a branch early).

type item struct {
	s      ast.Stmt
	nested bool // inside the body of an if or a switch
	inSw   bool // inside a switch (break would leave the switch: refused)
}

func wrap(l []ast.Stmt, nested, inSw bool) []item {
	r := make([]item, len(l))
	for i, s := range l {
		r[i] = item{s: s, nested: nested, inSw: inSw}
	}
	return r
}

func cat(a []item, b ...[]item) []item {
	r := append([]item{}, a...)
	for _, x := range b {
		r = append(r, x...)
	}
	return r
}

func (e *env) block(l []item, d int) string {
	if len(l) == 0 {
		return e.next(e, d)
	}
	it, rest := l[0], l[1:]
	switch x := it.s.(type) {
	case *ast.BranchStmt:
		if x.Label != nil {
			die(x.Pos(), "label")
		}
		switch x.Tok {
		case token.CONTINUE:
			if !e.inBody {
				die(x.Pos(), "continue outside a loop body")
			}
			return e.next(e, d)
		case token.BREAK:
			if it.inSw {
				die(x.Pos(), "break inside a switch (it would leave the switch, not the loop): not modelled")
			}
			if e.brk == nil {
				die(x.Pos(), "break outside a loop body")
			}
			return e.brk(e, d)
		}
		die(x.Pos(), "unsupported branch statement %s", x.Tok)
	case *ast.ReturnStmt:
		if e.ret == nil {
			die(x.Pos(), "return inside a loop or in a position that is not modelled")
		}
		return e.retStmt(x, d)
	case *ast.IfStmt:
		return e.ifStmt(x, it, rest, d)
	case *ast.SwitchStmt:
		return e.switchStmt(x, rest, d)
	case *ast.IncDecStmt:
		return e.incDec(x, rest, d)
	case *ast.AssignStmt:
		return e.assign(x, it.nested, rest, d)
	case *ast.ExprStmt:
		return e.call(x, rest, d)
	case *ast.DeferStmt:
		if !e.preLoop || it.nested {
			die(x.Pos(), "defer is understood only before the loop")
		}
		c := x.Call
		id, ok := c.Fun.(*ast.Ident)
		if !ok || id.Name != "freeScanner" || len(c.Args) != 1 {
			die(x.Pos(), "unsupported defer (only defer freeScanner(scan))")
		}
		if _, ok := e.isVar(c.Args[0], tScanner); !ok {
			die(x.Pos(), "freeScanner of something that is not the scanner local")
		}
		return fmt.Sprintf("%s(* defer freeScanner: runs after the result is computed, not modelled *)\n%s", ind(d), e.block(rest, d))
	}
	die(it.s.Pos(), "unsupported statement %T", it.s)
	return ""
}

func (e *env) retStmt(x *ast.ReturnStmt, d int) string {
	switch len(x.Results) {
	case 0:
		return e.ret(e, d, "")
	case 1:
		r := unparen(x.Results[0])
		if id, ok := r.(*ast.Ident); ok && id.Name == "nil" {
			if _, shadow := e.vars["nil"]; shadow {
				die(x.Pos(), "nil is shadowed")
			}
			return e.ret(e, d, "nil")
		}
		if se, ok := r.(*ast.SelectorExpr); ok && se.Sel.Name == "err" {
			if n, ok := e.isVar(se.X, tScanner); ok {
				return e.ret(e, d, "err "+n)
			}
		}
	}
	die(x.Pos(), "unsupported return (only return, return nil, return scan.err)")
	return ""
}

// scannerCall: x is scan.<method>(args) on the scanner local
func (e *env) scannerCall(x ast.Expr, method string) (*ast.CallExpr, string) {
	c, ok := unparen(x).(*ast.CallExpr)
	if !ok || c.Ellipsis != token.NoPos {
		return nil, ""
	}
	se, ok := c.Fun.(*ast.SelectorExpr)
	if !ok || se.Sel.Name != method {
		return nil, ""
	}
	n, ok := e.isVar(se.X, tScanner)
	if !ok {
		return nil, ""
	}
	return c, n
}

func (e *env) ifStmt(x *ast.IfStmt, it item, rest []item, d int) string {
	if x.Init != nil {
		die(x.Init.Pos(), "if with init statement")
	}
	var pre, cond string
	// if scan.eof() == scanError: the call changes the scanner
	if be, ok := unparen(x.Cond).(*ast.BinaryExpr); ok && (be.Op == token.EQL || be.Op == token.NEQ) {
		if c, sc := e.scannerCall(be.X, "eof"); c != nil {
			if len(c.Args) != 0 {
				die(c.Pos(), "eof with arguments")
			}
			if e.inBody {
				die(c.Pos(), "scan.eof() inside the loop")
			}
			rhs, t, g := e.numExpr(be.Y)
			if t != tConst || g != "" {
				die(be.Y.Pos(), "scan.eof() is compared with something that is not a constant")
			}
			pre = fmt.Sprintf("%slet '(%s, eofv) := scanner_eof %s in\n", ind(d), sc, sc)
			cond = fmt.Sprintf("eofv =? %s", rhs)
			if be.Op == token.NEQ {
				cond = "negb (" + cond + ")"
			}
		}
	}
	if cond == "" {
		var g string
		cond, g = e.boolExpr(x.Cond)
		pre = e.guard(g, d)
	}
	thenL := cat(wrap(x.Body.List, true, it.inSw), rest)
	var elseL []item
	switch el := x.Else.(type) {
	case nil:
		elseL = rest
	case *ast.BlockStmt:
		elseL = cat(wrap(el.List, true, it.inSw), rest)
	case *ast.IfStmt:
		elseL = cat([]item{{s: el, nested: true, inSw: it.inSw}}, rest)
	default:
		die(x.Else.Pos(), "unsupported else branch %T", x.Else)
	}
	return fmt.Sprintf("%s%sif %s then\n%s\n%selse\n%s", pre, ind(d), cond, e.clone().block(thenL, d+1), ind(d), e.clone().block(elseL, d+1))
}

func (e *env) switchStmt(x *ast.SwitchStmt, rest []item, d int) string {
	if x.Init != nil {
		die(x.Init.Pos(), "switch with init statement")
	}
	if x.Tag == nil {
		die(x.Pos(), "switch without tag")
	}
	tag, tt, g := e.numExpr(x.Tag)
	pre := e.guard(g, d)
	type arm struct {
		cond string
		body []ast.Stmt
	}
	var arms []arm
	var def *ast.CaseClause
	seen := map[int64]bool{}
	for _, c := range x.Body.List {
		cc := c.(*ast.CaseClause)
		for _, s := range cc.Body {
			if br, ok := s.(*ast.BranchStmt); ok && br.Tok == token.FALLTHROUGH {
				die(br.Pos(), "fallthrough")
			}
		}
		if cc.List == nil {
			if def != nil {
				die(cc.Pos(), "second default")
			}
			def = cc
			continue
		}
		var cs []string
		for _, v := range cc.List {
			n, ok := constValue(v)
			if !ok {
				die(v.Pos(), "case value is not a character or integer literal")
			}
			if tt == tByte && (n < 0 || n > 255) {
				die(v.Pos(), "case value %d does not fit a byte", n)
			}
			if seen[n] {
				die(v.Pos(), "duplicate case value %d", n)
			}
			seen[n] = true
			cs = append(cs, fmt.Sprintf("(%s =? %s)", atom(tag), zlit(n)))
		}
		arms = append(arms, arm{strings.Join(cs, " || "), cc.Body})
	}
	var defBody []ast.Stmt
	if def != nil {
		defBody = def.Body
	}
	if len(arms) == 0 {
		return pre + e.clone().block(cat(wrap(defBody, true, true), rest), d)
	}
	// an if chain in source order; the default (wherever it stands) is the last else
	var b strings.Builder
	b.WriteString(pre)
	for i, a := range arms {
		kw := "if"
		if i > 0 {
			kw = "else if"
		}
		fmt.Fprintf(&b, "%s%s %s then\n%s\n", ind(d), kw, a.cond, e.clone().block(cat(wrap(a.body, true, true), rest), d+1))
	}
	fmt.Fprintf(&b, "%selse\n%s", ind(d), e.clone().block(cat(wrap(defBody, true, true), rest), d+1))
	return b.String()
}

func (e *env) assignable(id *ast.Ident, t typ) {
	vt, ok := e.vars[id.Name]
	if !ok || vt != t {
		die(id.Pos(), "%s is not a local of type %s", id.Name, t)
	}
	if e.frozen[id.Name] {
		die(id.Pos(), "assignment to %s (a parameter or a variable of the loop header): not modelled", id.Name)
	}
}

func (e *env) incDec(x *ast.IncDecStmt, rest []item, d int) string {
	if se, ok := x.X.(*ast.SelectorExpr); ok {
		// scan.bytes++
		if _, isScan := e.isVar(se.X, tScanner); isScan && se.Sel.Name == "bytes" && x.Tok == token.INC {
			return fmt.Sprintf("%s(* %s.bytes++ : the field bytes is not modelled by ScannerGen *)\n%s", ind(d), printNode(se.X), e.block(rest, d))
		}
		die(x.Pos(), "unsupported ++/-- on a field")
	}
	id, ok := x.X.(*ast.Ident)
	if !ok {
		die(x.Pos(), "unsupported statement (only x++ / x-- on an int local)")
	}
	e.assignable(id, tInt)
	op := "+"
	if x.Tok == token.DEC {
		op = "-"
	}
	return fmt.Sprintf("%slet %s := %s %s 1 in\n%s", ind(d), id.Name, id.Name, op, e.block(rest, d))
}

func (e *env) assign(x *ast.AssignStmt, nested bool, rest []item, d int) string {
	if len(x.Lhs) != 1 || len(x.Rhs) != 1 {
		die(x.Pos(), "unsupported assignment with %d left and %d right operands", len(x.Lhs), len(x.Rhs))
	}
	id, ok := x.Lhs[0].(*ast.Ident)
	if !ok {
		die(x.Pos(), "unsupported left-hand side %T (assignment to an element or a field is not modelled)", x.Lhs[0])
	}
	rhs := unparen(x.Rhs[0])
	if x.Tok == token.DEFINE {
		if nested {
			die(x.Pos(), "declaration (:=) inside an if or a switch")
		}
		// v := scan.step(scan, c)
		if c, sc := e.scannerCall(rhs, "step"); c != nil {
			if len(c.Args) != 2 {
				die(c.Pos(), "step with %d arguments", len(c.Args))
			}
			if a0, ok := e.isVar(c.Args[0], tScanner); !ok || a0 != sc {
				die(c.Pos(), "the first argument of %s.step is not %s", sc, sc)
			}
			b, g := e.byteExpr(c.Args[1])
			pre := e.guard(g, d)
			e.declare(id, tInt)
			return fmt.Sprintf("%s%slet '(%s, %s) := step_fn (step %s) %s %s in\n%s", pre, ind(d), sc, id.Name, sc, sc, atom(b), e.block(rest, d))
		}
		if !e.preLoop {
			die(x.Pos(), "inside or after the loop only `v := scan.step(scan, c)` may be declared")
		}
		// origLen := dst.Len(), scan := newScanner(), x := <int>, x := true/false
		if c, ok := rhs.(*ast.CallExpr); ok {
			if fid, ok := c.Fun.(*ast.Ident); ok && fid.Name == "newScanner" && len(c.Args) == 0 {
				e.declare(id, tScanner)
				return fmt.Sprintf("%slet %s := scanner_reset pooled in\n%s", ind(d), id.Name, e.block(rest, d))
			}
			if se, ok := c.Fun.(*ast.SelectorExpr); ok && se.Sel.Name == "Len" && len(c.Args) == 0 {
				if b, ok := se.X.(*ast.Ident); ok && b.Name == e.buf {
					e.declare(id, tInt)
					return fmt.Sprintf("%slet %s := len out in\n%s", ind(d), id.Name, e.block(rest, d))
				}
			}
			die(x.Pos(), "unsupported call on the right of :=")
		}
		if bid, ok := rhs.(*ast.Ident); ok && (bid.Name == "true" || bid.Name == "false") {
			e.declare(id, tBool)
			return fmt.Sprintf("%slet %s := %s in\n%s", ind(d), id.Name, bid.Name, e.block(rest, d))
		}
		val, vt, g := e.numExpr(rhs)
		if vt != tInt && vt != tConst {
			die(x.Pos(), "the declared local is a %s: only int, bool and the scanner are understood", vt)
		}
		pre := e.guard(g, d)
		e.declare(id, tInt)
		return fmt.Sprintf("%s%slet %s := %s in\n%s", pre, ind(d), id.Name, val, e.block(rest, d))
	}
	vt, ok := e.vars[id.Name]
	if !ok {
		die(x.Pos(), "assignment to %s, which is not a local", id.Name)
	}
	switch x.Tok {
	case token.ASSIGN:
		if vt == tBool {
			e.assignable(id, tBool)
			c, g := e.boolExpr(rhs)
			return fmt.Sprintf("%s%slet %s := %s in\n%s", e.guard(g, d), ind(d), id.Name, c, e.block(rest, d))
		}
		fallthrough
	case token.ADD_ASSIGN, token.SUB_ASSIGN:
		e.assignable(id, tInt)
		val, t, g := e.numExpr(rhs)
		if t != tInt && t != tConst {
			die(x.Pos(), "the assigned value is a %s, not an int", t)
		}
		switch x.Tok {
		case token.ADD_ASSIGN:
			val = fmt.Sprintf("%s + %s", id.Name, atom(val))
		case token.SUB_ASSIGN:
			val = fmt.Sprintf("%s - %s", id.Name, atom(val))
		}
		return fmt.Sprintf("%s%slet %s := %s in\n%s", e.guard(g, d), ind(d), id.Name, val, e.block(rest, d))
	}
	die(x.Pos(), "unsupported assignment operator %s", x.Tok)
	return ""
}

// call: a method of the buffer, or one of the functions already translated
func (e *env) call(x *ast.ExprStmt, rest []item, d int) string {
	c, ok := x.X.(*ast.CallExpr)
	if !ok || c.Ellipsis != token.NoPos {
		die(x.Pos(), "unsupported expression statement")
	}
	if fid, ok := c.Fun.(*ast.Ident); ok {
		f, ok := translated[fid.Name]
		if !ok {
			die(x.Pos(), "call of %s, which is not a function translated before this point", fid.Name)
		}
		if _, shadow := e.vars[fid.Name]; shadow {
			die(x.Pos(), "%s is shadowed", fid.Name)
		}
		if f.hasErr {
			die(x.Pos(), "call of %s, whose error result would be dropped", fid.Name)
		}
		if f.usesPool {
			die(x.Pos(), "call of %s, which takes a scanner from the pool", fid.Name)
		}
		if len(c.Args) != len(f.params)+1 {
			die(x.Pos(), "%s called with %d arguments", fid.Name, len(c.Args))
		}
		if b, ok := c.Args[0].(*ast.Ident); !ok || b.Name != e.buf {
			die(x.Pos(), "the first argument of %s is not the buffer %s", fid.Name, e.buf)
		}
		var args []string
		g := ""
		for i, p := range f.params {
			a := c.Args[i+1]
			var s, ga string
			switch p.t {
			case tBytes:
				s, ga = e.strExpr(a)
			case tInt:
				var t typ
				s, t, ga = e.numExpr(a)
				if t != tInt && t != tConst {
					die(a.Pos(), "argument of type %s for an int parameter", t)
				}
			case tBool:
				s, ga = e.boolExpr(a)
			default:
				die(a.Pos(), "unsupported parameter type %s", p.t)
			}
			g = conj(g, ga)
			args = append(args, atom(s))
		}
		return fmt.Sprintf("%s%smatch %s_run %s out with\n%s| VFail f => %s f\n%s| VOk out =>\n%s\n%send",
			e.guard(g, d), ind(d), f.p, strings.Join(args, " "), ind(d), e.failC, ind(d), e.block(rest, d+1), ind(d))
	}
	se, ok := c.Fun.(*ast.SelectorExpr)
	if !ok {
		die(x.Pos(), "unsupported call")
	}
	id, ok := se.X.(*ast.Ident)
	if !ok || id.Name != e.buf {
		die(x.Pos(), "call of a method of something other than the buffer %s", e.buf)
	}
	if len(c.Args) != 1 {
		die(c.Pos(), "%s with %d arguments", se.Sel.Name, len(c.Args))
	}
	switch se.Sel.Name {
	case "WriteByte":
		b, g := e.byteExpr(c.Args[0])
		return fmt.Sprintf("%s%slet out := out ++ [%s] in\n%s", e.guard(g, d), ind(d), b, e.block(rest, d))
	case "WriteString", "Write":
		s, g := e.strExpr(c.Args[0])
		return fmt.Sprintf("%s%slet out := out ++ %s in\n%s", e.guard(g, d), ind(d), s, e.block(rest, d))
	case "Truncate":
		n, t, g := e.numExpr(c.Args[0])
		if t != tInt && t != tConst {
			die(c.Pos(), "Truncate of a %s", t)
		}
		g = conj(g, fmt.Sprintf("in_slice 0 %s (len out)", atom(n)))
		return fmt.Sprintf("%s%slet out := firstn (Z.to_nat %s) out in\n%s", e.guard(g, d), ind(d), atom(n), e.block(rest, d))
	}
	die(x.Pos(), "unsupported method %s.%s (only WriteByte, WriteString, Write, Truncate)", e.buf, se.Sel.Name)
	return ""
}
