module goindent2v

go 1.18
