package main

import (
	"fmt"
	"go/ast"
	"go/token"
	"strings"
)

type fn struct {
	name, p  string
	params   []variable // without the buffer
	slices   map[string]bool
	hasErr   bool
	usesPool bool
}

var translated = map[string]*fn{}

func isBufferType(x ast.Expr) bool {
	st, ok := x.(*ast.StarExpr)
	if !ok {
		return false
	}
	se, ok := st.X.(*ast.SelectorExpr)
	if !ok || se.Sel.Name != "Buffer" {
		return false
	}
	id, ok := se.X.(*ast.Ident)
	return ok && id.Name == "bytes"
}

func decls(l []variable) string {
	p := make([]string, len(l))
	for i, v := range l {
		p[i] = fmt.Sprintf("(%s : %s)", v.name, v.t.coq())
	}
	return strings.Join(p, " ")
}

func names(l []variable) string {
	p := make([]string, len(l))
	for i, v := range l {
		p[i] = v.name
	}
	return strings.Join(p, " ")
}

// join concatenates the non-empty pieces with single spaces
func join(p ...string) string {
	var r []string
	for _, s := range p {
		if s != "" {
			r = append(r, s)
		}
	}
	return strings.Join(r, " ")
}

func genFunction(fd *ast.FuncDecl) string {
	f := &fn{name: fd.Name.Name, p: strings.ToLower(fd.Name.Name), slices: map[string]bool{}}
	if fd.Type.TypeParams != nil {
		die(fd.Pos(), "type parameters")
	}
	if fd.Body == nil {
		die(fd.Pos(), "no body")
	}
	base := &env{vars: map[string]typ{}, frozen: map[string]bool{}}
	first := true
	for _, p := range fd.Type.Params.List {
		if len(p.Names) == 0 {
			die(p.Pos(), "unnamed parameter")
		}
		for _, n := range p.Names {
			if first {
				first = false
				if !isBufferType(p.Type) {
					die(p.Pos(), "the first parameter of %s is not a *bytes.Buffer", f.name)
				}
				checkName(n)
				base.buf = n.Name
				continue
			}
			var t typ
			switch tt := p.Type.(type) {
			case *ast.Ident:
				switch tt.Name {
				case "string":
					t = tBytes
				case "bool":
					t = tBool
				case "int":
					t = tInt
				default:
					die(p.Pos(), "unsupported parameter type %s", tt.Name)
				}
			case *ast.ArrayType:
				if id, ok := tt.Elt.(*ast.Ident); !ok || tt.Len != nil || id.Name != "byte" {
					die(p.Pos(), "unsupported parameter type")
				}
				t = tBytes
				f.slices[n.Name] = true
			default:
				die(p.Pos(), "unsupported parameter type %T", p.Type)
			}
			base.declare(n, t)
			base.frozen[n.Name] = true
			f.params = append(f.params, variable{n.Name, t})
		}
	}
	if base.buf == "" {
		die(fd.Pos(), "%s has no parameters", f.name)
	}
	if r := fd.Type.Results; r != nil && len(r.List) != 0 {
		id, ok := r.List[0].Type.(*ast.Ident)
		if len(r.List) != 1 || len(r.List[0].Names) != 0 || !ok || id.Name != "error" {
			die(r.Pos(), "the result of %s is not a single unnamed error", f.name)
		}
		f.hasErr = true
	}
	resT, failR, okR := "vres", "VFail", "VOk"
	if f.hasErr {
		resT, failR, okR = "res", "RFail", "ROk"
	}
	base.failC = failR
	// no assignment to an element of a parameter, no append, no address
	ast.Inspect(fd.Body, func(n ast.Node) bool {
		switch v := n.(type) {
		case *ast.AssignStmt:
			for _, l := range v.Lhs {
				if _, ok := l.(*ast.Ident); !ok {
					die(l.Pos(), "assignment to something that is not a plain local")
				}
			}
		case *ast.UnaryExpr:
			if v.Op == token.AND {
				die(v.Pos(), "address operator")
			}
		case *ast.FuncLit, *ast.GoStmt, *ast.LabeledStmt:
			die(n.Pos(), "unsupported construct %T", n)
		}
		return true
	})

	// split the body at the loop
	loopAt := -1
	for i, s := range fd.Body.List {
		switch s.(type) {
		case *ast.ForStmt, *ast.RangeStmt:
			if loopAt >= 0 {
				die(s.Pos(), "second loop")
			}
			loopAt = i
		}
	}
	if loopAt < 0 {
		die(fd.Pos(), "no loop at the top level of the body of %s", f.name)
	}
	pre, loop, post := fd.Body.List[:loopAt], fd.Body.List[loopAt], fd.Body.List[loopAt+1:]

	// the locals declared before the loop, in order, with their types
	var preNames []*ast.Ident
	for _, s := range pre {
		switch x := s.(type) {
		case *ast.ExprStmt, *ast.DeferStmt:
		case *ast.AssignStmt:
			if x.Tok != token.DEFINE || len(x.Lhs) != 1 {
				die(x.Pos(), "before the loop only declarations x := e, buffer writes and the defer are understood")
			}
			preNames = append(preNames, x.Lhs[0].(*ast.Ident))
			if c, ok := unparen(x.Rhs[0]).(*ast.CallExpr); ok {
				if id, ok := c.Fun.(*ast.Ident); ok && id.Name == "newScanner" {
					f.usesPool = true
				}
			}
		default:
			die(s.Pos(), "unsupported statement %T before the loop", s)
		}
	}
	var atLoop *env
	dry := base.clone()
	dry.preLoop = true
	dry.next = func(x *env, d int) string { atLoop = x; return "" }
	dry.block(wrap(pre, false, false), 0)
	// which of them the loop assigns
	var loopBody *ast.BlockStmt
	switch l := loop.(type) {
	case *ast.ForStmt:
		loopBody = l.Body
	case *ast.RangeStmt:
		loopBody = l.Body
	}
	mutated := map[string]bool{}
	ast.Inspect(loopBody, func(n ast.Node) bool {
		switch v := n.(type) {
		case *ast.AssignStmt:
			if v.Tok != token.DEFINE {
				mutated[v.Lhs[0].(*ast.Ident).Name] = true
			}
		case *ast.IncDecStmt:
			if id, ok := v.X.(*ast.Ident); ok {
				mutated[id.Name] = true
			}
		case *ast.SelectorExpr:
			// any use of a method or field of the scanner in the loop makes it part of the state
			if id, ok := v.X.(*ast.Ident); ok && atLoop.vars[id.Name] == tScanner {
				if _, isVar := atLoop.vars[id.Name]; isVar {
					mutated[id.Name] = true
				}
			}
		case *ast.ForStmt, *ast.RangeStmt:
			die(n.Pos(), "nested loop")
		}
		return true
	})
	var consts, state []variable
	for _, id := range preNames {
		v := variable{id.Name, atLoop.vars[id.Name]}
		if mutated[id.Name] {
			state = append(state, v)
		} else {
			consts = append(consts, v)
		}
	}
	for n := range mutated {
		if _, ok := atLoop.vars[n]; !ok {
			continue // a local of the body: block() deals with it
		}
		if base.frozen[n] {
			die(loop.Pos(), "the loop assigns to the parameter %s", n)
		}
	}

	P := f.p
	pD, pA := decls(f.params), names(f.params)
	cD, cA := decls(consts), names(consts)
	sD, sA := decls(state), names(state)
	var b strings.Builder
	fmt.Fprintf(&b, "(* ---------------------------------------------------------------- func %s *)\n\n", f.name)
	fmt.Fprintf(&b, "Inductive %s_b := %s_BFail (f : fail) | %s_BBreak %s | %s_BNext %s.\n", P, P, P, join(sD, "(out : bytes)"), P, join(sD, "(out : bytes)"))
	fmt.Fprintf(&b, "Inductive %s_l := %s_LFail (f : fail) | %s_LDone %s.\n\n", P, P, P, join(sD, "(out : bytes)"))

	// ---- the body
	be := atLoop.clone()
	be.preLoop, be.inBody = false, true
	be.failC = P + "_BFail"
	be.next = func(x *env, d int) string { return ind(d) + join(P+"_BNext", sA, "out") }
	be.brk = func(x *env, d int) string { return ind(d) + join(P+"_BBreak", sA, "out") }
	be.ret = nil
	var hdrD, hdrA, iterDef string
	runLoop := func(x *env, d int) string { return "" }
	post1 := func(d int) string {
		return fmt.Sprintf("%s| %s_LFail f => %s f\n%s| %s => %s\n%send", ind(d), P, failR, ind(d),
			join(P+"_LDone", sA, "out"), join(P+"_post", pA, cA, sA, "out"), ind(d))
	}
	switch l := loop.(type) {
	case *ast.RangeStmt:
		if l.Tok != token.DEFINE {
			die(l.Pos(), "range loop that does not declare its variables")
		}
		srcName, ok := atLoop.isVar(l.X, tBytes)
		if !ok || !f.slices[srcName] {
			die(l.X.Pos(), "range over something that is not a []byte parameter")
		}
		val, ok := l.Value.(*ast.Ident)
		if l.Value == nil || !ok || val.Name == "_" {
			die(l.Pos(), "the range loop must name the element")
		}
		keyName := ""
		if key, ok := l.Key.(*ast.Ident); ok && key.Name != "_" {
			be.declare(key, tInt)
			be.frozen[key.Name] = true
			keyName = key.Name
			hdrD, hdrA = fmt.Sprintf("(%s : Z) ", key.Name), key.Name+" "
		}
		be.declare(val, tByte)
		be.frozen[val.Name] = true
		hdrD += fmt.Sprintf("(%s : byte)", val.Name)
		hdrA += val.Name
		nextI, firstI, iD := "", "", ""
		if keyName != "" {
			nextI, firstI, iD = "("+keyName+" + 1)", "0", "("+keyName+" : Z)"
		}
		iterDef = fmt.Sprintf("(* for %s := range %s *)\nFixpoint %s_iter %s {struct rest} : %s_l :=\n  match rest with\n  | [] => %s\n  | %s :: rest =>\n      match %s with\n      | %s_BFail f => %s_LFail f\n      | %s => %s\n      | %s => %s\n      end\n  end.\n\n",
			strings.ReplaceAll(strings.TrimSpace(hdrA), " ", ", "), srcName,
			P, join(pD, cD, "(rest : bytes)", iD, sD, "(out : bytes)"), P,
			join(P+"_LDone", sA, "out"),
			val.Name,
			join(P+"_body", pA, cA, hdrA, sA, "out"),
			P, P,
			join(P+"_BBreak", sA, "out"), join(P+"_LDone", sA, "out"),
			join(P+"_BNext", sA, "out"), join(P+"_iter", pA, cA, "rest", nextI, sA, "out"))
		runLoop = func(x *env, d int) string {
			return fmt.Sprintf("%smatch %s with\n%s", ind(d), join(P+"_iter", pA, cA, srcName, firstI, sA, "out"), post1(d))
		}
	case *ast.ForStmt:
		init, ok := l.Init.(*ast.AssignStmt)
		if !ok || init.Tok != token.DEFINE || len(init.Lhs) != 1 || len(init.Rhs) != 1 {
			die(l.Pos(), "the loop must start with `i := <int expr>`")
		}
		iv, ok := init.Lhs[0].(*ast.Ident)
		if !ok {
			die(init.Pos(), "left-hand side is not an identifier")
		}
		if mutated[iv.Name] {
			die(l.Body.Pos(), "the body of the loop assigns the loop variable %s", iv.Name)
		}
		ps, ok := l.Post.(*ast.IncDecStmt)
		if !ok || ps.Tok != token.INC {
			die(l.Pos(), "the post statement of the loop is not %s++", iv.Name)
		}
		if id, ok := ps.X.(*ast.Ident); !ok || id.Name != iv.Name {
			die(l.Pos(), "the post statement of the loop is not %s++", iv.Name)
		}
		ie := atLoop.clone()
		initVal, it, ig := ie.numExpr(init.Rhs[0])
		if (it != tInt && it != tConst) || ig != "" {
			die(init.Pos(), "unsupported initial value of the loop variable")
		}
		be.declare(iv, tInt)
		be.frozen[iv.Name] = true
		cond, ok := l.Cond.(*ast.BinaryExpr)
		if !ok || (cond.Op != token.LSS && cond.Op != token.LEQ) {
			die(l.Pos(), "the loop condition is not %s < e or %s <= e", iv.Name, iv.Name)
		}
		if id, ok := unparen(cond.X).(*ast.Ident); !ok || id.Name != iv.Name {
			die(l.Pos(), "the loop condition is not %s < e or %s <= e", iv.Name, iv.Name)
		}
		ce := be.clone()
		condS, cg := ce.boolExpr(cond)
		bound, _, _ := ce.numExpr(cond.Y)
		if cg != "" {
			die(cond.Pos(), "index expression in the loop condition")
		}
		ast.Inspect(cond.Y, func(n ast.Node) bool {
			if id, ok := n.(*ast.Ident); ok && (mutated[id.Name] || id.Name == iv.Name) {
				die(id.Pos(), "the bound of the loop mentions %s, which the loop changes", id.Name)
			}
			return true
		})
		hdrD, hdrA = fmt.Sprintf("(%s : Z)", iv.Name), iv.Name
		iterDef = fmt.Sprintf("(* for %s := ...; %s; %s++ : the condition as written, with fuel *)\nFixpoint %s_iter (fuel : nat) %s : %s_l :=\n  match fuel with\n  | O => %s_LFail OutOfFuel\n  | S fuel =>\n      if %s then\n        match %s with\n        | %s_BFail f => %s_LFail f\n        | %s => %s\n        | %s =>\n            let %s := %s + 1 in\n            %s\n        end\n      else %s\n  end.\n\n",
			iv.Name, printNode(l.Cond), iv.Name,
			P, join(pD, cD, hdrD, sD, "(out : bytes)"), P,
			P,
			condS,
			join(P+"_body", pA, cA, hdrA, sA, "out"),
			P, P,
			join(P+"_BBreak", sA, "out"), join(P+"_LDone", sA, "out"),
			join(P+"_BNext", sA, "out"),
			iv.Name, iv.Name,
			join(P+"_iter fuel", pA, cA, hdrA, sA, "out"),
			join(P+"_LDone", sA, "out"))
		runLoop = func(x *env, d int) string {
			return fmt.Sprintf("%slet %s := %s in\n%smatch %s with\n%s", ind(d), iv.Name, initVal, ind(d),
				join(fmt.Sprintf("%s_iter (Z.to_nat (%s - %s) + 2)", P, atom(bound), iv.Name), pA, cA, hdrA, sA, "out"), post1(d))
		}
	}
	body := be.block(wrap(loopBody.List, false, false), 1)
	fmt.Fprintf(&b, "(* one execution of the body of the loop *)\nDefinition %s_body %s : %s_b :=\n%s.\n\n", P, join(pD, cD, hdrD, sD, "(out : bytes)"), P, body)
	b.WriteString(iterDef)

	// ---- after the loop
	ret := func(x *env, d int, err string) string {
		switch err {
		case "", "nil":
			if (err == "nil") != f.hasErr {
				die(fd.Pos(), "return with or without value does not fit the result type")
			}
			return ind(d) + okR + " out"
		}
		return fmt.Sprintf("%sif %s then RErr out else ROk out", ind(d), err)
	}
	pe := atLoop.clone()
	pe.preLoop = false
	pe.ret = ret
	pe.next = func(x *env, d int) string {
		if f.hasErr {
			die(fd.End(), "the function can end without return")
		}
		return ind(d) + okR + " out"
	}
	fmt.Fprintf(&b, "(* the statements after the loop *)\nDefinition %s_post %s : %s :=\n%s.\n\n", P, join(pD, cD, sD, "(out : bytes)"), resT, pe.block(wrap(post, false, false), 1))

	// ---- the whole function
	re := base.clone()
	re.preLoop = true
	re.next = runLoop
	pool := ""
	if f.usesPool {
		pool = "(pooled : scanner)"
	}
	fmt.Fprintf(&b, "(* the function on a buffer that holds out")
	if f.usesPool {
		fmt.Fprintf(&b, "; pooled: whatever scanner newScanner finds in the pool")
	}
	fmt.Fprintf(&b, " *)\nDefinition %s_run %s : %s :=\n%s.\n\n", P, join(pool, pD, "(out : bytes)"), resT, re.block(wrap(pre, false, false), 1))
	translated[f.name] = f
	return b.String()
}

func sameParams(f *fn, want ...variable) bool {
	if len(f.params) != len(want) {
		return false
	}
	for i := range want {
		if f.params[i].t != want[i].t {
			return false
		}
	}
	return true
}

func entryPoints() string {
	c, i := translated["compact"], translated["Indent"]
	if !sameParams(c, variable{"", tBytes}, variable{"", tBool}) || !c.hasErr || !c.usesPool {
		fatal("compact does not have the signature (dst *bytes.Buffer, src []byte, escape bool) error")
	}
	if !sameParams(i, variable{"", tBytes}, variable{"", tBytes}, variable{"", tBytes}) || !i.hasErr || !i.usesPool {
		fatal("Indent does not have the signature (dst *bytes.Buffer, src []byte, prefix, indent string) error")
	}
	var b strings.Builder
	b.WriteString("(* ---------------------------------------------------------------- entry points *)\n\n")
	fmt.Fprintf(&b, "(* a failure becomes a text that is not JSON *)\nDefinition fail_text (f : fail) : bytes :=\n  match f with\n  | OutOfRange => %s\n  | OutOfFuel => %s\n  end.\n\n",
		byteList("goindent2v: index out of range"), byteList("goindent2v: out of fuel"))
	b.WriteString("(* some scanner in the pool; the results do not depend on it (IndentTie.v) *)\nDefinition pooled0 : scanner := mkScanner St_stateBeginValue false [] false.\n\n")
	b.WriteString("(* what compact appends to an empty buffer; None: it returns an error *)\nDefinition compact_gen (escape : bool) (src : bytes) : option bytes :=\n  match compact_run pooled0 src escape [] with\n  | ROk out => Some out\n  | RErr _ => None\n  | RFail f => Some (fail_text f)\n  end.\n\n")
	b.WriteString("(* what Indent appends to an empty buffer; None: it returns an error *)\nDefinition indent_gen (prefix indent : bytes) (src : bytes) : option bytes :=\n  match indent_run pooled0 src prefix indent [] with\n  | ROk out => Some out\n  | RErr _ => None\n  | RFail f => Some (fail_text f)\n  end.\n")
	return b.String()
}
