#!/usr/bin/env python3
"""showcase.py <cases file> <id> — print one case line with hex fields decoded"""
import sys
def unhex(v):
    try:
        if v.startswith('x'): return bytes.fromhex(v[1:])
    except ValueError: pass
    return None
for l in open(sys.argv[1], errors='replace'):
    parts=l.rstrip('\n').split('\t')
    d=dict(p.split('=',1) for p in parts[1:] if '=' in p)
    if d.get('id')==sys.argv[2]:
        print(parts[0])
        for k,v in d.items():
            b=unhex(v)
            if b is not None: print(f'  {k} = {b!r}')
            else:
                # composite fields status:err:hex
                segs=v.split(':')
                dec=[ (unhex(s) if unhex(s) is not None else s) for s in segs]
                print(f'  {k} = {dec if len(segs)>1 else v}')
