#!/bin/bash
# evaluate seeded mutations against the checks, in a snapshot (vp run --with-repo) or in place
# usage: tools/evalseeds.sh [ids...]   (default: every seeded/* whose property is claimed in MANIFEST.json)
cd "$(dirname "$0")/.."
export VERIF_REPO=${VP_RUN_REPO:-${VERIF_REPO:-/repo}}
echo "repo: $VERIF_REPO"
./check --setup || exit 2
claimed=$(python3 -c "import json;print(' '.join(c['property_id'] for c in json.load(open('MANIFEST.json'))['checks']))")
ids="$@"
[ -z "$ids" ] && ids=$(ls seeded)
for s in $ids; do
  p=${s%%-*}
  case " $claimed " in *" $p "*) python3 tools/seedtool.py eval seeded/$s ;; *) echo "$s skipped (property not claimed yet)";; esac
done
mkdir -p /tmp/seedresults; for s in $ids; do [ -f seeded/$s/result.json ] && cp seeded/$s/result.json /tmp/seedresults/$s.json; done
echo DONE
