module goidx4v

go 1.18
