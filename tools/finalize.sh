#!/bin/bash
# final pass: clean rebuild, every quick check on the clean tree (fresh evidence), every seeded change, regenerate docs
cd "$(dirname "$0")/.."
export GOFLAGS=-mod=mod GOPROXY=off GOSUMDB=off GOTOOLCHAIN=local
git -C /repo status --porcelain | grep -q . && { echo "/repo not clean"; exit 2; }
rm -rf build; (cd coq && make clean >/dev/null 2>&1; rm -f Makefile Makefile.conf .Makefile.d)
python3 tools/mkproject.py
time ./check --setup || exit 2
fail=0
for i in $(seq -w 1 20); do
  ./check C$i --tier quick 2>&1 | grep "^OK\|^VIOLATION\|^KNOWN" || fail=1
done
grep -rn "Admitted\|admit\.\|^Axiom\|^Parameter\|^Conjecture" coq/*.v coq/Properties/*.v coq/gen/*.v && echo "FORBIDDEN DECLARATION FOUND"
if [ "$1" = "--seeds" ]; then
  for s in $(ls seeded); do python3 tools/seedtool.py eval seeded/$s 2>&1 | tail -1; done
fi
python3 tools/mkdesign.py; python3 tools/mkmanifest.py
git status --short | head
