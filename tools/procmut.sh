#!/bin/bash
# process finished round-3 mutation worktrees: confirm, store, evaluate, remove the worktree
export GOFLAGS=-mod=mod GOPROXY=off GOSUMDB=off GOTOOLCHAIN=local
cd /verif
for wt in ${MUTDIR:-/tmp/mut3}/C??; do
  p=$(basename $wt)
  [ -f $wt/MUT/${MUTTAG:-m3}/patch.diff ] && [ -f $wt/MUT/${MUTTAG:-m3}/demo_test.go ] && [ -f $wt/MUT/${MUTTAG:-m3}/meta.json ] || continue
  [ -d seeded/$p-${MUTTAG:-m3} ] && continue
  [ -n "$1" ] && [ "$1" != "$p" ] && continue
  echo "== $p"
  python3 tools/seedtool.py confirm $wt $p ${MUTTAG:-m3} || { echo "$p NOT CONFIRMED"; continue; }
  python3 tools/seedtool.py eval seeded/$p-${MUTTAG:-m3}
  git -C /repo worktree remove --force $wt
done
git -C /repo status --short | head -3
