#!/usr/bin/env python3
"""seedtool — confirm seeded mutations independently and run the checks against them.

  seedtool.py confirm <worktree-with-MUT> <id> <m>   confirm in the scratch worktree (suite passes with the
                                                     change, demo fails with it, demo passes without) and, when all
                                                     three hold, store /verif/seeded/<id>-<m>/
  seedtool.py eval <seeded-dir> [prop ...]           apply patch.diff to /repo, run ./check <prop> (quick) for the
                                                     property it breaks (or the given ones), undo, record result.json
"""
import sys, os, json, subprocess, shutil, re, tempfile, time

V = os.path.dirname(os.path.dirname(os.path.abspath(__file__)))
REPO = os.environ.get('VERIF_REPO', '/repo')
ENV = dict(os.environ, GOFLAGS='-mod=mod', GOPROXY='off', GOSUMDB='off', GOTOOLCHAIN='local')

def sh(cmd, cwd=None, timeout=1800):
    p = subprocess.run(cmd, shell=True, cwd=cwd, env=ENV, stdout=subprocess.PIPE, stderr=subprocess.STDOUT, text=True, errors='replace', timeout=timeout)
    return p.returncode, p.stdout

def run_demo(wt, mdir, pid):
    demo = os.path.join(mdir, 'demo_test.go')
    src = open(demo).read()
    tests = re.findall(r'^func (Test\w+)\(', src, flags=re.M)
    pat = '^(' + '|'.join(tests) + ')$'
    legacy = pid in ('C18', 'C19')
    if legacy:
        d = tempfile.mkdtemp(prefix='seeddemo')
        try:
            for fn in ('patch.go', 'merge.go', 'errors.go'):
                shutil.copy(os.path.join(wt, fn), d)
            shutil.copy(demo, os.path.join(d, 'demo_test.go'))
            open(os.path.join(d, 'go.mod'), 'w').write('module github.com/evanphx/json-patch\n\ngo 1.18\n')
            return sh("go test -vet=off -count=1 -run '%s' ." % pat, cwd=d)
        finally:
            shutil.rmtree(d, ignore_errors=True)
    tgt = os.path.join(wt, 'v5', 'zz_seed_demo_test.go')
    shutil.copy(demo, tgt)
    try:
        race = '-race ' if pid == 'C10' else ''
        return sh("go test %s-vet=off -count=1 -run '%s' ." % (race, pat), cwd=os.path.join(wt, 'v5'))
    finally:
        os.unlink(tgt)

def confirm(wt, pid, m):
    mdir = os.path.join(wt, 'MUT', m)
    sh('git checkout -- . ', cwd=wt)
    res = {}
    rc, out = run_demo(wt, mdir, pid)
    res['demo_passes_without'] = rc == 0
    rc, out = sh('git apply %s' % os.path.join(mdir, 'patch.diff'), cwd=wt)
    if rc != 0:
        print('patch does not apply', out); return 1
    try:
        rc, out = sh('go build ./... && go test -vet=off -count=1 ./...', cwd=os.path.join(wt, 'v5'))
        res['suite_passes_with_mutation'] = rc == 0
        if rc != 0: print(out[-2000:])
        rc, out = run_demo(wt, mdir, pid)
        res['demo_fails_with_mutation'] = rc != 0
        res['demo_output_with_mutation'] = out[-1500:]
    finally:
        sh('git checkout -- .', cwd=wt)
    ok = all(res[k] for k in ('demo_passes_without', 'suite_passes_with_mutation', 'demo_fails_with_mutation'))
    print(pid, m, 'CONFIRMED' if ok else 'REJECTED', {k: v for k, v in res.items() if k != 'demo_output_with_mutation'})
    if ok:
        dst = os.path.join(V, 'seeded', '%s-%s' % (pid, m))
        os.makedirs(dst, exist_ok=True)
        shutil.copy(os.path.join(mdir, 'patch.diff'), dst)
        shutil.copy(os.path.join(mdir, 'demo_test.go'), os.path.join(dst, 'demo_test.go.txt'))
        meta = json.load(open(os.path.join(mdir, 'meta.json')))
        meta2 = dict(property=pid, summary=meta.get('summary'), needs=meta.get('needs'),
                     written_by='independent sub-agent given only the property text and a scratch worktree',
                     confirmed_by_me=dict(res, how='tools/seedtool.py confirm: v5 suite (go build ./... && go test -vet=off -count=1 ./...) with the change; '
                                          'demo test with the change (fails) and on the clean worktree (passes)'
                                          + ('; demo run under -race' if pid == 'C10' else '')
                                          + ('; demo built against the staged root package' if pid in ('C18', 'C19') else '')))
        json.dump(meta2, open(os.path.join(dst, 'meta.json'), 'w'), indent=1)
    return 0 if ok else 1

def evaluate(sdir, props):
    meta = json.load(open(os.path.join(sdir, 'meta.json')))
    props = props or [meta['property']]
    rc, out = sh('git -C %s status --porcelain' % REPO)
    if out.strip():
        print(REPO + ' is not clean'); return 2
    rc, out = sh('git -C %s apply %s' % (REPO, os.path.join(os.path.abspath(sdir), 'patch.diff')))
    if rc != 0:
        print('apply failed', out); return 2
    rp = os.path.join(sdir, 'result.json')
    results = json.load(open(rp)) if os.path.exists(rp) else {}
    try:
        for p in props:
            t0 = time.time()
            seed_used = 1
            rc, out = sh('./check %s --tier quick' % p, cwd=V, timeout=3000)
            if rc == 0:
                # not caught with the default seed: say so, and try two more seeds (the generators are
                # random; which cases a run contains depends on the seed)
                for sd in (2, 3):
                    rc2, out2 = sh('VERIF_SEED=%d ./check %s --tier quick' % (sd, p), cwd=V, timeout=3000)
                    if rc2 == 1:
                        rc, out, seed_used = rc2, out2, sd
                        break
            lines = [l for l in out.splitlines() if l.startswith(('VIOLATION', 'OK ', 'KNOWN-FINDING', 'build error'))]
            detail = ''
            m = re.search(r'replay=(\S+)', out)
            if m and os.path.exists(m.group(1)):
                d = json.load(open(m.group(1)))
                detail = (d.get('verdict') or '; '.join(b['what'] + ': ' + b['detail'][:300] for b in d.get('broken', [])))[:600]
            caught = rc == 1 and any(l.startswith('VIOLATION') for l in lines)
            results[p] = dict(exit=rc, caught=caught, seed=seed_used, lines=lines[:4], detail=detail, wall_s=round(time.time() - t0, 1))
            print(os.path.basename(sdir), p, ('CAUGHT' + ('' if seed_used == 1 else ' (seed %d, missed with seed 1)' % seed_used)) if caught else 'MISSED(exit %d)' % rc, detail[:200])
    finally:
        sh('git -C %s checkout -- .' % REPO)
    json.dump(results, open(os.path.join(sdir, 'result.json'), 'w'), indent=1)
    return 0

if __name__ == '__main__':
    if sys.argv[1] == 'confirm':
        sys.exit(confirm(sys.argv[2], sys.argv[3], sys.argv[4]))
    elif sys.argv[1] == 'eval':
        sys.exit(evaluate(sys.argv[2], sys.argv[3:]))
