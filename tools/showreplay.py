import json,sys
for p in sys.argv[1:]:
    d=json.load(open(p))
    print('==',p,d.get('verdict'),d.get('stream'))
    c=d.get('case',{})
    for k in c:
        if k.endswith('_text') or k in('kind','flags','status','errbits','limit','pos','hist','failidx','prefixbits','res','res2','status2'): print('   ',k,repr(c[k])[:1500])
    print('   oracle:',d.get('oracle_line','')[:400])
