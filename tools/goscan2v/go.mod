module goscan2v

go 1.18
