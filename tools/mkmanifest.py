#!/usr/bin/env python3
"""write MANIFEST.json from the table below (claimed properties = those with coq/Properties/<id>.v)"""
import json, os
V = os.path.dirname(os.path.dirname(os.path.abspath(__file__)))
ALL = ['C%02d' % i for i in range(1, 21)]
TEXT = {
 'C01': "theorem api_apply_sim: for every parsed object/array document and every patch in the token domain the model of patch.go computes exactly the ordered RFC 6902 reference result, with the same first failing operation and a related cause (ApplySim.v; no unproved hypothesis: the codec fact is proved in StrInv.v; side condition copies_fit for copies of values nested beyond the decoder's limit, with the complementary theorem) + differential execution of the model against Apply, judged against Rfc6902.v",
 'C02': "theorems: the model of merge.go computes exactly RFC 7396 merge_patch on the denoted values for every document/patch, API-level spec, output bytes re-parse to that value (ImplMergeFacts.v, OutputFacts.v) + differential execution against MergePatch judged by the reference",
 'C03': "theorems about diff (round trip, {} iff equal, minimality, deletions are null, values verbatim) and about the MODEL of CreateMergePatch: api_create = print(encode_sorted(diff ...)), its decoding round trip, arrays, every rejection case (CreateFacts.v); the Go algorithm getDiff/matchesValue modelled statement by statement and proved equal to diff/jeq on Go maps, never reaching its panic branches (CreateImpl.v) + CreateMergePatch compared with diff and re-applied through the library on every run",
 'C04': "theorems: Apply of the model never panics for every options record, document and decoded patch (Totality.v, v5) and unconditionally in the legacy model (TotalityV4.v, after fix 1a7093a) + every generated/malformed/deep/empty-token input of every stream is executed under recover(), a watchdog and a crash replay",
 'C05': "the simulation theorem is stated on ORDERED, literal-exact values (positions of surviving and new members, number literals); merge results are independent of map iteration order up to value equality (MergeOrder.v) + ordered, literal-exact comparison of Apply/MergePatch output with the ordered reference on every run",
 'C06': "theorems: the model of lazyNode.equal decides structural equality jeq of the decoded values; for ALL texts (repeated member names follow Go-map semantics: jeq of the deduplicated values, EqualDup.v) Equal is reflexive on well-formed texts, symmetric and transitive; malformed input gives false + differential execution of Equal against jeq/den/parse",
 'C07': "theorem compose_law (for all D, P1, P2 compatible), the model of MergeMergePatches computes mm, lookup characterisation, a witness that compatibility is needed + MergeMergePatches compared with mm and the law re-checked through the library on every run",
 'C08': "theorems first_failure / error means no document / test_failed_only_by_test / copy-limit only by copy / cause_rel in the C01 domain / all_succeed, for all states and patches; whole-patch cause classes with EnsurePathExistsOnAdd, AllowMissingPathOnRemove and any copy limit together (EnsureSim.v) + errors.Is/As profile and failing index (by prefix runs) compared with the model on every run",
 'C09': "theorems: every modelled call is a function of its arguments for all histories and pool residues (Pool.v) + facts about package state re-extracted from the Go source (gofacts, discipline_ok by vm_compute) + histories of calls over shared inputs and shared options values with snapshots on every run; partial: writes into caller memory are observed, not proved",
 'C10': "theorems: schedule independence of results under the pool ownership discipline for any number of threads and interleavings (Pool.v) + re-extracted facts + concurrent runs under the race detector; partial: data races are a runtime fact the model cannot exhibit",
 'C11': "theorem C11_accept_iff (DecodePatch accepts exactly the well-formed RFC 6902 patch texts) and accessor theorems about the executable model, for all inputs + exhaustive member-mutation space and random texts (incl. ill-formed UTF-8 in members) compared on every run",
 'C12': "theorems about the accumulator for all states/patches/limits (error only by a copy that exceeds a positive limit, 0 disables, other operations do not count, total stays within the limit on success), the same for the model of the legacy package (V4LimitFacts.v) + limit runs against the model, also with one options value shared across calls, on every run",
 'C13': "theorem allow_equals_stripped: Apply with the option = Apply without it of the patch with exactly the absent-target removes stripped (same failing operation, related cause), for all documents and patches in the domain (AllowEnsureFacts.v) + option-on runs compared with the model on every run",
 'C14': "theorems: ensurePathExists of the model computes the value-level creation function (objects / arrays / padding / '-'), the added value is found at the path, every other location keeps its value, agreement with plain add (AllowEnsureFacts.v); whole patches with the option on simulate the reference that creates missing parents before each add, also followed by arbitrary further operations (EnsureSim.v) + EnsurePathExistsOnAdd runs compared with the model on every run",
 'C15': "theorems: string codec round trips for every scanner-accepted body, no raw < > & U+2028/9 after escaping, outputs of the model re-parse to the intended value, ApplyIndent's output is Indent of Apply's (Codec.v, PrintParse.v, OutputFacts.v), every output is valid UTF-8 given UTF-8 input (Utf8Out.v), passing tests leave the output bytes unchanged for canonically spelled inputs (TestTransparent.v), the string encoder re-translated from encode.go on every run equals the model's quote (goquote2v, QuoteTie.v) over the regenerated escape tables + output well-formedness, escape profile, re-indentation and test transparency judged on every run",
 'C16': "the scanner is re-translated from scanner.go on every run and proved equal to a reference automaton for all states x stacks x bytes; checkValid over it accepts exactly what the RFC 8259 reader Text.parse reads; Compact and Indent accept iff Valid; every entry point rejects ill-formed input (ScannerTie/Correct/Grammar/Parse, ScanFacts) + exhaustive short strings and mutated texts through every public function",
 'C17': "theorems: Compact = print of the parse tree (both escape settings), Indent = pp, parse(print t) = t, string codec round trips, key list in document order, numbers keep their literal (ScanFacts, PrintParse, Codec), the string encoder, the string decoder and the Compact / Indent loops re-translated on every run equal the model (QuoteTie.v, UnquoteTie.v, IndentTie.v) + Compact/Indent/HTMLEscape/Marshal/Unmarshal compared with the model; the encoding/json clause is compared only (partial)",
 'C18': "theorems: the legacy patch engine computes the RFC 6902 reference up to member order, with exactly two documented deviations (replace / copy of an absent member), same first failing operation (V4ApplySim.v); the index arithmetic of the legacy partialArray methods re-translated from patch.go on every run and proved equal to the model (goidx4v, IndexTie4.v) + staged root package compared with the RFC reference on every run",
 'C19': "theorems: the legacy merge functions compute RFC 7396 merge_patch / mm exactly on the denoted values, legacy Equal = structural equality on escape-free texts and is sound everywhere (V4MergeFacts.v, V4EqualFacts.v), with counterexample theorems for the documented limits + staged root package compared with the reference on every run",
 'C20': "theorem: the command model is the fold of the library model over the patch files, no output on any failure (Properties/C20.v) + the built binary run on generated stdin/patch-file lists on every run",
}
PARTIAL = {'C09', 'C10', 'C17', 'C04'}
def main():
    claimed = [p for p in ALL if os.path.exists(os.path.join(V, 'coq', 'Properties', p + '.v'))]
    man = {
     "version": 1,
     "setup_cmd": "./check --setup",
     "hooks": {"guard": "verif",
               "enable": "go build -tags verif -overlay <map of harness/*.go into /repo/v5/cmd/zz_verifharness> (nothing is written into /repo; the legacy harness is a staged module)",
               "baseline_off_cmd": "cd /repo/v5 && GOFLAGS=-mod=mod go test -vet=off -count=1 ./...",
               "source_commits": [], "add_only": True},
     "engines": [
      {"name": "coq-model", "path": "coq/", "serves_properties": ALL,
       "kind_free_text": "Coq 8.16.1 development: executable model of the library, reference semantics (RFC 6902/7396/8259), property theorems (coq/Properties/Cxx.v), scanner and escape tables regenerated from the Go source on every run (tools/goscan2v)"},
      {"name": "correspondence", "path": "check", "serves_properties": ALL,
       "kind_free_text": "Go harness (harness/) runs the real code built from /repo's working tree, OCaml oracle (oracle/, extracted model) judges each case on the property's observables"}],
     "checks": [], "not_applicable": [],
     "notes": "All checks: ./check <id> --tier quick|thorough. A check fails (exit 1) when a case contradicts the property (replay = the case), or when the proof side or the tie no longer checks (replay names what broke; line ends with no-failing-input-found if the search found no input). known_findings.json lists recorded genuine defects."}
    for p in claimed:
        man["checks"].append({
         "property_id": p, "quick_cmd": "./check %s --tier quick" % p, "thorough_cmd": "./check %s --tier thorough" % p,
         "evidence_file": "evidence/%s.json" % p, "replay_cmd_template": "./check --replay {path}", "engine": "coq-model",
         "level_claimed": {"category": "proof", "text": TEXT[p] + (" [partial: see DESIGN.md section 11]" if p in PARTIAL else ""),
                           "design_ref": "DESIGN.md section 6 (%s)" % p},
         "level_note": "trusted: Coq 8.16.1 kernel, extraction (ExtrOcamlBasic only), OCaml oracle driver, Go harness, translators goscan2v/gofacts; a sample of every run is re-evaluated inside Coq (vm_compute) against the extracted model; the hand-written model is tied to the code by the correspondence run only; reference semantics are my reading of the RFCs; unproved parts of the full statement are listed under coverage.open_obligations in the evidence",
         "technique": "machine-checked proof in Coq (Rocq) about an executable model + model/implementation correspondence (differential execution, translated scanner/tables)"})
    for p in ALL:
        if p not in claimed:
            man["not_applicable"].append({"property_id": p, "reason": "not claimed yet: its theorems are still being written (the technique applies; the correspondence streams already run)"})
    json.dump(man, open(os.path.join(V, 'MANIFEST.json'), 'w'), indent=1)
    print('claimed:', ' '.join(claimed))
main()
