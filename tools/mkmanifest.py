#!/usr/bin/env python3
"""write MANIFEST.json from the table below (claimed properties = those with coq/Properties/<id>.v)"""
import json, os
V = os.path.dirname(os.path.dirname(os.path.abspath(__file__)))
ALL = ['C%02d' % i for i in range(1, 21)]
TEXT = {
 'C01': "theorems about the executable model of partialArray/partialDoc and the operation loop (index arithmetic = RFC list operations for every length and canonical token; see Properties/C01.v) + differential execution of the whole model against Apply on generated documents x operation sequences, judged against the RFC 6902 reference semantics (Rfc6902.v)",
 'C02': "theorems: the model of merge.go refines RFC 7396 merge_patch on decoded values for every document/patch (Properties/C02.v) + differential execution against MergePatch judged by the reference",
 'C03': "theorems about diff (round trip through merge_patch, {} iff equal, every mentioned member differs, deletions are null, values verbatim) for all objects of any nesting + CreateMergePatch compared with diff and re-applied through the library on every run",
 'C04': "theorems: the modelled entry points never reach a panicking construct (index arithmetic, key bookkeeping) + every generated/malformed input of every stream is executed under recover() and a watchdog",
 'C05': "theorems on the ordered model (member order and literals are carried by the model's key lists and spelled trees) + ordered, literal-exact comparison of Apply/MergePatch output with the ordered reference on every run",
 'C06': "theorems: the model of lazyNode.equal decides structural equality jeq of the decoded values; jeq is an equivalence + differential execution of Equal against jeq/den/parse",
 'C07': "theorem compose_law (for all D, P1, P2 compatible: merge(D, mm P1 P2) = merge(merge(D,P1),P2)), the lookup characterisation of the combined patch, a witness that compatibility is needed + MergeMergePatches compared with mm and the law re-checked through the library on every run",
 'C08': "theorems first_failure / test_failed_only_by_test / copy-limit only by copy / all_succeed about the operation loop of the model for all states and patches + errors.Is/As profile and failing index (by prefix runs) compared with the model on every run",
 'C09': "theorems: every modelled call is a function of its arguments for all histories and pool residues (Properties/C09.v) + translated facts about package state (gofacts) + histories of calls over shared inputs with snapshots on every run; partial: writes into caller memory are observed, not proved",
 'C10': "theorems: schedule independence of results under the pool ownership discipline for any number of threads (Properties/C10.v) + translated facts + concurrent runs under the race detector; partial: data races are a runtime fact the model cannot exhibit",
 'C11': "theorems in coq/Properties/C11.v about the executable model, for all inputs; the model is tied to /repo on every run by differential execution (harness + extracted oracle)",
 'C12': "theorems about the accumulator for all states/patches/limits (error only by a copy that exceeds a positive limit, 0 disables, other operations do not count, total stays within the limit on success) + limit runs against the model (null counted 0 or 4) on every run",
 'C13': "theorems: the option is consulted by remove only (step function identical for every other operation), successful removes are unchanged + option-on runs compared with the model on every run",
 'C14': "theorems about ensure (Properties/C14.v) + EnsurePathExistsOnAdd runs compared with the model in the stated path domain on every run",
 'C15': "theorems about the printer/escaper (Properties/C15.v) over the regenerated escape tables + output well-formedness, escape profile, re-indentation and test transparency judged on every run",
 'C16': "the scanner is re-translated from scanner.go on every run; theorems about it and the entry-point gates (Properties/C16.v) + exhaustive short strings and mutated texts through Valid/Compact/Indent/Unmarshal and every public function",
 'C17': "theorems about decode/encode on the spelled-tree model (Properties/C17.v) + Compact/Indent/HTMLEscape/Marshal/Unmarshal compared with the model; the encoding/json clause is compared only (partial)",
 'C18': "theorems on the legacy model (shares the v5 index arithmetic) + staged root package compared with the RFC reference up to member order on every run",
 'C19': "theorems on the RFC 7396 laws shared with C02/C03/C07 + staged root package merge/create/mergemerge/equal compared with the reference on every run",
 'C20': "theorem: the command model is the fold of the library model over the patch files (Properties/C20.v) + the built binary run on generated stdin/patch-file lists on every run",
}
PARTIAL = {'C09', 'C10', 'C17', 'C04'}
def main():
    claimed = [p for p in ALL if os.path.exists(os.path.join(V, 'coq', 'Properties', p + '.v'))]
    man = {
     "version": 1,
     "setup_cmd": "./check --setup",
     "hooks": {"guard": "verif",
               "enable": "go build -tags verif -overlay <map of harness/*.go into /repo/v5/cmd/zz_verifharness> (nothing is written into /repo; the legacy harness is a staged module)",
               "baseline_off_cmd": "cd /repo/v5 && GOFLAGS=-mod=mod go test -vet=off -count=1 ./...",
               "source_commits": [], "add_only": True},
     "engines": [
      {"name": "coq-model", "path": "coq/", "serves_properties": ALL,
       "kind_free_text": "Coq 8.16.1 development: executable model of the library, reference semantics (RFC 6902/7396/8259), property theorems (coq/Properties/Cxx.v), scanner and escape tables regenerated from the Go source on every run (tools/goscan2v)"},
      {"name": "correspondence", "path": "check", "serves_properties": ALL,
       "kind_free_text": "Go harness (harness/) runs the real code built from /repo's working tree, OCaml oracle (oracle/, extracted model) judges each case on the property's observables"}],
     "checks": [], "not_applicable": [],
     "notes": "All checks: ./check <id> --tier quick|thorough. A check fails (exit 1) when a case contradicts the property (replay = the case), or when the proof side or the tie no longer checks (replay names what broke; line ends with no-failing-input-found if the search found no input). known_findings.json lists recorded genuine defects."}
    for p in claimed:
        man["checks"].append({
         "property_id": p, "quick_cmd": "./check %s --tier quick" % p, "thorough_cmd": "./check %s --tier thorough" % p,
         "evidence_file": "evidence/%s.json" % p, "replay_cmd_template": "./check --replay {path}", "engine": "coq-model",
         "level_claimed": {"category": "proof", "text": TEXT[p] + (" [partial: see DESIGN.md section 11]" if p in PARTIAL else ""),
                           "design_ref": "DESIGN.md section 6 (%s)" % p},
         "level_note": "trusted: Coq 8.16.1 kernel, extraction (ExtrOcamlBasic only), OCaml oracle driver, Go harness, translator goscan2v; the hand-written model is tied to the code by the correspondence run only; reference semantics are my reading of the RFCs; unproved parts of the full statement are listed under coverage.open_obligations in the evidence",
         "technique": "machine-checked proof in Coq (Rocq) about an executable model + model/implementation correspondence (differential execution, translated scanner/tables)"})
    for p in ALL:
        if p not in claimed:
            man["not_applicable"].append({"property_id": p, "reason": "not claimed yet: its theorems are still being written (the technique applies; the correspondence streams already run)"})
    json.dump(man, open(os.path.join(V, 'MANIFEST.json'), 'w'), indent=1)
    print('claimed:', ' '.join(claimed))
main()
