#!/usr/bin/env python3
"""summ.py <verdict file> — verdict counts per property and first examples of F/D/K"""
import sys,collections
c=collections.Counter(); ex={}
for l in open(sys.argv[1]):
    parts=l.rstrip('\n').split('\t')
    if len(parts)<3: continue
    for pv in parts[2].split(' '):
        if '=' not in pv: continue
        p,v=pv.split('=',1)
        c[(p,v[0])]+=1
        if v[0] in 'FDK' and (p,v) not in ex: ex[(p,v)]=parts[0]
print(dict(sorted(c.items())))
for k,v in list(ex.items())[:int(sys.argv[2]) if len(sys.argv)>2 else 8]: print('   ',k,'id',v)
