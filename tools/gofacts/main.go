// gofacts — extracts from the Go source the syntactic facts about shared state that the
// history/schedule-independence theorems (Properties/C09.v, C10.v) rely on, and writes them as a
// Gallina list (coq/gen/FactsGen.v) on which the decidable discipline (Pool.discipline_ok) is
// evaluated by the kernel on every run.
//
//	usage: gofacts <repo> <outdir>
//
// Facts, per package (v5 = package jsonpatch, v5/internal/json, the legacy root package):
//   - every package-level variable: kind (pool / syncmap / map / other) and whether any function body
//     assigns to it (x = .., x.f = .., x[i] = .., x++, &x taken is not tracked)
//   - every sync.Pool Get in a function: is the Put deferred; is the pooled variable used after an
//     explicit Put in the same block; does it escape (returned, stored to a field or package variable)
//   - every write through a parameter or receiver whose type is one of the caller-visible
//     types ([]byte, Operation, Patch, RawMessage, *RawMessage): p[i] = .., copy(p, ..), append(p[:k], ..)
//   - every go statement
//
// Only go/parser and go/ast from the standard library are used.
package main

import (
	"fmt"
	"go/ast"
	"go/parser"
	"go/token"
	"os"
	"path/filepath"
	"sort"
	"strings"
)

type gvar struct {
	pkg, name, kind string
	written         bool
}
type poolFact struct {
	fn, pool                              string
	deferred, useAfterPut, escapes, noPut bool
}
type pwrite struct{ fn, param, how string }

var gvars []gvar
var pools []poolFact
var pwrites []pwrite
var gostmts []string

// functions that hand out / take back a pooled object (newEncodeState, newScanner / freeScanner)
var ctors = map[string]string{}
var releasers = map[string]string{}

func typeKind(e ast.Expr) string {
	switch t := e.(type) {
	case *ast.SelectorExpr:
		if x, ok := t.X.(*ast.Ident); ok && x.Name == "sync" {
			if t.Sel.Name == "Pool" {
				return "pool"
			}
			if t.Sel.Name == "Map" {
				return "syncmap"
			}
		}
	case *ast.MapType:
		return "map"
	case *ast.CompositeLit:
		return typeKind(t.Type)
	case *ast.CallExpr:
		if id, ok := t.Fun.(*ast.Ident); ok && id.Name == "make" && len(t.Args) > 0 {
			return typeKind(t.Args[0])
		}
	}
	return "other"
}

func callerVisible(e ast.Expr) bool {
	switch t := e.(type) {
	case *ast.ArrayType:
		if id, ok := t.Elt.(*ast.Ident); ok && t.Len == nil && id.Name == "byte" {
			return true
		}
	case *ast.Ident:
		return t.Name == "Operation" || t.Name == "Patch" || t.Name == "RawMessage"
	case *ast.SelectorExpr:
		return t.Sel.Name == "RawMessage"
	case *ast.StarExpr:
		return callerVisible(t.X)
	}
	return false
}

func baseIdent(e ast.Expr) *ast.Ident {
	for {
		switch t := e.(type) {
		case *ast.Ident:
			return t
		case *ast.SelectorExpr:
			e = t.X
		case *ast.IndexExpr:
			e = t.X
		case *ast.SliceExpr:
			e = t.X
		case *ast.StarExpr:
			e = t.X
		case *ast.ParenExpr:
			e = t.X
		default:
			return nil
		}
	}
}

// direct: p[i], p[i:j], *p (no selector in between: a field of a pointer receiver is the
// library's own state, not the caller's)
func directBase(e ast.Expr) *ast.Ident {
	for {
		switch t := e.(type) {
		case *ast.Ident:
			return t
		case *ast.IndexExpr:
			e = t.X
		case *ast.SliceExpr:
			e = t.X
		case *ast.StarExpr:
			e = t.X
		case *ast.ParenExpr:
			e = t.X
		default:
			return nil
		}
	}
}

func usesIdent(n ast.Node, name string) bool {
	found := false
	ast.Inspect(n, func(x ast.Node) bool {
		if id, ok := x.(*ast.Ident); ok && id.Name == name {
			found = true
		}
		return !found
	})
	return found
}

func isPoolCall(e ast.Expr, method string) (string, bool) {
	call, ok := e.(*ast.CallExpr)
	if !ok {
		return "", false
	}
	sel, ok := call.Fun.(*ast.SelectorExpr)
	if !ok || sel.Sel.Name != method {
		return "", false
	}
	if id, ok := sel.X.(*ast.Ident); ok {
		return id.Name, true
	}
	return "", false
}

// acquire: pool.Get() or a call of a constructor function; returns the pool
func acquire(e ast.Expr, poolVars map[string]bool) (string, bool) {
	if ta, ok := e.(*ast.TypeAssertExpr); ok {
		e = ta.X
	}
	if p, ok := isPoolCall(e, "Get"); ok && poolVars[p] {
		return p, true
	}
	if c, ok := e.(*ast.CallExpr); ok {
		if id, ok := c.Fun.(*ast.Ident); ok {
			if p, ok := ctors[id.Name]; ok {
				return p, true
			}
		}
	}
	return "", false
}

// release: pool.Put(x) or a call of a releaser function
func release(c *ast.CallExpr) (string, bool) {
	if p, ok := isPoolCall(c, "Put"); ok {
		return p, true
	}
	if id, ok := c.Fun.(*ast.Ident); ok {
		if p, ok := releasers[id.Name]; ok {
			return p, true
		}
	}
	return "", false
}

func analyseFunc(pkg string, fd *ast.FuncDecl, pkgVars map[string]bool, poolVars map[string]bool) {
	if fd.Body == nil {
		return
	}
	fname := pkg + "." + fd.Name.Name
	if fd.Recv != nil && len(fd.Recv.List) > 0 {
		fname = pkg + "." + exprString(fd.Recv.List[0].Type) + "." + fd.Name.Name
	}
	// caller-visible parameters / receivers
	visible := map[string]bool{}
	addFields := func(fl *ast.FieldList) {
		if fl == nil {
			return
		}
		for _, f := range fl.List {
			if callerVisible(f.Type) {
				for _, n := range f.Names {
					visible[n.Name] = true
				}
			}
		}
	}
	addFields(fd.Recv)
	addFields(fd.Type.Params)
	locals := map[string]bool{} // identifiers re-declared locally shadow package variables
	ast.Inspect(fd.Body, func(n ast.Node) bool {
		switch s := n.(type) {
		case *ast.AssignStmt:
			if s.Tok == token.DEFINE {
				for _, l := range s.Lhs {
					if id, ok := l.(*ast.Ident); ok {
						locals[id.Name] = true
					}
				}
			}
		case *ast.GoStmt:
			gostmts = append(gostmts, fname)
		}
		return true
	})
	markWrite := func(lhs ast.Expr) {
		if b := baseIdent(lhs); b != nil && pkgVars[b.Name] && !locals[b.Name] && !isParam(fd, b.Name) {
			for i := range gvars {
				if gvars[i].pkg == pkg && gvars[i].name == b.Name {
					gvars[i].written = true
				}
			}
		}
		if b := directBase(lhs); b != nil && visible[b.Name] {
			if _, isIdent := lhs.(*ast.Ident); !isIdent { // rebinding the parameter itself is local
				pwrites = append(pwrites, pwrite{fname, b.Name, "store"})
			}
		}
	}
	ast.Inspect(fd.Body, func(n ast.Node) bool {
		switch s := n.(type) {
		case *ast.AssignStmt:
			if s.Tok != token.DEFINE {
				for _, l := range s.Lhs {
					markWrite(l)
				}
			}
			// append(param[:k], ...) may write into the caller's backing array
			for _, r := range s.Rhs {
				if c, ok := r.(*ast.CallExpr); ok {
					if id, ok := c.Fun.(*ast.Ident); ok && id.Name == "append" && len(c.Args) > 0 {
						if _, isSlice := c.Args[0].(*ast.SliceExpr); isSlice {
							if b := directBase(c.Args[0]); b != nil && visible[b.Name] {
								pwrites = append(pwrites, pwrite{fname, b.Name, "append-into"})
							}
						}
					}
				}
			}
		case *ast.IncDecStmt:
			markWrite(s.X)
		case *ast.CallExpr:
			if id, ok := s.Fun.(*ast.Ident); ok && id.Name == "copy" && len(s.Args) == 2 {
				if b := directBase(s.Args[0]); b != nil && visible[b.Name] {
					pwrites = append(pwrites, pwrite{fname, b.Name, "copy-into"})
				}
			}
		}
		return true
	})
	// pool discipline, per block
	var walkBlock func(stmts []ast.Stmt)
	walkBlock = func(stmts []ast.Stmt) {
		for i, st := range stmts {
			var pooled, pool string
			switch s := st.(type) {
			case *ast.AssignStmt:
				if len(s.Lhs) == 1 && len(s.Rhs) == 1 {
					if p, ok := acquire(s.Rhs[0], poolVars); ok {
						if id, ok := s.Lhs[0].(*ast.Ident); ok {
							pooled, pool = id.Name, p
						}
					}
				}
			}
			if _, isCtor := ctors[fd.Name.Name]; isCtor {
				pooled = "" // the constructor itself hands the object to its caller
			}
			if pooled != "" {
				pf := poolFact{fn: fname, pool: pool, noPut: true}
				rest := stmts[i+1:]
				for j, r := range rest {
					switch rs := r.(type) {
					case *ast.DeferStmt:
						if p, ok := release(rs.Call); ok && p == pool {
							pf.deferred, pf.noPut = true, false
						}
					case *ast.ExprStmt:
						call, isCall := rs.X.(*ast.CallExpr)
						if !isCall {
							break
						}
						if p, ok := release(call); ok && p == pool {
							pf.noPut = false
							for _, after := range rest[j+1:] {
								if usesIdent(after, pooled) {
									pf.useAfterPut = true
								}
							}
						}
					case *ast.ReturnStmt:
						for _, res := range rs.Results {
							if id, ok := res.(*ast.Ident); ok && id.Name == pooled {
								pf.escapes = true
							}
						}
					}
					ast.Inspect(r, func(n ast.Node) bool {
						if as, ok := n.(*ast.AssignStmt); ok {
							for k, rhs := range as.Rhs {
								if id, ok := rhs.(*ast.Ident); ok && id.Name == pooled && k < len(as.Lhs) {
									if _, isSel := as.Lhs[k].(*ast.SelectorExpr); isSel {
										pf.escapes = true
									}
									if b, ok := as.Lhs[k].(*ast.Ident); ok && pkgVars[b.Name] {
										pf.escapes = true
									}
								}
							}
						}
						return true
					})
				}
				pools = append(pools, pf)
			}
			// nested blocks
			ast.Inspect(st, func(n ast.Node) bool {
				if b, ok := n.(*ast.BlockStmt); ok {
					walkBlock(b.List)
					return false
				}
				return true
			})
		}
	}
	walkBlock(fd.Body.List)
}

func isParam(fd *ast.FuncDecl, name string) bool {
	check := func(fl *ast.FieldList) bool {
		if fl == nil {
			return false
		}
		for _, f := range fl.List {
			for _, n := range f.Names {
				if n.Name == name {
					return true
				}
			}
		}
		return false
	}
	return check(fd.Recv) || check(fd.Type.Params) || check(fd.Type.Results)
}

func exprString(e ast.Expr) string {
	switch t := e.(type) {
	case *ast.Ident:
		return t.Name
	case *ast.StarExpr:
		return "*" + exprString(t.X)
	case *ast.SelectorExpr:
		return exprString(t.X) + "." + t.Sel.Name
	case *ast.IndexExpr:
		return exprString(t.X)
	}
	return "?"
}

var recycled = map[string]bool{"decodeState": true, "scanner": true, "encodeState": true}
var poolFields [][2]string

func analysePackage(pkg string, files []string) {
	fset := token.NewFileSet()
	var parsed []*ast.File
	for _, fn := range files {
		f, err := parser.ParseFile(fset, fn, nil, 0)
		if err != nil {
			fmt.Fprintln(os.Stderr, "gofacts:", err)
			os.Exit(1)
		}
		parsed = append(parsed, f)
	}
	pkgVars := map[string]bool{}
	poolVars := map[string]bool{}
	// the fields of the structs that are recycled through the pools (state that outlives a call)
	if pkg == "json" {
		for _, f := range parsed {
			for _, d := range f.Decls {
				gd, ok := d.(*ast.GenDecl)
				if !ok || gd.Tok != token.TYPE {
					continue
				}
				for _, sp := range gd.Specs {
					ts := sp.(*ast.TypeSpec)
					st, ok := ts.Type.(*ast.StructType)
					if !ok || !recycled[ts.Name.Name] {
						continue
					}
					for _, fl := range st.Fields.List {
						if len(fl.Names) == 0 {
							poolFields = append(poolFields, [2]string{ts.Name.Name, exprString(fl.Type)})
						}
						for _, n := range fl.Names {
							poolFields = append(poolFields, [2]string{ts.Name.Name, n.Name})
						}
					}
				}
			}
		}
	}
	for _, f := range parsed {
		for _, d := range f.Decls {
			gd, ok := d.(*ast.GenDecl)
			if !ok || gd.Tok != token.VAR {
				continue
			}
			for _, sp := range gd.Specs {
				vs := sp.(*ast.ValueSpec)
				for i, n := range vs.Names {
					if n.Name == "_" {
						continue
					}
					kind := "other"
					if vs.Type != nil {
						kind = typeKind(vs.Type)
					} else if i < len(vs.Values) {
						kind = typeKind(vs.Values[i])
					}
					pkgVars[n.Name] = true
					if kind == "pool" {
						poolVars[n.Name] = true
					}
					gvars = append(gvars, gvar{pkg, n.Name, kind, false})
				}
			}
		}
	}
	// pass 1: constructors (x := pool.Get() ...; return x) and releasers (pool.Put(param))
	for _, f := range parsed {
		for _, d := range f.Decls {
			fd, ok := d.(*ast.FuncDecl)
			if !ok || fd.Body == nil || fd.Recv != nil {
				continue
			}
			tainted := map[string]string{} // identifier -> pool it came from
			ast.Inspect(fd.Body, func(n ast.Node) bool {
				switch s := n.(type) {
				case *ast.AssignStmt:
					if len(s.Lhs) == 1 && len(s.Rhs) == 1 {
						if id, ok := s.Lhs[0].(*ast.Ident); ok {
							rhs := s.Rhs[0]
							if ta, ok := rhs.(*ast.TypeAssertExpr); ok {
								rhs = ta.X
							}
							if p, ok := isPoolCall(rhs, "Get"); ok && poolVars[p] {
								tainted[id.Name] = p
							}
							if r, ok := rhs.(*ast.Ident); ok {
								if p, ok := tainted[r.Name]; ok {
									tainted[id.Name] = p
								}
							}
						}
					}
				case *ast.ReturnStmt:
					for _, res := range s.Results {
						if id, ok := res.(*ast.Ident); ok {
							if p, ok := tainted[id.Name]; ok {
								ctors[fd.Name.Name] = p
							}
						}
					}
				case *ast.CallExpr:
					if p, ok := isPoolCall(s, "Put"); ok && poolVars[p] && len(s.Args) == 1 {
						if id, ok := s.Args[0].(*ast.Ident); ok && isParam(fd, id.Name) {
							releasers[fd.Name.Name] = p
						}
					}
				}
				return true
			})
		}
	}
	for _, f := range parsed {
		for _, d := range f.Decls {
			if fd, ok := d.(*ast.FuncDecl); ok {
				analyseFunc(pkg, fd, pkgVars, poolVars)
				syncSkeleton(pkg, fd)
			}
		}
	}
}

// syncSkeleton records, per function, how often it mentions the synchronisation vocabulary: qualified
// names of the packages sync and atomic (sync.WaitGroup, sync.Mutex, atomic.LoadUint32, ...) and calls
// of methods named Lock Unlock RLock RUnlock Wait Done LoadOrStore Do Add Load Store Range Delete
// CompareAndSwap Swap on anything (purely syntactic)
var syncFacts [][3]string

func syncSkeleton(pkg string, fd *ast.FuncDecl) {
	if fd.Body == nil {
		return
	}
	name := fd.Name.Name
	if fd.Recv != nil && len(fd.Recv.List) == 1 {
		name = exprString(fd.Recv.List[0].Type) + "." + name
	}
	counts := map[string]int{}
	methods := map[string]bool{"Lock": true, "Unlock": true, "RLock": true, "RUnlock": true, "Wait": true, "Done": true, "LoadOrStore": true, "Do": true, "Add": true, "Load": true, "Store": true, "Range": true, "Delete": true, "CompareAndSwap": true, "Swap": true}
	ast.Inspect(fd, func(n ast.Node) bool {
		switch x := n.(type) {
		case *ast.SelectorExpr:
			if id, ok := x.X.(*ast.Ident); ok && (id.Name == "sync" || id.Name == "atomic") {
				counts[id.Name+"."+x.Sel.Name]++
			}
		case *ast.CallExpr:
			if sel, ok := x.Fun.(*ast.SelectorExpr); ok && methods[sel.Sel.Name] {
				if id, ok := sel.X.(*ast.Ident); !ok || (id.Name != "sync" && id.Name != "atomic") {
					counts["."+sel.Sel.Name]++
				}
			}
		}
		return true
	})
	for k, c := range counts {
		syncFacts = append(syncFacts, [3]string{pkg + ":" + name, k, fmt.Sprint(c)})
	}
}

func goFiles(dir string) []string {
	ents, err := os.ReadDir(dir)
	if err != nil {
		fmt.Fprintln(os.Stderr, "gofacts:", err)
		os.Exit(1)
	}
	var out []string
	for _, e := range ents {
		n := e.Name()
		if strings.HasSuffix(n, ".go") && !strings.HasSuffix(n, "_test.go") && !e.IsDir() {
			out = append(out, filepath.Join(dir, n))
		}
	}
	sort.Strings(out)
	return out
}

func q(s string) string { return "\"" + strings.ReplaceAll(s, "\"", "\"\"") + "\"" }
func b(x bool) string {
	if x {
		return "true"
	}
	return "false"
}

func main() {
	if len(os.Args) != 3 {
		fmt.Fprintln(os.Stderr, "usage: gofacts <repo> <outdir>")
		os.Exit(2)
	}
	repo, out := os.Args[1], os.Args[2]
	analysePackage("jsonpatch", goFiles(filepath.Join(repo, "v5")))
	analysePackage("json", goFiles(filepath.Join(repo, "v5/internal/json")))
	var legacy []string
	for _, fn := range []string{"patch.go", "merge.go", "errors.go"} {
		legacy = append(legacy, filepath.Join(repo, fn))
	}
	analysePackage("jsonpatch4", legacy)
	analysePackage("main", goFiles(filepath.Join(repo, "v5/cmd/json-patch")))

	var sb strings.Builder
	sb.WriteString("(* generated by gofacts from the Go source -- do not edit *)\nFrom Coq Require Import String List.\nImport ListNotations.\nOpen Scope string_scope.\n\n")
	sb.WriteString("Inductive vkind := VPool | VSyncMap | VMap | VOther.\n")
	sb.WriteString("Record gvar := mkGvar { gv_pkg : string; gv_name : string; gv_kind : vkind; gv_written : bool }.\n")
	sb.WriteString("Record poolfact := mkPool { pf_func : string; pf_pool : string; pf_deferred : bool; pf_use_after_put : bool; pf_escapes : bool; pf_no_put : bool }.\n")
	sb.WriteString("Record pwrite := mkPwrite { pw_func : string; pw_param : string; pw_how : string }.\n\n")
	kinds := map[string]string{"pool": "VPool", "syncmap": "VSyncMap", "map": "VMap", "other": "VOther"}
	sb.WriteString("Definition gvars : list gvar := [\n")
	for i, g := range gvars {
		sep := ";"
		if i == len(gvars)-1 {
			sep = ""
		}
		fmt.Fprintf(&sb, "  mkGvar %s %s %s %s%s\n", q(g.pkg), q(g.name), kinds[g.kind], b(g.written), sep)
	}
	sb.WriteString("].\n\nDefinition poolfacts : list poolfact := [\n")
	for i, p := range pools {
		sep := ";"
		if i == len(pools)-1 {
			sep = ""
		}
		fmt.Fprintf(&sb, "  mkPool %s %s %s %s %s %s%s\n", q(p.fn), q(p.pool), b(p.deferred), b(p.useAfterPut), b(p.escapes), b(p.noPut), sep)
	}
	sb.WriteString("].\n\nDefinition pwrites : list pwrite := [\n")
	for i, p := range pwrites {
		sep := ";"
		if i == len(pwrites)-1 {
			sep = ""
		}
		fmt.Fprintf(&sb, "  mkPwrite %s %s %s%s\n", q(p.fn), q(p.param), q(p.how), sep)
	}
	sb.WriteString("].\n\nDefinition gostmts : list string := [")
	for i, g := range gostmts {
		if i > 0 {
			sb.WriteString("; ")
		}
		sb.WriteString(q(g))
	}
	sb.WriteString("].\n\n(* the fields of the structs recycled through sync.Pool: decodeState, scanner, encodeState *)\nDefinition poolfields : list (string * string) := [")
	sort.Slice(poolFields, func(i, j int) bool {
		if poolFields[i][0] != poolFields[j][0] {
			return poolFields[i][0] < poolFields[j][0]
		}
		return poolFields[i][1] < poolFields[j][1]
	})
	for i, f := range poolFields {
		if i > 0 {
			sb.WriteString("; ")
		}
		fmt.Fprintf(&sb, "(%s, %s)", q(f[0]), q(f[1]))
	}
	sb.WriteString("].\n\n(* the synchronisation vocabulary each function mentions: (function, token, count) *)\nDefinition syncfacts : list (string * string * nat) := [")
	sort.Slice(syncFacts, func(i, j int) bool {
		if syncFacts[i][0] != syncFacts[j][0] {
			return syncFacts[i][0] < syncFacts[j][0]
		}
		return syncFacts[i][1] < syncFacts[j][1]
	})
	for i, f := range syncFacts {
		if i > 0 {
			sb.WriteString("; ")
		}
		fmt.Fprintf(&sb, "(%s, %s, %s)", q(f[0]), q(f[1]), f[2])
	}
	sb.WriteString("].\n")
	target := filepath.Join(out, "FactsGen.v")
	if old, err := os.ReadFile(target); err == nil && string(old) == sb.String() {
		return
	}
	if err := os.WriteFile(target, []byte(sb.String()), 0o644); err != nil {
		fmt.Fprintln(os.Stderr, "gofacts:", err)
		os.Exit(1)
	}
}
