module gofacts

go 1.21
