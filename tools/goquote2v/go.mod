module goquote2v

go 1.18
