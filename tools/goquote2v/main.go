// goquote2v translates the JSON string encoder of the forked codec of evanphx/json-patch,
//
//	func (e *encodeState) string(s string, escapeHTML bool)         (v5/internal/json/encode.go)
//
// into Gallina, after checking that its twin
//
//	func (e *encodeState) stringBytes(s []byte, escapeHTML bool)
//
// is the same function modulo the three differences forced by the type of s: the parameter type,
// e.Write(x) for e.WriteString(x), and utf8.DecodeRune for utf8.DecodeRuneInString.
//
// It emits (names of the Go locals are kept as the names of the Coq binders)
//
//	quote_step escapeHTML s i start out : step        one execution of the body of the loop
//	                                                  for i := 0; i < len(s); { ... }
//	quote_loop fuel escapeHTML s i start out          the loop: test, step, again (LFuel when fuel = 0)
//	quote_run escapeHTML s out : qres                 the whole function on a buffer that holds out:
//	                                                  the statements before the loop, the loop with fuel
//	                                                  length s + 1, the statements after the loop
//	quote_full_gen escapeHTML s : bytes               what the function appends to an empty buffer, or a
//	                                                  marker text that is not a JSON string (no quote in
//	                                                  front) if the fuel ran out or an index was out of range
//
// Reading of the Go code (this is what is trusted, together with this program):
//   - e is a *encodeState, which embeds bytes.Buffer (checked) and declares no method Write,
//     WriteByte or WriteString of its own (checked in all non-test files of the directory):
//     e.WriteByte(x), e.WriteString(x) and e.Write(x) append to the buffer and do nothing else.
//     The buffer is the Coq value out; its growth cannot fail in the model.
//   - utf8.DecodeRuneInString is NOT translated: the generated code calls decode_rune of the
//     hand-written file Utf8Rune.v.  utf8.RuneSelf = 128 and utf8.RuneError = 65533 are the values
//     of the standard library.
//   - Go int, byte and rune values are Coq integers (Z); the only arithmetic understood is
//     int + int (i++, i += size, i = i + size), x >> const and x & y, none of which can leave the
//     range of its type except int + int, which is emitted WITHOUT wrap-around: i never exceeds
//     len(s), which fits an int.
//   - Every index expression x[i] is guarded by the test 0 <= i < len x and every slice expression
//     s[a:b] by 0 <= a <= b <= len s; a failing test ends the step with SPanic.  The tests of all
//     index expressions of one statement or condition are made before it (also for the right
//     operand of && and ||, where Go would make them only if that operand is evaluated: the model
//     panics at least as often as the code).
//   - hex is the package-level string variable of encode.go; htmlSafeSet and safeSet are the tables
//     of tables.go as translated by goscan2v (gen/TablesGen.v).  It is checked that no non-test file
//     of the directory assigns to one of the three, indexes it on the left of an assignment or
//     takes its address.
//
// The translator understands exactly the forms below and fails loudly (exit 2, file:line) on
// anything else.
//
// Function: receiver e *encodeState, parameters (string, bool), no results; the body is a list of
// simple statements, one for statement, and statements after it.  Before the loop: buffer writes
// and one `x := <int expr>`.  The loop: `for i := <int expr>; <cond>; {` without post statement.
// Statements in the loop body and after the loop: if (with or without `b := s[i]` as init
// statement, else, else-if), switch on an integer expression with constant cases (no fallthrough,
// no break), continue (in the loop), x++, x = e, x += e on int locals, e.WriteByte(<byte expr>),
// e.WriteString(<string literal> | s | s[a:b]), and, at the top level of the loop body,
// `c, size := utf8.DecodeRuneInString(s | s[a:b])`.  No return, break, goto, labels, nested loops.
// Integer expressions: locals, decimal/hex/character literals, utf8.RuneSelf, utf8.RuneError,
// len(s), s[i], hex[i], + >> &, parentheses.  Byte expressions: a byte local, a constant 0..255,
// s[i], hex[i].  Conditions: < <= > >= == != on integers, htmlSafeSet[i], safeSet[i], the bool
// parameter, ! && ||, parentheses.
// The output file is written only if its content changes.
//
// usage: goquote2v <path of v5/internal/json/encode.go> <output .v file>
package main

import (
	"bytes"
	"fmt"
	"go/ast"
	"go/parser"
	"go/token"
	"os"
	"path/filepath"
	"reflect"
	"regexp"
	"strconv"
	"strings"
)

var fset = token.NewFileSet()

func die(pos token.Pos, format string, a ...interface{}) {
	fmt.Fprintf(os.Stderr, "goquote2v: %s: %s\n", fset.Position(pos), fmt.Sprintf(format, a...))
	os.Exit(2)
}

func fatal(format string, a ...interface{}) {
	fmt.Fprintf(os.Stderr, "goquote2v: %s\n", fmt.Sprintf(format, a...))
	os.Exit(2)
}

const (
	recvType  = "encodeState"
	mainName  = "string"
	twinName  = "stringBytes"
	hexName   = "hex"
	coqHex    = "go_hex"
	runeSelf  = 128
	runeError = 65533
)

var tables = map[string]bool{"htmlSafeSet": true, "safeSet": true}

const prelude = `(* generated by goquote2v from v5/internal/json/encode.go: the method string of encodeState, whose twin
   stringBytes was checked to be the same function modulo string / []byte -- do not edit.

   utf8.DecodeRuneInString is MODELLED, not translated: decode_rune is the hand-written function of
   Utf8Rune.v.  e.WriteByte / e.WriteString / e.Write are read as appending to the buffer out.
   Go int arithmetic is emitted without wrap-around (i never exceeds len s).  SPanic / QPanic: an
   index or slice expression out of range.  htmlSafeSet and safeSet are the tables of
   gen/TablesGen.v (goscan2v). *)
From Coq Require Import ZArith List Bool.
From Coq.Strings Require Import Byte.
From JP Require Import Bytes Utf8Rune.
From JP.gen Require Import TablesGen.
Import ListNotations.
Local Open Scope Z_scope.

Definition len (s : bytes) : Z := Z.of_nat (length s).                       (* len(s) *)
Definition tlen (t : list bool) : Z := Z.of_nat (length t).                  (* length of an array *)
Definition at_ (s : bytes) (i : Z) : byte := nth (Z.to_nat i) s x00.         (* s[i], guarded by in_idx *)
Definition tab (t : list bool) (i : Z) : bool := nth (Z.to_nat i) t false.   (* t[i], guarded by in_idx *)
Definition slice (s : bytes) (a b : Z) : bytes :=                            (* s[a:b], guarded by in_slice *)
  firstn (Z.to_nat (b - a)) (skipn (Z.to_nat a) s).
Definition in_idx (i n : Z) : bool := (0 <=? i) && (i <? n).
Definition in_slice (a b n : Z) : bool := (0 <=? a) && (a <=? b) && (b <=? n).

(* one execution of the loop body: the new values of the loop variable, of the local declared
   before the loop, and of the buffer *)
Inductive step := SPanic | SNext (i start : Z) (out : bytes).
Inductive loopres := LPanic | LFuel | LDone (i start : Z) (out : bytes).
Inductive qres := QPanic | QFuel | QOk (out : bytes).

`

func main() {
	if len(os.Args) != 3 {
		fmt.Fprintln(os.Stderr, "usage: goquote2v <v5/internal/json/encode.go> <out.v>")
		os.Exit(2)
	}
	src, out := os.Args[1], os.Args[2]
	f, err := parser.ParseFile(fset, src, nil, 0)
	if err != nil {
		fatal("%v", err)
	}
	checkImports(f)
	others := parseSiblings(src)
	all := append([]*ast.File{f}, others...)
	checkReceiverType(f, all)
	hexLit := findHex(f)
	checkNeverWritten(all)

	var mainFd, twinFd *ast.FuncDecl
	for _, d := range f.Decls {
		fd, ok := d.(*ast.FuncDecl)
		if !ok || recvTypeName(fd) != recvType {
			continue
		}
		switch fd.Name.Name {
		case mainName:
			if mainFd != nil {
				die(fd.Pos(), "second declaration of (*%s).%s", recvType, mainName)
			}
			mainFd = fd
		case twinName:
			if twinFd != nil {
				die(fd.Pos(), "second declaration of (*%s).%s", recvType, twinName)
			}
			twinFd = fd
		}
	}
	if mainFd == nil {
		fatal("%s: method (*%s).%s not found", src, recvType, mainName)
	}
	if twinFd == nil {
		fatal("%s: method (*%s).%s not found", src, recvType, twinName)
	}
	checkTwin(mainFd, twinFd)

	var b bytes.Buffer
	b.WriteString(prelude)
	fmt.Fprintf(&b, "(* the package-level variable %s *)\nDefinition %s : bytes := %s.\n\n", hexName, coqHex, byteList(hexLit))
	b.WriteString(genFunction(mainFd))
	writeIfChanged(out, b.Bytes())
}

func writeIfChanged(path string, data []byte) {
	old, err := os.ReadFile(path)
	if err == nil && bytes.Equal(old, data) {
		return
	}
	if err := os.WriteFile(path, data, 0o644); err != nil {
		fatal("%v", err)
	}
}

// ---------------------------------------------------------------- checks on the package

func checkImports(f *ast.File) {
	want := map[string]bool{"unicode/utf8": false, "bytes": false}
	for _, im := range f.Imports {
		p, err := strconv.Unquote(im.Path.Value)
		if err != nil {
			die(im.Pos(), "bad import path")
		}
		if _, ok := want[p]; ok {
			if im.Name != nil {
				die(im.Pos(), "import of %s under another name", p)
			}
			want[p] = true
		} else if im.Name != nil && (im.Name.Name == "utf8" || im.Name.Name == "bytes" || im.Name.Name == ".") {
			die(im.Pos(), "import %s as %s", p, im.Name.Name)
		} else if im.Name == nil && (strings.HasSuffix(p, "/utf8") || strings.HasSuffix(p, "/bytes")) {
			die(im.Pos(), "import of %s: another package named like unicode/utf8 or bytes", p)
		}
	}
	for p, ok := range want {
		if !ok {
			fatal("%s is not imported", p)
		}
	}
}

// parseSiblings parses the other non-test Go files of the directory of src.
func parseSiblings(src string) []*ast.File {
	dir := filepath.Dir(src)
	ents, err := os.ReadDir(dir)
	if err != nil {
		fatal("%v", err)
	}
	var r []*ast.File
	for _, en := range ents {
		n := en.Name()
		if en.IsDir() || !strings.HasSuffix(n, ".go") || strings.HasSuffix(n, "_test.go") || n == filepath.Base(src) {
			continue
		}
		f, err := parser.ParseFile(fset, filepath.Join(dir, n), nil, 0)
		if err != nil {
			fatal("%v", err)
		}
		r = append(r, f)
	}
	return r
}

func recvTypeName(fd *ast.FuncDecl) string {
	if fd.Recv == nil || len(fd.Recv.List) != 1 {
		return ""
	}
	t := fd.Recv.List[0].Type
	if st, ok := t.(*ast.StarExpr); ok {
		t = st.X
	}
	if id, ok := t.(*ast.Ident); ok {
		return id.Name
	}
	return ""
}

// checkReceiverType: encodeState is a struct that embeds bytes.Buffer, and no file of the
// directory declares a method Write, WriteByte or WriteString on it.
func checkReceiverType(f *ast.File, all []*ast.File) {
	found := false
	for _, d := range f.Decls {
		gd, ok := d.(*ast.GenDecl)
		if !ok || gd.Tok != token.TYPE {
			continue
		}
		for _, sp := range gd.Specs {
			ts := sp.(*ast.TypeSpec)
			if ts.Name.Name != recvType {
				continue
			}
			if found {
				die(ts.Pos(), "second declaration of %s", recvType)
			}
			found = true
			st, ok := ts.Type.(*ast.StructType)
			if !ok || ts.Assign != token.NoPos {
				die(ts.Pos(), "%s is not a struct type", recvType)
			}
			embeds := 0
			for _, fl := range st.Fields.List {
				if len(fl.Names) != 0 {
					continue
				}
				se, ok := fl.Type.(*ast.SelectorExpr)
				if ok {
					if id, ok := se.X.(*ast.Ident); ok && id.Name == "bytes" && se.Sel.Name == "Buffer" {
						embeds++
						continue
					}
				}
				die(fl.Pos(), "%s embeds something other than bytes.Buffer: where Write/WriteByte/WriteString come from is not modelled", recvType)
			}
			if embeds != 1 {
				die(ts.Pos(), "%s does not embed bytes.Buffer", recvType)
			}
		}
	}
	if !found {
		fatal("type %s not found", recvType)
	}
	for _, g := range all {
		for _, d := range g.Decls {
			fd, ok := d.(*ast.FuncDecl)
			if !ok || recvTypeName(fd) != recvType {
				continue
			}
			switch fd.Name.Name {
			case "Write", "WriteByte", "WriteString":
				die(fd.Pos(), "%s declares its own method %s: not modelled", recvType, fd.Name.Name)
			}
		}
	}
}

// findHex returns the value of the package-level `var hex = "..."` (or const) of encode.go.
func findHex(f *ast.File) string {
	val, found := "", false
	for _, d := range f.Decls {
		gd, ok := d.(*ast.GenDecl)
		if !ok || (gd.Tok != token.VAR && gd.Tok != token.CONST) {
			continue
		}
		for _, sp := range gd.Specs {
			vs := sp.(*ast.ValueSpec)
			for i, n := range vs.Names {
				if n.Name != hexName {
					continue
				}
				if found {
					die(n.Pos(), "second declaration of %s", hexName)
				}
				if vs.Type != nil {
					if id, ok := vs.Type.(*ast.Ident); !ok || id.Name != "string" {
						die(vs.Pos(), "%s is not declared as a string", hexName)
					}
				}
				if i >= len(vs.Values) {
					die(vs.Pos(), "%s has no initial value", hexName)
				}
				bl, ok := vs.Values[i].(*ast.BasicLit)
				if !ok || bl.Kind != token.STRING {
					die(vs.Pos(), "%s is not initialised with a string literal", hexName)
				}
				s, err := strconv.Unquote(bl.Value)
				if err != nil {
					die(bl.Pos(), "bad string literal")
				}
				val, found = s, true
			}
		}
	}
	if !found {
		fatal("package-level variable %s not found", hexName)
	}
	return val
}

func rootIdent(x ast.Expr) *ast.Ident {
	for {
		switch v := x.(type) {
		case *ast.ParenExpr:
			x = v.X
		case *ast.IndexExpr:
			x = v.X
		case *ast.SliceExpr:
			x = v.X
		case *ast.Ident:
			return v
		default:
			return nil
		}
	}
}

// checkNeverWritten: hex, htmlSafeSet and safeSet are never the target of an assignment, of ++/--,
// of a range clause, or of &, anywhere in the non-test files (a local of the same name is refused
// as well: the test is by name).
func checkNeverWritten(all []*ast.File) {
	watched := func(x ast.Expr) bool {
		id := rootIdent(x)
		return id != nil && (id.Name == hexName || tables[id.Name])
	}
	for _, f := range all {
		ast.Inspect(f, func(n ast.Node) bool {
			switch v := n.(type) {
			case *ast.AssignStmt:
				for _, l := range v.Lhs {
					if watched(l) {
						die(l.Pos(), "assignment to %s: the generated file takes it as a constant", rootIdent(l).Name)
					}
				}
			case *ast.IncDecStmt:
				if watched(v.X) {
					die(v.Pos(), "%s is modified", rootIdent(v.X).Name)
				}
			case *ast.RangeStmt:
				for _, l := range []ast.Expr{v.Key, v.Value} {
					if l != nil && watched(l) {
						die(l.Pos(), "%s is the target of a range clause", rootIdent(l).Name)
					}
				}
			case *ast.UnaryExpr:
				if v.Op == token.AND && watched(v.X) {
					die(v.Pos(), "the address of %s is taken", rootIdent(v.X).Name)
				}
			case *ast.FuncDecl:
				// parameters or results named like a watched variable
				if v.Type.Params != nil {
					for _, p := range v.Type.Params.List {
						for _, nm := range p.Names {
							if nm.Name == hexName || tables[nm.Name] {
								die(nm.Pos(), "parameter named %s", nm.Name)
							}
						}
					}
				}
			}
			return true
		})
	}
}

// ---------------------------------------------------------------- the twin

type tok struct {
	s   string
	pos token.Pos
}

var (
	posType   = reflect.TypeOf(token.NoPos)
	objType   = reflect.TypeOf((*ast.Object)(nil))
	scopeType = reflect.TypeOf((*ast.Scope)(nil))
)

// dump flattens a syntax tree into a list of tokens (node types, field names, identifiers,
// literals, operators), leaving out positions and resolver objects.
func dump(v reflect.Value, pos token.Pos, out *[]tok) {
	switch v.Kind() {
	case reflect.Interface:
		if v.IsNil() {
			*out = append(*out, tok{"nil", pos})
			return
		}
		dump(v.Elem(), pos, out)
	case reflect.Ptr:
		if v.Type() == objType || v.Type() == scopeType {
			return
		}
		if v.IsNil() {
			*out = append(*out, tok{"nil", pos})
			return
		}
		if n, ok := v.Interface().(ast.Node); ok && n.Pos().IsValid() {
			pos = n.Pos()
		}
		*out = append(*out, tok{"&" + v.Elem().Type().Name(), pos})
		dump(v.Elem(), pos, out)
	case reflect.Struct:
		for i := 0; i < v.NumField(); i++ {
			ft := v.Type().Field(i)
			if ft.Type == posType || ft.Type == objType || ft.Type == scopeType {
				continue
			}
			if ft.Name == "Doc" || ft.Name == "Comment" {
				continue
			}
			*out = append(*out, tok{"." + ft.Name, pos})
			dump(v.Field(i), pos, out)
		}
	case reflect.Slice:
		*out = append(*out, tok{fmt.Sprintf("[%d", v.Len()), pos})
		for i := 0; i < v.Len(); i++ {
			dump(v.Index(i), pos, out)
		}
		*out = append(*out, tok{"]", pos})
	case reflect.String:
		*out = append(*out, tok{strconv.Quote(v.String()), pos})
	case reflect.Bool:
		*out = append(*out, tok{fmt.Sprint(v.Bool()), pos})
	case reflect.Int:
		if t, ok := v.Interface().(token.Token); ok {
			*out = append(*out, tok{"tok:" + t.String(), pos})
		} else {
			*out = append(*out, tok{fmt.Sprint(v.Int()), pos})
		}
	default:
		fatal("internal: cannot compare a syntax tree field of kind %s", v.Kind())
	}
}

// checkTwin: stringBytes is string modulo []byte / Write / DecodeRune.
func checkTwin(m, t *ast.FuncDecl) {
	recv := func(fd *ast.FuncDecl) string {
		if len(fd.Recv.List[0].Names) != 1 {
			die(fd.Pos(), "%s: receiver must be named", fd.Name.Name)
		}
		return fd.Recv.List[0].Names[0].Name
	}
	rm, rt := recv(m), recv(t)
	// the one allowed difference in the signature
	if t.Type.Params == nil || len(t.Type.Params.List) == 0 {
		die(t.Pos(), "%s: no parameters", twinName)
	}
	p0 := t.Type.Params.List[0]
	at, ok := p0.Type.(*ast.ArrayType)
	if !ok || at.Len != nil {
		die(p0.Pos(), "%s: first parameter is not a []byte", twinName)
	}
	if id, ok := at.Elt.(*ast.Ident); !ok || id.Name != "byte" {
		die(p0.Pos(), "%s: first parameter is not a []byte", twinName)
	}
	if len(p0.Names) != 1 {
		die(p0.Pos(), "%s: the []byte parameter must be declared alone", twinName)
	}
	// in the main function the string forms must be used, so that the two trees can only be
	// made equal by rewriting the twin
	ast.Inspect(m.Body, func(n ast.Node) bool {
		if se, ok := n.(*ast.SelectorExpr); ok {
			if id, ok := se.X.(*ast.Ident); ok {
				if id.Name == rm && se.Sel.Name == "Write" {
					die(se.Pos(), "%s: %s.Write in the string version", mainName, rm)
				}
				if id.Name == "utf8" && se.Sel.Name == "DecodeRune" {
					die(se.Pos(), "%s: utf8.DecodeRune in the string version", mainName)
				}
			}
		}
		return true
	})
	var a, b []tok
	dump(reflect.ValueOf(m.Type), m.Pos(), &a)
	dump(reflect.ValueOf(m.Recv), m.Pos(), &a)
	dump(reflect.ValueOf(m.Body), m.Pos(), &a)
	dump(reflect.ValueOf(t.Type), t.Pos(), &b)
	dump(reflect.ValueOf(t.Recv), t.Pos(), &b)
	dump(reflect.ValueOf(t.Body), t.Pos(), &b)
	// rewrite the token list of the twin: the parameter type, e.Write, utf8.DecodeRune
	b = rewriteTwin(b, rt, t.Pos())
	for i := 0; i < len(a) && i < len(b); i++ {
		if a[i].s != b[i].s {
			die(b[i].pos, "%s differs from %s (at %s): %s here, %s there; only []byte / %s.Write / utf8.DecodeRune may differ",
				twinName, mainName, fset.Position(a[i].pos), b[i].s, a[i].s, rt)
		}
	}
	if len(a) != len(b) {
		die(t.Pos(), "%s differs from %s in length", twinName, mainName)
	}
}

// the token sequences that dump produces for the three allowed differences
func seqSelector(pkg, name string) []string {
	return []string{"&SelectorExpr", ".X", "&Ident", ".Name", strconv.Quote(pkg), ".Sel", "&Ident", ".Name", strconv.Quote(name)}
}

func rewriteTwin(b []tok, recv string, pos token.Pos) []tok {
	replace := func(from, to []string) int {
		n := 0
		for i := 0; i+len(from) <= len(b); i++ {
			match := true
			for j := range from {
				if b[i+j].s != from[j] {
					match = false
					break
				}
			}
			if !match {
				continue
			}
			nb := append([]tok{}, b[:i]...)
			for _, s := range to {
				nb = append(nb, tok{s, b[i].pos})
			}
			nb = append(nb, b[i+len(from):]...)
			b = nb
			i += len(to) - 1
			n++
		}
		return n
	}
	replace(seqSelector(recv, "Write"), seqSelector(recv, "WriteString"))
	replace(seqSelector("utf8", "DecodeRune"), seqSelector("utf8", "DecodeRuneInString"))
	n := replace([]string{".Type", "&ArrayType", ".Len", "nil", ".Elt", "&Ident", ".Name", `"byte"`},
		[]string{".Type", "&Ident", ".Name", `"string"`})
	if n != 1 {
		die(pos, "%s: %d occurrences of the type []byte (expected exactly the parameter)", twinName, n)
	}
	return b
}

// ---------------------------------------------------------------- environment

type typ int

const (
	tInt typ = iota
	tByte
	tRune
	tConst
)

func (t typ) String() string {
	return [...]string{"int", "byte", "rune", "constant"}[t]
}

type env struct {
	recv, str, esc string         // names of the receiver and of the two parameters
	vars           map[string]typ // locals in scope
	guards         []string       // range tests of the statement being translated
	panicC         string         // SPanic or QPanic
	inLoop         bool
	leaf           func(e *env, d int) string // what follows the last statement (and continue)
}

func (e *env) clone() *env {
	c := *e
	c.vars = map[string]typ{}
	for k, v := range e.vars {
		c.vars[k] = v
	}
	c.guards = nil
	return &c
}

var reserved = map[string]bool{}

func init() {
	for _, w := range strings.Fields(`out len tlen at_ tab slice in_idx in_slice bz decode_rune rune_error fuel
		step loopres qres SPanic SNext LPanic LFuel LDone QPanic QFuel QOk quote_step quote_loop quote_run quote_full_gen
		htmlSafeSet safeSet bytes byte bool nat list Z N S O B bn nb nth length firstn skipn app cons nil fst snd pair
		negb andb orb true false Some None
		if then else let in match with end fun forall exists return as fix cofix at using where for
		Definition Fixpoint Inductive Set Prop Type SProp _`) {
		reserved[w] = true
	}
	reserved[coqHex] = true
}

var identRe = regexp.MustCompile(`^[A-Za-z][A-Za-z0-9_]*$`)
var byteCtorRe = regexp.MustCompile(`^x[0-9a-f][0-9a-f]$`)

func checkName(id *ast.Ident) {
	n := id.Name
	if !identRe.MatchString(n) {
		die(id.Pos(), "identifier %q cannot be used as a Coq name", n)
	}
	if reserved[n] || byteCtorRe.MatchString(n) || n == hexName || tables[n] || n == "utf8" {
		die(id.Pos(), "name %q clashes with a name of the generated file or of the package; rename it or extend goquote2v", n)
	}
}

func (e *env) declare(id *ast.Ident, t typ) {
	checkName(id)
	if _, old := e.vars[id.Name]; old || id.Name == e.recv || id.Name == e.str || id.Name == e.esc {
		die(id.Pos(), "%s is already declared (shadowing is not modelled)", id.Name)
	}
	e.vars[id.Name] = t
}

func (e *env) flush(d int) string {
	if len(e.guards) == 0 {
		return ""
	}
	seen := map[string]bool{}
	var g []string
	for _, x := range e.guards {
		if !seen[x] {
			seen[x] = true
			g = append(g, x)
		}
	}
	e.guards = nil
	return fmt.Sprintf("%sif negb (%s) then %s else\n", ind(d), strings.Join(g, " && "), e.panicC)
}

func ind(n int) string { return strings.Repeat("  ", n) }

func byteList(s string) string {
	p := make([]string, len(s))
	for i := 0; i < len(s); i++ {
		p[i] = fmt.Sprintf("x%02x", s[i])
	}
	return "[" + strings.Join(p, "; ") + "]"
}

// ---------------------------------------------------------------- the function

func typeString(x ast.Expr) string {
	switch t := x.(type) {
	case *ast.Ident:
		return t.Name
	case *ast.StarExpr:
		return "*" + typeString(t.X)
	case *ast.ArrayType:
		if t.Len == nil {
			return "[]" + typeString(t.Elt)
		}
	}
	return fmt.Sprintf("<%T>", x)
}

func genFunction(fd *ast.FuncDecl) string {
	e := &env{vars: map[string]typ{}, panicC: "QPanic"}
	rf := fd.Recv.List[0]
	if typeString(rf.Type) != "*"+recvType || len(rf.Names) != 1 {
		die(fd.Pos(), "receiver must be a named *%s", recvType)
	}
	e.recv = rf.Names[0].Name
	if fd.Type.TypeParams != nil {
		die(fd.Pos(), "type parameters")
	}
	if fd.Type.Results != nil && len(fd.Type.Results.List) != 0 {
		die(fd.Pos(), "the function has results")
	}
	var ptypes []string
	var pnames []*ast.Ident
	for _, p := range fd.Type.Params.List {
		if len(p.Names) == 0 {
			die(p.Pos(), "unnamed parameter")
		}
		for _, n := range p.Names {
			ptypes = append(ptypes, typeString(p.Type))
			pnames = append(pnames, n)
		}
	}
	if strings.Join(ptypes, ",") != "string,bool" {
		die(fd.Pos(), "parameters (%s), expected (string, bool)", strings.Join(ptypes, ", "))
	}
	for _, n := range pnames {
		checkName(n)
	}
	e.str, e.esc = pnames[0].Name, pnames[1].Name
	if e.str == e.esc || e.str == e.recv || e.esc == e.recv {
		die(fd.Pos(), "receiver and parameters must have different names")
	}
	if fd.Body == nil {
		die(fd.Pos(), "no body")
	}
	// split the body at the loop
	loopAt := -1
	for i, s := range fd.Body.List {
		if _, ok := s.(*ast.ForStmt); ok {
			if loopAt >= 0 {
				die(s.Pos(), "second loop")
			}
			loopAt = i
		}
	}
	if loopAt < 0 {
		die(fd.Pos(), "no for statement at the top level of the body")
	}
	pre, loop, post := fd.Body.List[:loopAt], fd.Body.List[loopAt].(*ast.ForStmt), fd.Body.List[loopAt+1:]

	// statements before the loop: buffer writes and exactly one int local
	var preVar *ast.Ident
	for _, s := range pre {
		switch x := s.(type) {
		case *ast.ExprStmt:
		case *ast.AssignStmt:
			if x.Tok != token.DEFINE || len(x.Lhs) != 1 || len(x.Rhs) != 1 {
				die(x.Pos(), "before the loop only buffer writes and one `x := <int expr>` are understood")
			}
			if preVar != nil {
				die(x.Pos(), "second local declared before the loop (the loop state has room for one)")
			}
			preVar, _ = x.Lhs[0].(*ast.Ident)
			if preVar == nil {
				die(x.Pos(), "left-hand side is not an identifier")
			}
		default:
			die(s.Pos(), "unsupported statement %T before the loop", s)
		}
	}
	if preVar == nil {
		die(loop.Pos(), "no local declared before the loop (the loop state expects one)")
	}
	// the loop header
	if loop.Post != nil {
		die(loop.Post.Pos(), "loop with a post statement")
	}
	if loop.Cond == nil {
		die(loop.Pos(), "loop without condition")
	}
	init, ok := loop.Init.(*ast.AssignStmt)
	if !ok || init.Tok != token.DEFINE || len(init.Lhs) != 1 || len(init.Rhs) != 1 {
		die(loop.Pos(), "the loop must start with `i := <int expr>`")
	}
	loopVar, ok := init.Lhs[0].(*ast.Ident)
	if !ok {
		die(init.Pos(), "left-hand side is not an identifier")
	}

	// ---- quote_step and quote_loop: environment = parameters + the two state variables
	le := e.clone()
	le.panicC, le.inLoop = "SPanic", true
	le.declare(preVar, tInt)
	le.declare(loopVar, tInt)
	iv, sv := loopVar.Name, preVar.Name
	le.leaf = func(x *env, d int) string {
		for _, n := range []string{iv, sv} {
			if t, ok := x.vars[n]; !ok || t != tInt {
				fatal("internal: state variable %s lost", n)
			}
		}
		return fmt.Sprintf("%sSNext %s %s out", ind(d), iv, sv)
	}
	stepBody := le.clone().block(wrap(loop.Body.List, false), 1)
	ce := le.clone()
	cond := ce.boolExpr(loop.Cond)
	if len(ce.guards) != 0 {
		die(loop.Cond.Pos(), "index expression in the loop condition")
	}

	var b strings.Builder
	params := fmt.Sprintf("(%s : bool) (%s : bytes) (%s %s : Z) (out : bytes)", e.esc, e.str, iv, sv)
	args := fmt.Sprintf("%s %s %s %s out", e.esc, e.str, iv, sv)
	fmt.Fprintf(&b, "(* the body of the loop `for %s := ...; ...; { ... }` of the method *)\n", iv)
	fmt.Fprintf(&b, "Definition quote_step %s : step :=\n%s.\n\n", params, stepBody)
	fmt.Fprintf(&b, "(* the loop: condition, body, again *)\n")
	fmt.Fprintf(&b, "Fixpoint quote_loop (fuel : nat) %s : loopres :=\n", params)
	fmt.Fprintf(&b, "  match fuel with\n  | O => LFuel\n  | S fuel =>\n      if %s then\n", cond)
	fmt.Fprintf(&b, "        match quote_step %s with\n        | SPanic => LPanic\n        | SNext %s %s out => quote_loop fuel %s\n        end\n", args, iv, sv, args)
	fmt.Fprintf(&b, "      else LDone %s %s out\n  end.\n\n", iv, sv)

	// ---- quote_run: before the loop, the loop, after the loop
	re := e.clone()
	re.leaf = func(x *env, d int) string {
		// the loop variable is initialised, the loop runs, the loop variable goes out of scope
		ie := x.clone()
		val, t := ie.numExpr(init.Rhs[0])
		if t != tInt && t != tConst {
			die(init.Pos(), "the loop variable is not an int")
		}
		g := ie.flush(d)
		pe := x.clone()
		pe.leaf = func(y *env, d int) string { return ind(d) + "QOk out" }
		after := pe.block(wrap(post, false), d+3)
		return fmt.Sprintf("%s%slet %s := %s in\n%smatch quote_loop (S (length %s)) %s with\n%s| LPanic => QPanic\n%s| LFuel => QFuel\n%s| LDone _ %s out =>\n%s\n%send",
			g, ind(d), iv, val, ind(d), e.str, args, ind(d), ind(d), ind(d), sv, after, ind(d))
	}
	runBody := re.block(wrap(pre, false), 1)
	if _, ok := re.vars[iv]; ok {
		die(init.Pos(), "internal: loop variable declared before the loop")
	}
	fmt.Fprintf(&b, "(* the function on a buffer that holds out; fuel = length + 1: the loop variable grows in every step *)\n")
	fmt.Fprintf(&b, "Definition quote_run (%s : bool) (%s : bytes) (out : bytes) : qres :=\n%s.\n\n", e.esc, e.str, runBody)
	fmt.Fprintf(&b, "(* what the function appends to an empty buffer; the two marker texts do not start with a quote *)\n")
	fmt.Fprintf(&b, "Definition quote_full_gen (%s : bool) (%s : bytes) : bytes :=\n  match quote_run %s %s [] with\n  | QOk out => out\n  | QFuel => %s\n  | QPanic => %s\n  end.\n",
		e.esc, e.str, e.esc, e.str, byteList("goquote2v: out of fuel"), byteList("goquote2v: index out of range"))
	return b.String()
}

// ---------------------------------------------------------------- statements

type item struct {
	s      ast.Stmt
	nested bool     // inside the body of an if or a switch
	pop    []string // pseudo statement: these names go out of scope
}

func wrap(l []ast.Stmt, nested bool) []item {
	r := make([]item, len(l))
	for i, s := range l {
		r[i] = item{s: s, nested: nested}
	}
	return r
}

func cat(a []item, b ...[]item) []item {
	r := append([]item{}, a...)
	for _, x := range b {
		r = append(r, x...)
	}
	return r
}

// block translates a statement list into an expression of the result type of the context; the
// statements after a continue are not looked at.
func (e *env) block(l []item, d int) string {
	if len(l) == 0 {
		return e.leaf(e, d)
	}
	it, rest := l[0], l[1:]
	if it.s == nil {
		for _, n := range it.pop {
			delete(e.vars, n)
		}
		return e.block(rest, d)
	}
	switch x := it.s.(type) {
	case *ast.BranchStmt:
		if x.Tok != token.CONTINUE || x.Label != nil {
			die(x.Pos(), "unsupported branch statement %s", x.Tok)
		}
		if !e.inLoop {
			die(x.Pos(), "continue outside the loop")
		}
		return e.leaf(e, d)
	case *ast.IfStmt:
		return e.ifStmt(x, rest, d)
	case *ast.SwitchStmt:
		return e.switchStmt(x, rest, d)
	case *ast.IncDecStmt:
		id, ok := x.X.(*ast.Ident)
		if !ok || x.Tok != token.INC {
			die(x.Pos(), "unsupported statement (only x++ on an int local)")
		}
		if t, ok := e.vars[id.Name]; !ok || t != tInt {
			die(x.Pos(), "%s is not an int local", id.Name)
		}
		return fmt.Sprintf("%slet %s := %s + 1 in\n%s", ind(d), id.Name, id.Name, e.block(rest, d))
	case *ast.AssignStmt:
		return e.assign(x, it.nested, rest, d)
	case *ast.ExprStmt:
		return e.write(x, rest, d)
	}
	die(it.s.Pos(), "unsupported statement %T", it.s)
	return ""
}

func (e *env) ifStmt(x *ast.IfStmt, rest []item, d int) string {
	var pre string
	var pop []item
	if x.Init != nil {
		// b := s[i]
		as, ok := x.Init.(*ast.AssignStmt)
		if !ok || as.Tok != token.DEFINE || len(as.Lhs) != 1 || len(as.Rhs) != 1 {
			die(x.Init.Pos(), "unsupported init statement of an if (only `b := <byte expr>`)")
		}
		id, ok := as.Lhs[0].(*ast.Ident)
		if !ok {
			die(as.Pos(), "left-hand side is not an identifier")
		}
		if _, isIdx := unparen(as.Rhs[0]).(*ast.IndexExpr); !isIdx {
			die(as.Pos(), "unsupported init statement of an if (only `b := %s[i]`)", e.str)
		}
		val := e.byteExpr(as.Rhs[0])
		pre = e.flush(d)
		e.declare(id, tByte)
		pre += fmt.Sprintf("%slet %s := %s in\n", ind(d), id.Name, val)
		pop = []item{{pop: []string{id.Name}}}
	}
	cond := e.boolExpr(x.Cond)
	pre += e.flush(d)
	thenL := cat(wrap(x.Body.List, true), pop, rest)
	var elseL []item
	switch el := x.Else.(type) {
	case nil:
		elseL = cat(pop, rest)
	case *ast.BlockStmt:
		elseL = cat(wrap(el.List, true), pop, rest)
	case *ast.IfStmt:
		elseL = cat([]item{{s: el, nested: true}}, pop, rest)
	default:
		die(x.Else.Pos(), "unsupported else branch %T", x.Else)
	}
	return fmt.Sprintf("%s%sif %s then\n%s\n%selse\n%s", pre, ind(d), cond, e.clone().block(thenL, d+1), ind(d), e.clone().block(elseL, d+1))
}

func (e *env) switchStmt(x *ast.SwitchStmt, rest []item, d int) string {
	if x.Init != nil {
		die(x.Init.Pos(), "switch with init statement")
	}
	if x.Tag == nil {
		die(x.Pos(), "switch without tag")
	}
	tag, tt := e.numExpr(x.Tag)
	pre := e.flush(d)
	type arm struct {
		cond string
		body []ast.Stmt
	}
	var arms []arm
	var def *ast.CaseClause
	seen := map[int64]bool{}
	for _, c := range x.Body.List {
		cc := c.(*ast.CaseClause)
		for _, s := range cc.Body {
			if br, ok := s.(*ast.BranchStmt); ok && br.Tok != token.CONTINUE {
				die(br.Pos(), "%s inside a switch", br.Tok)
			}
		}
		if cc.List == nil {
			if def != nil {
				die(cc.Pos(), "second default")
			}
			def = cc
			continue
		}
		var cs []string
		for _, v := range cc.List {
			n, ok := constValue(v)
			if !ok {
				die(v.Pos(), "case value is not a character or integer literal")
			}
			if tt == tByte && (n < 0 || n > 255) {
				die(v.Pos(), "case value %d does not fit a byte", n)
			}
			if seen[n] {
				die(v.Pos(), "duplicate case value %d", n)
			}
			seen[n] = true
			cs = append(cs, fmt.Sprintf("(%s =? %s)", atom(tag), zlit(n)))
		}
		arms = append(arms, arm{strings.Join(cs, " || "), cc.Body})
	}
	// an if chain in source order; the default (wherever it stands) is the last else
	var b strings.Builder
	b.WriteString(pre)
	for i, a := range arms {
		kw := "if"
		if i > 0 {
			kw = "else if"
		}
		fmt.Fprintf(&b, "%s%s %s then\n%s\n", ind(d), kw, a.cond, e.clone().block(cat(wrap(a.body, true), rest), d+1))
	}
	var defBody []ast.Stmt
	if def != nil {
		defBody = def.Body
	}
	last := e.clone().block(cat(wrap(defBody, true), rest), d+1)
	if len(arms) == 0 {
		return pre + e.clone().block(cat(wrap(defBody, true), rest), d)
	}
	fmt.Fprintf(&b, "%selse\n%s", ind(d), last)
	return b.String()
}

func (e *env) assign(x *ast.AssignStmt, nested bool, rest []item, d int) string {
	// c, size := utf8.DecodeRuneInString(s[i:])
	if len(x.Lhs) == 2 && len(x.Rhs) == 1 {
		c := e.isPkgCall(x.Rhs[0], "utf8", "DecodeRuneInString", 1)
		if c == nil {
			die(x.Pos(), "two-value assignment from something other than utf8.DecodeRuneInString")
		}
		if x.Tok != token.DEFINE || nested || !e.inLoop {
			die(x.Pos(), "utf8.DecodeRuneInString must be assigned with := at the top level of the loop body")
		}
		rv, ok1 := x.Lhs[0].(*ast.Ident)
		sz, ok2 := x.Lhs[1].(*ast.Ident)
		if !ok1 || !ok2 || rv.Name == "_" || sz.Name == "_" {
			die(x.Pos(), "the results of utf8.DecodeRuneInString must go to two identifiers")
		}
		arg := e.strExpr(c.Args[0])
		pre := e.flush(d)
		e.declare(rv, tRune)
		e.declare(sz, tInt)
		return fmt.Sprintf("%s%slet '(%s, %s) := decode_rune %s in\n%s", pre, ind(d), rv.Name, sz.Name, atom(arg), e.block(rest, d))
	}
	if len(x.Lhs) != 1 || len(x.Rhs) != 1 {
		die(x.Pos(), "unsupported assignment with %d left and %d right operands", len(x.Lhs), len(x.Rhs))
	}
	id, ok := x.Lhs[0].(*ast.Ident)
	if !ok {
		die(x.Pos(), "unsupported left-hand side %T", x.Lhs[0])
	}
	val, vt := e.numExpr(x.Rhs[0])
	if vt != tInt && vt != tConst {
		die(x.Pos(), "the assigned value is not an int")
	}
	pre := e.flush(d)
	switch x.Tok {
	case token.DEFINE:
		if nested || e.inLoop {
			die(x.Pos(), "declaration (:=) of an int local is understood only before the loop")
		}
		e.declare(id, tInt)
	case token.ASSIGN, token.ADD_ASSIGN:
		if t, ok := e.vars[id.Name]; !ok || t != tInt {
			die(x.Pos(), "assignment to %s, which is not an int local", id.Name)
		}
		if x.Tok == token.ADD_ASSIGN {
			val = fmt.Sprintf("%s + %s", id.Name, atom(val))
		}
	default:
		die(x.Pos(), "unsupported assignment operator %s", x.Tok)
	}
	return fmt.Sprintf("%s%slet %s := %s in\n%s", pre, ind(d), id.Name, val, e.block(rest, d))
}

// write: e.WriteByte(x), e.WriteString(x)
func (e *env) write(x *ast.ExprStmt, rest []item, d int) string {
	c, ok := x.X.(*ast.CallExpr)
	if !ok || c.Ellipsis != token.NoPos {
		die(x.Pos(), "unsupported expression statement")
	}
	se, ok := c.Fun.(*ast.SelectorExpr)
	if !ok {
		die(x.Pos(), "unsupported call")
	}
	id, ok := se.X.(*ast.Ident)
	if !ok || id.Name != e.recv {
		die(x.Pos(), "call of a method of something other than the receiver")
	}
	if se.Sel.Name != "WriteByte" && se.Sel.Name != "WriteString" {
		die(x.Pos(), "unsupported method %s.%s (only WriteByte and WriteString)", e.recv, se.Sel.Name)
	}
	if len(c.Args) != 1 {
		die(c.Pos(), "%s with %d arguments", se.Sel.Name, len(c.Args))
	}
	var val string
	switch se.Sel.Name {
	case "WriteByte":
		val = "[" + e.byteExpr(c.Args[0]) + "]"
	case "WriteString":
		val = e.strExpr(c.Args[0])
	default:
		die(x.Pos(), "unsupported method %s.%s", e.recv, se.Sel.Name)
	}
	pre := e.flush(d)
	return fmt.Sprintf("%s%slet out := out ++ %s in\n%s", pre, ind(d), val, e.block(rest, d))
}

func (e *env) isPkgCall(x ast.Expr, pkg, name string, nargs int) *ast.CallExpr {
	c, ok := unparen(x).(*ast.CallExpr)
	if !ok || c.Ellipsis != token.NoPos {
		return nil
	}
	se, ok := c.Fun.(*ast.SelectorExpr)
	if !ok || se.Sel.Name != name {
		return nil
	}
	id, ok := se.X.(*ast.Ident)
	if !ok || id.Name != pkg {
		return nil
	}
	if len(c.Args) != nargs {
		die(c.Pos(), "%s.%s with %d arguments", pkg, name, len(c.Args))
	}
	return c
}

// ---------------------------------------------------------------- expressions

func unparen(x ast.Expr) ast.Expr {
	for {
		p, ok := x.(*ast.ParenExpr)
		if !ok {
			return x
		}
		x = p.X
	}
}

func atom(s string) string {
	if !strings.ContainsAny(s, " ") {
		return s
	}
	return "(" + s + ")"
}

func zlit(n int64) string {
	if n < 0 {
		return fmt.Sprintf("(%d)", n)
	}
	return strconv.FormatInt(n, 10)
}

// constValue: a character or integer literal, utf8.RuneSelf, utf8.RuneError
func constValue(x ast.Expr) (int64, bool) {
	switch v := unparen(x).(type) {
	case *ast.BasicLit:
		switch v.Kind {
		case token.INT:
			if strings.Contains(v.Value, "_") {
				die(v.Pos(), "unsupported int literal %s", v.Value)
			}
			n, err := strconv.ParseInt(v.Value, 0, 64)
			if err != nil {
				die(v.Pos(), "unsupported int literal %s", v.Value)
			}
			return n, true
		case token.CHAR:
			if len(v.Value) < 3 {
				die(v.Pos(), "bad character literal")
			}
			r, _, tail, err := strconv.UnquoteChar(v.Value[1:], '\'')
			if err != nil || tail != "'" {
				die(v.Pos(), "bad character literal %s", v.Value)
			}
			return int64(r), true
		}
	case *ast.SelectorExpr:
		if id, ok := v.X.(*ast.Ident); ok && id.Name == "utf8" {
			switch v.Sel.Name {
			case "RuneSelf":
				return runeSelf, true
			case "RuneError":
				return runeError, true
			}
			die(v.Pos(), "utf8.%s is not modelled", v.Sel.Name)
		}
	}
	return 0, false
}

func (e *env) isStr(x ast.Expr) bool {
	id, ok := unparen(x).(*ast.Ident)
	return ok && id.Name == e.str
}

func isHex(x ast.Expr) bool {
	id, ok := unparen(x).(*ast.Ident)
	return ok && id.Name == hexName
}

// byteExpr: a Coq term of type byte
func (e *env) byteExpr(x ast.Expr) string {
	x = unparen(x)
	if n, ok := constValue(x); ok {
		if n < 0 || n > 255 {
			die(x.Pos(), "constant %d does not fit a byte", n)
		}
		return fmt.Sprintf("x%02x", n)
	}
	switch v := x.(type) {
	case *ast.Ident:
		if t, ok := e.vars[v.Name]; ok && t == tByte {
			return v.Name
		}
		die(v.Pos(), "%s is not a byte local", v.Name)
	case *ast.IndexExpr:
		var arr, ln string
		switch {
		case e.isStr(v.X):
			arr, ln = e.str, "len "+e.str
		case isHex(v.X):
			arr, ln = coqHex, "len "+coqHex
		default:
			die(v.Pos(), "index expression on something other than %s or %s", e.str, hexName)
		}
		i, _ := e.numExpr(v.Index)
		e.guards = append(e.guards, fmt.Sprintf("in_idx %s (%s)", atom(i), ln))
		return fmt.Sprintf("at_ %s %s", arr, atom(i))
	}
	die(x.Pos(), "unsupported byte expression %T", x)
	return ""
}

// numExpr: a Coq term of type Z and the Go type of the expression
func (e *env) numExpr(x ast.Expr) (string, typ) {
	x = unparen(x)
	if n, ok := constValue(x); ok {
		return zlit(n), tConst
	}
	switch v := x.(type) {
	case *ast.Ident:
		t, ok := e.vars[v.Name]
		if !ok {
			die(v.Pos(), "%s is not an integer local", v.Name)
		}
		if t == tByte {
			return "bz " + v.Name, tByte
		}
		return v.Name, t
	case *ast.IndexExpr:
		return "bz (" + e.byteExpr(v) + ")", tByte
	case *ast.CallExpr:
		id, ok := v.Fun.(*ast.Ident)
		if !ok || id.Name != "len" || len(v.Args) != 1 || v.Ellipsis != token.NoPos {
			die(v.Pos(), "unsupported call in an integer expression (only len)")
		}
		if _, shadow := e.vars["len"]; shadow {
			die(v.Pos(), "len is shadowed")
		}
		if !e.isStr(v.Args[0]) {
			die(v.Pos(), "len of something other than %s", e.str)
		}
		return "len " + e.str, tInt
	case *ast.BinaryExpr:
		a, ta := e.numExpr(v.X)
		b, tb := e.numExpr(v.Y)
		switch v.Op {
		case token.ADD:
			if (ta != tInt && ta != tConst) || (tb != tInt && tb != tConst) || (ta == tConst && tb == tConst) {
				die(v.Pos(), "+ on %s and %s (only on ints: the wrap-around of the narrow types is not modelled)", ta, tb)
			}
			return fmt.Sprintf("%s + %s", atom(a), atom(b)), tInt
		case token.SHR:
			n, ok := constValue(v.Y)
			if !ok || n < 0 || n > 63 || ta == tConst {
				die(v.Pos(), "unsupported shift (only <variable expression> >> <constant 0..63>)")
			}
			return fmt.Sprintf("Z.shiftr %s %s", atom(a), atom(b)), ta
		case token.AND:
			t := ta
			switch {
			case ta == tConst && tb == tConst:
				die(v.Pos(), "& of two constants")
			case ta == tConst:
				t = tb
			case tb == tConst || ta == tb:
			default:
				die(v.Pos(), "& on %s and %s", ta, tb)
			}
			for _, c := range []ast.Expr{v.X, v.Y} {
				if n, ok := constValue(c); ok && (n < 0 || (t == tByte && n > 255)) {
					die(c.Pos(), "constant %d as operand of & on a %s", n, t)
				}
			}
			return fmt.Sprintf("Z.land %s %s", atom(a), atom(b)), t
		}
		die(v.Pos(), "unsupported integer operator %s", v.Op)
	}
	die(x.Pos(), "unsupported integer expression %T", x)
	return "", tInt
}

// strExpr: a string literal, s, or s[a:b]; a Coq term of type bytes
func (e *env) strExpr(x ast.Expr) string {
	x = unparen(x)
	switch v := x.(type) {
	case *ast.BasicLit:
		if v.Kind != token.STRING {
			die(v.Pos(), "unsupported literal %s where a string is expected", v.Value)
		}
		s, err := strconv.Unquote(v.Value)
		if err != nil {
			die(v.Pos(), "bad string literal")
		}
		return byteList(s)
	case *ast.Ident:
		if v.Name == e.str {
			return e.str
		}
		die(v.Pos(), "%s is not the string parameter", v.Name)
	case *ast.SliceExpr:
		if v.Slice3 {
			die(v.Pos(), "three-index slice expression")
		}
		if !e.isStr(v.X) {
			die(v.Pos(), "slice expression on something other than %s", e.str)
		}
		a, b := "0", "len "+e.str
		if v.Low != nil {
			var t typ
			a, t = e.numExpr(v.Low)
			if t != tInt && t != tConst {
				die(v.Low.Pos(), "slice bound of type %s", t)
			}
		}
		if v.High != nil {
			var t typ
			b, t = e.numExpr(v.High)
			if t != tInt && t != tConst {
				die(v.High.Pos(), "slice bound of type %s", t)
			}
		}
		e.guards = append(e.guards, fmt.Sprintf("in_slice %s %s (len %s)", atom(a), atom(b), e.str))
		return fmt.Sprintf("slice %s %s %s", e.str, atom(a), atom(b))
	}
	die(x.Pos(), "unsupported string expression %T", x)
	return ""
}

func comparable(ta, tb typ) bool {
	return ta == tb || ta == tConst || tb == tConst
}

func (e *env) boolExpr(x ast.Expr) string {
	switch v := x.(type) {
	case *ast.ParenExpr:
		return e.boolExpr(v.X)
	case *ast.Ident:
		if v.Name == e.esc {
			return e.esc
		}
		die(v.Pos(), "%s is not the bool parameter", v.Name)
	case *ast.UnaryExpr:
		if v.Op != token.NOT {
			die(v.Pos(), "unsupported unary operator %s in a condition", v.Op)
		}
		return "negb " + atom(e.boolExpr(v.X))
	case *ast.IndexExpr:
		id, ok := unparen(v.X).(*ast.Ident)
		if !ok || !tables[id.Name] {
			die(v.Pos(), "index expression in a condition on something other than htmlSafeSet / safeSet")
		}
		i, _ := e.numExpr(v.Index)
		e.guards = append(e.guards, fmt.Sprintf("in_idx %s (tlen %s)", atom(i), id.Name))
		return fmt.Sprintf("tab %s %s", id.Name, atom(i))
	case *ast.BinaryExpr:
		switch v.Op {
		case token.LAND:
			return fmt.Sprintf("%s && %s", atom(e.boolExpr(v.X)), atom(e.boolExpr(v.Y)))
		case token.LOR:
			return fmt.Sprintf("%s || %s", atom(e.boolExpr(v.X)), atom(e.boolExpr(v.Y)))
		case token.LSS, token.LEQ, token.GTR, token.GEQ, token.EQL, token.NEQ:
			a, ta := e.numExpr(v.X)
			b, tb := e.numExpr(v.Y)
			if !comparable(ta, tb) {
				die(v.Pos(), "comparison of %s and %s", ta, tb)
			}
			a, b = atom(a), atom(b)
			switch v.Op {
			case token.LSS:
				return fmt.Sprintf("%s <? %s", a, b)
			case token.LEQ:
				return fmt.Sprintf("%s <=? %s", a, b)
			case token.GTR: // a > b  is  b < a
				return fmt.Sprintf("%s <? %s", b, a)
			case token.GEQ: // a >= b  is  b <= a
				return fmt.Sprintf("%s <=? %s", b, a)
			case token.EQL:
				return fmt.Sprintf("%s =? %s", a, b)
			case token.NEQ:
				return fmt.Sprintf("negb (%s =? %s)", a, b)
			}
		}
		die(v.Pos(), "unsupported operator %s in a condition", v.Op)
	}
	die(x.Pos(), "unsupported condition %T", x)
	return ""
}

