package main

import (
	"fmt"
	"go/ast"
	"go/token"
	"strings"
)

func ind(n int) string { return strings.Repeat("  ", n) }

// kont: the translation of what is executed next, at indentation d, in environment e
type kont func(e *env, d int) string

// ctx: how control leaves the piece of code that is being translated
type ctx struct {
	fn     *fnInfo
	panicV string                                 // the outcome of a failed bounds test
	ret    func(x *ast.ReturnStmt, e *env) string // nil: return is not possible here
	brk    kont                                   // nil: break is not possible here
	cont   kont                                   // nil: continue is not possible here
}

// fnInfo: one Go function being translated
type fnInfo struct {
	decl     *ast.FuncDecl
	prefix   string   // prefix of the generated names
	resTy    string   // Coq type of the outcome of the function
	fuelV    string   // outcome when a loop runs out of fuel ("" if the function has no fuelled loop)
	defs     []string // the definitions of the loops, in order
	nloops   int
	topPanic string // the panic outcome at the top level of the function
}

func guardLines(g []string, panicV string, d int) string {
	var b strings.Builder
	for _, t := range g {
		fmt.Fprintf(&b, "%sif negb (%s) then %s else\n", ind(d), t, panicV)
	}
	return b.String()
}

func tuple(names []string) string {
	if len(names) == 1 {
		return names[0]
	}
	return "(" + strings.Join(names, ", ") + ")"
}

func (e *env) tupleType(names []string) string {
	var p []string
	for _, n := range names {
		p = append(p, e.types[n].coq())
	}
	if len(p) == 1 {
		return p[0]
	}
	return "(" + strings.Join(p, " * ") + ")"
}

func (e *env) params(names []string) string {
	var p []string
	for _, n := range names {
		p = append(p, fmt.Sprintf("(%s : %s)", n, e.types[n].coq()))
	}
	return strings.Join(p, " ")
}

// ---------------------------------------------------------------- analysis

// assigned: the locals of env e that the statements assign (also: buffers that are stored into)
func (e *env) assigned(l []ast.Stmt) []string {
	set := map[string]bool{}
	mark := func(x ast.Expr) {
		switch x := unparen(x).(type) {
		case *ast.Ident:
			set[x.Name] = true
		case *ast.IndexExpr:
			if id, ok := unparen(x.X).(*ast.Ident); ok {
				set[id.Name] = true
			}
		case *ast.SliceExpr:
			if id, ok := unparen(x.X).(*ast.Ident); ok {
				set[id.Name] = true
			}
		}
	}
	for _, s := range l {
		ast.Inspect(s, func(n ast.Node) bool {
			switch n := n.(type) {
			case *ast.AssignStmt:
				if n.Tok != token.DEFINE {
					for _, x := range n.Lhs {
						mark(x)
					}
				}
			case *ast.IncDecStmt:
				mark(n.X)
			case *ast.CallExpr:
				if id, ok := n.Fun.(*ast.Ident); ok && id.Name == "copy" && len(n.Args) == 2 {
					mark(n.Args[0])
				}
				if selName(n.Fun) == "utf8.EncodeRune" && len(n.Args) == 2 {
					mark(n.Args[0])
				}
			}
			return true
		})
	}
	var out []string
	for _, n := range e.names {
		if set[n] {
			out = append(out, n)
		}
	}
	return out
}

// used: the locals of env e that occur in the nodes
func (e *env) used(nodes ...ast.Node) []string {
	set := map[string]bool{}
	for _, s := range nodes {
		ast.Inspect(s, func(n ast.Node) bool {
			if id, ok := n.(*ast.Ident); ok {
				set[id.Name] = true
			}
			return true
		})
	}
	var out []string
	for _, n := range e.names {
		if set[n] {
			out = append(out, n)
		}
	}
	return out
}

// jumps: does the statement list contain a return, break, continue, goto or fallthrough?
func jumps(l []ast.Stmt) bool {
	found := false
	for _, s := range l {
		ast.Inspect(s, func(n ast.Node) bool {
			switch n.(type) {
			case *ast.ReturnStmt, *ast.BranchStmt:
				found = true
			}
			return !found
		})
	}
	return found
}

// ---------------------------------------------------------------- statements

func (e *env) stmts(l []ast.Stmt, c *ctx, k kont, d int) string {
	if len(l) == 0 {
		return k(e, d)
	}
	// x = y between []byte locals: y must die here (slices are values in the translation)
	if a, ok := l[0].(*ast.AssignStmt); ok && a.Tok == token.ASSIGN && len(a.Lhs) == 1 {
		if yi, ok := unparen(a.Rhs[0]).(*ast.Ident); ok && e.has(yi.Name) && e.types[yi.Name] == tBytes {
			if len(l) != 1 {
				die(a.Pos(), "assignment of the slice %s to another variable must be the last statement of its block (aliasing is not translated)", yi.Name)
			}
		}
	}
	return e.stmt(l[0], c, func(e2 *env, d2 int) string { return e2.stmts(l[1:], c, k, d2) }, d)
}

// block: the statements of a nested block; its declarations end with it
func (e *env) block(l []ast.Stmt, c *ctx, k kont, d int) string {
	return e.stmts(l, c, func(_ *env, d2 int) string { return k(e, d2) }, d)
}

func (e *env) stmt(s ast.Stmt, c *ctx, k kont, d int) string {
	switch s := s.(type) {
	case *ast.EmptyStmt:
		return k(e, d)
	case *ast.BlockStmt:
		return e.block(s.List, c, k, d)
	case *ast.ReturnStmt:
		if c.ret == nil {
			die(s.Pos(), "return is not understood here")
		}
		return ind(d) + c.ret(s, e) + "\n"
	case *ast.BranchStmt:
		if s.Label != nil {
			die(s.Pos(), "labels are not understood")
		}
		switch s.Tok {
		case token.BREAK:
			if c.brk == nil {
				die(s.Pos(), "break is not understood here")
			}
			return c.brk(e, d)
		case token.CONTINUE:
			if c.cont == nil {
				die(s.Pos(), "continue is not understood here")
			}
			return c.cont(e, d)
		}
		die(s.Pos(), "%s is not understood", s.Tok)
	case *ast.DeclStmt:
		// var x rune / var x int
		gd, ok := s.Decl.(*ast.GenDecl)
		if ok && gd.Tok == token.VAR && len(gd.Specs) == 1 {
			vs := gd.Specs[0].(*ast.ValueSpec)
			if len(vs.Names) == 1 && len(vs.Values) == 0 {
				if ti, ok := vs.Type.(*ast.Ident); ok && (ti.Name == "rune" || ti.Name == "int") {
					t := tInt
					if ti.Name == "rune" {
						t = tRune
					}
					e2 := e.declare(vs.Names[0], t)
					return fmt.Sprintf("%slet %s := 0 in\n", ind(d), vs.Names[0].Name) + k(e2, d)
				}
			}
		}
		die(s.Pos(), "this declaration is not understood")
	case *ast.IncDecStmt:
		id, ok := s.X.(*ast.Ident)
		if !ok || e.typeOf(id) != tInt {
			die(s.Pos(), "++ and -- are understood on int locals only")
		}
		op := "+"
		if s.Tok == token.DEC {
			op = "-"
		}
		return fmt.Sprintf("%slet %s := %s %s 1 in\n", ind(d), id.Name, id.Name, op) + k(e, d)
	case *ast.ExprStmt:
		call, ok := s.X.(*ast.CallExpr)
		if ok {
			if id, ok := call.Fun.(*ast.Ident); ok && id.Name == "copy" && !e.has("copy") {
				return e.copyStmt(call, nil, c, k, d)
			}
		}
		die(s.Pos(), "this expression statement is not understood")
	case *ast.AssignStmt:
		return e.assign(s, c, k, d)
	case *ast.IfStmt:
		return e.ifStmt(s, c, k, d)
	case *ast.SwitchStmt:
		return e.switchStmt(s, c, k, d)
	case *ast.ForStmt:
		return e.forStmt(s, c, k, d)
	case *ast.RangeStmt:
		return e.rangeStmt(s, c, k, d)
	}
	die(s.Pos(), "statement of kind %T is not understood", s)
	return ""
}

// copy(dst, src) as a statement, or n := copy(dst, src)
func (e *env) copyStmt(call *ast.CallExpr, count *ast.Ident, c *ctx, k kont, d int) string {
	if len(call.Args) != 2 {
		die(call.Pos(), "copy with %d arguments", len(call.Args))
	}
	dst, ok := unparen(call.Args[0]).(*ast.Ident)
	if !ok || e.typeOf(dst) != tBytes {
		die(call.Pos(), "the destination of copy must be a []byte local")
	}
	e.checkBuffer(dst)
	var g []string
	src := e.expr(call.Args[1], &g)
	if src.t != tBytes {
		die(call.Pos(), "the source of copy must be a []byte")
	}
	out := guardLines(g, c.panicV, d)
	e2 := e
	if count != nil {
		e2 = e.declare(count, tInt)
		out += fmt.Sprintf("%slet %s := copy_n %s %s in\n", ind(d), count.Name, dst.Name, atom(src.s))
	}
	out += fmt.Sprintf("%slet %s := copy_into %s %s in\n", ind(d), dst.Name, dst.Name, atom(src.s))
	return out + k(e2, d)
}

// buffers: the []byte locals that are written must have been made by make in this function
var madeByMake = map[string]bool{}

func (e *env) checkBuffer(id *ast.Ident) {
	if !madeByMake[id.Name] {
		die(id.Pos(), "%s is written to but was not made by make in this function (aliasing is not translated)", id.Name)
	}
}

func (e *env) assign(s *ast.AssignStmt, c *ctx, k kont, d int) string {
	// a, b := utf8.DecodeRune(slice)
	if len(s.Lhs) == 2 && len(s.Rhs) == 1 && s.Tok == token.DEFINE {
		call, ok := s.Rhs[0].(*ast.CallExpr)
		if ok && selName(call.Fun) == "utf8.DecodeRune" && len(call.Args) == 1 {
			a, aok := s.Lhs[0].(*ast.Ident)
			b, bok := s.Lhs[1].(*ast.Ident)
			if !aok || !bok {
				die(s.Pos(), "left-hand side of := must be identifiers")
			}
			var g []string
			arg := e.expr(call.Args[0], &g)
			if arg.t != tBytes {
				die(call.Pos(), "utf8.DecodeRune of something that is not a []byte")
			}
			e2 := e.declare(a, tRune).declare(b, tInt)
			return guardLines(g, c.panicV, d) +
				fmt.Sprintf("%slet '(%s, %s) := decode_rune %s in\n", ind(d), a.Name, b.Name, atom(arg.s)) + k(e2, d)
		}
		die(s.Pos(), "this two-valued definition is not understood")
	}
	if len(s.Lhs) != 1 || len(s.Rhs) != 1 {
		die(s.Pos(), "this assignment is not understood")
	}
	// b[w] = x
	if ix, ok := s.Lhs[0].(*ast.IndexExpr); ok {
		if s.Tok != token.ASSIGN {
			die(s.Pos(), "only plain assignment to an element is understood")
		}
		bid, ok := unparen(ix.X).(*ast.Ident)
		if !ok || e.typeOf(bid) != tBytes {
			die(s.Pos(), "only an element of a []byte local can be assigned")
		}
		e.checkBuffer(bid)
		var g []string
		i := e.expr(ix.Index, &g)
		if i.t != tInt && i.t != tConst {
			die(ix.Index.Pos(), "index must be an int expression")
		}
		v := e.expr(s.Rhs[0], &g)
		g = append(g, fmt.Sprintf("in_idx %s (len %s)", atom(i.s), bid.Name))
		return guardLines(g, c.panicV, d) +
			fmt.Sprintf("%slet %s := store %s %s %s in\n", ind(d), bid.Name, bid.Name, atom(i.s), atom(asByte(v, s.Rhs[0].Pos()))) + k(e, d)
	}
	id, ok := s.Lhs[0].(*ast.Ident)
	if !ok {
		die(s.Pos(), "the left-hand side of this assignment is not understood")
	}
	if call, ok := s.Rhs[0].(*ast.CallExpr); ok {
		fid, _ := call.Fun.(*ast.Ident)
		switch {
		case fid != nil && fid.Name == "copy" && !e.has("copy"):
			if s.Tok != token.DEFINE {
				die(s.Pos(), "the result of copy must be bound by :=")
			}
			return e.copyStmt(call, id, c, k, d)
		case fid != nil && fid.Name == "make" && !e.has("make"):
			// x := make([]byte, n)
			if s.Tok != token.DEFINE || len(call.Args) != 2 {
				die(s.Pos(), "make is understood as x := make([]byte, n) only")
			}
			at, ok := call.Args[0].(*ast.ArrayType)
			if !ok || at.Len != nil {
				die(s.Pos(), "make of something that is not []byte")
			}
			if el, ok := at.Elt.(*ast.Ident); !ok || el.Name != "byte" {
				die(s.Pos(), "make of something that is not []byte")
			}
			var g []string
			n := e.expr(call.Args[1], &g)
			if n.t != tInt && n.t != tConst {
				die(s.Pos(), "the length given to make must be an int expression")
			}
			g = append(g, fmt.Sprintf("0 <=? %s", atom(n.s)))
			madeByMake[id.Name] = true
			e2 := e.declare(id, tBytes)
			return guardLines(g, c.panicV, d) + fmt.Sprintf("%slet %s := make_buf %s in\n", ind(d), id.Name, atom(n.s)) + k(e2, d)
		case fid != nil && translated[fid.Name] != nil && !e.has(fid.Name):
			// x := getu4(slice)
			callee := translated[fid.Name]
			if s.Tok != token.DEFINE || len(call.Args) != 1 {
				die(s.Pos(), "a call of %s is understood as x := %s(slice) only", fid.Name, fid.Name)
			}
			var g []string
			arg := e.expr(call.Args[0], &g)
			if arg.t != tBytes {
				die(call.Pos(), "the argument of %s must be a []byte", fid.Name)
			}
			e2 := e.declare(id, tRune)
			out := guardLines(g, c.panicV, d)
			out += fmt.Sprintf("%smatch %s_gen %s with\n%s| None => %s\n%s| Some %s =>\n", ind(d), callee.prefix, atom(arg.s), ind(d), c.panicV, ind(d), id.Name)
			out += k(e2, d+2)
			out += ind(d) + "end\n"
			return out
		case selName(call.Fun) == "utf8.EncodeRune":
			// w += utf8.EncodeRune(b[lo:], r)
			if s.Tok != token.ADD_ASSIGN || e.typeOf(id) != tInt || len(call.Args) != 2 {
				die(s.Pos(), "utf8.EncodeRune is understood as w += utf8.EncodeRune(b[lo:], r) only")
			}
			sl, ok := unparen(call.Args[0]).(*ast.SliceExpr)
			if !ok || sl.High != nil || sl.Low == nil || sl.Slice3 {
				die(s.Pos(), "the first argument of utf8.EncodeRune must be b[lo:]")
			}
			bid, ok := unparen(sl.X).(*ast.Ident)
			if !ok || e.typeOf(bid) != tBytes {
				die(s.Pos(), "the first argument of utf8.EncodeRune must be b[lo:]")
			}
			e.checkBuffer(bid)
			var g []string
			lo := e.expr(sl.Low, &g)
			if lo.t != tInt && lo.t != tConst {
				die(sl.Low.Pos(), "slice bound must be an int expression")
			}
			g = append(g, fmt.Sprintf("in_slice %s (len %s) (len %s)", atom(lo.s), bid.Name, bid.Name))
			r := e.expr(call.Args[1], &g)
			if r.t != tRune && r.t != tConst {
				die(call.Args[1].Pos(), "the second argument of utf8.EncodeRune must be a rune")
			}
			out := guardLines(g, c.panicV, d)
			out += fmt.Sprintf("%smatch encode_at %s %s %s with\n%s| None => %s\n%s| Some (%s, enc_n) =>\n", ind(d), bid.Name, atom(lo.s), atom(r.s), ind(d), c.panicV, ind(d), bid.Name)
			out += fmt.Sprintf("%slet %s := %s + enc_n in\n", ind(d+2), id.Name, id.Name)
			out += k(e, d+2)
			out += ind(d) + "end\n"
			return out
		}
	}
	// x := e, x = e, x += e, x -= e
	var g []string
	v := e.expr(s.Rhs[0], &g)
	switch s.Tok {
	case token.DEFINE:
		t := v.t
		if t == tConst {
			t = tInt
		}
		if t == tBool {
			die(s.Pos(), "boolean locals are not understood")
		}
		e2 := e.declare(id, t)
		return guardLines(g, c.panicV, d) + fmt.Sprintf("%slet %s := %s in\n", ind(d), id.Name, v.s) + k(e2, d)
	case token.ASSIGN:
		t := e.typeOf(id)
		if !(v.t == t || v.t == tConst && (t == tInt || t == tRune || t == tByte)) {
			die(s.Pos(), "assignment to %s of a value of another type", id.Name)
		}
		rhs := v.s
		if t == tByte {
			rhs = asByte(v, s.Rhs[0].Pos())
		}
		return guardLines(g, c.panicV, d) + fmt.Sprintf("%slet %s := %s in\n", ind(d), id.Name, rhs) + k(e, d)
	case token.ADD_ASSIGN, token.SUB_ASSIGN:
		if e.typeOf(id) != tInt || (v.t != tInt && v.t != tConst) {
			die(s.Pos(), "+= and -= are understood on int locals only")
		}
		op := "+"
		if s.Tok == token.SUB_ASSIGN {
			op = "-"
		}
		return guardLines(g, c.panicV, d) + fmt.Sprintf("%slet %s := %s %s %s in\n", ind(d), id.Name, id.Name, op, atom(v.s)) + k(e, d)
	}
	die(s.Pos(), "assignment operator %s is not understood", s.Tok)
	return ""
}

// cond: a decision tree for the condition x.  The bounds tests of an operand of && or || are made
// only where Go evaluates that operand.
func (e *env) cond(x ast.Expr, c *ctx, kt, kf func(d int) string, d int) string {
	x = unparen(x)
	if !hasIndex(x) {
		var g []string
		v := e.expr(x, &g)
		if v.t != tBool {
			die(x.Pos(), "a condition must be boolean")
		}
		return fmt.Sprintf("%sif %s then\n%s%selse\n%s", ind(d), v.s, kt(d+1), ind(d), kf(d+1))
	}
	switch x := x.(type) {
	case *ast.UnaryExpr:
		if x.Op == token.NOT {
			return e.cond(x.X, c, kf, kt, d)
		}
	case *ast.BinaryExpr:
		switch x.Op {
		case token.LOR:
			return e.cond(x.X, c, kt, func(d2 int) string { return e.cond(x.Y, c, kt, kf, d2) }, d)
		case token.LAND:
			return e.cond(x.X, c, func(d2 int) string { return e.cond(x.Y, c, kt, kf, d2) }, kf, d)
		}
	}
	var g []string
	v := e.expr(x, &g)
	if v.t != tBool {
		die(x.Pos(), "a condition must be boolean")
	}
	return guardLines(g, c.panicV, d) + fmt.Sprintf("%sif %s then\n%s%selse\n%s", ind(d), v.s, kt(d+1), ind(d), kf(d+1))
}

func (e *env) ifStmt(s *ast.IfStmt, c *ctx, k kont, d int) string {
	outer := e
	if s.Init != nil {
		// the scope of the init statement is the if statement
		return e.stmt(s.Init, c, func(e2 *env, d2 int) string {
			t := *s
			t.Init = nil
			return e2.ifStmt(&t, c, func(_ *env, d3 int) string { return k(outer, d3) }, d2)
		}, d)
	}
	var elseL []ast.Stmt
	switch el := s.Else.(type) {
	case nil:
	case *ast.BlockStmt:
		elseL = el.List
	case *ast.IfStmt:
		elseL = []ast.Stmt{el}
	default:
		die(s.Pos(), "this else is not understood")
	}
	if !jumps(s.Body.List) && !jumps(elseL) {
		// no jump out of the branches: they compute new values of the locals they assign, then the
		// rest follows once
		vs := e.assigned(append(append([]ast.Stmt{}, s.Body.List...), elseL...))
		if len(vs) == 0 {
			die(s.Pos(), "an if statement that assigns nothing is not understood")
		}
		inner := &ctx{fn: c.fn, panicV: "None"}
		done := func(_ *env, d2 int) string { return fmt.Sprintf("%sSome %s\n", ind(d2), tuple(vs)) }
		tree := e.cond(s.Cond, inner,
			func(d2 int) string { return e.block(s.Body.List, inner, done, d2) },
			func(d2 int) string { return e.block(elseL, inner, done, d2) }, d+2)
		tree = strings.TrimSuffix(strings.TrimPrefix(tree, ind(d+2)), "\n")
		out := fmt.Sprintf("%smatch (%s) with\n%s| None => %s\n%s| Some %s =>\n", ind(d), tree, ind(d), c.panicV, ind(d), tuple(vs))
		out += k(e, d+2)
		out += ind(d) + "end\n"
		return out
	}
	return e.cond(s.Cond, c,
		func(d2 int) string { return e.block(s.Body.List, c, k, d2) },
		func(d2 int) string { return e.block(elseL, c, k, d2) }, d)
}

func (e *env) switchStmt(s *ast.SwitchStmt, c *ctx, k kont, d int) string {
	outer := e
	if s.Init != nil {
		return e.stmt(s.Init, c, func(e2 *env, d2 int) string {
			t := *s
			t.Init = nil
			return e2.switchStmt(&t, c, func(_ *env, d3 int) string { return k(outer, d3) }, d2)
		}, d)
	}
	// break inside the switch continues after it
	after := func(_ *env, d2 int) string { return k(outer, d2) }
	inner := &ctx{fn: c.fn, panicV: c.panicV, ret: c.ret, brk: after, cont: c.cont}
	out := ""
	tagZ := ""
	if s.Tag != nil {
		var g []string
		v := e.expr(s.Tag, &g)
		if !isNum(v.t) || v.t == tConst {
			die(s.Tag.Pos(), "the tag of a switch must be a byte, int or rune expression")
		}
		out += guardLines(g, c.panicV, d)
		out += fmt.Sprintf("%slet tag := %s in\n", ind(d), v.s)
		if v.t == tByte {
			tagZ = "bz tag"
		} else {
			tagZ = "tag"
		}
	}
	var def *ast.CaseClause
	seen := map[int64]bool{}
	first := true
	for _, cl := range s.Body.List {
		cc := cl.(*ast.CaseClause)
		for _, b := range cc.Body {
			if br, ok := b.(*ast.BranchStmt); ok && br.Tok == token.FALLTHROUGH {
				die(br.Pos(), "fallthrough is not understood")
			}
		}
		if cc.List == nil {
			if def != nil {
				die(cc.Pos(), "two default clauses")
			}
			def = cc
			continue
		}
		var tests []string
		for _, x := range cc.List {
			if hasIndex(x) {
				die(x.Pos(), "an index expression in a case is not understood")
			}
			var g []string
			v := e.expr(x, &g)
			if s.Tag != nil {
				if v.t != tConst {
					die(x.Pos(), "the cases of a switch with a tag must be constants")
				}
				if seen[v.cv] {
					die(x.Pos(), "duplicate case %d", v.cv)
				}
				seen[v.cv] = true
				tests = append(tests, fmt.Sprintf("(%s =? %s)", tagZ, v.s))
			} else {
				if v.t != tBool {
					die(x.Pos(), "the cases of a switch without a tag must be conditions")
				}
				tests = append(tests, atom(v.s))
			}
		}
		kw := "else if"
		if first {
			kw = "if"
			first = false
		}
		out += fmt.Sprintf("%s%s %s then\n", ind(d), kw, strings.Join(tests, " || "))
		out += e.block(cc.Body, inner, after, d+1)
	}
	var defBody []ast.Stmt
	if def != nil {
		defBody = def.Body
	}
	if first {
		return out + e.block(defBody, inner, after, d)
	}
	out += ind(d) + "else\n"
	out += e.block(defBody, inner, after, d+1)
	return out
}

// for v < len(x) { ... }: a step function and a fuelled driver
func (e *env) forStmt(s *ast.ForStmt, c *ctx, k kont, d int) string {
	if c.panicV != c.fn.topPanic {
		die(s.Pos(), "a loop inside a loop body or inside an if without jumps is not understood")
	}
	if s.Init != nil || s.Post != nil || s.Cond == nil {
		die(s.Pos(), "only for loops of the form `for cond { ... }` are understood")
	}
	cmp, ok := unparen(s.Cond).(*ast.BinaryExpr)
	var fuelOf string
	if ok && cmp.Op == token.LSS {
		if call, ok := unparen(cmp.Y).(*ast.CallExpr); ok && len(call.Args) == 1 {
			if f, ok := call.Fun.(*ast.Ident); ok && f.Name == "len" {
				if a, ok := unparen(call.Args[0]).(*ast.Ident); ok && e.typeOf(a) == tBytes {
					if _, ok := unparen(cmp.X).(*ast.Ident); ok {
						fuelOf = a.Name
					}
				}
			}
		}
	}
	if fuelOf == "" || hasIndex(s.Cond) {
		die(s.Cond.Pos(), "the loop condition must be of the form v < len(x)")
	}
	if c.fn.fuelV == "" {
		die(s.Pos(), "this function has no outcome for a loop that runs out of fuel")
	}
	var g []string
	cv := e.expr(s.Cond, &g)
	state := e.assigned(s.Body.List)
	if len(state) == 0 {
		die(s.Pos(), "a loop that assigns no local declared before it is not understood")
	}
	isState := map[string]bool{}
	for _, n := range state {
		isState[n] = true
	}
	var ro []string
	for _, n := range e.used(s.Cond, s.Body) {
		if !isState[n] {
			ro = append(ro, n)
		}
	}
	for _, n := range state {
		if n == fuelOf {
			die(s.Pos(), "the loop assigns %s, whose length bounds the loop", fuelOf)
		}
	}
	c.fn.nloops++
	stepN := fmt.Sprintf("%s_step%d", c.fn.prefix, c.fn.nloops)
	loopN := fmt.Sprintf("%s_loop%d", c.fn.prefix, c.fn.nloops)
	stTy := e.tupleType(state)
	next := func(_ *env, d2 int) string { return fmt.Sprintf("%sSNext %s\n", ind(d2), tuple(state)) }
	body := &ctx{fn: c.fn, panicV: "SPanic",
		ret:  func(x *ast.ReturnStmt, e2 *env) string { return "SRet " + atom(c.fn.retValue(x, e2)) },
		brk:  func(_ *env, d2 int) string { return fmt.Sprintf("%sSBreak %s\n", ind(d2), tuple(state)) },
		cont: next}
	text := e.block(s.Body.List, body, next, 1)
	all := append(append([]string{}, ro...), state...)
	def := fmt.Sprintf("(* one execution of the body of the loop `for %s` at %s *)\n", exprText(s.Cond), fset.Position(s.Pos()).String()[strings.LastIndex(fset.Position(s.Pos()).String(), "/")+1:])
	def += fmt.Sprintf("Definition %s %s : step %s %s :=\n%s.\n\n", stepN, e.params(all), stTy, c.fn.resTy, strings.TrimSuffix(text, "\n"))
	def += fmt.Sprintf("(* the loop: condition, body, again *)\nFixpoint %s (fuel : nat) %s : loopres %s %s :=\n", loopN, e.params(all), stTy, c.fn.resTy)
	def += "  match fuel with\n  | O => LFuel\n  | S fuel =>\n"
	def += fmt.Sprintf("      if %s then\n        match %s %s with\n", cv.s, stepN, strings.Join(all, " "))
	def += "        | SPanic => LPanic\n        | SRet v => LRet v\n"
	def += fmt.Sprintf("        | SBreak %s => LDone %s\n", tuple(state), tuple(state))
	def += fmt.Sprintf("        | SNext %s => %s fuel %s\n        end\n", tuple(state), loopN, strings.Join(all, " "))
	def += fmt.Sprintf("      else LDone %s\n  end.\n", tuple(state))
	c.fn.defs = append(c.fn.defs, def)
	if c.ret == nil {
		die(s.Pos(), "a loop is not understood here")
	}
	out := fmt.Sprintf("%smatch %s (S (length %s)) %s with\n", ind(d), loopN, fuelOf, strings.Join(all, " "))
	out += fmt.Sprintf("%s| LPanic => %s\n%s| LFuel => %s\n%s| LRet v => %s\n", ind(d), c.panicV, ind(d), c.fn.fuelV, ind(d), "v")
	out += fmt.Sprintf("%s| LDone %s =>\n", ind(d), tuple(state))
	out += k(e, d+2)
	out += ind(d) + "end\n"
	return out
}

// for _, c := range <slice> { ... }: a step function and a recursion over the elements
func (e *env) rangeStmt(s *ast.RangeStmt, c *ctx, k kont, d int) string {
	if c.panicV != c.fn.topPanic {
		die(s.Pos(), "a loop inside a loop body or inside an if without jumps is not understood")
	}
	if s.Tok != token.DEFINE || s.Value == nil {
		die(s.Pos(), "only `for _, c := range <[]byte>` is understood")
	}
	if kid, ok := s.Key.(*ast.Ident); !ok || kid.Name != "_" {
		die(s.Pos(), "only `for _, c := range <[]byte>` is understood")
	}
	vid, ok := s.Value.(*ast.Ident)
	if !ok {
		die(s.Pos(), "only `for _, c := range <[]byte>` is understood")
	}
	var g []string
	rng := e.expr(s.X, &g)
	if rng.t != tBytes {
		die(s.X.Pos(), "range over something that is not a []byte")
	}
	state := e.assigned(s.Body.List)
	if len(state) == 0 {
		die(s.Pos(), "a loop that assigns no local declared before it is not understood")
	}
	isState := map[string]bool{}
	for _, n := range state {
		isState[n] = true
	}
	var ro []string
	for _, n := range e.used(s.Body) {
		if !isState[n] {
			ro = append(ro, n)
		}
	}
	// the range expression is evaluated once, before the loop: the body may not write to it
	for _, n := range e.used(s.X) {
		if isState[n] {
			die(s.Pos(), "the loop assigns %s, which is ranged over", n)
		}
	}
	c.fn.nloops++
	stepN := fmt.Sprintf("%s_step%d", c.fn.prefix, c.fn.nloops)
	loopN := fmt.Sprintf("%s_loop%d", c.fn.prefix, c.fn.nloops)
	stTy := e.tupleType(state)
	eb := e.declare(vid, tByte)
	next := func(_ *env, d2 int) string { return fmt.Sprintf("%sSNext %s\n", ind(d2), tuple(state)) }
	body := &ctx{fn: c.fn, panicV: "SPanic",
		ret:  func(x *ast.ReturnStmt, e2 *env) string { return "SRet " + atom(c.fn.retValue(x, e2)) },
		brk:  func(_ *env, d2 int) string { return fmt.Sprintf("%sSBreak %s\n", ind(d2), tuple(state)) },
		cont: next}
	text := eb.block(s.Body.List, body, next, 1)
	def := fmt.Sprintf("(* one execution of the body of the loop `for _, %s := range %s` *)\n", vid.Name, exprText(s.X))
	def += fmt.Sprintf("Definition %s %s (%s : byte) %s : step %s %s :=\n%s.\n\n", stepN, e.params(ro), vid.Name, e.params(state), stTy, c.fn.resTy, strings.TrimSuffix(text, "\n"))
	def += fmt.Sprintf("(* the loop over the elements l of the slice, in order *)\nFixpoint %s %s (l : bytes) %s : loopres %s %s :=\n", loopN, e.params(ro), e.params(state), stTy, c.fn.resTy)
	def += fmt.Sprintf("  match l with\n  | [] => LDone %s\n  | %s :: l =>\n", tuple(state), vid.Name)
	def += fmt.Sprintf("      match %s %s %s %s with\n", stepN, strings.Join(ro, " "), vid.Name, strings.Join(state, " "))
	def += "      | SPanic => LPanic\n      | SRet v => LRet v\n"
	def += fmt.Sprintf("      | SBreak %s => LDone %s\n", tuple(state), tuple(state))
	def += fmt.Sprintf("      | SNext %s => %s %s l %s\n      end\n  end.\n", tuple(state), loopN, strings.Join(ro, " "), strings.Join(state, " "))
	for strings.Contains(def, "  (") || strings.Contains(def, "1  ") {
		def = strings.ReplaceAll(strings.ReplaceAll(def, "  (", " ("), "1  ", "1 ")
	}
	c.fn.defs = append(c.fn.defs, def)
	if c.ret == nil {
		die(s.Pos(), "a loop is not understood here")
	}
	out := guardLines(g, c.panicV, d)
	out += strings.ReplaceAll(fmt.Sprintf("%smatch %s %s %s %s with\n", ind(d), loopN, strings.Join(ro, " "), atom(rng.s), strings.Join(state, " ")), loopN+"  ", loopN+" ")
	out += fmt.Sprintf("%s| LPanic => %s\n%s| LFuel => %s\n%s| LRet v => v\n", ind(d), c.panicV, ind(d), c.panicV, ind(d))
	out += fmt.Sprintf("%s| LDone %s =>\n", ind(d), tuple(state))
	out += k(e, d+2)
	out += ind(d) + "end\n"
	return out
}
