// gridcheck prints a Coq file that compares the hand-written models of Utf16Rune.v with
// utf8.EncodeRune, utf16.IsSurrogate and utf16.DecodeRune of the Go standard library on a grid of
// values (evidence for the trusted models, not part of the proof).
//
//	go run ./gridcheck > /tmp/U16Grid.v && coqc -Q /verif/coq JP /tmp/U16Grid.v
package main

import (
	"fmt"
	"sort"
	"strings"
	"unicode/utf16"
	"unicode/utf8"
)

func blist(b []byte) string {
	p := make([]string, len(b))
	for i, x := range b {
		p[i] = fmt.Sprintf("x%02x", x)
	}
	return "[" + strings.Join(p, "; ") + "]"
}

func z(n int64) string {
	if n < 0 {
		return fmt.Sprintf("(%d)", n)
	}
	return fmt.Sprintf("%d", n)
}

func main() {
	set := map[int64]bool{}
	add := func(v int64) {
		if v >= -(1<<31) && v < 1<<31 {
			set[v] = true
		}
	}
	for v := int64(-5); v <= 300; v++ {
		add(v)
	}
	for k := 0; k <= 31; k++ {
		for d := int64(-3); d <= 3; d++ {
			add(int64(1)<<uint(k) + d)
		}
	}
	for _, c := range []int64{0x7f, 0x80, 0x7ff, 0x800, 0xd7ff, 0xd800, 0xdbff, 0xdc00, 0xdfff, 0xe000, 0xfffd, 0xffff, 0x10000, 0x10ffff, 0x110000, 0x7fffffff} {
		for d := int64(-3); d <= 3; d++ {
			add(c + d)
		}
	}
	for v := int64(0); v < 0x120000; v += 251 {
		add(v)
	}
	add(-(1 << 31))
	var grid []int64
	for v := range set {
		grid = append(grid, v)
	}
	sort.Slice(grid, func(i, j int) bool { return grid[i] < grid[j] })

	fmt.Println("From JP Require Import Bytes Strings Utf8Rune Utf16Rune.")
	fmt.Println("Local Open Scope Z_scope.")
	var enc, sur []string
	for _, v := range grid {
		buf := make([]byte, 4)
		n := utf8.EncodeRune(buf, rune(v))
		enc = append(enc, fmt.Sprintf("(%s, %s)", z(v), blist(buf[:n])))
		sur = append(sur, fmt.Sprintf("(%s, %v)", z(v), utf16.IsSurrogate(rune(v))))
	}
	fmt.Printf("Definition enc_grid : list (Z * bytes) := [%s].\n", strings.Join(enc, "; "))
	fmt.Printf("Definition sur_grid : list (Z * bool) := [%s].\n", strings.Join(sur, "; "))
	fmt.Println("Example enc_ok : forallb (fun p => bseq (encode_rune_z (fst p)) (snd p)) enc_grid = true.\nProof. vm_compute. reflexivity. Qed.")
	fmt.Println("Example sur_ok : forallb (fun p => Bool.eqb (is_surrogate_z (fst p)) (snd p)) sur_grid = true.\nProof. vm_compute. reflexivity. Qed.")

	// EncodeRune into short slices: panic or not, surrounding bytes unchanged
	var at []string
	for _, v := range []int64{0x41, 0xe9, 0x20ac, 0x1f600, 0xd800, -1} {
		for room := 0; room <= 4; room++ {
			b := []byte{1, 2, 3, 4, 5, 6, 7}[:2+room]
			res := "None"
			func() {
				defer func() { recover() }()
				c := append([]byte{}, b...)
				n := utf8.EncodeRune(c[2:], rune(v))
				res = fmt.Sprintf("Some (%s, %d)", blist(c), n)
			}()
			at = append(at, fmt.Sprintf("encode_at %s 2 %s = %s", blist(b), z(v), res))
		}
	}
	fmt.Printf("Example at_ok : %s.\nProof. vm_compute. repeat split. Qed.\n", strings.Join(at, " /\\\n  "))

	pg := []int64{-1, 0, 0x41, 0xd7ff, 0xd800, 0xd801, 0xd83d, 0xdbfe, 0xdbff, 0xdc00, 0xdc01, 0xde00, 0xdffe, 0xdfff, 0xe000, 0xe001, 0xfffd, 0xffff, 0x10000, 0x10ffff, 0x110000,
		0xd900, 0xda00, 0xdb00, 0xdd00, 0xdf00, 0xd7fe, 0xe002, 1, 2, 0x7f, 0x80, 0x7ff, 0x800, 0xfffc, 0xfffe, 0x10001, 0x7fffffff, -2, -(1 << 31)}
	var pr []string
	for _, a := range pg {
		for _, b := range pg {
			pr = append(pr, fmt.Sprintf("(%s, %s, %s)", z(a), z(b), z(int64(utf16.DecodeRune(rune(a), rune(b))))))
		}
	}
	fmt.Printf("Definition pair_grid : list (Z * Z * Z) := [%s].\n", strings.Join(pr, "; "))
	fmt.Println("Example pair_ok : forallb (fun p => decode_pair (fst (fst p)) (snd (fst p)) =? snd p) pair_grid = true.\nProof. vm_compute. reflexivity. Qed.")
	fmt.Printf("(* %d runes, %d pairs *)\n", len(grid), len(pr))
}
