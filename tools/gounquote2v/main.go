// gounquote2v translates the JSON string decoder of the forked codec of evanphx/json-patch,
//
//	func getu4(s []byte) rune
//	func unquoteBytes(s []byte) (t []byte, ok bool)            (v5/internal/json/decode.go)
//
// into Gallina.  It emits (the names of the Go locals are kept as the names of the Coq binders)
//
//	getu4_step1 c r, getu4_loop1 l r       the body of `for _, c := range s[2:6]` and the loop over the elements
//	getu4_gen s : option Z                 getu4; None is a panic (an index or slice expression out of range)
//	unquote_step1 s r, unquote_loop1       the first loop of unquoteBytes (looking for something to decode)
//	unquote_step2 s r w b, unquote_loop2   the second loop (decoding into the buffer b at the write index w)
//	unquote_full_gen s : uq_res            unquoteBytes on the whole literal, quotes included:
//	                                       UOk t (t, true) | UFalse (nil, false) | UPanic | UFuel
//
// Reading of the Go code (this is what is trusted, together with this program):
//   - A []byte is a Coq list of bytes of exactly the slice's LENGTH; capacities are not modelled.  Every
//     index expression x[i] is guarded by 0 <= i < len x, every slice expression x[a:b] by
//     0 <= a <= b <= len x (Go allows b <= cap x for a slice: the translation panics at least as often as
//     the code), make([]byte, n) by 0 <= n.  A failed test is the outcome UPanic (SPanic / None inside a
//     loop body or getu4).  In a condition the tests of the right operand of && and || are made only where
//     Go evaluates that operand (a decision tree is emitted).
//   - The output buffer is a byte list of the ALLOCATED length: make_buf n is n zero bytes, b[w] = x is
//     store b w x behind the test w < len b, copy(dst, src) overwrites the first min(len dst, len src)
//     bytes of dst and yields that number, utf8.EncodeRune(b[w:], r) is Utf16Rune.encode_at b w r behind
//     the test of the slice expression: it PANICS (None) when fewer bytes than the encoding needs remain.
//     Slices are values in the translation.  That is sound here because the only slices written to are
//     locals made by make in the function (checked), and an assignment x = y between slices is accepted
//     only as the last statement of y's block (checked), so no two live names share a written array.
//     The result `s` of the early return aliases the argument in Go; the translation returns its bytes.
//   - utf8.DecodeRune, utf8.EncodeRune, utf16.IsSurrogate, utf16.DecodeRune are NOT translated: the
//     generated code calls decode_rune (Utf8Rune.v), encode_at, is_surrogate_z, decode_pair (Utf16Rune.v),
//     hand-written models.  utf8.RuneSelf = 128, utf8.UTFMax = 4, utf8.RuneError =
//     unicode.ReplacementChar = 65533 are the values of the standard library (emitted as numbers).
//   - byte locals are Coq bytes; byte arithmetic (c - '0', c - 'a' + 10) is emitted with Go's uint8
//     wrap-around after every operation: zb (bz c - 97) is (c - 97) mod 256.  int and rune arithmetic
//     (+, -, * on Z) is emitted WITHOUT wrap-around: indices stay below 2*len(s)+16 and getu4's r below
//     16^4 * 256.
//   - for v < len(x) { ... } becomes a step function (outcomes SPanic | SNext st | SBreak st | SRet v over
//     the locals st that the body assigns) and a driver with fuel length x + 1 (LFuel when it runs out:
//     UFuel); for _, c := range e { ... } becomes a step function and a structural recursion over the
//     elements of e, which is evaluated once.  Nested loops are refused.
//   - switch without tag: the cases in source order, default last wherever it stands (Go semantics);
//     switch with a tag: the tag is evaluated once, cases are constants (duplicates refused); break in a
//     switch continues after it; no fallthrough.
//   - the named results t, ok of unquoteBytes are never assigned or read (checked): a bare return is
//     (nil, false) = UFalse; return x, true is UOk x; any other return is refused.
//   - an if statement without return / break / continue inside computes the new values of the locals it
//     assigns (match (if ...) with None => panic | Some (...) => rest); with one, the rest of the block is
//     emitted in both branches.  Shadowing of a local by a nested declaration is refused.  A local called
//     nb, bn, bz, zb, B, cont or replacement (names of Bytes.v / Strings.v) gets an underscore appended.
//
// The translator understands exactly the forms it meets in the two functions (see expr.go, stmt.go) and
// fails loudly (exit 2, file:line) on anything else.  The output file is written only if its content
// changes.
//
// usage: gounquote2v <path of v5/internal/json/decode.go> <output .v file>
package main

import (
	"bytes"
	"fmt"
	"go/ast"
	"go/parser"
	"go/printer"
	"go/token"
	"os"
	"path/filepath"
	"strings"
)

var fset = token.NewFileSet()

func die(pos token.Pos, format string, a ...interface{}) {
	fmt.Fprintf(os.Stderr, "gounquote2v: %s: %s\n", fset.Position(pos), fmt.Sprintf(format, a...))
	os.Exit(2)
}

func fatal(format string, a ...interface{}) {
	fmt.Fprintf(os.Stderr, "gounquote2v: %s\n", fmt.Sprintf(format, a...))
	os.Exit(2)
}

func exprText(x ast.Expr) string {
	var b bytes.Buffer
	printer.Fprint(&b, fset, x)
	return strings.ReplaceAll(b.String(), "*)", "* )")
}

const prelude = `(* generated by gounquote2v from v5/internal/json/decode.go: getu4 and unquoteBytes -- do not edit.

   utf8.DecodeRune, utf8.EncodeRune, utf16.IsSurrogate, utf16.DecodeRune are MODELLED, not translated:
   decode_rune (Utf8Rune.v), encode_at, is_surrogate_z, decode_pair (Utf16Rune.v) are hand-written.
   A []byte is a list of exactly its length; the output buffer b is a list of the ALLOCATED length and w
   the write index.  UPanic / SPanic / None: an index or slice expression out of range, or EncodeRune
   without enough room.  Byte arithmetic wraps around modulo 256 (zb); int and rune arithmetic is emitted
   without wrap-around.  The reading of the Go code is described in tools/gounquote2v/main.go. *)
From Coq Require Import ZArith List Bool.
From Coq.Strings Require Import Byte.
From JP Require Import Bytes Utf8Rune Utf16Rune.
Import ListNotations.
Local Open Scope Z_scope.

Definition len (s : bytes) : Z := Z.of_nat (length s).                       (* len(s) *)
Definition at_ (s : bytes) (i : Z) : byte := nth (Z.to_nat i) s x00.         (* s[i], guarded by in_idx *)
Definition slice (s : bytes) (a b : Z) : bytes :=                            (* s[a:b], guarded by in_slice *)
  firstn (Z.to_nat (b - a)) (skipn (Z.to_nat a) s).
Definition in_idx (i n : Z) : bool := (0 <=? i) && (i <? n).
Definition in_slice (a b n : Z) : bool := (0 <=? a) && (a <=? b) && (b <=? n).
Definition zb (z : Z) : byte := nb (Z.to_N (z mod 256)).                     (* conversion to uint8 *)
Definition make_buf (n : Z) : bytes := repeat x00 (Z.to_nat n).              (* make([]byte, n), guarded by 0 <= n *)
Definition store (b : bytes) (i : Z) (x : byte) : bytes :=                   (* b[i] = x, guarded by in_idx *)
  firstn (Z.to_nat i) b ++ x :: skipn (Z.to_nat (i + 1)) b.
Definition copy_n (dst src : bytes) : Z := Z.min (len dst) (len src).        (* the value of copy(dst, src) *)
Definition copy_into (dst src : bytes) : bytes :=                            (* dst after copy(dst, src) *)
  firstn (Z.to_nat (copy_n dst src)) src ++ skipn (Z.to_nat (copy_n dst src)) dst.

(* one execution of a loop body: panic, go on with the new values of the assigned locals, break with
   them, or return from the function *)
Inductive step (St R : Type) : Type := SPanic | SNext (st : St) | SBreak (st : St) | SRet (v : R).
Inductive loopres (St R : Type) : Type := LPanic | LFuel | LDone (st : St) | LRet (v : R).
Arguments SPanic {St R}.  Arguments SNext {St R} st.  Arguments SBreak {St R} st.  Arguments SRet {St R} v.
Arguments LPanic {St R}.  Arguments LFuel {St R}.  Arguments LDone {St R} st.  Arguments LRet {St R} v.

(* the outcome of unquoteBytes: (t, true) | (nil, false) | a run-time panic | out of fuel *)
Inductive uq_res : Type := UOk (t : bytes) | UFalse | UPanic | UFuel.

`

// the functions translated so far, by Go name
var translated = map[string]*fnInfo{}

// retValue: the outcome of the function for a return statement
func (f *fnInfo) retValue(x *ast.ReturnStmt, e *env) string {
	switch f.decl.Name.Name {
	case "getu4":
		if len(x.Results) != 1 {
			die(x.Pos(), "return of %d values in getu4", len(x.Results))
		}
		if hasIndex(x.Results[0]) {
			die(x.Pos(), "an index expression in a return of getu4 is not understood")
		}
		var g []string
		v := e.expr(x.Results[0], &g)
		if v.t != tRune && v.t != tConst {
			die(x.Pos(), "getu4 must return a rune")
		}
		return "Some " + atom(v.s)
	case "unquoteBytes":
		switch len(x.Results) {
		case 0:
			return "UFalse"
		case 2:
			if id, ok := x.Results[1].(*ast.Ident); !ok || id.Name != "true" || e.has("true") {
				die(x.Pos(), "the second result must be the constant true (or a bare return)")
			}
			var g []string
			v := e.expr(x.Results[0], &g)
			if v.t != tBytes {
				die(x.Pos(), "the first result must be a []byte")
			}
			s := "UOk " + atom(v.s)
			for i := len(g) - 1; i >= 0; i-- {
				s = fmt.Sprintf("if negb (%s) then UPanic else %s", g[i], s)
			}
			return s
		}
		die(x.Pos(), "this return is not understood")
	}
	die(x.Pos(), "internal: unknown function")
	return ""
}

func isByteSlice(x ast.Expr) bool {
	at, ok := x.(*ast.ArrayType)
	if !ok || at.Len != nil {
		return false
	}
	id, ok := at.Elt.(*ast.Ident)
	return ok && id.Name == "byte"
}

func genFunction(fd *ast.FuncDecl) string {
	f := &fnInfo{decl: fd}
	name := fd.Name.Name
	if fd.Recv != nil || fd.Type.TypeParams != nil || fd.Body == nil {
		die(fd.Pos(), "%s must be a plain function with a body", name)
	}
	ps := fd.Type.Params.List
	if len(ps) != 1 || len(ps[0].Names) != 1 || !isByteSlice(ps[0].Type) {
		die(fd.Pos(), "%s must have exactly one parameter of type []byte", name)
	}
	rs := fd.Type.Results
	var entry, panicV string
	switch name {
	case "getu4":
		if rs == nil || len(rs.List) != 1 || len(rs.List[0].Names) != 0 {
			die(fd.Pos(), "getu4 must return one unnamed rune")
		}
		if id, ok := rs.List[0].Type.(*ast.Ident); !ok || id.Name != "rune" {
			die(fd.Pos(), "getu4 must return one unnamed rune")
		}
		f.prefix, f.resTy, f.fuelV, entry, panicV = "getu4", "(option Z)", "", "getu4_gen", "None"
	case "unquoteBytes":
		if rs == nil || len(rs.List) != 2 || len(rs.List[0].Names) != 1 || len(rs.List[1].Names) != 1 || !isByteSlice(rs.List[0].Type) {
			die(fd.Pos(), "unquoteBytes must have the results (t []byte, ok bool)")
		}
		if id, ok := rs.List[1].Type.(*ast.Ident); !ok || id.Name != "bool" {
			die(fd.Pos(), "unquoteBytes must have the results (t []byte, ok bool)")
		}
		// the named results are never mentioned: a bare return yields their zero values (nil, false)
		named := map[string]bool{rs.List[0].Names[0].Name: true, rs.List[1].Names[0].Name: true}
		ast.Inspect(fd.Body, func(n ast.Node) bool {
			if id, ok := n.(*ast.Ident); ok && named[id.Name] {
				die(id.Pos(), "the named result %s is mentioned in the body: a bare return would not be (nil, false)", id.Name)
			}
			return true
		})
		f.prefix, f.resTy, f.fuelV, entry, panicV = "unquote", "uq_res", "UFuel", "unquote_full_gen", "UPanic"
	}
	f.topPanic = panicV
	// no function literals, goto, labels, defer, go, recover anywhere
	ast.Inspect(fd.Body, func(n ast.Node) bool {
		switch n.(type) {
		case *ast.FuncLit, *ast.LabeledStmt, *ast.DeferStmt, *ast.GoStmt, *ast.SelectStmt, *ast.TypeSwitchStmt:
			die(n.Pos(), "%T is not understood", n)
		}
		return true
	})
	// Go locals whose names are functions of Bytes.v / Utf8Rune.v get an underscore appended
	soft := map[string]bool{"nb": true, "bn": true, "bz": true, "zb": true, "B": true, "replacement": true, "cont": true}
	ast.Inspect(fd.Body, func(n ast.Node) bool {
		if id, ok := n.(*ast.Ident); ok && soft[strings.TrimSuffix(id.Name, "_")] && strings.HasSuffix(id.Name, "_") {
			die(id.Pos(), "local name %s clashes with the renaming of %s", id.Name, strings.TrimSuffix(id.Name, "_"))
		}
		return true
	})
	ast.Inspect(fd.Body, func(n ast.Node) bool {
		if id, ok := n.(*ast.Ident); ok && soft[id.Name] {
			id.Name += "_"
		}
		return true
	})
	for k := range madeByMake {
		delete(madeByMake, k)
	}
	e := (&env{types: map[string]typ{}}).declare(ps[0].Names[0], tBytes)
	top := &ctx{fn: f, panicV: panicV, ret: func(x *ast.ReturnStmt, e2 *env) string { return f.retValue(x, e2) }}
	body := e.stmts(fd.Body.List, top, func(_ *env, _ int) string {
		die(fd.Body.Rbrace, "%s can fall off its end", name)
		return ""
	}, 1)
	var b strings.Builder
	fmt.Fprintf(&b, "(* ---------------------------------------------------------------- func %s *)\n\n", name)
	for _, d := range f.defs {
		b.WriteString(d)
		b.WriteString("\n")
	}
	fmt.Fprintf(&b, "(* the function %s *)\nDefinition %s %s : %s :=\n%s.\n\n", name, entry, e.params(e.names), strings.Trim(f.resTy, "()"), strings.TrimSuffix(body, "\n"))
	translated[name] = f
	return b.String()
}

// the names the translation relies on must mean what they mean in the universe block and the imports
func checkNames(src string, f *ast.File) {
	want := map[string]string{"utf8": "unicode/utf8", "utf16": "unicode/utf16", "unicode": "unicode"}
	got := map[string]string{}
	for _, im := range f.Imports {
		p := strings.Trim(im.Path.Value, "\"")
		n := filepath.Base(p)
		if im.Name != nil {
			n = im.Name.Name
		}
		got[n] = p
	}
	for n, p := range want {
		if got[n] != p {
			fatal("%s: the name %s is not the import %q", src, n, p)
		}
	}
	dir := filepath.Dir(src)
	ents, err := os.ReadDir(dir)
	if err != nil {
		fatal("%v", err)
	}
	universe := map[string]bool{"len": true, "copy": true, "make": true, "rune": true, "byte": true, "int": true, "bool": true, "true": true, "false": true,
		"utf8": true, "utf16": true, "unicode": true}
	count := map[string]int{}
	for _, en := range ents {
		n := en.Name()
		if en.IsDir() || !strings.HasSuffix(n, ".go") || strings.HasSuffix(n, "_test.go") {
			continue
		}
		g, err := parser.ParseFile(fset, filepath.Join(dir, n), nil, 0)
		if err != nil {
			fatal("%v", err)
		}
		for _, d := range g.Decls {
			switch d := d.(type) {
			case *ast.FuncDecl:
				if d.Recv == nil {
					if universe[d.Name.Name] {
						die(d.Pos(), "the package declares %s", d.Name.Name)
					}
					count[d.Name.Name]++
				}
			case *ast.GenDecl:
				for _, sp := range d.Specs {
					switch sp := sp.(type) {
					case *ast.ValueSpec:
						for _, id := range sp.Names {
							if universe[id.Name] || id.Name == "getu4" || id.Name == "unquoteBytes" {
								die(id.Pos(), "the package declares %s", id.Name)
							}
						}
					case *ast.TypeSpec:
						if universe[sp.Name.Name] || sp.Name.Name == "getu4" {
							die(sp.Pos(), "the package declares %s", sp.Name.Name)
						}
					}
				}
			}
		}
	}
	for _, n := range []string{"getu4", "unquoteBytes"} {
		if count[n] != 1 {
			fatal("%s: %d declarations of func %s in the package", src, count[n], n)
		}
	}
}

func writeIfChanged(path string, data []byte) {
	old, err := os.ReadFile(path)
	if err == nil && bytes.Equal(old, data) {
		return
	}
	if err := os.WriteFile(path, data, 0o644); err != nil {
		fatal("%v", err)
	}
}

func main() {
	if len(os.Args) != 3 {
		fmt.Fprintln(os.Stderr, "usage: gounquote2v <path of v5/internal/json/decode.go> <output .v file>")
		os.Exit(2)
	}
	src := os.Args[1]
	f, err := parser.ParseFile(fset, src, nil, 0)
	if err != nil {
		fatal("%v", err)
	}
	checkNames(src, f)
	fns := map[string]*ast.FuncDecl{}
	for _, d := range f.Decls {
		if fd, ok := d.(*ast.FuncDecl); ok && fd.Recv == nil {
			fns[fd.Name.Name] = fd
		}
	}
	var out strings.Builder
	out.WriteString(prelude)
	for _, n := range []string{"getu4", "unquoteBytes"} {
		fd := fns[n]
		if fd == nil {
			fatal("%s: func %s not found", src, n)
		}
		out.WriteString(genFunction(fd))
	}
	writeIfChanged(os.Args[2], []byte(strings.TrimRight(out.String(), "\n")+"\n"))
}
