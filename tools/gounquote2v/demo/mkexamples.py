#!/usr/bin/env python3
# mkexamples.py <harness binary>: Coq Examples whose right-hand sides are what the Go function returns
import subprocess, sys
BS = b'\x5c'
def u(h): return BS + b'u' + h.encode()
ex = [
 ('empty', b'', True),
 ('plain', b'hello, world', True),
 ('escapes', b'a' + BS + b'"' + BS + BS + BS + b'/' + BS + b'b' + BS + b'f' + BS + b'n' + BS + b'r' + BS + b't' + b'z', True),
 ('escape_apostrophe', b'a' + BS + b"'" + b'z', False),
 ('u_bmp', u('0041') + u('00e9') + u('20ac') + u('ffff') + u('0000'), True),
 ('u_pair', b'x' + u('d83d') + u('de00') + b'y', True),
 ('u_pair_bounds', u('d800') + u('dc00') + u('dbff') + u('dfff'), True),
 ('u_hex_upper_lower', u('D83D') + u('dE00') + u('00E9') + u('AbCd') + u('abcd') + u('ABCD') + u('09af') + u('09AF'), True),
 ('u_lone_high_end', b'x' + u('d83d'), True),
 ('u_lone_low_end', b'x' + u('de00'), True),
 ('u_lone_high_mid', u('d83d') + b'xyz', True),
 ('u_lone_low_mid', u('de00') + b'xyz', True),
 ('u_high_then_bmp', u('d83d') + u('0041'), True),
 ('u_high_high_low', u('d83d') + u('d83d') + u('de00'), True),
 ('u_low_high', u('de00') + u('d83d'), True),
 ('u_high_then_backslash_n', u('dbff') + BS + b'n', True),
 ('u_high_then_short', u('d83d') + BS + b'u12', False),
 ('u_d7ff_e000', u('d7ff') + u('e000'), True),
 ('u_bad_hex_g', u('00g0'), False),
 ('u_bad_hex_G', u('00G0'), False),
 ('u_bad_hex_colon', u('00:0'), False),
 ('u_bad_hex_slash', u('00/0'), False),
 ('u_bad_hex_at', u('00@0'), False),
 ('u_bad_hex_backquote', u('00`0'), False),
 ('u_bad_hex_high_byte', BS + b'u00' + b'\xe9' + b'0', False),
 ('u_truncated', BS + b'u12', False),
 ('bad_escape', b'a' + BS + b'x', False),
 ('backslash_at_end', b'abc' + BS, False),
 ('control', b'a\x01b', False),
 ('inner_quote', b'a"b', False),
 ('utf8_valid_only', 'hé € \U0001f600'.encode() + b'\xef\xbf\xbd', True),
 ('utf8_valid_after_escape', BS + b'n' + 'hé € \U0001f600'.encode(), True),
 ('illformed', b'\xff \xc0\x80 \xe2\x80 \xed\xa0\x80 \xf4\x90\x80\x80 \xe2', True),
 ('regrow_5_bad_long_tail', b'\x80' * 5 + b'abcdefghijklmnopqrstuvwxyz0123456789', True),
 ('regrow_12_bad_tail', b'\xff' * 12 + b'tail tail tail tail tail tail tail tail', True),
 ('regrow_twice', b'\xc0' * 40 + u('d83d') + u('de00'), True),
 ('regrow_bad_then_escapes', b'\x80' * 6 + (BS + b'n') * 20 + b'\x80' * 3, True),
]
def blist(b): return '[' + '; '.join('x%02x' % c for c in b) + ']'
lits = [(n, b'"' + body + b'"', body, sb) for (n, body, sb) in ex]
lits += [('no_quotes', b'abc', None, False), ('one_quote', b'"', None, False), ('nil', b'', None, False),
         ('no_closing_quote', b'"abc', None, False), ('no_opening_quote', b'abc"', None, False)]
out = subprocess.run([sys.argv[1]] + [l.hex() for (_, l, _, _) in lits], capture_output=True, text=True, check=True).stdout.split('\n')
for (n, l, body, sb), line in zip(lits, out):
    f = line.split()
    assert f[0] == 'in:' + l.hex()
    if f[1] == 'OK':
        res = bytes.fromhex(f[2]) if len(f) > 2 else b''
        rhs = 'UOk ' + blist(res)
    elif f[1] == 'FALSE':
        rhs = 'UFalse'
    else:
        raise SystemExit('Go panics on ' + n + ': ' + line)
    print('Example ex_%s :\n  unquote_full_gen %s =\n  %s.\nProof. vm_compute. reflexivity. Qed.\n' % (n, blist(l), rhs))
    if sb and f[1] == 'OK':
        print('Example ex_model_%s :\n  unquote %s =\n  %s.\nProof. vm_compute. reflexivity. Qed.\n' % (n, blist(body), blist(res)))
