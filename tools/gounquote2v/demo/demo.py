#!/usr/bin/env python3
# demo.py: seeded edits of a scratch copy of decode.go -> translator -> scratch UnquoteGen.v -> UnquoteTie.v
# (the robustness demonstration of gounquote2v; nothing under /repo or /verif/coq is written).  Setup:
#   export GOFLAGS=-mod=mod GOPROXY=off GOSUMDB=off GOTOOLCHAIN=local
#   (cd /verif/tools/gounquote2v && go build -o /tmp/gounquote2v .)
#   mkdir -p /tmp/unquotedemo && cd /tmp/unquotedemo && cp -r /repo/v5/internal/json ./json
#   cp /verif/tools/gounquote2v/demo/*.py . && python3 mkharness.py /repo/v5/internal/json/decode.go h0
#   (cd h0 && go build -o ../h0.bin .) && python3 demo.py          # then: rm -rf /tmp/unquotedemo
# mkexamples.py ./h0.bin prints the Examples of UnquoteTie.v from what the Go function returns.
import subprocess, re, os, sys, shutil
ORIG = open('/repo/v5/internal/json/decode.go').read()
REGROW = '''		if w >= len(b)-2*utf8.UTFMax {
			nb := make([]byte, (len(b)+utf8.UTFMax)*2)
			copy(nb, b[0:w])
			b = nb
		}
'''
def must(s, old, new, count=1):
    assert s.count(old) == count, (old, s.count(old))
    return s.replace(old, new)
def mut_a(s):
    s = must(s, REGROW, '')
    ind = REGROW.replace('\n\t\t', '\n\t\t\t')
    ind = '\t' + ind
    return must(s, "\t\tdefault:\n\t\t\trr, size := utf8.DecodeRune(s[r:])\n\t\t\tr += size\n", "\t\tdefault:\n" + ind + "\t\t\trr, size := utf8.DecodeRune(s[r:])\n\t\t\tr += size\n")
def mut_b(s):
    return must(s, "if utf16.IsSurrogate(rr) {", "if rr >= 0xd800 && rr < 0xdbff {")
def mut_c(s):
    old = """		case '0' <= c && c <= '9':
			c = c - '0'
		case 'a' <= c && c <= 'f':
			c = c - 'a' + 10
		case 'A' <= c && c <= 'F':
			c = c - 'A' + 10
		default:
			return -1
		}
"""
    new = """		case c <= '9':
			c = c - '0'
		case c < 'F':
			c = c - 'A' + 10
		default:
			c = c - 'a' + 10
		}
"""
    return must(s, old, new)
def mut_d(s):
    old = """					rr1 := getu4(s[r:])
					if dec := utf16.DecodeRune(rr, rr1); dec != unicode.ReplacementChar {
						// A valid pair; consume.
						r += 6
						w += utf8.EncodeRune(b[w:], dec)
						break
					}
"""
    new = """					if s[r] == '\\\\' {
						rr1 := getu4(s[r:])
						if dec := utf16.DecodeRune(rr, rr1); dec != unicode.ReplacementChar {
							// A valid pair; consume.
							r += 6
							w += utf8.EncodeRune(b[w:], dec)
							break
						}
					}
"""
    return must(s, old, new)
def fn_span(s, name):
    m = re.search(r'^func %s\(.*?^}\n' % name, s, re.S | re.M)
    return m.start(), m.end()
def harm_rename(s):
    a, b = fn_span(s, 'unquoteBytes')
    f = s[a:b]
    for old, new in [('w', 'wr'), ('size', 'n'), ('rr1', 'lo'), ('dec', 'cp'), ('b', 'buf')]:
        f = re.sub(r'(?<![\w\'\\])%s(?![\w\'])' % old, new, f)
    return s[:a] + f + s[b:]
def harm_plus(s):
    return must(s, "r += 6\n", "r = r + 6\n", 2)
def harm_swap(s):
    b_arm = "\t\t\tcase 'b':\n\t\t\t\tb[w] = '\\b'\n\t\t\t\tr++\n\t\t\t\tw++\n"
    f_arm = "\t\t\tcase 'f':\n\t\t\t\tb[w] = '\\f'\n\t\t\t\tr++\n\t\t\t\tw++\n"
    t_arm = "\t\t\tcase 't':\n\t\t\t\tb[w] = '\\t'\n\t\t\t\tr++\n\t\t\t\tw++\n"
    s = must(s, b_arm + f_arm, f_arm + b_arm)
    # and the default clause moved from the first to the last position of the escape switch
    d = "\t\t\tdefault:\n\t\t\t\treturn\n"
    s = must(s, "\t\t\tswitch s[r] {\n" + d, "\t\t\tswitch s[r] {\n")
    u_end = "\t\t\t\tw += utf8.EncodeRune(b[w:], rr)\n\t\t\t}\n"
    return must(s, u_end, u_end[:-len("\t\t\t}\n")] + d + "\t\t\t}\n")
CASES = [
 ('orig', lambda s: s, None),
 ('a_regrow_in_default_only', mut_a, ['22' + '80'*5 + '61'*36 + '22']),
 ('b_surrogate_bound', mut_b, ['22' + '5c7564626666' + '5c7564633030' + '22']),
 ('c_hex_cascade', mut_c, ['22' + '5c7530303a30' + '22', '22' + '5c7530302f30' + '22']),
 ('d_lookahead_no_length_test', mut_d, ['22' + '5c7564383364' + '22']),
 ('h1_rename_locals', harm_rename, None),
 ('h2_r_eq_r_plus_6', harm_plus, None),
 ('h3_swap_case_arms_default_last', harm_swap, None),
]
env = dict(os.environ, GOFLAGS='-mod=mod', GOPROXY='off', GOSUMDB='off', GOTOOLCHAIN='local')
tie = open('/verif/coq/UnquoteTie.v').read().replace('From JP.gen Require Import UnquoteGen.', 'From Demo Require Import UnquoteGen.')
assert 'From Demo' in tie
only = sys.argv[1:]
for name, f, witnesses in CASES:
    if only and name not in only: continue
    print('=====', name)
    src = f(ORIG)
    open('/tmp/unquotedemo/json/decode.go', 'w').write(src)
    r = subprocess.run(['gofmt', '-l', '/tmp/unquotedemo/json/decode.go'], capture_output=True, text=True)
    r = subprocess.run(['go', 'vet', './json/'], cwd='/tmp/unquotedemo', capture_output=True, text=True, env=env)
    if witnesses:
        subprocess.run(['python3', 'mkharness.py', 'json/decode.go', 'hm'], cwd='/tmp/unquotedemo', check=True)
        subprocess.run(['go', 'build', '-o', '../hm.bin', '.'], cwd='/tmp/unquotedemo/hm', check=True, env=env)
        for b in ('h0.bin', 'hm.bin'):
            o = subprocess.run(['./' + b] + witnesses, cwd='/tmp/unquotedemo', capture_output=True, text=True).stdout
            print('  go', 'original' if b == 'h0.bin' else 'mutant  ', '|', o.strip().replace('\n', ' | '))
    shutil.rmtree('/tmp/unquotedemo/coq', ignore_errors=True); os.makedirs('/tmp/unquotedemo/coq')
    r = subprocess.run(['/tmp/gounquote2v', '/tmp/unquotedemo/json/decode.go', '/tmp/unquotedemo/coq/UnquoteGen.v'], capture_output=True, text=True)
    if r.returncode != 0:
        print('  translator REFUSES rc=%d: %s' % (r.returncode, r.stderr.strip())); continue
    same = open('/tmp/unquotedemo/coq/UnquoteGen.v').read() == open('/verif/coq/gen/UnquoteGen.v').read()
    print('  translator ok; generated file', 'IDENTICAL to the real one' if same else 'differs from the real one')
    open('/tmp/unquotedemo/coq/UnquoteTie.v', 'w').write(tie)
    for v in ('UnquoteGen.v', 'UnquoteTie.v'):
        r = subprocess.run('ulimit -v 8000000; timeout 300 coqc -Q /verif/coq JP -Q . Demo ' + v, shell=True, cwd='/tmp/unquotedemo/coq', capture_output=True, text=True)
        msg = (r.stdout + r.stderr)
        if r.returncode != 0:
            m = re.search(r'line (\d+)', msg)
            ln = int(m.group(1)) if m else 0
            lines = tie.split('\n') if v == 'UnquoteTie.v' else open('/tmp/unquotedemo/coq/UnquoteGen.v').read().split('\n')
            # the enclosing lemma
            k = ln - 1
            while k > 0 and not re.match(r'(Lemma|Theorem|Example|Corollary|Definition)', lines[k]): k -= 1
            err = [l for l in msg.split('\n') if l.startswith('Error')]
            print('  %s FAILS rc=%d at line %d in: %s' % (v, r.returncode, ln, lines[k][:110]))
            print('     ', (err[0] if err else msg[:200])[:160])
            break
        else:
            print('  %s compiles rc=0' % v)
