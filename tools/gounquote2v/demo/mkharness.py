#!/usr/bin/env python3
# mkharness.py <decode.go> <outdir>: a standalone main package with getu4 and unquoteBytes of that file
import sys, re, os
src = open(sys.argv[1]).read()
def fn(name):
    m = re.search(r'^func %s\(.*?^}\n' % name, src, re.S | re.M)
    return m.group(0)
out = sys.argv[2]
os.makedirs(out, exist_ok=True)
open(os.path.join(out, 'go.mod'), 'w').write('module harness\n\ngo 1.18\n')
open(os.path.join(out, 'main.go'), 'w').write('''package main

import (
	"encoding/hex"
	"fmt"
	"os"
	"unicode"
	"unicode/utf16"
	"unicode/utf8"
)

var _ = unicode.ReplacementChar
var _ = utf16.IsSurrogate
var _ = utf8.RuneSelf

''' + fn('getu4') + '\n' + fn('unquoteBytes') + '''
func run(in []byte) (res string) {
	defer func() {
		if e := recover(); e != nil {
			res = fmt.Sprintf("PANIC %v", e)
		}
	}()
	t, ok := unquoteBytes(in)
	if !ok {
		return "FALSE"
	}
	return "OK " + hex.EncodeToString(t)
}

func main() {
	for _, a := range os.Args[1:] {
		in, err := hex.DecodeString(a)
		if err != nil {
			panic(err)
		}
		fmt.Println("in:"+a, run(in))
	}
}
''')
