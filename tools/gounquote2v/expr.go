package main

import (
	"fmt"
	"go/ast"
	"go/token"
	"strconv"
	"strings"
)

// ---------------------------------------------------------------- types and environments

type typ int

const (
	tInt typ = iota
	tRune
	tByte
	tBytes
	tBool
	tConst // untyped integer constant
)

func (t typ) coq() string {
	switch t {
	case tInt, tRune:
		return "Z"
	case tByte:
		return "byte"
	case tBytes:
		return "bytes"
	case tBool:
		return "bool"
	}
	return "?"
}

// env: the Go locals in scope, in order of declaration.  Environments are persistent (declare
// returns a new one): a continuation may be emitted twice.
type env struct {
	names []string
	types map[string]typ
}

func (e *env) has(n string) bool { _, ok := e.types[n]; return ok }

func (e *env) declare(id *ast.Ident, t typ) *env {
	checkName(id)
	if e.has(id.Name) {
		die(id.Pos(), "local %s is declared twice in nested scopes (shadowing is not translated)", id.Name)
	}
	n := &env{names: append(append([]string{}, e.names...), id.Name), types: map[string]typ{}}
	for k, v := range e.types {
		n.types[k] = v
	}
	n.types[id.Name] = t
	return n
}

func (e *env) typeOf(id *ast.Ident) typ {
	t, ok := e.types[id.Name]
	if !ok {
		die(id.Pos(), "unknown identifier %s", id.Name)
	}
	return t
}

var reserved = map[string]bool{}

func init() {
	for _, w := range strings.Fields(`len at_ slice store make_buf copy_into copy_n in_idx in_slice
		step loopres fuel tag enc_n l v st match with end if then else let in fun fix as return Some None
		true false negb andb orb length bytes byte Z nat list option decode_rune encode_at encode_rune_z
		is_surrogate_z decode_pair SPanic SNext SBreak SRet LPanic LFuel LDone LRet UOk UFalse UPanic UFuel
		getu4_gen unquote_full_gen forall exists Definition Fixpoint Type Prop Set`) {
		reserved[w] = true
	}
}

func checkName(id *ast.Ident) {
	n := id.Name
	if reserved[n] || strings.HasPrefix(n, "x") && len(n) == 3 || strings.Contains(n, "_step") || strings.Contains(n, "_loop") || n == "_" {
		die(id.Pos(), "local name %s clashes with a name of the generated file: rename is refused", n)
	}
	for _, c := range n {
		if !(c >= 'a' && c <= 'z' || c >= 'A' && c <= 'Z' || c >= '0' && c <= '9' || c == '_') {
			die(id.Pos(), "local name %s: not an ASCII identifier", n)
		}
	}
}

// ---------------------------------------------------------------- expressions

// val: a translated expression.  s is a Coq term of type Z (tInt, tRune, tConst), byte (tByte),
// bytes (tBytes) or bool (tBool).
type val struct {
	s  string
	t  typ
	cv int64 // value of a tConst
}

func unparen(x ast.Expr) ast.Expr {
	for {
		p, ok := x.(*ast.ParenExpr)
		if !ok {
			return x
		}
		x = p.X
	}
}

func zlit(n int64) string {
	if n < 0 {
		return fmt.Sprintf("(%d)", n)
	}
	return fmt.Sprintf("%d", n)
}

func atom(s string) string {
	if strings.ContainsAny(s, " ") && !(strings.HasPrefix(s, "(") && strings.HasSuffix(s, ")") && balanced(s[1:len(s)-1])) {
		return "(" + s + ")"
	}
	return s
}

func balanced(s string) bool {
	d := 0
	for _, c := range s {
		if c == '(' {
			d++
		} else if c == ')' {
			d--
			if d < 0 {
				return false
			}
		}
	}
	return d == 0
}

// the constants of the standard library that the two functions use
var pkgConst = map[string]int64{
	"utf8.RuneSelf":           128,
	"utf8.UTFMax":             4,
	"utf8.RuneError":          65533,
	"unicode.ReplacementChar": 65533,
}

func selName(x ast.Expr) string {
	s, ok := x.(*ast.SelectorExpr)
	if !ok {
		return ""
	}
	p, ok := s.X.(*ast.Ident)
	if !ok {
		return ""
	}
	return p.Name + "." + s.Sel.Name
}

// asZ: the numeric value of a byte / int / rune / constant expression
func asZ(v val) string {
	if v.t == tByte {
		return "bz " + atom(v.s)
	}
	return v.s
}

// asByte: a Coq byte for a byte-typed expression or a constant 0..255
func asByte(v val, pos token.Pos) string {
	switch v.t {
	case tByte:
		return v.s
	case tConst:
		if v.cv < 0 || v.cv > 255 {
			die(pos, "constant %d does not fit a byte", v.cv)
		}
		return fmt.Sprintf("x%02x", v.cv)
	}
	die(pos, "a byte expression is expected here")
	return ""
}

func isNum(t typ) bool { return t == tInt || t == tRune || t == tByte || t == tConst }

// expr translates an expression; the bounds tests of its index expressions are appended to g in the
// order of evaluation.  && and || are accepted here only if their right operand needs no test
// (otherwise the caller builds a decision tree, see cond).
func (e *env) expr(x ast.Expr, g *[]string) val {
	x = unparen(x)
	switch x := x.(type) {
	case *ast.Ident:
		switch x.Name {
		case "true", "false":
			if !e.has(x.Name) {
				return val{s: x.Name, t: tBool}
			}
		}
		return val{s: x.Name, t: e.typeOf(x)}
	case *ast.BasicLit:
		switch x.Kind {
		case token.INT:
			n, err := strconv.ParseInt(x.Value, 0, 64)
			if err != nil {
				die(x.Pos(), "integer literal %s", x.Value)
			}
			return val{s: zlit(n), t: tConst, cv: n}
		case token.CHAR:
			r, _, _, err := strconv.UnquoteChar(x.Value[1:len(x.Value)-1], '\'')
			if err != nil {
				die(x.Pos(), "character literal %s", x.Value)
			}
			return val{s: zlit(int64(r)), t: tConst, cv: int64(r)}
		}
		die(x.Pos(), "literal %s is not understood", x.Value)
	case *ast.SelectorExpr:
		if n, ok := pkgConst[selName(x)]; ok {
			return val{s: zlit(n), t: tConst, cv: n}
		}
		die(x.Pos(), "selector %s is not understood", selName(x))
	case *ast.UnaryExpr:
		switch x.Op {
		case token.NOT:
			v := e.expr(x.X, g)
			if v.t != tBool {
				die(x.Pos(), "! of a non-boolean")
			}
			return val{s: "negb " + atom(v.s), t: tBool}
		case token.SUB:
			v := e.expr(x.X, g)
			if v.t == tConst {
				return val{s: zlit(-v.cv), t: tConst, cv: -v.cv}
			}
			if v.t == tInt || v.t == tRune {
				return val{s: "- " + atom(v.s), t: v.t}
			}
		}
		die(x.Pos(), "unary operator %s is not understood here", x.Op)
	case *ast.IndexExpr:
		id, ok := unparen(x.X).(*ast.Ident)
		if !ok || e.typeOf(id) != tBytes {
			die(x.Pos(), "only a []byte local can be indexed")
		}
		i := e.expr(x.Index, g)
		if i.t != tInt && i.t != tConst {
			die(x.Index.Pos(), "index must be an int expression")
		}
		*g = append(*g, fmt.Sprintf("in_idx %s (len %s)", atom(i.s), id.Name))
		return val{s: fmt.Sprintf("at_ %s %s", id.Name, atom(i.s)), t: tByte}
	case *ast.SliceExpr:
		return val{s: e.sliceExpr(x, g), t: tBytes}
	case *ast.CallExpr:
		if id, ok := x.Fun.(*ast.Ident); ok && !e.has(id.Name) {
			switch id.Name {
			case "len":
				if len(x.Args) == 1 {
					a := e.expr(x.Args[0], g)
					if a.t == tBytes {
						return val{s: "len " + atom(a.s), t: tInt}
					}
				}
				die(x.Pos(), "len of something that is not a []byte")
			case "rune":
				if len(x.Args) == 1 {
					a := e.expr(x.Args[0], g)
					if a.t == tByte || a.t == tRune {
						return val{s: asZ(a), t: tRune}
					}
					if a.t == tConst {
						return val{s: a.s, t: tRune}
					}
				}
				die(x.Pos(), "rune(...) of this operand is not understood")
			}
		}
		switch selName(x.Fun) {
		case "utf16.IsSurrogate":
			if len(x.Args) == 1 {
				a := e.expr(x.Args[0], g)
				if a.t == tRune || a.t == tConst {
					return val{s: "is_surrogate_z " + atom(a.s), t: tBool}
				}
			}
		case "utf16.DecodeRune":
			if len(x.Args) == 2 {
				a, b := e.expr(x.Args[0], g), e.expr(x.Args[1], g)
				if (a.t == tRune || a.t == tConst) && (b.t == tRune || b.t == tConst) {
					return val{s: fmt.Sprintf("decode_pair %s %s", atom(a.s), atom(b.s)), t: tRune}
				}
			}
		}
		die(x.Pos(), "this call is not understood as an expression")
	case *ast.BinaryExpr:
		switch x.Op {
		case token.LAND, token.LOR:
			a := e.expr(x.X, g)
			var gb []string
			b := e.expr(x.Y, &gb)
			if len(gb) > 0 {
				die(x.Pos(), "internal: index expression in the right operand of %s outside a condition", x.Op)
			}
			if a.t != tBool || b.t != tBool {
				die(x.Pos(), "%s of non-booleans", x.Op)
			}
			op := "&&"
			if x.Op == token.LOR {
				op = "||"
			}
			return val{s: fmt.Sprintf("%s %s %s", atom(a.s), op, atom(b.s)), t: tBool}
		case token.LSS, token.LEQ, token.GTR, token.GEQ, token.EQL, token.NEQ:
			a, b := e.expr(x.X, g), e.expr(x.Y, g)
			if !isNum(a.t) || !isNum(b.t) || !compatible(a.t, b.t) {
				die(x.Pos(), "comparison of operands of these types is not understood")
			}
			op := map[token.Token]string{token.LSS: "<?", token.LEQ: "<=?", token.GTR: ">?", token.GEQ: ">=?", token.EQL: "=?", token.NEQ: "=?"}[x.Op]
			s := fmt.Sprintf("%s %s %s", atom(asZ(a)), op, atom(asZ(b)))
			if x.Op == token.NEQ {
				s = "negb (" + s + ")"
			}
			return val{s: s, t: tBool}
		case token.ADD, token.SUB, token.MUL:
			a, b := e.expr(x.X, g), e.expr(x.Y, g)
			if !isNum(a.t) || !isNum(b.t) || !compatible(a.t, b.t) {
				die(x.Pos(), "arithmetic on operands of these types is not understood")
			}
			op := x.Op.String()
			if a.t == tConst && b.t == tConst {
				var n int64
				switch x.Op {
				case token.ADD:
					n = a.cv + b.cv
				case token.SUB:
					n = a.cv - b.cv
				default:
					n = a.cv * b.cv
				}
				return val{s: fmt.Sprintf("%s %s %s", atom(a.s), op, atom(b.s)), t: tConst, cv: n}
			}
			t := a.t
			if t == tConst {
				t = b.t
			}
			s := fmt.Sprintf("%s %s %s", atom(asZ(a)), op, atom(asZ(b)))
			if t == tByte {
				// Go uint8 arithmetic wraps around modulo 256
				return val{s: "zb (" + s + ")", t: tByte}
			}
			// int and rune arithmetic is emitted without wrap-around, see the header
			return val{s: s, t: t}
		}
		die(x.Pos(), "operator %s is not understood", x.Op)
	}
	die(x.Pos(), "expression of kind %T is not understood", x)
	return val{}
}

func compatible(a, b typ) bool { return a == b || a == tConst || b == tConst }

// sliceExpr: x[lo:hi], x[lo:], x[:hi] of a []byte local, with its bounds test
func (e *env) sliceExpr(x *ast.SliceExpr, g *[]string) string {
	if x.Slice3 {
		die(x.Pos(), "three-index slices are not understood")
	}
	id, ok := unparen(x.X).(*ast.Ident)
	if !ok || e.typeOf(id) != tBytes {
		die(x.Pos(), "only a []byte local can be sliced")
	}
	lo, hi := "0", "len "+id.Name
	if x.Low != nil {
		v := e.expr(x.Low, g)
		if v.t != tInt && v.t != tConst {
			die(x.Low.Pos(), "slice bound must be an int expression")
		}
		lo = v.s
	}
	if x.High != nil {
		v := e.expr(x.High, g)
		if v.t != tInt && v.t != tConst {
			die(x.High.Pos(), "slice bound must be an int expression")
		}
		hi = v.s
	}
	*g = append(*g, fmt.Sprintf("in_slice %s %s (len %s)", atom(lo), atom(hi), id.Name))
	return fmt.Sprintf("slice %s %s %s", id.Name, atom(lo), atom(hi))
}

// hasIndex: does the expression contain an index or slice expression (something that can panic)?
func hasIndex(x ast.Expr) bool {
	found := false
	ast.Inspect(x, func(n ast.Node) bool {
		switch n.(type) {
		case *ast.IndexExpr, *ast.SliceExpr:
			found = true
		}
		return !found
	})
	return found
}
