module gounquote2v

go 1.18
