module goidx2v

go 1.18
