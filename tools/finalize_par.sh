#!/bin/bash
# final pass with the seeded changes evaluated in parallel snapshots (vp run --with-repo), the clean-tree pass here.
# usage: tools/finalize_par.sh [groups]   (default 3); everything must be committed first (snapshots are of the committed tree)
cd "$(dirname "$0")/.."
G=${1:-3}
git status --porcelain | grep -v '^??' | grep -q . && { echo "commit first"; exit 2; }
git -C /repo status --porcelain | grep -q . && { echo "/repo not clean"; exit 2; }
rm -rf /tmp/seedresults; mkdir -p /tmp/seedresults
ids=($(ls seeded))
n=${#ids[@]}
for g in $(seq 0 $((G-1))); do
  part=()
  for i in $(seq $g $G $((n-1))); do part+=("${ids[$i]}"); done
  vp run --with-repo -- bash -c "export VERIF_REPO=\$VP_RUN_REPO; tools/evalseeds.sh ${part[*]}" 2>&1 | tail -1
  sleep 240
done
tools/finalize.sh
echo "clean pass done; waiting for the seed runs"
while vp runs 2>/dev/null | grep -q "running"; do sleep 60; done
for s in "${ids[@]}"; do [ -f /tmp/seedresults/$s.json ] && cp /tmp/seedresults/$s.json seeded/$s/result.json; done
ls /tmp/seedresults | wc -l
python3 tools/mkdesign.py; python3 tools/mkmanifest.py
python3 - <<'PY'
import json, glob
bad = []
for f in sorted(glob.glob('seeded/*/result.json')):
    r = json.load(open(f))
    for pid, v in r.items():
        if not (isinstance(v, dict) and v.get('caught')):
            bad.append((f, str(v)[:160]))
print('not caught:', len(bad))
for b in bad: print(b)
PY
