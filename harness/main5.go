//go:build verif

// Harness for the v5 module: runs the real exported functions on generated cases and writes one
// line per case with the inputs and what was observed (all byte strings hex-encoded).
package main

import (
	"bufio"
	"bytes"
	"encoding/hex"
	stdjson "encoding/json"
	"errors"
	"flag"
	"fmt"
	"io"
	"math/rand"
	"os"
	"os/exec"
	"path/filepath"
	"reflect"
	"strings"
	"sync"
	"syscall"
	"time"

	jsonpatch "github.com/evanphx/json-patch/v5"
	ijson "github.com/evanphx/json-patch/v5/internal/json"
)

type applyObs struct {
	decOK   bool
	status  string // ok err panic timeout
	out     []byte
	outNil  bool
	errbits string
	errmsg  string
	// the slice the PREVIOUS Apply call returned still holds the bytes it held when it was returned
	prevIntact bool
}

// the result of the previous Apply call: the slice as returned, and a private copy made at once
var heldOut, heldCopy []byte

func errBits(err error) string {
	if err == nil {
		return "00000"
	}
	var ce *jsonpatch.AccumulatedCopySizeError
	return b2s(errors.Is(err, jsonpatch.ErrTestFailed)) + b2s(errors.Is(err, jsonpatch.ErrMissing)) +
		b2s(errors.As(err, &ce)) + b2s(errors.Is(err, jsonpatch.ErrInvalidIndex)) + b2s(errors.Is(err, jsonpatch.ErrInvalid))
}

// guarded runs f under recover and a watchdog
func guarded(f func()) (status string) {
	done := make(chan string, 1)
	go func() {
		defer func() {
			if r := recover(); r != nil {
				done <- "panic"
			}
		}()
		f()
		done <- "ok"
	}()
	select {
	case s := <-done:
		return s
	case <-time.After(30 * time.Second):
		return "timeout"
	}
}

type aopts struct {
	globals                 bool // use Apply/ApplyIndent with the package variables instead of per-call options
	neg, allow, ensure, esc bool
	limit                   int64
	indent                  string
}

// One *ApplyOptions per distinct setting, REUSED across all calls of the run (as a caller holding an
// options value would): Apply must not keep per-call state in it, whether the earlier calls
// succeeded or failed.
type optKey struct {
	neg, allow, ensure, esc bool
	limit                   int64
}

var sharedOpts = map[optKey]*jsonpatch.ApplyOptions{}
var sharedOptsMu sync.Mutex

func (a aopts) mk() *jsonpatch.ApplyOptions {
	sharedOptsMu.Lock()
	defer sharedOptsMu.Unlock()
	k := optKey{a.neg, a.allow, a.ensure, a.esc, a.limit}
	if o, ok := sharedOpts[k]; ok {
		return o
	}
	o := a.mkFresh()
	sharedOpts[k] = o
	return o
}

func (a aopts) mkFresh() *jsonpatch.ApplyOptions {
	o := jsonpatch.NewApplyOptions()
	o.SupportNegativeIndices = a.neg
	o.AllowMissingPathOnRemove = a.allow
	o.EnsurePathExistsOnAdd = a.ensure
	o.EscapeHTML = a.esc
	o.AccumulatedCopySizeLimit = a.limit
	return o
}

// noisyGlobals: while a call with explicit per-call options runs, the package-level defaults hold
// contrary values (set per case by the single-goroutine streams)
var noisyGlobals bool

func runApply(doc, patch []byte, a aopts) applyObs {
	var ob applyObs
	pending("apply", kv{"flags", b2s(a.neg) + b2s(a.allow) + b2s(a.ensure) + b2s(a.esc)}, kv{"limit", fmt.Sprint(a.limit)},
		kv{"indent", hx([]byte(a.indent))}, kv{"patch", hx(patch)}, kv{"doc", hx(doc)}, kv{"status", "crash"})
	st := guarded(func() {
		p, err := jsonpatch.DecodePatch(patch)
		if err != nil {
			ob.decOK = false
			if p != nil {
				ob.errmsg = "decode error with non-nil patch"
			}
			return
		}
		ob.decOK = true
		var out []byte
		if a.globals {
			// the package defaults: NewApplyOptions reads them on every Apply/ApplyIndent
			sn, sl := jsonpatch.SupportNegativeIndices, jsonpatch.AccumulatedCopySizeLimit
			jsonpatch.SupportNegativeIndices, jsonpatch.AccumulatedCopySizeLimit = a.neg, a.limit
			out, err = p.ApplyIndent(doc, a.indent)
			jsonpatch.SupportNegativeIndices, jsonpatch.AccumulatedCopySizeLimit = sn, sl
		} else if noisyGlobals {
			// per-call options must win over the package variables whatever those hold
			sn, sl := jsonpatch.SupportNegativeIndices, jsonpatch.AccumulatedCopySizeLimit
			jsonpatch.SupportNegativeIndices, jsonpatch.AccumulatedCopySizeLimit = !a.neg, 3
			out, err = p.ApplyIndentWithOptions(doc, a.indent, a.mk())
			jsonpatch.SupportNegativeIndices, jsonpatch.AccumulatedCopySizeLimit = sn, sl
		} else {
			out, err = p.ApplyIndentWithOptions(doc, a.indent, a.mk())
		}
		ob.prevIntact = bytes.Equal(heldOut, heldCopy)
		heldOut, heldCopy = out, append([]byte(nil), out...)
		ob.out = out
		ob.outNil = out == nil
		if err != nil {
			ob.status = "err"
			ob.errbits = errBits(err)
			ob.errmsg = err.Error()
		} else {
			ob.status = "ok"
			ob.errbits = "00000"
		}
	})
	if st != "ok" {
		ob.status = st
		ob.decOK = true
	}
	if !ob.decOK && ob.status == "" {
		ob.status = "nodec"
	}
	return ob
}

func joinOps(ops []string) []byte { return []byte("[" + strings.Join(ops, ",") + "]") }

// failing index: the shortest prefix that fails, and the error bits of that prefix run
func failIndex(doc []byte, ops []string, a aopts) (int, string) {
	for i := 1; i <= len(ops); i++ {
		ob := runApply(doc, joinOps(ops[:i]), a)
		if ob.status != "ok" {
			return i - 1, ob.errbits
		}
	}
	return -1, "00000"
}

type applyCfg struct {
	name      string
	allow     float64 // probability the option is on
	ensure    float64
	limitMode int // 0: always 0; 1: random small limits
	odd       bool
	dup       bool
	canonical bool
	scalar    bool
	pTestOK   float64
	kinds     []string
	extra     bool    // also run without indent / without tests (C15)
	pRetry    float64 // probability that an inapplicable operation is dropped and regenerated
}

var allKinds = []string{"add", "add", "remove", "replace", "move", "copy", "test", "test"}

func applyStream(cfg applyCfg, n int) {
	defer func() { noisyGlobals = false }()
	for i := 0; i < n; i++ {
		noisyGlobals = chance(0.25)
		a := aopts{neg: chance(0.6), esc: chance(0.5)}
		a.allow = chance(cfg.allow)
		a.ensure = chance(cfg.ensure)
		g := genOpts{depth: 1 + rng.Intn(3), dupKeys: cfg.dup && chance(0.3), canonical: cfg.canonical || chance(0.3), esc: a.esc, ws: chance(0.4), lone: !cfg.canonical && chance(0.2), scalarRoot: cfg.scalar}
		doc := []byte(genDoc(g))
		pg := &patchGen{g: g, odd: cfg.odd, pTestOK: cfg.pTestOK, kinds: cfg.kinds, orig: doc}
		nops := rng.Intn(9)
		if chance(0.05) {
			nops = 0
		}
		var ops []string
		cur, ok := decodeStd(doc)
		failedAt := -1
		for j := 0; j < nops; j++ {
			if !ok {
				break
			}
			ops = append(ops, pg.genOp(cur))
			if failedAt >= 0 {
				continue // one or two operations after the first failure
			}
			ob := runApply(doc, joinOps(ops), aopts{neg: a.neg, allow: a.allow, ensure: a.ensure, esc: a.esc})
			if ob.status != "ok" {
				if chance(cfg.pRetry) {
					ops = ops[:len(ops)-1] // drop the inapplicable operation and try another
					continue
				}
				failedAt = j
				if chance(0.5) {
					nops = j + 1
				} else if nops > j+3 {
					nops = j + 3
				}
				continue
			}
			if c2, ok2 := decodeStd(ob.out); ok2 {
				cur = c2
			}
		}
		bigCopy := false
		if cfg.limitMode == 1 && chance(0.02) {
			// a source of a kilobyte or more that has been walked into, copied, changed below its top
			// level, and copied again: the second copy is measured as the value is THEN
			bigCopy = true
			var ms []string
			for j := 0; j < 24+rng.Intn(20); j++ {
				ms = append(ms, fmt.Sprintf(`"k%02d":%s`, j, pick(`"`+strings.Repeat("v", 25+rng.Intn(30))+`"`, `{"in":[1,2,{"d":"`+strings.Repeat("w", 20)+`"}]}`, `[10,20,30,40]`)))
			}
			doc = []byte(`{"src":{"o":{"x":1},` + strings.Join(ms, ",") + `},"z":[0]}`)
			change := pick(`{"op":"add","path":"/src/o/grown","value":"`+strings.Repeat("g", 40+rng.Intn(300))+`"}`, `{"op":"remove","path":"/src/k03"}`,
				`{"op":"replace","path":"/src/k05","value":null}`, `{"op":"copy","from":"/z","path":"/src/o/zz"}`, `{"op":"remove","path":"/src/o/x"}`)
			ops = []string{pick(`{"op":"test","path":"/src/o/x","value":1}`, `{"op":"add","path":"/src/o/y","value":2}`, `{"op":"copy","from":"/src","path":"/src/o/self"}`),
				`{"op":"copy","from":"/src","path":"/c1"}`, change, `{"op":"copy","from":"/src","path":` + pick(`"/c2"`, `"/z/-"`, `"/c1"`) + `}`}
		}
		if cfg.limitMode == 1 && chance(0.004) {
			// a source of 64 KiB and more that no operation has looked into, copied once or twice
			bigCopy = true
			n := 65536 + rng.Intn(9000) - pick64int(0, 0, 2, 40)
			src := `"` + strings.Repeat(pick("s", "<", "ab"), n)[:n] + `"`
			if chance(0.4) {
				src = `[` + src + `,{"k":1}]`
			}
			doc = []byte(`{"src":` + src + `,"z":0}`)
			ops = []string{`{"op":"copy","from":"/src","path":"/c1"}`}
			if chance(0.4) {
				ops = append(ops, `{"op":"copy","from":"/src","path":"/c2"}`)
			}
		}
		if cfg.limitMode == 1 {
			a.limit = int64(pick64(0, 1, 4, 5, 10, 20, 40, 80, 1000000))
			if bigCopy || chance(0.4) {
				// a limit right at the boundary: the smallest limit under which this patch still succeeds
				// (found by bisection on the library itself), or a little below it
				plain := aopts{neg: a.neg, allow: a.allow, ensure: a.ensure, esc: a.esc}
				if ob := runApply(doc, joinOps(ops), plain); ob.status == "ok" {
					lo, hi := int64(0), int64(1<<20)
					plain.limit = hi
					if ob2 := runApply(doc, joinOps(ops), plain); ob2.status == "ok" {
						for hi-lo > 1 {
							mid := (lo + hi) / 2
							plain.limit = mid
							if ob3 := runApply(doc, joinOps(ops), plain); ob3.status == "ok" {
								hi = mid
							} else {
								lo = mid
							}
						}
						if hi > 1 {
							a.limit = hi - pick64(0, 0, 1, 1, 2)
							if a.limit < 1 {
								a.limit = 1
							}
						}
					}
				}
			}
			if !a.allow && !a.ensure && a.esc && chance(0.3) {
				a.globals = true
			}
		}
		if cfg.extra && chance(0.5) {
			a.indent = pick(" ", "  ", "\t", "    ", " \t")
		}
		if cfg.extra && chance(0.03) {
			// a document nested a few dozen levels deep, indented (a fixed pad of indent units runs out)
			d := 28 + rng.Intn(45)
			var open, close string
			for q := 0; q < d; q++ {
				if chance(0.5) {
					open, close = open+"[", "]"+close
				} else {
					open, close = open+`{"a":`, "}"+close
				}
			}
			doc = []byte(open + pick("1", `"x"`, "[1,2]", `{"k":[]}`) + close)
			ops = []string{pick(`{"op":"test","path":"","value":1}`, `{"op":"add","path":"/zz","value":[{"q":[1]}]}`, `{"op":"add","path":"/0","value":1}`)}[:rng.Intn(2)]
			a.indent = pick(" ", "  ", "\t", "   ")
		}
		if chance(0.03) {
			// an array of records with the same member names in the same order; a member is removed from
			// one record (and maybe added to another): the other records must come out untouched
			nrec, nkey := 3+rng.Intn(3), 4+rng.Intn(4)
			var recs []string
			for r := 0; r < nrec; r++ {
				var ms []string
				for k := 0; k < nkey; k++ {
					ms = append(ms, fmt.Sprintf(`"f%d":%s`, k, pick("1.0", "1e400", `"s"`, "null", fmt.Sprint(r*10+k), "[1]")))
				}
				recs = append(recs, "{"+strings.Join(ms, ",")+"}")
			}
			doc = []byte(`{"rows":[` + strings.Join(recs, ",") + `]}`)
			ops = nil
			for q := 0; q < 1+rng.Intn(3); q++ {
				switch rng.Intn(3) {
				case 0, 1:
					ops = append(ops, fmt.Sprintf(`{"op":"remove","path":"/rows/%d/f%d"}`, rng.Intn(nrec), rng.Intn(nkey-1)))
				default:
					ops = append(ops, fmt.Sprintf(`{"op":"add","path":"/rows/%d/extra%d","value":%d}`, rng.Intn(nrec), q, q))
				}
			}
		}
		patch := joinOps(ops)
		emitApply(cfg.name, doc, ops, patch, a, cfg.extra)
	}
}

// rootNullStream: patches whose earlier operations replace the whole document (by null, a scalar,
// an empty container), followed by operations with short paths, under every option combination
func rootNullStream(n int) {
	paths := []string{"", "/0", "/a", "/-", "/0/a", "/-/a", "/1/0", "/a/b", "/a/0", "/a/-", "/-1", "/-1/a", "/2/b/c", "/", "//"}
	vals := []string{"null", "1", "{}", "[]", `{"a":null}`, `[null]`, `"s"`, `{"a":{"b":1}}`, `[[1]]`}
	for i := 0; i < n; i++ {
		g := genOpts{depth: 1 + rng.Intn(2), scalarRoot: true}
		doc := []byte(pick(genDoc(g), "null", " null ", "{}", "[]", "1"))
		var ops []string
		for j := 0; j < rng.Intn(2); j++ {
			ops = append(ops, fmt.Sprintf(`{"op":"add","path":%s,"value":%s}`, jsonStr(pick(paths...)), pick(vals...)))
		}
		ops = append(ops, fmt.Sprintf(`{"op":%s,"path":"","value":%s}`, jsonStr(pick("replace", "add")), pick("null", "null", "null", "1", "{}", "[]", `"s"`)))
		for j := 0; j < 1+rng.Intn(3); j++ {
			k := pick("add", "add", "remove", "replace", "test", "move", "copy")
			switch k {
			case "move", "copy":
				ops = append(ops, fmt.Sprintf(`{"op":%s,"from":%s,"path":%s}`, jsonStr(k), jsonStr(pick(paths...)), jsonStr(pick(paths...))))
			case "remove":
				ops = append(ops, fmt.Sprintf(`{"op":"remove","path":%s}`, jsonStr(pick(paths...))))
			case "test":
				if chance(0.3) {
					ops = append(ops, fmt.Sprintf(`{"op":"test","path":%s}`, jsonStr(pick(paths...))))
				} else {
					ops = append(ops, fmt.Sprintf(`{"op":"test","path":%s,"value":%s}`, jsonStr(pick(paths...)), pick(vals...)))
				}
			default:
				ops = append(ops, fmt.Sprintf(`{"op":%s,"path":%s,"value":%s}`, jsonStr(k), jsonStr(pick(paths...)), pick(vals...)))
			}
		}
		a := aopts{neg: chance(0.5), allow: chance(0.5), ensure: chance(0.6), esc: chance(0.5)}
		emitApply("apply-rootnull", doc, ops, joinOps(ops), a, false)
	}
}

// deepStream: documents nested right up to the decoder's limit, and patches that copy them into
// themselves (so that the duplicated value or the result nests deeper than the limit) and then
// look inside the copies
func deepStream(n int) {
	for i := 0; i < n; i++ {
		d := int(pick64(9998, 9999, 10000, 10000))
		var doc string
		arrayRoot := chance(0.5)
		if arrayRoot {
			doc = strings.Repeat("[", d) + strings.Repeat("]", d)
		} else if chance(0.5) {
			doc = `{"a":` + strings.Repeat("[", d-1) + strings.Repeat("]", d-1) + `,"k":[1]}`
		} else {
			doc = strings.Repeat(`{"a":`, d-1) + "{}" + strings.Repeat("}", d-1)
		}
		var ops []string
		// duplicate the document (or its big member) into itself one to three times ...
		var last []string
		nc := 1 + rng.Intn(3)
		whole := chance(0.6) // the whole document, twice: the second copy holds the first
		if whole && nc < 2 {
			nc = 2
		}
		for j := 0; j < nc; j++ {
			if arrayRoot {
				src := pick("", "", "/0", "/0/0")
				if whole {
					src = ""
				}
				ops = append(ops, fmt.Sprintf(`{"op":"copy","from":%s,"path":"/-"}`, jsonStr(src)))
				last = append(last, fmt.Sprintf("/%d", j+1))
			} else {
				k := pick("b", "c", "d")
				src := pick("", "", "/a", "/a/a")
				if whole {
					src = ""
					k = []string{"b", "c", "d"}[j%3]
				}
				ops = append(ops, fmt.Sprintf(`{"op":"copy","from":%s,"path":%s}`, jsonStr(src), jsonStr("/"+k)))
				last = append(last, "/"+k)
			}
		}
		// ... then look inside the copies
		for j := 0; j < 1+rng.Intn(2); j++ {
			pth := last[rng.Intn(len(last))] + pick("", "", "/0", "/a", "/1", "/b")
			if whole && j == 0 {
				pth = last[len(last)-1]
			}
			switch rng.Intn(5) {
			case 0, 1:
				ops = append(ops, fmt.Sprintf(`{"op":"test","path":%s,"value":1}`, jsonStr(pth)))
			case 2:
				ops = append(ops, fmt.Sprintf(`{"op":"add","path":%s,"value":1}`, jsonStr(pth+pick("/-", "/z"))))
			case 3:
				ops = append(ops, fmt.Sprintf(`{"op":"remove","path":%s}`, jsonStr(pth+pick("/0", "/a"))))
			default:
				ops = append(ops, fmt.Sprintf(`{"op":"move","from":%s,"path":%s}`, jsonStr(pth), jsonStr(pick("/zz", "/-"))))
			}
		}
		a := aopts{neg: chance(0.7), esc: chance(0.5), limit: pick64(0, 0, 1000000), indent: pick("", "", "", "", "", "", "", "", " ", "\t")}
		if d == 10000 && whole && chance(0.6) {
			// the result nests one level deeper than the codec accepts: with an indent string the call must
			// fail (Indent refuses the text); only the copies, so that nothing else fails first
			ops = ops[:1]
			a.indent = pick(" ", "\t")
			a.limit = 0
		}
		emitApply("apply-deep", []byte(doc), ops, joinOps(ops), a, false)
	}
}

// emptyTokenStream: short sequences of all six operations over pointers with empty reference
// tokens ("/" is the member named "", which the library treats specially) on tiny documents
func emptyTokenStream(n int) {
	paths := []string{"", "/", "/", "/", "//", "//x", "//x", "/a", "/a/", "/bar", "/-", "/0", "/0/"}
	docs := []string{`{}`, `{"a":[1]}`, `[1]`, `{"":1}`, `{"":1,"a":2}`, `{"":{"":[]},"a":{}}`, `{"":[1]}`, `[{"":null}]`}
	vals := []string{"1", "null", "{}", "[]", `{"":1}`, `[[]]`}
	for i := 0; i < n; i++ {
		var ops []string
		for j := 0; j < 2+rng.Intn(4); j++ {
			k := pick("copy", "copy", "move", "move", "add", "test", "remove", "replace")
			switch k {
			case "copy", "move":
				ops = append(ops, fmt.Sprintf(`{"op":%s,"from":%s,"path":%s}`, jsonStr(k), jsonStr(pick(paths...)), jsonStr(pick(paths...))))
			case "remove":
				ops = append(ops, fmt.Sprintf(`{"op":"remove","path":%s}`, jsonStr(pick(paths...))))
			default:
				ops = append(ops, fmt.Sprintf(`{"op":%s,"path":%s,"value":%s}`, jsonStr(k), jsonStr(pick(paths...)), pick(vals...)))
			}
		}
		a := aopts{neg: chance(0.5), allow: chance(0.3), ensure: chance(0.3), esc: chance(0.5)}
		emitApply("apply-empty", []byte(pick(docs...)), ops, joinOps(ops), a, false)
	}
}

func pick64(xs ...int64) int64 { return xs[rng.Intn(len(xs))] }

func emitApply(stream string, doc []byte, ops []string, patch []byte, a aopts, extra bool) {
	ob := runApply(doc, patch, a)
	fields := []kv{{"stream", stream}, {"flags", b2s(a.neg) + b2s(a.allow) + b2s(a.ensure) + b2s(a.esc)}, {"limit", fmt.Sprint(a.limit)},
		{"indent", hx([]byte(a.indent))}, {"patch", hx(patch)}, {"doc", hx(doc)},
		{"dec", b2s(ob.decOK)}, {"status", ob.status}, {"out", hx(ob.out)}, {"outnil", b2s(ob.outNil)}, {"errbits", ob.errbits}}
	if ob.decOK && (ob.status == "ok" || ob.status == "err") && !ob.prevIntact {
		fields = append(fields, kv{"prevbroken", "1"})
	}
	if ob.status == "err" && ops != nil {
		fi, pb := failIndex(doc, ops, a)
		fields = append(fields, kv{"failidx", fmt.Sprint(fi)}, kv{"prefixbits", pb})
	}
	if extra && ob.status == "ok" {
		if a.indent != "" {
			a0 := a
			a0.indent = ""
			ob0 := runApply(doc, patch, a0)
			fields = append(fields, kv{"out0", ob0.status + ":" + hx(ob0.out)})
		}
		// the same patch without its test operations
		var nt []string
		for _, o := range ops {
			if !strings.Contains(o, `"op":"test"`) {
				nt = append(nt, o)
			}
		}
		if len(nt) != len(ops) {
			obn := runApply(doc, joinOps(nt), a)
			fields = append(fields, kv{"outnt", obn.status + ":" + hx(obn.out)})
		}
	}
	if ob.errmsg != "" {
		fields = append(fields, kv{"msg", hx([]byte(ob.errmsg))})
	}
	emit("apply", fields...)
}

// ---------------------------------------------------------------- Equal

func equalStream(n int) {
	for i := 0; i < n; i++ {
		g := genOpts{depth: 1 + rng.Intn(3), ws: chance(0.5), lone: chance(0.1), scalarRoot: true, dupKeys: chance(0.05)}
		a := []byte(genDoc(g))
		var b []byte
		r := rng.Float64()
		switch {
		case r < 0.45:
			if v, ok := decodeStd(a); ok {
				b = []byte(ws(g) + respell(v, g) + ws(g))
			} else {
				b = a
			}
		case r < 0.65:
			// a near copy: one mutation at value level
			if v, ok := decodeStd(a); ok {
				b = []byte(respell(perturb(v), g))
			} else {
				b = a
			}
		case r < 0.7:
			// objects that repeat a member name (the decoder keeps the last value): the same number of
			// name/value pairs, the same or different sets of names
			k1, k2 := spellStr(pick("x", "p", "a"), g), spellStr(pick("y", "q", "b"), g)
			v1, v2 := genValue(g, 1), genValue(g, 1)
			a = []byte("{" + k1 + ":" + v1 + "," + pick(k1+":"+v1, k1+":"+v2, k2+":"+v2) + "}")
			b = []byte("{" + k1 + ":" + pick(v1, v2) + "," + pick(k2+":"+v2, k1+":"+v1, k1+":"+v2) + "}")
			if chance(0.3) {
				a, b = []byte(`{"w":[`+string(a)+`]}`), []byte(`{"w":[`+string(b)+`]}`)
			}
			if chance(0.5) {
				a, b = b, a
			}
		case r < 0.72:
			// a lot of white space around a small (often null) root
			pad := func() string { return strings.Repeat(pick(" ", "\n", "\t", " \r\n"), rng.Intn(120)) }
			root := pick("null", "null", "1", `"s"`, "[]", "{}", "[null]")
			a = []byte(pad() + root + pad())
			b = []byte(pick(root, root, "null", "[]", pad()+root))
			if chance(0.5) {
				a, b = b, a
			}
		case r < 0.8:
			b = []byte(genDoc(g))
		case r < 0.9:
			b = mutate(a)
		default:
			a = randBytes()
			b = a
			if chance(0.5) {
				b = randBytes()
			}
		}
		emitEqual(a, b)
	}
}

// perturb changes one thing in a decoded value
func perturb(v interface{}) interface{} {
	switch x := v.(type) {
	case map[string]interface{}:
		m := map[string]interface{}{}
		for k, e := range x {
			m[k] = e
		}
		if len(m) > 0 && chance(0.7) {
			ks := make([]string, 0, len(m))
			for k := range m {
				ks = append(ks, k)
			}
			sortStrings(ks)
			k := ks[rng.Intn(len(ks))]
			e := m[k]
			{
				if chance(0.5) {
					m[k] = perturb(e)
				} else if chance(0.5) {
					delete(m, k)
				} else {
					m[k] = nil
				}
			}
		} else {
			m["new"] = nil
		}
		return m
	case []interface{}:
		l := append([]interface{}{}, x...)
		if len(l) > 0 && chance(0.7) {
			i := rng.Intn(len(l))
			if chance(0.6) {
				l[i] = perturb(l[i])
			} else {
				l[i] = nil
			}
		} else {
			l = append(l, nil)
		}
		return l
	case nil:
		return pick("x", "")
	case string:
		return perturbString(x)
	case bool:
		return !x
	case stdjson.Number:
		if chance(0.15) {
			return string(x) // the same text as a string
		}
		if n, ok := nearNum[string(x)]; ok && chance(0.6) {
			return stdjson.Number(n)
		}
		return stdjson.Number(string(x) + "1")
	}
	return nil
}

func emitEqual(a, b []byte) {
	pending("equal", kv{"a", hx(a)}, kv{"b", hx(b)}, kv{"status", "crash"})
	var res bool
	st := guarded(func() { res = jsonpatch.Equal(a, b) })
	var res2 bool
	st2 := guarded(func() { res2 = jsonpatch.Equal(b, a) })
	emit("equal", kv{"a", hx(a)}, kv{"b", hx(b)}, kv{"status", st}, kv{"res", b2s(res)}, kv{"status2", st2}, kv{"res2", b2s(res2)})
}

// ---------------------------------------------------------------- merge

type mobs struct {
	status string
	out    []byte
	errk   string
}

func runMerge(mm bool, doc, patch []byte) mobs {
	pending("merge", kv{"mm", b2s(mm)}, kv{"doc", hx(doc)}, kv{"patch", hx(patch)}, kv{"status", "crash"})
	var o mobs
	st := guarded(func() {
		var out []byte
		var err error
		if mm {
			out, err = jsonpatch.MergeMergePatches(doc, patch)
		} else {
			out, err = jsonpatch.MergePatch(doc, patch)
		}
		if err != nil {
			o.status = "err"
			switch {
			case errors.Is(err, jsonpatch.ErrBadJSONDoc):
				o.errk = "doc"
			case errors.Is(err, jsonpatch.ErrBadJSONPatch):
				o.errk = "patch"
			default:
				o.errk = "other"
			}
			if out != nil {
				o.errk += "+out"
			}
			return
		}
		o.status = "ok"
		o.out = out
	})
	if st != "ok" {
		o.status = st
	}
	return o
}

func (o mobs) str() string { return o.status + ":" + o.errk + ":" + hx(o.out) }

// a merge patch related to doc: shares names, has nulls at depth, type changes
func genMergePatch(doc interface{}, g genOpts, depth int) string {
	m, isObj := doc.(map[string]interface{})
	if !isObj || chance(0.1) {
		if chance(0.5) {
			return genValue(g, 2)
		}
		m = map[string]interface{}{}
	}
	var parts []string
	used := map[string]bool{}
	n := rng.Intn(4)
	if chance(0.15) {
		n = 4 + rng.Intn(5) // a patch object much larger than its counterpart
	}
	keys := make([]string, 0, len(m))
	for k := range m {
		keys = append(keys, k)
	}
	sortStrings(keys)
	for i := 0; i < n; i++ {
		var k string
		if len(keys) > 0 && chance(0.6) {
			k = keys[rng.Intn(len(keys))]
		} else {
			k = keyPool[rng.Intn(len(keyPool))]
		}
		if used[k] {
			continue
		}
		used[k] = true
		var v string
		r := rng.Float64()
		switch {
		case r < 0.25:
			v = "null"
		case r < 0.6 && depth > 0:
			v = genMergePatch(m[k], g, depth-1)
		case r < 0.7:
			v = pick(`[{"a":null,"b":1},null]`, `[null]`, `[[{"x":null}]]`, `{"a":[{"b":null}]}`)
		default:
			v = genValue(g, 2)
		}
		parts = append(parts, spellStr(k, g)+":"+ws(g)+v)
	}
	return "{" + strings.Join(parts, ","+ws(g)) + "}"
}

// wideObjectPair: an object with several dozen members and a patch that deletes a run of
// neighbouring members (and touches a few others)
func wideObjectPair(g genOpts) ([]byte, []byte) {
	n := 30 + rng.Intn(16)
	var ms []string
	for i := 0; i < n; i++ {
		ms = append(ms, fmt.Sprintf(`"k%d":%s`, i, genValue(g, 1)))
	}
	start := rng.Intn(n - 6)
	var ps []string
	for i := start; i < start+2+rng.Intn(5); i++ {
		ps = append(ps, fmt.Sprintf(`"k%d":null`, i))
	}
	if chance(0.5) {
		ps = append(ps, fmt.Sprintf(`"k%d":%s`, rng.Intn(n), genValue(g, 1)), `"new":1`)
	}
	rng.Shuffle(len(ps), func(i, j int) { ps[i], ps[j] = ps[j], ps[i] })
	doc, patch := "{"+strings.Join(ms, ",")+"}", "{"+strings.Join(ps, ",")+"}"
	if chance(0.3) {
		doc, patch = `{"w":`+doc+`}`, `{"w":`+patch+`}`
	}
	return []byte(doc), []byte(patch)
}

func mergeStream(n int) {
	for i := 0; i < n; i++ {
		g := genOpts{depth: 1 + rng.Intn(3), ws: chance(0.4), scalarRoot: true, dupKeys: chance(0.03)}
		doc := []byte(genDoc(g))
		dv, _ := decodeStd(doc)
		var patch []byte
		if chance(0.85) {
			patch = []byte(ws(g) + genMergePatch(dv, g, 3) + ws(g))
		} else {
			patch = []byte(genDoc(g))
		}
		if chance(0.08) {
			doc, patch = sharedSubtreePair(g)
		}
		if chance(0.04) {
			doc, patch = wideObjectPair(g)
		}
		if chance(0.03) {
			// an ill-formed (or empty) document with the patch null: no argument escapes validation
			doc = []byte(pick(string(mutate(doc)), "", "   ", "{", `{"a":1}x`, "nul", string(randBytes())))
			patch = []byte(pick("null", " null\n", "null ", "\tnull"))
		}
		if chance(0.03) {
			patch = mutate(patch)
		}
		if chance(0.03) {
			doc = mutate(doc)
		}
		if chance(0.0006) {
			// a NEW object value nested thousands of levels (half the decoder's limit and more) with null
			// members at the bottom: they are pruned at every depth the decoder accepts
			d := int(pick64(4990, 5001, 5002, 5200, 6000, 7000))
			patch = []byte(`{"new":` + strings.Repeat(`{"a":`, d) + `{"b":null,"c":1}` + strings.Repeat("}", d) + `}`)
			doc = []byte(pick(`{}`, `{"new":null}`, `{"new":7}`, `[1]`))
		}
		o := runMerge(false, doc, patch)
		emit("merge", kv{"mode", "m"}, kv{"doc", hx(doc)}, kv{"patch", hx(patch)}, kv{"obs", o.str()})
	}
}

func merge3Stream(n int) {
	for i := 0; i < n; i++ {
		g := genOpts{depth: 1 + rng.Intn(3), ws: chance(0.3), scalarRoot: true}
		doc := []byte(genDoc(g))
		dv, _ := decodeStd(doc)
		p1 := []byte(genMergePatch(dv, g, 3))
		p1v, _ := decodeStd(p1)
		var p2 []byte
		if chance(0.6) {
			p2 = []byte(genMergePatch(p1v, g, 3))
		} else {
			p2 = []byte(genMergePatch(dv, g, 3))
		}
		if chance(0.05) {
			p2 = []byte(genDoc(g))
		}
		if chance(0.004) {
			// both patches hold objects along one long common path
			d := int(pick64(40, 999, 1000, 1001, 1002, 1500))
			chain := func(leaf string) []byte { return []byte(strings.Repeat(`{"a":`, d) + leaf + strings.Repeat("}", d)) }
			p1 = chain(pick(`{"x":1,"gone":null}`, `{"x":{"y":1}}`, `{"k":null}`))
			p2 = chain(pick(`{"y":null,"z":[1,null]}`, `{"x":null}`, `{"x":{"w":2},"q":1}`))
			doc = []byte(pick(`{}`, string(chain(`{"x":0,"gone":5,"y":7}`)), `{"a":{"a":1}}`))
		}
		if chance(0.01) {
			// wide objects on two levels with the same member names on both, deletions on both levels (the
			// combined patch must keep every deletion whatever order the maps are walked in: repeated)
			w := 9 + rng.Intn(8)
			var outer, inner []string
			for j := 0; j < w; j++ {
				outer = append(outer, fmt.Sprintf(`"a%d":%d`, j, j))
				inner = append(inner, fmt.Sprintf(`"k%d":%d`, j, j))
			}
			d1, d2, d3 := rng.Intn(w), rng.Intn(w), rng.Intn(w)
			q1 := []byte(`{` + strings.Join(outer, ",") + `,"n":{` + strings.Join(inner, ",") + `}}`)
			q2 := []byte(fmt.Sprintf(`{"k%d":null,"n":{"k%d":null},"k%d":null,"a%d":null}`, d1, d2, d3, rng.Intn(w)))
			qd := []byte(fmt.Sprintf(`{"k%d":"d1","k%d":"d3","n":{"k%d":true,"keep":1},"a0":"old"}`, d1, d3, d2))
			for rep := 0; rep < 12; rep++ {
				emitMerge3(qd, q1, q2)
			}
		}
		if chance(0.06) {
			// the document already holds, byte for byte, what the combined patch holds (a client that
			// sends back what it was given): wrap both patches so that the shared text is long
			pad := strings.Repeat(pick("x", "pad-", "0123456789"), 8+rng.Intn(8))
			w1 := []byte(`{"w":{"in":` + string(p1) + `,"pad":"` + pad + `","gone":null}}`)
			w2 := []byte(`{"w":{"in":` + string(p2) + `,"more":{"k":null,"v":[1,null]}}}`)
			if mm := runMerge(true, w1, w2); mm.status == "ok" {
				p1, p2 = w1, w2
				doc = mm.out
				if chance(0.5) {
					doc = []byte(`{"id":7,` + string(mm.out[1:]))
				}
			}
		}
		emitMerge3(doc, p1, p2)
	}
}

func emitMerge3(doc, p1, p2 []byte) {
	mmo := runMerge(true, p1, p2)
	var comb, seq mobs
	if mmo.status == "ok" {
		comb = runMerge(false, doc, mmo.out)
	}
	s1 := runMerge(false, doc, p1)
	if s1.status == "ok" {
		seq = runMerge(false, s1.out, p2)
	} else {
		seq = s1
	}
	emit("merge3", kv{"doc", hx(doc)}, kv{"p1", hx(p1)}, kv{"p2", hx(p2)}, kv{"mm", mmo.str()}, kv{"comb", comb.str()}, kv{"seq", seq.str()})
}

// ---------------------------------------------------------------- CreateMergePatch

func runCreate(a, b []byte) mobs {
	pending("create", kv{"a", hx(a)}, kv{"b", hx(b)}, kv{"status", "crash"})
	var o mobs
	st := guarded(func() {
		out, err := jsonpatch.CreateMergePatch(a, b)
		if err != nil {
			o.status = "err"
			if out != nil {
				o.errk = "+out"
			}
			return
		}
		o.status = "ok"
		o.out = out
	})
	if st != "ok" {
		o.status = st
	}
	return o
}

func createStream(n int) {
	for i := 0; i < n; i++ {
		g := genOpts{depth: 1 + rng.Intn(3), ws: chance(0.3)}
		var a, b []byte
		r := rng.Float64()
		switch {
		case r < 0.7:
			a = []byte(genObject(g, g.depth))
			av, _ := decodeStd(a)
			if chance(0.8) {
				b = []byte(respell(perturbN(av, rng.Intn(4)), g))
			} else {
				b = []byte(genObject(g, g.depth))
			}
		case r < 0.85:
			k := rng.Intn(3)
			var as, bs []string
			for j := 0; j < k; j++ {
				x := genObject(g, 2)
				xv, _ := decodeStd([]byte(x))
				as = append(as, x)
				bs = append(bs, respell(perturbN(xv, rng.Intn(3)), g))
			}
			if chance(0.1) {
				bs = append(bs, "{}")
			}
			a = []byte("[" + strings.Join(as, ",") + "]")
			b = []byte("[" + strings.Join(bs, ",") + "]")
			if chance(0.15) {
				// the elements are themselves arrays (of objects): not "arrays of objects", must be rejected
				a = []byte("[" + string(a) + pick("", "", ",[]", ",{}") + "]")
				b = []byte("[" + string(b) + pick("", "", ",[]", ",{}") + "]")
			}
		default:
			g.scalarRoot = true
			a = []byte(genDoc(g))
			b = []byte(genDoc(g))
			if chance(0.3) {
				a = mutate(a)
			}
		}
		if chance(0.004) {
			// a long chain of nested objects with a difference at its end
			d := int(pick64(40, 999, 1000, 1001, 1002, 1500))
			chain := func(leaf string) []byte { return []byte(strings.Repeat(`{"n":`, d) + leaf + strings.Repeat("}", d)) }
			a = chain(pick(`{"keep":1,"drop":2}`, `{"keep":1,"x":{"y":1}}`, `{"keep":1}`))
			b = chain(pick(`{"keep":1}`, `{"keep":2,"drop":2}`, `{"keep":1,"new":[1]}`))
		}
		if chance(0.004) {
			// EQUAL deep values below an array (compared by matchesValue, not walked by getDiff): the
			// comparison must stay linear in the size
			d := 30 + rng.Intn(40)
			deep := pick(strings.Repeat(`{"a":`, d)+`1`+strings.Repeat("}", d), strings.Repeat(`[`, d)+`{"a":1}`+strings.Repeat("]", d),
				strings.Repeat(`{"a":[`, d/2)+`null`+strings.Repeat("]}", d/2), strings.Repeat(`{"a":{"x":1},"b":`, d)+`2`+strings.Repeat("}", d))
			a = []byte(`{"k":[` + deep + `],"z":1}`)
			b = []byte(`{"k":[` + deep + `],"z":` + pick("1", "2") + `}`)
		}
		if chance(0.05) {
			// an array of objects as a member value: one element loses, gains or changes a member
			k := spellStr(pick("items", "a", "l"), g)
			el := func(extra string) string { return `{"id":1` + extra + `}` }
			e1 := pick(`,"tag":"x"`, `,"tag":"x","n":null`, `,"t":{"u":1}`, `,"tag":[1]`)
			e2 := pick("", "", `,"tag":"y"`, `,"other":true`, `,"tag":"x","more":1`)
			pre := pick("", `{"id":0},`, `1,`)
			a = []byte(`{` + k + `:[` + pre + el(e1) + `],"z":1}`)
			b = []byte(`{` + k + `:[` + pre + el(e2) + `],"z":1}`)
			if chance(0.5) {
				a, b = b, a
			}
			if chance(0.3) {
				a, b = []byte(`{"w":`+string(a)+`}`), []byte(`{"w":`+string(b)+`}`)
			}
		}
		if chance(0.2) {
			// insignificant white space around the documents (files end in LF or CRLF)
			sp := func() string { return pick("", " ", "\n", "\r\n", "\t", "\r", " \r\n \t", "\n\n") }
			a = []byte(sp() + string(a) + sp())
			b = []byte(sp() + string(b) + sp())
		}
		emitCreate(a, b)
	}
}

func emitCreate(a, b []byte) {
	o := runCreate(a, b)
	var re mobs
	if o.status == "ok" {
		re = runMerge(false, a, o.out)
	}
	emit("create", kv{"a", hx(a)}, kv{"b", hx(b)}, kv{"obs", o.str()}, kv{"reapplied", re.str()})
}

func perturbN(v interface{}, n int) interface{} {
	for i := 0; i < n; i++ {
		v = perturb(v)
	}
	return v
}

// ---------------------------------------------------------------- DecodePatch

var validOps = []string{
	`{"op":"add","path":"/a","value":1}`, `{"op":"replace","path":"/a","value":null}`, `{"op":"remove","path":"/a"}`,
	`{"op":"move","from":"/a","path":"/b"}`, `{"op":"copy","from":"/a","path":"/b"}`, `{"op":"test","path":"/a","value":{"x":[1]}}`,
	`{"op":"test","path":""}`, `{"op":"add","path":"","value":{"q":1},"extra":true}`,
}
var hostileStrings = []string{"\"/a\xff\"", "\"/\xc3\"", "\"/a\xe2\x80\"", "\"/\xed\xa0\x80\"", "\"/a\\/b\"", "\"/\\ud83d\\ude00\"", "\"/\\ud83d\"",
	"\"/\u00e9\"", "\"/\\u00e9~1\"", "\"/a\x80b/c\"", "\"\xff\"", "\"/\\u0000\"", "\"/\\t\"", "\"/~0\xfe~1\""}
var jsonTypes = []string{`null`, `true`, `1`, `"s"`, `"add"`, `"/a"`, `[]`, `{}`, `["add"]`, `{"op":"add"}`, `""`, `"ADD"`, `"Add"`, `"\u0061dd"`}

// manyBadBytes: a string literal with 1..12 ill-formed UTF-8 sequences (each decoded to U+FFFD, three
// bytes for one) in one run or spread out, followed by a tail of 0..40 well-formed bytes
func manyBadBytes() string {
	bad := []string{"\xff", "\xc0", "\x80", "\xed\xa0\x80", "\xed\xb0\x80", "\xf8", "\xe2\x80", "\xf0\x9f\x98"}
	var sb strings.Builder
	sb.WriteString("\"/")
	k := 1 + rng.Intn(12)
	for i := 0; i < k; i++ {
		sb.WriteString(bad[rng.Intn(len(bad))])
		if chance(0.15) {
			sb.WriteString(pick("a", "~1", "\\n", "/", "\u00e9"))
		}
	}
	tail := rng.Intn(41)
	for i := 0; i < tail; i++ {
		sb.WriteString(pick("a", "b", "0", "-", "~0", "\\t", "\\u0041", "\u00e9", "x", "y"))
	}
	sb.WriteString("\"")
	return sb.String()
}

func decodeCase(b []byte) {
	pending("decode", kv{"in", hx(b)}, kv{"status", "crash"})
	var ok bool
	var acc []string
	st := guarded(func() {
		// the caller's buffer is reused after the call (a read loop, a pooled buffer): the Patch must
		// hold its own data
		own := append([]byte{}, b...)
		p, err := jsonpatch.DecodePatch(own)
		const other = "[{\"op\":\"copy\",\"from\":\"/zz\",\"path\":\"/yy\"}]  "
		for i := range own {
			own[i] = other[i%len(other)]
		}
		ok = err == nil
		if err != nil && p != nil {
			acc = append(acc, "nonnil-on-error")
		}
		if err == nil {
			for _, op := range p {
				path, perr := op.Path()
				from, ferr := op.From()
				v, verr := op.ValueInterface()
				vb := []byte("-")
				if verr == nil {
					vb, _ = ijson.Marshal(v)
				}
				acc = append(acc, hx([]byte(op.Kind()))+","+b2s(perr == nil)+hx([]byte(path))+","+b2s(ferr == nil)+hx([]byte(from))+","+b2s(verr == nil)+hx(vb))
			}
		}
	})
	emit("decode", kv{"in", hx(b)}, kv{"status", st}, kv{"ok", b2s(ok)}, kv{"ops", strings.Join(acc, ";")})
}

func decodeStream(n int, exhaustive bool) {
	if exhaustive {
		// every valid operation x every single-member mutation
		members := []string{"op", "path", "from", "value", "extra"}
		for _, op := range validOps {
			decodeCase([]byte("[" + op + "]"))
			var m map[string]stdjson.RawMessage
			stdjson.Unmarshal([]byte(op), &m)
			for _, name := range members {
				// delete
				decodeCase([]byte("[" + rebuild(m, name, "", "", "") + "]"))
				for _, t := range jsonTypes {
					decodeCase([]byte("[" + rebuild(m, name, t, "", "") + "]"))
					// duplicate before / after
					decodeCase([]byte("[" + rebuild(m, name, "", `"`+name+`":`+t+",", "") + "]"))
					decodeCase([]byte("[" + rebuild(m, name, "", "", `,"`+name+`":`+t) + "]"))
				}
				// rename with case change
				decodeCase([]byte("[" + strings.Replace(op, `"`+name+`"`, `"`+strings.ToUpper(name)+`"`, 1) + "]"))
				decodeCase([]byte("[" + strings.Replace(op, `"`+name+`"`, `"`+strings.Title(name)+`"`, 1) + "]"))
			}
			for _, t := range jsonTypes {
				decodeCase([]byte("[" + op + "," + t + "]"))
				decodeCase([]byte(t))
			}
			decodeCase([]byte(op))
			decodeCase([]byte(" [ " + op + " , " + op + " ] "))
		}
		return
	}
	for i := 0; i < n; i++ {
		k := rng.Intn(4)
		var ops []string
		for j := 0; j < k; j++ {
			op := validOps[rng.Intn(len(validOps))]
			if chance(0.4) {
				var m map[string]stdjson.RawMessage
				stdjson.Unmarshal([]byte(op), &m)
				name := pick("op", "path", "from", "value", "x")
				op = rebuild(m, name, pickOr(jsonTypes, ""), "", "")
			} else if chance(0.4) {
				// awkward spellings of the string members: escapes, surrogate pairs, raw bytes that are
				// not valid UTF-8 (decoded as U+FFFD)
				var m map[string]stdjson.RawMessage
				stdjson.Unmarshal([]byte(op), &m)
				hs := hostileStrings[rng.Intn(len(hostileStrings))]
				if chance(0.35) {
					hs = manyBadBytes()
				}
				name := pick("path", "from", "path", "value")
				if name == "value" && chance(0.5) {
					hs = "{" + hs + ":" + hs + "}"
				}
				op = rebuild(m, name, hs, "", "")
			}
			ops = append(ops, op)
		}
		b := []byte("[" + strings.Join(ops, ",") + "]")
		if chance(0.03) {
			// something that is not JSON white space in front of (or behind) an otherwise good patch text: a
			// byte order mark, other Unicode spaces
			junk := pick("\xef\xbb\xbf", "\xef\xbb\xbf", "\xfe\xff", "\xc2\xa0", "\v", "\f", "\xe2\x80\x8b", "\x00")
			if chance(0.7) {
				b = append([]byte(junk), b...)
			} else {
				b = append(b, junk...)
			}
		}
		if chance(0.02) {
			// two consecutive inputs: one cut off inside a unicode escape after k hex digits, then one
			// whose first unicode escape is short by k digits (a recycled scanner must not remember)
			k := 1 + rng.Intn(3)
			hex := "0041"
			decodeCase([]byte(`[{"op":"add","path":"/a","value":"` + "\\u" + hex[:k]))
			decodeCase([]byte(`[{"op":"test","path":"/a","value":"` + "\\u" + hex[:4-k] + `"}]`))
			decodeCase([]byte(`[{"op":"add","path":"/a","value":"` + "\\u" + hex[:k] + `x"}]`))
			decodeCase([]byte(`[{"op":"test","path":"/` + "\\u" + hex[:4-k] + `","value":1}]`))
		}
		if chance(0.06) {
			// total length at (or next to) the sizes in which a streaming decoder reads its input, with
			// or without data after the array
			L := int(pick64(512, 1536, 3584, 7680)) + int(pick64(0, 0, 0, -1, 1))
			if len(b) < L {
				pad := strings.Repeat(pick(" ", " ", "\n", "\t"), L-len(b))
				if chance(0.5) {
					b = append(append([]byte("["), pad...), b[1:]...) // white space inside
				} else {
					b = append(b, pad...) // white space after the array
				}
			}
			b = append(b, pick("", "]", "x", "[]", " x", "\n{}", "}", ",", "null")...)
		}
		if chance(0.15) {
			b = mutate(b)
		}
		if chance(0.03) {
			b = randBytes()
		}
		decodeCase(b)
	}
}

func pickOr(xs []string, alt string) string {
	if chance(0.2) {
		return alt
	}
	return xs[rng.Intn(len(xs))]
}

// rebuild an operation with member name set to val ("" = deleted), plus raw text before/after
func rebuild(m map[string]stdjson.RawMessage, name, val, before, after string) string {
	order := []string{"op", "path", "from", "value", "extra", "x"}
	var parts []string
	for _, k := range order {
		v, ok := m[k]
		if k == name {
			if val == "" && before == "" && after == "" {
				continue
			}
			if val != "" {
				parts = append(parts, `"`+k+`":`+val)
				continue
			}
		}
		if ok {
			parts = append(parts, `"`+k+`":`+string(v))
		}
	}
	return "{" + before + strings.Join(parts, ",") + after + "}"
}

// ---------------------------------------------------------------- Valid / Compact / Indent / codec

func validCase(b []byte, full bool) {
	if full {
		pending("valid", kv{"in", hx(b)}, kv{"status", "crash"})
	}
	var v bool
	st := guarded(func() { v = ijson.Valid(b) })
	fields := []kv{{"in", hx(b)}, {"status", st}, {"valid", b2s(v)}}
	if full {
		stFull := guarded(func() {
			var cb, ib, hb bytes.Buffer
			cerr := ijson.Compact(&cb, b)
			ierr := ijson.Indent(&ib, b, "", "  ")
			var anyv interface{}
			uerr := ijson.Unmarshal(b, &anyv)
			fields = append(fields, kv{"compact", b2s(cerr == nil) + hx(cb.Bytes())}, kv{"indent", b2s(ierr == nil) + hx(ib.Bytes())}, kv{"unmarshal", b2s(uerr == nil)})
			if v {
				ijson.HTMLEscape(&hb, b)
				fields = append(fields, kv{"htmlescape", hx(hb.Bytes())})
				if uerr == nil {
					m1, e1 := ijson.MarshalEscaped(anyv, true)
					m0, e0 := ijson.MarshalEscaped(anyv, false)
					fields = append(fields, kv{"remarshal1", b2s(e1 == nil) + hx(m1)}, kv{"remarshal0", b2s(e0 == nil) + hx(m0)})
				}
				var mp map[string]ijson.RawMessage
				if keys, err := ijson.UnmarshalWithKeys(b, &mp); err == nil && mp != nil {
					var ks []string
					for _, k := range keys {
						ks = append(ks, hx([]byte(k)))
					}
					fields = append(fields, kv{"keys", strings.Join(ks, ",")})
				}
			}
			// the public entry points on this text
			var eq bool
			st1 := guarded(func() { eq = jsonpatch.Equal(b, b) })
			_, derr := jsonpatch.DecodePatch(b)
			mo := runMerge(false, b, b)
			co := runCreate(b, b)
			p0, _ := jsonpatch.DecodePatch([]byte("[]"))
			var aerr error
			var aout []byte
			st2 := guarded(func() { aout, aerr = p0.Apply(b) })
			fields = append(fields, kv{"api", st1 + b2s(eq) + "," + b2s(derr == nil) + "," + mo.status + "," + co.status + "," + st2 + b2s(aerr == nil) + hx(aout)})
			// every argument position, the other argument well formed
			var xs []string
			partners := []string{"null", " null\n", "{}", `{"a":1}`, "[]", "1"}
			if !chance(0.3) {
				partners = partners[:0]
			}
			for pi, x := range partners {
				xb := []byte(x)
				tag := func(n string) string { return fmt.Sprintf("%s#%d:", n, pi) }
				var e1, e2 bool
				s1 := guarded(func() { e1 = jsonpatch.Equal(b, xb) })
				s2 := guarded(func() { e2 = jsonpatch.Equal(xb, b) })
				xs = append(xs, tag("Equal/1")+s1+b2s(e1), tag("Equal/2")+s2+b2s(e2),
					tag("MergePatch/1")+runMerge(false, b, xb).status, tag("MergePatch/2")+runMerge(false, xb, b).status,
					tag("MergeMergePatches/1")+runMerge(true, b, xb).status, tag("MergeMergePatches/2")+runMerge(true, xb, b).status,
					tag("CreateMergePatch/1")+runCreate(b, xb).status, tag("CreateMergePatch/2")+runCreate(xb, b).status)
			}
			if len(xs) > 0 {
				fields = append(fields, kv{"apix", strings.Join(xs, ";")})
			}
		})
		if stFull != "ok" {
			fields[1] = kv{"status", stFull}
		}
	}
	emit("valid", fields...)
}

// validDeep: accept/reject only (Indent of 10^4 levels writes 10^8 bytes)
func validDeep(b []byte) {
	var v bool
	st := guarded(func() { v = ijson.Valid(b) })
	var cb bytes.Buffer
	cerr := ijson.Compact(&cb, b)
	var anyv interface{}
	uerr := ijson.Unmarshal(b, &anyv)
	cout := cb.Bytes()
	if cerr != nil {
		cout = nil
	}
	fields := []kv{{"in", hx(b)}, {"status", st}, {"valid", b2s(v)}, {"compactdeep", b2s(cerr == nil) + b2s(bytes.Equal(cout, b))}, {"unmarshal", b2s(uerr == nil)}}
	if len(b) > 0 && b[0] == '{' {
		// the entry points that take an object, with {} as the other argument
		empty := []byte("{}")
		fields = append(fields, kv{"apideep", "CreateMergePatch/2:" + runCreate(empty, b).status + ";CreateMergePatch/1:" + runCreate(b, empty).status +
			";MergePatch/2:" + runMerge(false, empty, b).status + ";MergePatch/1:" + runMerge(false, b, empty).status})
	}
	emit("valid", fields...)
}

func validStream(n int, exhaustLen int) {
	if exhaustLen > 0 {
		var rec func(prefix []byte, left int)
		rec = func(prefix []byte, left int) {
			validCase(prefix, false)
			if left == 0 {
				return
			}
			for _, c := range alphabet {
				rec(append(append([]byte{}, prefix...), c), left-1)
			}
		}
		rec(nil, exhaustLen)
		return
	}
	for i := 0; i < n; i++ {
		g := genOpts{depth: 1 + rng.Intn(4), ws: chance(0.6), lone: chance(0.3), scalarRoot: true, dupKeys: chance(0.1)}
		b := []byte(genDoc(g))
		r := rng.Float64()
		switch {
		case r < 0.45:
		case r < 0.85:
			b = mutate(b)
		case r < 0.9:
			b = randBytes()
		default:
			// numbers and strings at the edges of the grammar
			b = []byte(pick("-", "-0", "-01", "0.", "0.e1", "1e", "1e+", "1E-0", "01", "1.0e+10", "\"\\u12\"", "\"\\u123g\"", "\"\\x\"", "\"\x7f\"", "\"\xff\"", "\"\\ud800\"",
				"\"x \t\t\t\t\t\t\t\ty\"", "{\"k \t\t\t\t\t\t\t\t\":1}", "[\"a         \t\t\t\t\t\t\t\t\"]", "\"        \"", "[1, \t\t\t\t\t\t\t\t2]",
				"tru", "truee", "nul", "[1,]", "[,1]", "{\"a\"}", "{\"a\":}", "{,}", "{\"a\":1,}", "[] []", "\ufeff[]", "[\"\t\"]", "[1 2]", "{\"a\" 1}", "\"a\nb\""))
		}
		validCase(b, true)
	}
	// nesting depth around the limit
	for _, d := range []int{9999, 10000, 10001} {
		validDeep([]byte(strings.Repeat("[", d) + strings.Repeat("]", d)))
		validDeep([]byte(strings.Repeat(`{"a":`, d) + "1" + strings.Repeat("}", d)))
		validDeep([]byte(strings.Repeat(`[{"a":`, d/2) + "1" + strings.Repeat("}]", d/2)))
	}
}

// ---------------------------------------------------------------- comparison with encoding/json
// (the clause of C17 that is compared, not proved: dynamic values, maps, slices, pointers and
// run-time generated struct types with json tags, in both directions)

func normStd(b []byte) string {
	s := string(b)
	// the spelling of U+0008 / U+000C differs between Go releases
	s = strings.ReplaceAll(s, `\b`, `\u0008`)
	s = strings.ReplaceAll(s, `\f`, `\u000c`)
	return s
}

var tagPool = []string{"", "", `json:"kind"`, `json:"status,omitempty"`, `json:"a"`, `json:"b,omitempty"`, `json:"-"`, `json:"c,string"`, `json:",omitempty"`, `json:"d,omitempty,string"`, `json:"e e"`, `json:"-,"`}

func genFieldType(depth int) reflect.Type {
	switch rng.Intn(11) {
	case 0:
		return reflect.TypeOf("")
	case 1:
		return reflect.TypeOf(int(0))
	case 2:
		return reflect.TypeOf(float64(0))
	case 3:
		return reflect.TypeOf(false)
	case 4:
		return reflect.TypeOf([]int(nil))
	case 5:
		return reflect.TypeOf(map[string]int(nil))
	case 6:
		return reflect.TypeOf((*int)(nil))
	case 7, 8:
		return reflect.TypeOf((*interface{})(nil)).Elem()
	case 9:
		return reflect.TypeOf([]string(nil))
	default:
		if depth > 0 {
			return genStructType(depth - 1)
		}
		return reflect.TypeOf(uint8(0))
	}
}

func genStructType(depth int) reflect.Type {
	n := 1 + rng.Intn(4)
	var fs []reflect.StructField
	for i := 0; i < n; i++ {
		name := fmt.Sprintf("F%d", i)
		if chance(0.3) {
			name = pick("Kind", "Status", "Ks", "Strasse")[:] + fmt.Sprint(i)
		}
		fs = append(fs, reflect.StructField{Name: name, Type: genFieldType(depth), Tag: reflect.StructTag(tagPool[rng.Intn(len(tagPool))])})
	}
	return reflect.StructOf(fs)
}

// genEmbedChain: a struct promoted through several levels of anonymous fields (index paths of
// length 2..9), with plain fields beside the embedded one at some levels and, sometimes, a name that
// occurs at two depths (the shallower one wins)
func genEmbedChain(levels int) reflect.Type {
	n := 2 + rng.Intn(3)
	var fs []reflect.StructField
	for i := 0; i < n; i++ {
		fs = append(fs, reflect.StructField{Name: fmt.Sprintf("In%d", i), Type: genFieldType(0), Tag: reflect.StructTag(pick("", "", `json:"p"`, `json:"q,omitempty"`, `json:"r"`)[:])})
	}
	seen := map[string]bool{}
	var uniq []reflect.StructField
	for _, f := range fs {
		if !seen[string(f.Tag)] || f.Tag == "" {
			uniq = append(uniq, f)
		}
		seen[string(f.Tag)] = true
	}
	inner := reflect.StructOf(uniq)
	for i := 0; i < levels; i++ {
		var lf []reflect.StructField
		if chance(0.4) {
			lf = append(lf, reflect.StructField{Name: fmt.Sprintf("L%dA", i), Type: genFieldType(0)})
		}
		lf = append(lf, reflect.StructField{Name: fmt.Sprintf("Emb%d", i), Type: inner, Anonymous: true})
		if chance(0.4) {
			lf = append(lf, reflect.StructField{Name: fmt.Sprintf("L%dB", i), Type: genFieldType(0), Tag: reflect.StructTag(pick("", `json:"b,omitempty"`)[:])})
		}
		if chance(0.15) {
			lf = append(lf, reflect.StructField{Name: "In0", Type: reflect.TypeOf("")})
		}
		inner = reflect.StructOf(lf)
	}
	return inner
}

func fillValue(v reflect.Value, depth int) {
	zero := chance(0.35)
	switch v.Kind() {
	case reflect.String:
		if !zero {
			v.SetString(strPool[rng.Intn(len(strPool))])
		}
	case reflect.Int, reflect.Uint8:
		if !zero {
			if v.Kind() == reflect.Int {
				v.SetInt(int64(rng.Intn(2000) - 1000))
			} else {
				v.SetUint(uint64(rng.Intn(200)))
			}
		}
	case reflect.Float64:
		if !zero {
			v.SetFloat([]float64{0.5, -1, 1e21, 1e-7, 3, 100, 1e20, 0.000001}[rng.Intn(8)])
		}
	case reflect.Bool:
		v.SetBool(!zero)
	case reflect.Slice:
		if chance(0.3) {
			return // nil
		}
		n := 0
		if !zero {
			n = 1 + rng.Intn(2)
		}
		sl := reflect.MakeSlice(v.Type(), n, n)
		for i := 0; i < n; i++ {
			fillValue(sl.Index(i), depth)
		}
		v.Set(sl)
	case reflect.Map:
		if chance(0.3) {
			return
		}
		m := reflect.MakeMap(v.Type())
		if !zero {
			for i := 0; i < 1+rng.Intn(2); i++ {
				m.SetMapIndex(reflect.ValueOf(keyPool[rng.Intn(len(keyPool))]), reflect.ValueOf(rng.Intn(10)))
			}
		}
		v.Set(m)
	case reflect.Ptr:
		if !zero {
			p := reflect.New(v.Type().Elem())
			fillValue(p.Elem(), depth)
			v.Set(p)
		}
	case reflect.Interface:
		// nil, or an interface holding a (possibly empty) value
		switch rng.Intn(8) {
		case 0:
		case 1:
			v.Set(reflect.ValueOf(""))
		case 2:
			v.Set(reflect.ValueOf(0))
		case 3:
			v.Set(reflect.ValueOf(false))
		case 4:
			v.Set(reflect.ValueOf([]int{}))
		case 5:
			v.Set(reflect.ValueOf(map[string]int{}))
		case 6:
			v.Set(reflect.ValueOf(strPool[rng.Intn(len(strPool))]))
		default:
			v.Set(reflect.ValueOf([]interface{}{1.5, "x", nil}))
		}
	case reflect.Struct:
		for i := 0; i < v.NumField(); i++ {
			fillValue(v.Field(i), depth)
		}
	}
}

type poison struct{}

func (*poison) UnmarshalJSON([]byte) error { return errors.New("refused") }

type poisonDoc struct {
	S string `json:"s"`
	P poison `json:"p"`
}

func stdcmpStream(n int) {
	for i := 0; i < n; i++ {
		if chance(0.5) {
			// dynamic values: decode a text with both, encode both results
			g := genOpts{depth: 1 + rng.Intn(3), ws: chance(0.5), lone: chance(0.2), scalarRoot: true, dupKeys: chance(0.1)}
			b := []byte(genDoc(g))
			if chance(0.2) {
				b = mutate(b)
			}
			var v1, v2 interface{}
			var e1, e2 error
			st := guarded(func() { e1 = ijson.Unmarshal(b, &v1) })
			// the standard library with UseNumber (the fork always keeps number literals), whole input
			dec := stdjson.NewDecoder(bytes.NewReader(b))
			dec.UseNumber()
			e2 = dec.Decode(&v2)
			if e2 == nil {
				var extra interface{}
				if err := dec.Decode(&extra); err != io.EOF {
					e2 = errors.New("trailing data")
				}
			}
			same := (e1 == nil) == (e2 == nil)
			var o1, o2 []byte
			if st == "ok" && e1 == nil && e2 == nil {
				o1, _ = ijson.Marshal(v1)
				o2, _ = stdjson.Marshal(v2)
				// the fork decodes numbers as Number (a string type); compare the re-encoded texts by value
				same = same && (normStd(o1) == normStd(o2) || sameJSON(o1, o2))
			}
			emit("stdcmp", kv{"what", "dynamic"}, kv{"in", hx(b)}, kv{"status", st}, kv{"same", b2s(same)}, kv{"ours", hx(o1)}, kv{"std", hx(o2)})
			continue
		}
		if chance(0.2) {
			typedNumberCase()
			continue
		}
		if chance(0.02) {
			// a decode that saves a type mismatch and is then stopped by a caller-defined Unmarshaler: the
			// next decodes (pooled decoder state) of well-formed texts must succeed
			var pd poisonDoc
			e0 := ijson.Unmarshal([]byte(`{"s":1,"p":2}`), &pd)
			var anyv interface{}
			e1 := ijson.Unmarshal([]byte(`{"a":[1,"x"]}`), &anyv)
			_, e2 := jsonpatch.DecodePatch([]byte(`[{"op":"add","path":"/a","value":1}]`))
			p0, _ := jsonpatch.DecodePatch([]byte(`[]`))
			_, e3 := p0.Apply([]byte(`{"k":1}`))
			same := e0 != nil && e1 == nil && e2 == nil && e3 == nil
			emit("stdcmp", kv{"what", "after-refused-decode"}, kv{"in", hx([]byte(fmt.Sprint(e0, "|", e1, "|", e2, "|", e3)))}, kv{"status", "ok"}, kv{"same", b2s(same)}, kv{"ours", ""}, kv{"std", ""})
			continue
		}
		t := genStructType(2)
		if chance(0.12) {
			t = genEmbedChain(1 + rng.Intn(8))
		}
		v := reflect.New(t)
		fillValue(v.Elem(), 2)
		var o1, o2 []byte
		var e1, e2 error
		st := guarded(func() { o1, e1 = ijson.Marshal(v.Interface()) })
		o2, e2 = stdjson.Marshal(v.Interface())
		same := st == "ok" && (e1 == nil) == (e2 == nil) && normStd(o1) == normStd(o2)
		// and back: decode the standard library's output into fresh values with both, encode with the standard library
		var b1, b2 []byte
		if same && e2 == nil {
			w1, w2 := reflect.New(t), reflect.New(t)
			var d1, d2 error
			st2 := guarded(func() { d1 = ijson.Unmarshal(o2, w1.Interface()) })
			d2 = stdjson.Unmarshal(o2, w2.Interface())
			// each library re-encodes what it decoded (the fork decodes numbers held in interfaces as its
			// own Number type, which only the fork prints as a number); compared as JSON values
			b1, _ = ijson.Marshal(w1.Interface())
			b2, _ = stdjson.Marshal(w2.Interface())
			same = st2 == "ok" && (d1 == nil) == (d2 == nil) && sameJSON(b1, b2)
			// and with the member names re-spelled: other case, and characters that are equal only under
			// Unicode simple folding (k/K/U+212A, s/S/U+017F): field matching must agree with encoding/json
			if same {
				o3 := refold(o2)
				x1, x2 := reflect.New(t), reflect.New(t)
				st3 := guarded(func() { d1 = ijson.Unmarshal(o3, x1.Interface()) })
				d2 = stdjson.Unmarshal(o3, x2.Interface())
				c1, _ := ijson.Marshal(x1.Interface())
				c2, _ := stdjson.Marshal(x2.Interface())
				if !(st3 == "ok" && (d1 == nil) == (d2 == nil) && sameJSON(c1, c2)) {
					same = false
					o2, b1, b2 = o3, c1, c2
				}
			}
		}
		emit("stdcmp", kv{"what", "struct"}, kv{"in", hx([]byte(t.String()))}, kv{"status", st}, kv{"same", b2s(same)}, kv{"ours", hx(o1)}, kv{"std", hx(o2)}, kv{"back1", hx(b1)}, kv{"back2", hx(b2)})
	}
}

// refold re-spells the member names of a JSON text (bytes between a quote and the following ":):
// swaps ASCII case and replaces k, s by their non-ASCII fold partners
func refold(b []byte) []byte {
	var out []byte
	i := 0
	for i < len(b) {
		if b[i] != '"' {
			out = append(out, b[i])
			i++
			continue
		}
		j := i + 1
		for j < len(b) && b[j] != '"' {
			if b[j] == '\\' {
				j++
			}
			j++
		}
		if j >= len(b) {
			out = append(out, b[i:]...)
			break
		}
		str := b[i : j+1]
		if j+1 < len(b) && b[j+1] == ':' {
			mode := rng.Intn(3)
			var r []byte
			for _, c := range string(str[1 : len(str)-1]) {
				switch {
				case mode == 0 && (c == 'k' || c == 'K'):
					r = append(r, "\u212a"...)
				case mode == 0 && (c == 's' || c == 'S'):
					r = append(r, "\u017f"...)
				case c >= 'a' && c <= 'z' && mode != 2:
					r = append(r, byte(c-32))
				case c >= 'A' && c <= 'Z':
					r = append(r, byte(c+32))
				default:
					r = append(r, string(c)...)
				}
			}
			out = append(out, '"')
			out = append(out, r...)
			out = append(out, '"')
		} else {
			out = append(out, str...)
		}
		i = j + 1
	}
	return out
}

// typedNumberCase: number literals at the edges of the fixed-size numeric kinds (and at float32
// rounding midpoints) decoded into typed targets by both libraries
var edgeNumbers = []string{"3.4028235e+38", "3.4028234663852886e+38", "3.4028235677973366e+38", "3.4028236e+38", "-3.4028235e+38", "1e39",
	"1.00000005960464477539062500000001", "1.00000017881393432617187499999999", "1.0000000596046448", "16777217", "0.1", "1e-46", "1.4e-45", "7e-46",
	"127", "128", "-128", "-129", "255", "256", "-1", "65535", "65536", "32767", "32768", "9223372036854775807", "9223372036854775808", "-9223372036854775808",
	"18446744073709551615", "18446744073709551616", "1.0", "1e2", "1E+2", "0.5", "-0", "1.5", "2147483648", "4294967295", "4294967296"}
var numericKinds = []reflect.Type{reflect.TypeOf(float32(0)), reflect.TypeOf(float64(0)), reflect.TypeOf(int8(0)), reflect.TypeOf(uint8(0)),
	reflect.TypeOf(int16(0)), reflect.TypeOf(uint16(0)), reflect.TypeOf(int32(0)), reflect.TypeOf(uint32(0)), reflect.TypeOf(int64(0)), reflect.TypeOf(uint64(0)), reflect.TypeOf(int(0))}

func typedNumberCase() {
	et := numericKinds[rng.Intn(len(numericKinds))]
	var lits []string
	for j := 0; j < 1+rng.Intn(3); j++ {
		lits = append(lits, edgeNumbers[rng.Intn(len(edgeNumbers))])
	}
	var t reflect.Type
	var text string
	switch rng.Intn(3) {
	case 0:
		t = reflect.SliceOf(et)
		text = "[" + strings.Join(lits, ",") + "]"
	case 1:
		t = reflect.MapOf(reflect.TypeOf(""), et)
		var parts []string
		for j, l := range lits {
			parts = append(parts, fmt.Sprintf(`"k%d":%s`, j, l))
		}
		text = "{" + strings.Join(parts, ",") + "}"
	default:
		t = reflect.StructOf([]reflect.StructField{{Name: "F", Type: et, Tag: `json:"f"`}, {Name: "G", Type: et, Tag: `json:"g,string"`}})
		text = fmt.Sprintf(`{"f":%s,"g":"%s"}`, lits[0], lits[len(lits)-1])
	}
	w1, w2 := reflect.New(t), reflect.New(t)
	var d1, d2 error
	st := guarded(func() { d1 = ijson.Unmarshal([]byte(text), w1.Interface()) })
	d2 = stdjson.Unmarshal([]byte(text), w2.Interface())
	b1, _ := stdjson.Marshal(w1.Interface())
	b2, _ := stdjson.Marshal(w2.Interface())
	same := st == "ok" && (d1 == nil) == (d2 == nil) && bytes.Equal(b1, b2)
	emit("stdcmp", kv{"what", "struct"}, kv{"in", hx([]byte(t.String() + " <- " + text))}, kv{"status", st}, kv{"same", b2s(same)}, kv{"ours", hx(b1)}, kv{"std", hx(b2)}, kv{"back1", hx(b1)}, kv{"back2", hx(b2)})
}

// sameJSON: equal as JSON values, numbers by float64 (the two libraries spell some floats differently)
func sameJSON(a, b []byte) bool {
	var x, y interface{}
	if stdjson.Unmarshal(a, &x) != nil || stdjson.Unmarshal(b, &y) != nil {
		return false
	}
	return reflect.DeepEqual(x, y)
}

// ---------------------------------------------------------------- command line tool

func cliStream(n int, bin string) {
	dir, err := os.MkdirTemp("", "verifcli")
	if err != nil {
		panic(err)
	}
	defer os.RemoveAll(dir)
	for i := 0; i < n; i++ {
		g := genOpts{depth: 1 + rng.Intn(2), ws: chance(0.3)}
		doc := []byte(genDoc(g))
		k := rng.Intn(4)
		cur, _ := decodeStd(doc)
		var args []string
		var files []string
		for j := 0; j < k; j++ {
			path := filepath.Join(dir, fmt.Sprintf("p%d_%d.json", i, j))
			r := rng.Float64()
			switch {
			case r < 0.7:
				pg := &patchGen{g: g, pTestOK: 0.9, kinds: allKinds}
				var ops []string
				for q := 0; q < rng.Intn(3); q++ {
					ops = append(ops, pg.genOp(cur))
				}
				content := joinOps(ops)
				if chance(0.25) {
					// data after the patch array: white space is fine, anything else is not a patch document
					content = append(content, pick(" ", "\n", "]", "]", "}", "}", " ]", "\n}", "\n]\n", "[]", " x", ",", "null", "\f", "\v", "\xc2\xa0", "\xe3\x80\x80", "\xc2\x85", "\xe2\x80\xa8")...)
				} else if chance(0.06) {
					// white space of Unicode that is not white space of JSON, in front
					content = append([]byte(pick("\f", "\v", "\xc2\xa0", "\xe3\x80\x80", "\xef\xbb\xbf")), content...)
				}
				os.WriteFile(path, content, 0o644)
				files = append(files, "file:"+hx(content))
				if ob := runApply(doc, content, aopts{neg: true, esc: true}); ob.status == "ok" {
					if c2, ok := decodeStd(ob.out); ok {
						cur = c2
					}
				}
			case r < 0.8:
				content := mutate([]byte(`[{"op":"add","path":"/a","value":1}]`))
				os.WriteFile(path, content, 0o644)
				files = append(files, "file:"+hx(content))
			case r < 0.84:
				// a patch file that is a named pipe (process substitution, mkfifo): readable, not a directory
				content := []byte(pick(`[]`, `[{"op":"add","path":"/fifo","value":1}]`, `[{"op":"test","path":"","value":0}]`, `{`))
				if err := syscall.Mkfifo(path, 0o600); err == nil {
					go func(pth string, c []byte) {
						if f, err := os.OpenFile(pth, os.O_WRONLY, 0); err == nil {
							f.Write(c)
							f.Close()
						}
					}(path, content)
				} else {
					os.WriteFile(path, content, 0o644)
				}
				files = append(files, "file:"+hx(content))
				if ob := runApply(doc, content, aopts{neg: true, esc: true}); ob.status == "ok" {
					if c2, ok := decodeStd(ob.out); ok {
						cur = c2
					}
				}
			case r < 0.9:
				files = append(files, "missing:")
			default:
				os.Mkdir(path, 0o755)
				files = append(files, "dir:")
			}
			args = append(args, "-p", path)
		}
		if chance(0.015) || i == 11 || i == 57 {
			// a great many patch files that cannot be decoded (an exit status is eight bits wide)
			bad := filepath.Join(dir, fmt.Sprintf("bad%d.json", i))
			content := []byte(pick("{", "[1", "nope", `[{"op":"add"}]`))
			os.WriteFile(bad, content, 0o644)
			args, files = nil, nil
			nbad := int(pick64(255, 256, 257, 512))
			if i == 11 {
				nbad = 256
			} else if i == 57 {
				nbad = 512
			}
			for j := 0; j < nbad; j++ {
				args = append(args, "-p", bad)
				files = append(files, "file:"+hx(content))
			}
		}
		cmd := exec.Command(bin, args...)
		cmd.Stdin = bytes.NewReader(doc)
		// the document arrives through a pipe, from a regular file, or — the empty document — from the
		// null device (what a service or cron job has as its standard input)
		if chance(0.06) {
			doc = nil
			cmd.Stdin = nil
			if chance(0.5) {
				if f, err := os.Open(os.DevNull); err == nil {
					defer f.Close()
					cmd.Stdin = f
				}
			}
		} else if chance(0.08) {
			// the document arrives in several writes with pauses, and may be larger than a pipe buffer
			if chance(0.4) && len(doc) > 2 && (doc[0] == '{' || doc[0] == '[') {
				pad := `"` + strings.Repeat("p", 70000+rng.Intn(200000)) + `"`
				if doc[0] == '{' {
					doc = []byte(`{"pad":` + pad + `,"z":` + string(doc) + `}`)
				} else {
					doc = []byte(`[` + pad + `,` + string(doc) + `]`)
				}
			}
			cmd.Stdin = nil
			if w, err := cmd.StdinPipe(); err != nil {
				cmd.Stdin = bytes.NewReader(doc)
			} else {
				pieces := 2 + rng.Intn(3)
				go func(d []byte) {
					defer w.Close()
					for q := 0; q < pieces; q++ {
						lo, hi := len(d)*q/pieces, len(d)*(q+1)/pieces
						w.Write(d[lo:hi])
						time.Sleep(3 * time.Millisecond)
					}
				}(append([]byte{}, doc...))
			}
		} else if chance(0.1) {
			sp := filepath.Join(dir, fmt.Sprintf("stdin%d.json", i))
			os.WriteFile(sp, doc, 0o644)
			if f, err := os.Open(sp); err == nil {
				defer f.Close()
				cmd.Stdin = f
			}
		}
		var so, se bytes.Buffer
		cmd.Stdout = &so
		cmd.Stderr = &se
		err := cmd.Run()
		code := 0
		if err != nil {
			if ee, ok := err.(*exec.ExitError); ok {
				code = ee.ExitCode()
			} else {
				code = -1
			}
		}
		emit("cli", kv{"stdin", hx(doc)}, kv{"files", strings.Join(files, ";")}, kv{"exit", fmt.Sprint(code)}, kv{"stdout", hx(so.Bytes())}, kv{"stderr", b2s(se.Len() > 0)})
	}
}

// ---------------------------------------------------------------- histories and concurrency

type call struct {
	kind  string // apply equal merge mm create decode
	a, b  []byte
	patch jsonpatch.Patch
	pidx  int
	opt   aopts
}

// slices returned by the calls of the current history, with private copies made when they were returned
var heldRes, heldResCopy [][]byte
var heldMu sync.Mutex

func hold(b []byte) {
	heldMu.Lock()
	defer heldMu.Unlock()
	if len(heldRes) > 64 {
		heldRes, heldResCopy = heldRes[:0], heldResCopy[:0]
	}
	heldRes = append(heldRes, b)
	heldResCopy = append(heldResCopy, append([]byte(nil), b...))
}

func resultsIntact() bool {
	heldMu.Lock()
	defer heldMu.Unlock()
	for i := range heldRes {
		if !bytes.Equal(heldRes[i], heldResCopy[i]) {
			return false
		}
	}
	return true
}

func (c call) run() string {
	switch c.kind {
	case "apply":
		var out []byte
		var err error
		st := guarded(func() { out, err = c.patch.ApplyIndentWithOptions(c.a, c.opt.indent, c.opt.mk()) })
		hold(out)
		return st + ":" + errBits(err) + b2s(err != nil) + ":" + hx(out)
	case "equal":
		var r bool
		st := guarded(func() { r = jsonpatch.Equal(c.a, c.b) })
		return st + ":" + b2s(r)
	case "merge":
		return runMerge(false, c.a, c.b).str()
	case "mm":
		return runMerge(true, c.a, c.b).str()
	case "create":
		return runCreate(c.a, c.b).str()
	default:
		var ok bool
		var n int
		st := guarded(func() { p, err := jsonpatch.DecodePatch(c.a); ok = err == nil; n = len(p) })
		return st + ":" + b2s(ok) + fmt.Sprint(n)
	}
}

type pool struct {
	docs    [][]byte
	patches []jsonpatch.Patch
	ptexts  [][]byte
	optset  []aopts
}

func mkPool() *pool {
	p := &pool{}
	for i := 0; i < 3; i++ {
		p.optset = append(p.optset, aopts{neg: chance(0.7), esc: chance(0.5), allow: chance(0.2), limit: pick64(0, 0, 5, 12, 30, 60)})
	}
	for i := 0; i < 6; i++ {
		g := genOpts{depth: 1 + rng.Intn(3), ws: chance(0.3), scalarRoot: chance(0.2), dupKeys: chance(0.3)}
		d := []byte(genDoc(g))
		if chance(0.15) {
			d = mutate(d)
		}
		if chance(0.15) {
			d = []byte(pick(`{"a":1,"b":2,"c":3,"d":4,"a":5}`, `{"k":{"x":1,"y":2,"z":3,"x":4},"b":[1]}`, `[{"p":null,"q":[1,2],"r":0,"p":null}]`))
		}
		p.docs = append(p.docs, d)
	}
	for i := 0; i < 4; i++ {
		g := genOpts{depth: 2, ws: chance(0.6)} // pretty-printed patch files have white space inside values
		cur, _ := decodeStd(p.docs[rng.Intn(len(p.docs))])
		pg := &patchGen{g: g, pTestOK: 0.7, kinds: allKinds}
		var ops []string
		for q := 0; q < rng.Intn(5); q++ {
			if cur == nil {
				cur = map[string]interface{}{}
			}
			ops = append(ops, pg.genOp(cur))
		}
		t := joinOps(ops)
		if pt, err := jsonpatch.DecodePatch(t); err == nil {
			p.patches = append(p.patches, pt)
			p.ptexts = append(p.ptexts, t)
		}
	}
	if chance(0.3) {
		// a large value (object or array, well over a kilobyte of text) is stored and later operations of
		// the same patch walk into it; the patch is then used again and again
		var ms, es []string
		for j := 0; j < 30+rng.Intn(30); j++ {
			ms = append(ms, fmt.Sprintf(`"k%02d":%s`, j, pick(`"`+strings.Repeat("v", 20+rng.Intn(30))+`"`, `[1,2,3,{"n":null}]`, `{"in":{"deep":[true,false]}}`, `1234567890123456789012345678901234567890`)))
			es = append(es, pick(`"`+strings.Repeat("e", 30)+`"`, `{"x":1,"y":[2]}`, `null`, `12.50`))
		}
		big := pick("{"+strings.Join(ms, ",")+"}", "{"+strings.Join(ms, ",")+"}", "["+strings.Join(es, ",")+"]")
		at := pick("/big", "/a", "/0", "/-")
		inner := pick("/k00", "/k01/0", "/c", "/0", "/-", "/k02/in")
		ops := []string{
			fmt.Sprintf(`{"op":%s,"path":%s,"value":%s}`, pick(`"add"`, `"add"`, `"replace"`), jsonStr(at), big),
			pick(fmt.Sprintf(`{"op":"add","path":%s,"value":1}`, jsonStr(at+inner)), fmt.Sprintf(`{"op":"remove","path":%s}`, jsonStr(at+inner)),
				fmt.Sprintf(`{"op":"replace","path":%s,"value":{"r":2}}`, jsonStr(at+inner)), fmt.Sprintf(`{"op":"test","path":%s,"value":1}`, jsonStr(at+inner)),
				fmt.Sprintf(`{"op":"copy","from":%s,"path":%s}`, jsonStr(at+inner), jsonStr(at+"/copied"))),
		}
		t := joinOps(ops)
		if pt, err := jsonpatch.DecodePatch(t); err == nil {
			p.patches = append(p.patches, pt)
			p.ptexts = append(p.ptexts, t)
			p.docs = append(p.docs, []byte(pick(`{"a":{"x":1},"b":2}`, `[{"k00":1},2]`, `{"big":null}`, `{}`)))
		}
	}
	if chance(0.3) {
		// the document null (decoded into a nil map next to whatever key list the pooled decoder holds)
		// and patches that look at the root
		p.docs = append(p.docs, []byte(pick("null", " null ", "null\n")))
		t := []byte(pick(`[{"op":"test","path":"","value":{}}]`, `[{"op":"test","path":"","value":{}},{"op":"replace","path":"","value":{"ok":true}}]`,
			`[{"op":"add","path":"","value":null},{"op":"test","path":"","value":{}}]`, `[{"op":"test","path":"","value":null}]`))
		if pt, err := jsonpatch.DecodePatch(t); err == nil {
			p.patches = append(p.patches, pt)
			p.ptexts = append(p.ptexts, t)
		}
	}
	if chance(0.3) {
		// patch texts whose operations spell a member only in other cases, twice and differently (they are
		// decoded again and again in the history: the answer must not change)
		p.docs = append(p.docs, []byte(pick(`[{"Op":"add","OP":"remove","path":"/a","value":2}]`, `[{"op":"add","path":"/a","Value":1,"VALUE":[2]}]`,
			`[{"op":"add","Path":"/a","PATH":"/b","value":1}]`, `[{"op":"copy","From":"/a","FROM":"/b","path":"/c"}]`, `[{"oP":"test","Op":"remove","path":"/a","value":1}]`)))
	}
	if len(p.patches) == 0 {
		pt, _ := jsonpatch.DecodePatch([]byte("[]"))
		p.patches = append(p.patches, pt)
		p.ptexts = append(p.ptexts, []byte("[]"))
	}
	return p
}

func (p *pool) genCall() call {
	d := func() []byte { return p.docs[rng.Intn(len(p.docs))] }
	switch rng.Intn(7) {
	case 0, 1, 2:
		i := rng.Intn(len(p.patches))
		o := p.optset[rng.Intn(len(p.optset))] // a few settings per history, so that calls share an options value
		o.indent = pick("", "", " ")
		return call{kind: "apply", a: d(), patch: p.patches[i], pidx: i, opt: o}
	case 3:
		return call{kind: "equal", a: d(), b: d()}
	case 4:
		return call{kind: "merge", a: d(), b: d()}
	case 5:
		if chance(0.5) {
			return call{kind: "mm", a: d(), b: d()}
		}
		return call{kind: "create", a: d(), b: d()}
	default:
		if chance(0.5) {
			return call{kind: "decode", a: p.ptexts[rng.Intn(len(p.ptexts))]}
		}
		return call{kind: "decode", a: d()}
	}
}

func (c call) describe(p *pool) []kv {
	f := []kv{{"call", c.kind}, {"a", hx(c.a)}, {"b", hx(c.b)}}
	if c.kind == "apply" {
		f = append(f, kv{"patch", hx(p.ptexts[c.pidx])}, kv{"flags", b2s(c.opt.neg) + b2s(c.opt.allow) + b2s(c.opt.ensure) + b2s(c.opt.esc)}, kv{"limit", fmt.Sprint(c.opt.limit)}, kv{"indent", hx([]byte(c.opt.indent))})
	}
	return f
}

func snapshot(p *pool) [][]byte {
	var s [][]byte
	for _, d := range p.docs {
		s = append(s, append([]byte{}, d...))
	}
	for _, d := range p.ptexts {
		s = append(s, append([]byte{}, d...))
	}
	for _, pt := range p.patches {
		b, _ := ijson.Marshal(pt)
		s = append(s, b)
	}
	return s
}

func sameSnap(a, b [][]byte) bool {
	if len(a) != len(b) {
		return false
	}
	for i := range a {
		if !bytes.Equal(a[i], b[i]) {
			return false
		}
	}
	return true
}

// sameResult: two observations of one call.  C09/C10 demand the same bytes for Apply, ApplyIndent,
// CreateMergePatch and Equal, and the same JSON value (member order free) for MergePatch and
// MergeMergePatches, whose new members are appended in Go map iteration order.
func sameResult(kind, r1, r2 string) bool {
	if r1 == r2 {
		return true
	}
	if kind != "merge" && kind != "mm" {
		return false
	}
	i1, i2 := strings.LastIndex(r1, ":"), strings.LastIndex(r2, ":")
	if i1 < 0 || i2 < 0 || r1[:i1] != r2[:i2] {
		return false
	}
	v1, ok1 := decodeStd(unhx(r1[i1+1:]))
	v2, ok2 := decodeStd(unhx(r2[i2+1:]))
	return ok1 && ok2 && reflect.DeepEqual(v1, v2)
}

// historyStream: sequences of calls over shared inputs; each result is compared with the result of
// the same call issued first on a fresh pool of inputs (solo), inputs are snapshotted around calls
func historyStream(n int) {
	for h := 0; h < n; h++ {
		p := mkPool()
		k := 5 + rng.Intn(36)
		calls := make([]call, k)
		for i := range calls {
			if i > 0 && chance(0.3) {
				calls[i] = calls[rng.Intn(i)] // repeat an earlier call
			} else {
				calls[i] = p.genCall()
			}
		}
		snap := snapshot(p)
		res := make([]string, k)
		mutated := -1
		for i, c := range calls {
			res[i] = c.run()
			if mutated < 0 && !sameSnap(snap, snapshot(p)) {
				mutated = i
			}
			if mutated < 0 && !resultsIntact() {
				mutated = i // a slice returned by an earlier call was overwritten
			}
		}
		// the same calls again, in reverse order
		differs := -1
		differsRes := ""
		for i := k - 1; i >= 0; i-- {
			if r := calls[i].run(); !sameResult(calls[i].kind, r, res[i]) && differs < 0 {
				differs = i
				differsRes = r
			}
		}
		for i, c := range calls {
			f := append([]kv{{"hist", fmt.Sprint(h)}, {"pos", fmt.Sprint(i)}}, c.describe(p)...)
			f = append(f, kv{"res", res[i]})
			emit("hcall", f...)
		}
		hf := []kv{{"hist", fmt.Sprint(h)}, {"calls", fmt.Sprint(k)}, {"mutated_at", fmt.Sprint(mutated)}, {"differs_at", fmt.Sprint(differs)}}
		if differs >= 0 {
			hf = append(hf, calls[differs].describe(p)...)
			hf = append(hf, kv{"first", res[differs]}, kv{"again", differsRes})
		}
		emit("history", hf...)
	}
}

func pick64int(xs ...int) int { return xs[rng.Intn(len(xs))] }

func minInt(a, b int) int {
	if a < b {
		return a
	}
	return b
}

func concurrentStream(n int, goroutines int) {
	concurrentRuns(n, goroutines, false)
}

// coldChild is what one fresh process of the cold-start stream does: the FIRST library calls of the
// process are made by all goroutines at once, in the same order behind a start barrier (whatever the
// library initialises lazily on first use — per-type encoder and field caches, pools — is initialised
// under contention); the solo results are computed afterwards
func coldChild(goroutines int) {
	concurrentRuns(1, goroutines, true)
}

// coldStartStream runs n fresh processes of this binary, each doing coldChild, and collects their cases
func coldStartStream(n int, goroutines int, outPath string) {
	self, err := os.Executable()
	if err != nil {
		fmt.Fprintln(os.Stderr, err)
		os.Exit(2)
	}
	for i := 0; i < n; i++ {
		tmp := fmt.Sprintf("%s.cold%d", outPath, i)
		cmd := exec.Command(self, "-stream", "coldchild", "-n", "1", "-goroutines", fmt.Sprint(goroutines), "-o", tmp)
		cmd.Env = append(os.Environ(), fmt.Sprintf("VERIF_SEED=%d", envInt("VERIF_SEED", 1)*1000+int64(i)+1))
		outb, err := cmd.CombinedOutput()
		data, _ := os.ReadFile(tmp)
		os.Remove(tmp)
		os.Remove(tmp + ".pending")
		if err != nil && len(data) == 0 {
			// the child died (fatal error, unrecovered panic in a goroutine of the library): a failed run
			emit("concurrent", kv{"run", fmt.Sprintf("cold%d", i)}, kv{"goroutines", fmt.Sprint(goroutines)}, kv{"calls", "0"}, kv{"differs_at", "0"}, kv{"mutated", "0"}, kv{"died", hx(outb[:minInt(len(outb), 1500)])})
			continue
		}
		for _, line := range strings.Split(string(data), "\n") {
			if strings.HasPrefix(line, "concurrent\t") {
				f := []kv{}
				for _, part := range strings.Split(line, "\t")[1:] {
					if j := strings.IndexByte(part, '='); j > 0 && part[:j] != "id" {
						v := part[j+1:]
						if part[:j] == "run" {
							v = fmt.Sprintf("cold%d", i)
						}
						f = append(f, kv{part[:j], v})
					}
				}
				emit("concurrent", f...)
			}
		}
	}
}

func concurrentRuns(n int, goroutines int, cold bool) {
	for h := 0; h < n; h++ {
		p := mkPool()
		k := 30 + rng.Intn(50)
		calls := make([]call, k)
		for i := range calls {
			calls[i] = p.genCall()
		}
		// the solo results come from a second decoding of the same patch texts, so that the shared
		// Patch values meet their first Apply inside the concurrent phase
		clone := make([]jsonpatch.Patch, len(p.ptexts))
		for i, t := range p.ptexts {
			clone[i], _ = jsonpatch.DecodePatch(t)
		}
		solo := make([]string, k)
		soloRun := func() {
			for i, c := range calls {
				sc := c
				if sc.kind == "apply" {
					sc.patch = clone[sc.pidx]
				}
				solo[i] = sc.run()
			}
		}
		if !cold {
			soloRun()
		}
		snap := snapshot(p)
		var wg sync.WaitGroup
		bad := make([]int, goroutines)
		got := make([][]string, goroutines)
		start := make(chan struct{})
		for gi := 0; gi < goroutines; gi++ {
			wg.Add(1)
			order := rand.New(rand.NewSource(rng.Int63())).Perm(k)
			if cold {
				for i := range order {
					order[i] = i
				}
			}
			go func(gi int, order []int) {
				defer wg.Done()
				bad[gi] = -1
				got[gi] = make([]string, k)
				<-start
				for _, i := range order {
					r := calls[i].run()
					got[gi][i] = r
					if !cold && !sameResult(calls[i].kind, r, solo[i]) && bad[gi] < 0 {
						bad[gi] = i
					}
				}
			}(gi, order)
		}
		close(start)
		wg.Wait()
		if cold {
			soloRun()
			for gi := range got {
				for i := range calls {
					if !sameResult(calls[i].kind, got[gi][i], solo[i]) && bad[gi] < 0 {
						bad[gi] = i
					}
				}
			}
		}
		firstBad := -1
		for _, b := range bad {
			if b >= 0 {
				firstBad = b
			}
		}
		f := []kv{{"run", fmt.Sprint(h)}, {"goroutines", fmt.Sprint(goroutines)}, {"calls", fmt.Sprint(k)}, {"differs_at", fmt.Sprint(firstBad)}, {"mutated", b2s(!sameSnap(snap, snapshot(p)))}}
		if firstBad >= 0 {
			f = append(f, calls[firstBad].describe(p)...)
			f = append(f, kv{"solo", solo[firstBad]})
		}
		emit("concurrent", f...)
		// a sample of the solo results goes to the oracle as ordinary calls
		for i := 0; i < 5 && i < k && !cold; i++ {
			ff := append([]kv{{"hist", "c" + fmt.Sprint(h)}, {"pos", fmt.Sprint(i)}}, calls[i].describe(p)...)
			emit("hcall", append(ff, kv{"res", solo[i]})...)
		}
	}
}

// ---------------------------------------------------------------- replay of recorded inputs

func unhx(s string) []byte {
	if len(s) == 0 || s[0] != 'x' {
		return nil
	}
	b, _ := hex.DecodeString(s[1:])
	return b
}

func replayStream(path string) {
	data, err := os.ReadFile(path)
	if err != nil {
		fmt.Fprintln(os.Stderr, err)
		os.Exit(2)
	}
	for _, line := range strings.Split(string(data), "\n") {
		parts := strings.Split(line, "\t")
		if len(parts) < 2 {
			continue
		}
		f := map[string]string{}
		for _, p := range parts[1:] {
			if i := strings.IndexByte(p, '='); i > 0 {
				f[p[:i]] = p[i+1:]
			}
		}
		switch parts[0] {
		case "apply":
			fl := f["flags"] + "0000"
			a := aopts{neg: fl[0] == '1', allow: fl[1] == '1', ensure: fl[2] == '1', esc: fl[3] == '1', indent: string(unhx(f["indent"]))}
			fmt.Sscan(f["limit"], &a.limit)
			patch := unhx(f["patch"])
			emitApply(f["stream"], unhx(f["doc"]), splitOps(patch), patch, a, true)
		case "equal":
			emitEqual(unhx(f["a"]), unhx(f["b"]))
		case "merge":
			o := runMerge(f["mode"] == "mm", unhx(f["doc"]), unhx(f["patch"]))
			emit("merge", kv{"mode", f["mode"]}, kv{"doc", f["doc"]}, kv{"patch", f["patch"]}, kv{"obs", o.str()})
		case "merge3":
			emitMerge3(unhx(f["doc"]), unhx(f["p1"]), unhx(f["p2"]))
		case "create":
			emitCreate(unhx(f["a"]), unhx(f["b"]))
		case "decode":
			decodeCase(unhx(f["in"]))
		case "valid":
			if len(f["in"]) > 20000 {
				validDeep(unhx(f["in"]))
			} else {
				validCase(unhx(f["in"]), true)
			}
		}
	}
}

// splitOps recovers the operations of a patch text as separate texts (nil if it is not an array)
func splitOps(patch []byte) []string {
	var raw []stdjson.RawMessage
	if err := stdjson.Unmarshal(patch, &raw); err != nil {
		return nil
	}
	ops := make([]string, len(raw))
	for i, r := range raw {
		ops[i] = string(r)
	}
	return ops
}

// ---------------------------------------------------------------- main

func main() {
	stream := flag.String("stream", "", "which stream of cases")
	n := flag.Int("n", 1000, "number of cases")
	outPath := flag.String("o", "", "output file")
	bin := flag.String("bin", "", "json-patch binary (cli stream)")
	exh := flag.Int("exhaust", 0, "exhaustive length bound (valid stream)")
	gor := flag.Int("goroutines", 8, "goroutines (concurrent stream)")
	inPath := flag.String("in", "", "recorded cases (replay stream)")
	flag.Parse()
	rng = rand.New(rand.NewSource(envInt("VERIF_SEED", 1)))
	f, err := os.Create(*outPath)
	if err != nil {
		fmt.Fprintln(os.Stderr, err)
		os.Exit(2)
	}
	out = bufio.NewWriterSize(f, 1<<20)
	pendingPath = *outPath + ".pending"
	defer os.Remove(pendingPath)
	defer func() { out.Flush(); f.Close() }()
	switch *stream {
	case "apply-c01":
		applyStream(applyCfg{name: *stream, pTestOK: 0.75, kinds: allKinds, pRetry: 0.8}, *n)
	case "stdcmp":
		stdcmpStream(*n)
	case "apply-deep":
		deepStream(*n)
	case "apply-empty":
		emptyTokenStream(*n)
	case "apply-rootnull":
		rootNullStream(*n)
	case "apply-any":
		applyStream(applyCfg{name: *stream, allow: 0.3, ensure: 0.3, limitMode: 1, odd: true, dup: true, scalar: true, pTestOK: 0.6, kinds: allKinds}, *n)
	case "apply-fail":
		applyStream(applyCfg{name: *stream, allow: 0.2, limitMode: 1, pTestOK: 0.5, kinds: allKinds}, *n)
	case "apply-copy":
		applyStream(applyCfg{name: *stream, limitMode: 1, pTestOK: 0.9, pRetry: 0.9, kinds: []string{"copy", "copy", "copy", "add", "test", "move", "remove", "replace"}}, *n)
	case "apply-remove":
		applyStream(applyCfg{name: *stream, allow: 0.8, pTestOK: 0.9, pRetry: 0.7, kinds: []string{"remove", "remove", "remove", "add", "test", "move", "copy", "replace"}}, *n)
	case "apply-ensure":
		applyStream(applyCfg{name: *stream, ensure: 0.9, pTestOK: 0.9, pRetry: 0.7, kinds: []string{"add", "add", "add", "add", "test", "remove", "copy", "replace"}}, *n)
	case "apply-c15":
		applyStream(applyCfg{name: *stream, canonical: true, pTestOK: 0.97, pRetry: 0.9, kinds: allKinds, extra: true}, *n)
	case "apply-c15b":
		applyStream(applyCfg{name: *stream, pTestOK: 0.9, pRetry: 0.8, kinds: allKinds, extra: true, allow: 0.2, ensure: 0.2}, *n)
	case "equal":
		equalStream(*n)
	case "merge":
		mergeStream(*n)
	case "merge3":
		merge3Stream(*n)
	case "create":
		createStream(*n)
	case "decode":
		decodeStream(*n, false)
	case "decode-exhaustive":
		decodeStream(0, true)
	case "valid":
		validStream(*n, 0)
	case "valid-exhaustive":
		validStream(0, *exh)
	case "replay":
		replayStream(*inPath)
	case "cli":
		cliStream(*n, *bin)
	case "history":
		historyStream(*n)
	case "concurrent":
		concurrentStream(*n, *gor)
	case "coldstart":
		coldStartStream(*n, *gor, *outPath)
	case "coldchild":
		coldChild(*gor)
	default:
		fmt.Fprintln(os.Stderr, "unknown stream", *stream)
		os.Exit(2)
	}
}
