//go:build verif

// Harness for the legacy root package (import path github.com/evanphx/json-patch, v4 API), staged
// as a module from /repo's working tree.
package main

import (
	"bufio"
	"encoding/hex"
	stdjson "encoding/json"
	"errors"
	"flag"
	"fmt"
	"math/rand"
	"os"
	"strings"
	"time"

	jsonpatch "github.com/evanphx/json-patch"
)

func guarded(f func()) (status string) {
	done := make(chan string, 1)
	go func() {
		defer func() {
			if r := recover(); r != nil {
				done <- "panic"
			}
		}()
		f()
		done <- "ok"
	}()
	select {
	case s := <-done:
		return s
	case <-time.After(30 * time.Second):
		return "timeout"
	}
}

func errBits(err error) string {
	if err == nil {
		return "00000"
	}
	var ce *jsonpatch.AccumulatedCopySizeError
	return b2s(errors.Is(err, jsonpatch.ErrTestFailed)) + b2s(errors.Is(err, jsonpatch.ErrMissing)) +
		b2s(errors.As(err, &ce)) + b2s(errors.Is(err, jsonpatch.ErrInvalidIndex)) + b2s(errors.Is(err, jsonpatch.ErrInvalid))
}

type obs4 struct {
	decOK   bool
	status  string
	out     []byte
	outNil  bool
	errbits string
}

func runApply4(doc, patch []byte, neg bool, limit int64, indent string) obs4 {
	pending("apply4", kv{"flags", b2s(neg) + "001"}, kv{"limit", fmt.Sprint(limit)}, kv{"indent", hx([]byte(indent))},
		kv{"patch", hx(patch)}, kv{"doc", hx(doc)}, kv{"status", "crash"})
	var ob obs4
	jsonpatch.SupportNegativeIndices = neg
	jsonpatch.AccumulatedCopySizeLimit = limit
	st := guarded(func() {
		p, err := jsonpatch.DecodePatch(patch)
		if err != nil {
			return
		}
		ob.decOK = true
		out, err := p.ApplyIndent(doc, indent)
		ob.out = out
		ob.outNil = out == nil
		ob.errbits = errBits(err)
		if err != nil {
			ob.status = "err"
		} else {
			ob.status = "ok"
		}
	})
	if st != "ok" {
		ob.status = st
		ob.decOK = true
	}
	if !ob.decOK && ob.status == "" {
		ob.status = "nodec"
	}
	return ob
}

func joinOps(ops []string) []byte { return []byte("[" + strings.Join(ops, ",") + "]") }

func emitApply4(stream string, doc, patch []byte, neg bool, limit int64, indent string) {
	ob := runApply4(doc, patch, neg, limit, indent)
	emit("apply4", kv{"stream", stream}, kv{"flags", b2s(neg) + "001"}, kv{"limit", fmt.Sprint(limit)}, kv{"indent", hx([]byte(indent))},
		kv{"patch", hx(patch)}, kv{"doc", hx(doc)}, kv{"dec", b2s(ob.decOK)}, kv{"status", ob.status}, kv{"out", hx(ob.out)},
		kv{"outnil", b2s(ob.outNil)}, kv{"errbits", ob.errbits})
}

func apply4Stream(name string, n int, any bool) {
	if !any {
		// C18's domain: strings spelled without escapes and without < > &
		saved, savedK := strPool, keyPool
		strPool = []string{"", "x", "hello", "  ", "a/b", "é", "\U0001F600", "foo bar", "m~n"}
		keyPool = []string{"a", "b", "c", "a/b", "m~n", "~1", "0", "1", "-1", "-", "é", " ", "x y", "foo", "bar", "2", "~0"}
		defer func() { strPool, keyPool = saved, savedK }()
	}
	for i := 0; i < n; i++ {
		neg := chance(0.6)
		g := genOpts{depth: 1 + rng.Intn(3), ws: chance(0.4), canonical: !any || chance(0.5), esc: true, scalarRoot: any, dupKeys: any && chance(0.2), lone: any && chance(0.2)}
		doc := []byte(genDoc(g))
		pg := &patchGen{g: g, odd: any, pTestOK: 0.75, kinds: allKinds4, orig: doc}
		nops := rng.Intn(9)
		var ops []string
		cur, ok := decodeStd(doc)
		failed := false
		for j := 0; j < nops && ok; j++ {
			ops = append(ops, pg.genOp(cur))
			if failed {
				continue
			}
			ob := runApply4(doc, joinOps(ops), neg, 0, "")
			if ob.status != "ok" {
				if chance(0.75) {
					ops = ops[:len(ops)-1]
					continue
				}
				failed = true
				if nops > j+2 {
					nops = j + 2
				}
				continue
			}
			if c2, ok2 := decodeStd(ob.out); ok2 {
				cur = c2
			}
		}
		var limit int64
		if any && chance(0.3) {
			limit = int64([]int64{1, 5, 20, 100}[rng.Intn(4)])
		}
		indent := ""
		if any && chance(0.2) {
			indent = " "
		}
		patch := joinOps(ops)
		if any && chance(0.05) {
			patch = mutate(patch)
		}
		if any && chance(0.05) {
			doc = mutate(doc)
		}
		emitApply4(name, doc, patch, neg, limit, indent)
	}
}

var allKinds4 = []string{"add", "add", "remove", "replace", "move", "copy", "test", "test"}

type mobs struct {
	status string
	out    []byte
	errk   string
}

func (o mobs) str() string { return o.status + ":" + o.errk + ":" + hx(o.out) }

func runMerge4(mm bool, doc, patch []byte) mobs {
	var o mobs
	st := guarded(func() {
		var out []byte
		var err error
		if mm {
			out, err = jsonpatch.MergeMergePatches(doc, patch)
		} else {
			out, err = jsonpatch.MergePatch(doc, patch)
		}
		if err != nil {
			o.status = "err"
			return
		}
		o.status = "ok"
		o.out = out
	})
	if st != "ok" {
		o.status = st
	}
	return o
}

func runCreate4(a, b []byte) mobs {
	var o mobs
	st := guarded(func() {
		out, err := jsonpatch.CreateMergePatch(a, b)
		if err != nil {
			o.status = "err"
			return
		}
		o.status = "ok"
		o.out = out
	})
	if st != "ok" {
		o.status = st
	}
	return o
}

// merge patches as in the v5 harness (object patches related to the document)
func genMergePatch4(doc interface{}, g genOpts, depth int) string {
	m, isObj := doc.(map[string]interface{})
	if !isObj {
		m = map[string]interface{}{}
	}
	var parts []string
	used := map[string]bool{}
	n := rng.Intn(4)
	keys := make([]string, 0, len(m))
	for k := range m {
		keys = append(keys, k)
	}
	for i := 1; i < len(keys); i++ {
		for j := i; j > 0 && keys[j] < keys[j-1]; j-- {
			keys[j], keys[j-1] = keys[j-1], keys[j]
		}
	}
	for i := 0; i < n; i++ {
		var k string
		if len(keys) > 0 && chance(0.6) {
			k = keys[rng.Intn(len(keys))]
		} else {
			k = keyPool[rng.Intn(len(keyPool))]
		}
		if used[k] {
			continue
		}
		used[k] = true
		var v string
		r := rng.Float64()
		switch {
		case r < 0.25:
			v = "null"
		case r < 0.6 && depth > 0:
			v = genMergePatch4(m[k], g, depth-1)
		case r < 0.7:
			v = pick(`[{"a":null,"b":1},null]`, `[null]`, `[[{"x":null}]]`, `{"a":[{"b":null}]}`)
		default:
			v = genValue(g, 2)
		}
		parts = append(parts, spellStr(k, g)+":"+v)
	}
	return "{" + strings.Join(parts, ",") + "}"
}

func merge4Stream(n int, any bool) {
	for i := 0; i < n; i++ {
		g := genOpts{depth: 1 + rng.Intn(3), ws: chance(0.3), scalarRoot: true}
		doc := []byte(genDoc(g))
		dv, _ := decodeStd(doc)
		var patch []byte
		if chance(0.8) {
			patch = []byte(genMergePatch4(dv, g, 3))
		} else if chance(0.5) {
			patch = []byte(genArray(g, 2))
		} else {
			patch = []byte(genDoc(g))
		}
		if chance(0.08) {
			doc, patch = sharedSubtreePair(g)
		}
		if any && chance(0.1) {
			patch = mutate(patch)
		}
		if any && chance(0.1) {
			doc = mutate(doc)
		}
		o := runMerge4(false, doc, patch)
		emit("merge4", kv{"mode", "m"}, kv{"doc", hx(doc)}, kv{"patch", hx(patch)}, kv{"obs", o.str()})
	}
}

func emitMerge34(doc, p1, p2 []byte) {
	mmo := runMerge4(true, p1, p2)
	var comb, seq mobs
	if mmo.status == "ok" {
		comb = runMerge4(false, doc, mmo.out)
	}
	s1 := runMerge4(false, doc, p1)
	if s1.status == "ok" {
		seq = runMerge4(false, s1.out, p2)
	} else {
		seq = s1
	}
	emit("merge34", kv{"doc", hx(doc)}, kv{"p1", hx(p1)}, kv{"p2", hx(p2)}, kv{"mm", mmo.str()}, kv{"comb", comb.str()}, kv{"seq", seq.str()})
}

func merge34Stream(n int) {
	for i := 0; i < n; i++ {
		g := genOpts{depth: 1 + rng.Intn(3), scalarRoot: true}
		doc := []byte(genDoc(g))
		dv, _ := decodeStd(doc)
		p1 := []byte(genMergePatch4(dv, g, 3))
		p1v, _ := decodeStd(p1)
		var p2 []byte
		if chance(0.6) {
			p2 = []byte(genMergePatch4(p1v, g, 3))
		} else {
			p2 = []byte(genMergePatch4(dv, g, 3))
		}
		emitMerge34(doc, p1, p2)
	}
}

// numbers that Go prints back unchanged from a float64: plain integers below 2^53
var savedNumPool []string

func emitCreate4(a, b []byte) {
	o := runCreate4(a, b)
	var re mobs
	if o.status == "ok" {
		re = runMerge4(false, a, o.out)
	}
	emit("create4", kv{"a", hx(a)}, kv{"b", hx(b)}, kv{"obs", o.str()}, kv{"reapplied", re.str()}, kv{"stable", b2s(floatStable(a) && floatStable(b))})
}

// floatStable: every number of the text is spelled exactly as encoding/json prints its float64
// value (so that decoding into float64 and encoding again reproduces the literal)
func floatStable(text []byte) bool {
	v, ok := decodeStd(text)
	if !ok {
		return false
	}
	var walk func(x interface{}) bool
	walk = func(x interface{}) bool {
		switch t := x.(type) {
		case stdjson.Number:
			f, err := t.Float64()
			if err != nil {
				return false
			}
			out, err := stdjson.Marshal(f)
			return err == nil && string(out) == string(t)
		case []interface{}:
			for _, e := range t {
				if !walk(e) {
					return false
				}
			}
		case map[string]interface{}:
			for _, e := range t {
				if !walk(e) {
					return false
				}
			}
		}
		return true
	}
	return walk(v)
}

func create4Stream(n int) {
	savedNumPool = numPool
	// exactly representable / float-stable spellings, some of them very close to one another
	numPool = []string{"0", "1", "2", "-1", "3", "10", "42", "9007199254740991", "-7", "100", "1e-10", "2e-10", "0.1234567891", "0.1234567892",
		"1.5", "1.5000000001", "1000000.1", "1000000.2", "5e-324", "0.5", "0.25"}
	defer func() { numPool = savedNumPool }()
	for i := 0; i < n; i++ {
		g := genOpts{depth: 1 + rng.Intn(3), ws: chance(0.3)}
		a := []byte(genObject(g, g.depth))
		av, _ := decodeStd(a)
		var b []byte
		if chance(0.8) {
			v := av
			for q := 0; q < rng.Intn(4); q++ {
				v = perturb4(v)
			}
			b = []byte(respell(v, g))
		} else {
			b = []byte(genObject(g, g.depth))
		}
		emitCreate4(a, b)
	}
}

func perturb4(v interface{}) interface{} {
	switch x := v.(type) {
	case map[string]interface{}:
		m := map[string]interface{}{}
		for k, e := range x {
			m[k] = e
		}
		if len(m) > 0 && chance(0.7) {
			ks := make([]string, 0, len(m))
			for k := range m {
				ks = append(ks, k)
			}
			sortStrings(ks)
			k := ks[rng.Intn(len(ks))]
			e := m[k]
			{
				if chance(0.5) {
					m[k] = perturb4(e)
				} else if chance(0.5) {
					delete(m, k)
				} else {
					m[k] = "changed"
				}
			}
		} else {
			m["new"] = true
		}
		return m
	case []interface{}:
		l := append([]interface{}{}, x...)
		if len(l) > 0 && chance(0.7) {
			i := rng.Intn(len(l))
			if chance(0.6) {
				l[i] = perturb4(l[i]) // inside the element: an object in an array that gains or loses a member
			} else {
				l[i] = "changed"
			}
		} else {
			l = append(l, false)
		}
		return l
	case string:
		return perturbString(x)
	case bool:
		return !x
	case stdjson.Number:
		if n, ok := closeNum4[string(x)]; ok && chance(0.7) {
			return stdjson.Number(n)
		}
		return stdjson.Number(pick("0", "1", "2", "7"))
	}
	return "other"
}

// a different number close by (both float-stable)
var closeNum4 = map[string]string{"1e-10": "2e-10", "2e-10": "1e-10", "0.1234567891": "0.1234567892", "0.1234567892": "0.1234567891",
	"1.5": "1.5000000001", "1.5000000001": "1.5", "1000000.1": "1000000.2", "1000000.2": "1000000.1", "0": "5e-324", "5e-324": "0", "0.5": "0.25", "1": "2"}

func emitEqual4(a, b []byte) {
	var res bool
	st := guarded(func() { res = jsonpatch.Equal(a, b) })
	var res2 bool
	st2 := guarded(func() { res2 = jsonpatch.Equal(b, a) })
	emit("equal4", kv{"a", hx(a)}, kv{"b", hx(b)}, kv{"status", st}, kv{"res", b2s(res)}, kv{"status2", st2}, kv{"res2", b2s(res2)})
}

func equal4Stream(n int) {
	saved := strPool
	strPool = []string{"", "x", "hello", "  ", "a/b", "é", "\U0001F600", "tab", "foo bar"}
	savedK := keyPool
	keyPool = []string{"a", "b", "c", "a/b", "m~n", "0", "1", "-", "é", " ", "x y", "foo", "bar"}
	defer func() { strPool = saved; keyPool = savedK }()
	for i := 0; i < n; i++ {
		g := genOpts{depth: 1 + rng.Intn(3), ws: chance(0.5), canonical: true, dupKeys: chance(0.15)}
		var a []byte
		if chance(0.5) {
			a = []byte(genObject(g, g.depth))
		} else {
			a = []byte(genArray(g, g.depth))
		}
		var b []byte
		r := rng.Float64()
		av, _ := decodeStd(a)
		switch {
		case r < 0.5:
			b = []byte(ws(g) + respell(av, g) + ws(g))
		case r < 0.8:
			b = []byte(respell(perturb4(av), g))
		default:
			b = []byte(genObject(g, g.depth))
		}
		if chance(0.04) {
			// a member name spelled more than once (the last value counts) against the text that spells it once
			k1, k2 := pick(`"a"`, `"k"`, `"x y"`), pick(`"b"`, `"z"`)
			v1, v2 := genValue(g, 1), genValue(g, 1)
			a = []byte("{" + k1 + ":" + v1 + "," + k1 + ":" + v2 + "," + k2 + ":1}")
			b = []byte("{" + k1 + ":" + pick(v2, v2, v1) + "," + k2 + ":1}")
			if chance(0.4) {
				a, b = []byte("["+string(a)+"]"), []byte("["+string(b)+"]")
			}
			if chance(0.5) {
				a, b = b, a
			}
		}
		emitEqual4(a, b)
	}
}

func unhx(s string) []byte {
	if len(s) == 0 || s[0] != 'x' {
		return nil
	}
	b, _ := hex.DecodeString(s[1:])
	return b
}

func replay4(path string) {
	data, err := os.ReadFile(path)
	if err != nil {
		fmt.Fprintln(os.Stderr, err)
		os.Exit(2)
	}
	for _, line := range strings.Split(string(data), "\n") {
		parts := strings.Split(line, "\t")
		if len(parts) < 2 {
			continue
		}
		f := map[string]string{}
		for _, p := range parts[1:] {
			if i := strings.IndexByte(p, '='); i > 0 {
				f[p[:i]] = p[i+1:]
			}
		}
		switch parts[0] {
		case "apply4":
			var limit int64
			fmt.Sscan(f["limit"], &limit)
			emitApply4(f["stream"], unhx(f["doc"]), unhx(f["patch"]), (f["flags"] + "0")[0] == '1', limit, string(unhx(f["indent"])))
		case "merge4":
			o := runMerge4(false, unhx(f["doc"]), unhx(f["patch"]))
			emit("merge4", kv{"mode", "m"}, kv{"doc", f["doc"]}, kv{"patch", f["patch"]}, kv{"obs", o.str()})
		case "merge34":
			emitMerge34(unhx(f["doc"]), unhx(f["p1"]), unhx(f["p2"]))
		case "create4":
			emitCreate4(unhx(f["a"]), unhx(f["b"]))
		case "equal4":
			emitEqual4(unhx(f["a"]), unhx(f["b"]))
		}
	}
}

func main() {
	stream := flag.String("stream", "", "which stream of cases")
	n := flag.Int("n", 1000, "number of cases")
	outPath := flag.String("o", "", "output file")
	inPath := flag.String("in", "", "recorded cases (replay stream)")
	flag.Parse()
	rng = rand.New(rand.NewSource(envInt("VERIF_SEED", 1)))
	f, err := os.Create(*outPath)
	if err != nil {
		fmt.Fprintln(os.Stderr, err)
		os.Exit(2)
	}
	out = bufio.NewWriterSize(f, 1<<20)
	pendingPath = *outPath + ".pending"
	defer os.Remove(pendingPath)
	defer func() { out.Flush(); f.Close() }()
	switch *stream {
	case "apply4-c18":
		apply4Stream(*stream, *n, false)
	case "apply4-any":
		apply4Stream(*stream, *n, true)
	case "merge4":
		merge4Stream(*n, false)
	case "merge4-any":
		merge4Stream(*n, true)
	case "merge34":
		merge34Stream(*n)
	case "create4":
		create4Stream(*n)
	case "equal4":
		equal4Stream(*n)
	case "replay":
		replay4(*inPath)
	default:
		fmt.Fprintln(os.Stderr, "unknown stream", *stream)
		os.Exit(2)
	}
}
