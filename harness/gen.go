//go:build verif

// Generators shared by the v5 and v4 harnesses.  Every random choice comes from one PRNG seeded by
// VERIF_SEED, so a run replays exactly.
package main

import (
	"bufio"
	"encoding/hex"
	stdjson "encoding/json"
	"fmt"
	"math/rand"
	"os"
	"sort"
	"strconv"
	"strings"
	"unicode/utf8"
)

var rng *rand.Rand
var out *bufio.Writer
var caseNo int

func hx(b []byte) string { return "x" + hex.EncodeToString(b) }

type kv struct{ k, v string }

// pending records the inputs of the call about to be made: if the process dies of a fatal runtime
// error (stack exhaustion, concurrent map write) the driver reports those inputs as the replay
var pendingPath string

func pending(kind string, fields ...kv) {
	if pendingPath == "" {
		return
	}
	var sb strings.Builder
	sb.WriteString(kind + "\tid=crash")
	for _, f := range fields {
		sb.WriteString("\t" + f.k + "=" + f.v)
	}
	sb.WriteString("\n")
	os.WriteFile(pendingPath, []byte(sb.String()), 0o644)
}

func emit(kind string, fields ...kv) {
	caseNo++
	fmt.Fprintf(out, "%s\tid=%d", kind, caseNo)
	for _, f := range fields {
		fmt.Fprintf(out, "\t%s=%s", f.k, f.v)
	}
	out.WriteByte('\n')
}

func b2s(b bool) string {
	if b {
		return "1"
	}
	return "0"
}

func pick(xs ...string) string { return xs[rng.Intn(len(xs))] }
func chance(p float64) bool    { return rng.Float64() < p }

// ---------------------------------------------------------------- documents

// decoded member names; small alphabet so that collisions, escapes and pointer metacharacters occur
var keyPool = []string{"a", "b", "c", "a/b", "m~n", "~1", "0", "1", "-1", "-", "é", " ", "<", "k\"q", "x y", "foo", "bar", "é\U0001F600", "&", "2", "~0", "z\\", "", "\u2028", ">", ""}
var numPool = []string{"0", "1", "2", "-1", "1.0", "1e400", "12345678901234567890123", "1E+2", "-0", "0.5", "3", "10", "2.50",
	"9007199254740992", "9007199254740993", "1.0000000000000001", "1.0000000000000002", "0.1", "0.10000000000000001", "1e-400", "123456789012345678"}

// numbers that differ only beyond float64 precision (or only in spelling): a comparison through
// float64 cannot tell them apart
var nearNum = map[string]string{
	"9007199254740992": "9007199254740993", "9007199254740993": "9007199254740992",
	"1.0000000000000001": "1.0000000000000002", "1.0000000000000002": "1.0000000000000001",
	"0.1": "0.10000000000000001", "0.10000000000000001": "0.1",
	"12345678901234567890123": "12345678901234567890124", "1e400": "1e401", "1e-400": "1e-401",
	"123456789012345678": "123456789012345679", "1": "1.0", "1.0": "1", "2.50": "2.5", "1E+2": "100", "-0": "0", "0": "-0",
}
var strPool = []string{"", "x", "hello", "100%d off", "50%", "%s%v%%", "<b>&", "  ", "a/b", "é", "\U0001F600", "q\"q", "back\\slash", "\x01\x1f", "tab\t", "é", "nul\x00"}

// more awkward names and strings: percent signs (they reach fmt verbs in error messages) and the
// raw line/paragraph separators (E2 80 A8 / E2 80 A9), which HTML escaping rewrites
func init() {
	keyPool = append(keyPool, "c%d", "50%", "%w", "100%s", "\xff\xff\xff\xff\xffabcdefgh")
	// many bytes that are not valid UTF-8 (each decodes to the three-byte U+FFFD: the decoded string
	// is longer than its spelling), early in a longer string
	strPool = append(strPool, "\xff\xff\xff\xff\xffabcdefgh", "\x80\x80\x80\x80\x80\x80 and a tail of text", "\xc3\xc3\xc3\xc3\xc3\xc3xxxxxxxxxxxxxxxx", "a\xe2\x80b\xf0\x9fc\xed\xa0\x80defghijkl")
	strPool = append(strPool, "l\xe2\x80\xa8s", "\xe2\x80\xa9", "a\xe2\x80\xa8b\xe2\x80\xa9c")
	// characters that Go's own quoting (strconv) would spell differently from JSON: DEL, C1 controls,
	// soft hyphen, BOM, non-printable characters beyond the BMP (tag characters, private use planes,
	// noncharacters, the last code point)
	odd := []string{"\x7f", "del\x7fete", "\xc2\x85", "\xc2\xad", "\xef\xbb\xbf", "\U000E0001tag", "\U000F0000", "\U0010FFFF", "\U0003FFFF", "x\U000E007Fy"}
	// exponents that do not fit an int (still RFC 8259 numbers, carried as literals)
	numPool = append(numPool, "1e99999999999999999999", "0e7777777777777777777777", "-1.5E-99999999999999999999", "2e+000000000000000000001", "1E9223372036854775808")
	keyPool = append(keyPool, odd...)
	// names whose length sits at the edges of small fixed-size buffers (with and without the quotes and the colon)
	for _, n := range []int{30, 61, 62, 63, 64, 125, 126, 127, 128, 254, 255, 256} {
		keyPool = append(keyPool, strings.Repeat("com.example/feature-flags.rollout-percentage.v2x", 8)[:n])
	}
	keyPool = append(keyPool, "line\nfeed", "cr\rlf", "\b\f", "\x01f", "\x0e", "a\x00b", "\x0b\x07")
	strPool = append(strPool, "line\nfeed", "cr\rlf\n", "\b\f\v")
	// decimal digits that are not ASCII (Arabic-Indic, fullwidth, Devanagari): member names, never indices
	keyPool = append(keyPool, "\xd9\xa3", "\xef\xbc\x91\xef\xbc\x92", "\xe0\xa5\xa7\xe0\xa5\xa8")
	strPool = append(strPool, odd...)
}

type genOpts struct {
	depth      int
	dupKeys    bool // allow duplicate member names
	canonical  bool // spell strings the way the encoder does (given esc)
	esc        bool
	ws         bool // random insignificant whitespace
	lone       bool // allow lone surrogate escapes / odd escapes
	scalarRoot bool
}

func ws(g genOpts) string {
	if !g.ws || chance(0.7) {
		return ""
	}
	return pick(" ", "\n", "\t", "\r", "  ", " \n")
}

var hexd = "0123456789abcdef"

// quoteGo spells s the way Go's encoder does (escapeHTML as given)
func quoteGo(s string, esc bool) string {
	var sb strings.Builder
	sb.WriteByte('"')
	for _, r := range s {
		switch {
		case r == '"' || r == '\\':
			sb.WriteByte('\\')
			sb.WriteRune(r)
		case r == '\n':
			sb.WriteString(`\n`)
		case r == '\r':
			sb.WriteString(`\r`)
		case r == '\t':
			sb.WriteString(`\t`)
		case r < 0x20 || (esc && (r == '<' || r == '>' || r == '&')):
			sb.WriteString(`\u00`)
			sb.WriteByte(hexd[r>>4])
			sb.WriteByte(hexd[r&0xf])
		case r == 0x2028 || r == 0x2029:
			sb.WriteString(`\u202`)
			sb.WriteByte(hexd[r&0xf])
		default:
			sb.WriteRune(r)
		}
	}
	sb.WriteByte('"')
	return sb.String()
}

// spell a string with random (valid) escape forms
func spellStr(s string, g genOpts) string {
	if g.canonical {
		return quoteGo(s, g.esc)
	}
	var sb strings.Builder
	sb.WriteByte('"')
	for i := 0; i < len(s); {
		r, size := utf8.DecodeRuneInString(s[i:])
		if r == utf8.RuneError && size == 1 {
			sb.WriteByte(s[i]) // a byte that is not valid UTF-8 goes into the text as it is
			i++
			continue
		}
		i += size
		switch {
		case r == '"' || r == '\\':
			sb.WriteByte('\\')
			sb.WriteRune(r)
		case r < 0x20:
			switch {
			case r == '\n' && chance(0.5):
				sb.WriteString(`\n`)
			case r == '\t' && chance(0.5):
				sb.WriteString(`\t`)
			default:
				fmt.Fprintf(&sb, `\u%04x`, r)
			}
		case r == '/' && chance(0.2):
			sb.WriteString(`\/`)
		case r < 0x10000 && chance(0.15):
			if chance(0.5) {
				fmt.Fprintf(&sb, `\u%04X`, r)
			} else {
				fmt.Fprintf(&sb, `\u%04x`, r)
			}
		case r >= 0x10000 && chance(0.3):
			r2 := r - 0x10000
			fmt.Fprintf(&sb, `\u%04x\u%04x`, 0xd800+(r2>>10), 0xdc00+(r2&0x3ff))
		default:
			sb.WriteRune(r)
		}
	}
	if g.lone && chance(0.05) {
		sb.WriteString(pick(`\ud800`, `\udc00`, `\ud800A`, `\uD834`))
	}
	sb.WriteByte('"')
	return sb.String()
}

func genScalar(g genOpts) string {
	switch rng.Intn(6) {
	case 0:
		return "null"
	case 1:
		return pick("true", "false")
	case 2, 3:
		return numPool[rng.Intn(len(numPool))]
	default:
		return spellStr(strPool[rng.Intn(len(strPool))], g)
	}
}

func genValue(g genOpts, depth int) string {
	if depth <= 0 || chance(0.35) {
		return genScalar(g)
	}
	if chance(0.5) {
		return genArray(g, depth)
	}
	return genObject(g, depth)
}

func genArray(g genOpts, depth int) string {
	n := rng.Intn(4)
	var sb strings.Builder
	sb.WriteString("[" + ws(g))
	for i := 0; i < n; i++ {
		if i > 0 {
			sb.WriteString("," + ws(g))
		}
		sb.WriteString(genValue(g, depth-1))
		sb.WriteString(ws(g))
	}
	sb.WriteString("]")
	return sb.String()
}

func genObject(g genOpts, depth int) string {
	n := rng.Intn(4)
	var sb strings.Builder
	sb.WriteString("{" + ws(g))
	used := map[string]bool{}
	cnt := 0
	for i := 0; i < n; i++ {
		k := keyPool[rng.Intn(len(keyPool))]
		if used[k] && !g.dupKeys {
			continue
		}
		used[k] = true
		if cnt > 0 {
			sb.WriteString("," + ws(g))
		}
		cnt++
		sb.WriteString(spellStr(k, g))
		sb.WriteString(ws(g) + ":" + ws(g))
		sb.WriteString(genValue(g, depth-1))
		sb.WriteString(ws(g))
	}
	sb.WriteString("}")
	return sb.String()
}

func genDoc(g genOpts) string {
	var body string
	switch {
	case g.scalarRoot && chance(0.3):
		body = genScalar(g)
	case chance(0.3):
		body = genArray(g, g.depth)
	default:
		body = genObject(g, g.depth)
	}
	return ws(g) + body + ws(g)
}

// ---------------------------------------------------------------- pointers

func escTok(k string) string {
	k = strings.ReplaceAll(k, "~", "~0")
	return strings.ReplaceAll(k, "/", "~1")
}

type loc struct {
	ptr    string
	val    interface{}
	parent interface{}
}

// all locations of a decoded document (decoded with the standard library, UseNumber)
func locations(v interface{}, ptr string, parent interface{}, acc *[]loc) {
	*acc = append(*acc, loc{ptr, v, parent})
	switch x := v.(type) {
	case map[string]interface{}:
		keys := make([]string, 0, len(x))
		for k := range x {
			keys = append(keys, k)
		}
		sort.Strings(keys)
		for _, k := range keys {
			locations(x[k], ptr+"/"+escTok(k), v, acc)
		}
	case []interface{}:
		for i, e := range x {
			locations(e, ptr+"/"+strconv.Itoa(i), v, acc)
		}
	}
}

func decodeStd(doc []byte) (interface{}, bool) {
	dec := stdjson.NewDecoder(strings.NewReader(string(doc)))
	dec.UseNumber()
	var v interface{}
	if err := dec.Decode(&v); err != nil {
		return nil, false
	}
	return v, true
}

// re-serialise a decoded value, members in random order, strings randomly re-spelled
func respell(v interface{}, g genOpts) string {
	switch x := v.(type) {
	case nil:
		return "null"
	case bool:
		if x {
			return "true"
		}
		return "false"
	case stdjson.Number:
		return string(x)
	case string:
		return spellStr(x, g)
	case []interface{}:
		parts := make([]string, len(x))
		for i, e := range x {
			parts[i] = respell(e, g)
		}
		return "[" + strings.Join(parts, ","+ws(g)) + "]"
	case map[string]interface{}:
		keys := make([]string, 0, len(x))
		for k := range x {
			keys = append(keys, k)
		}
		sort.Strings(keys)
		rng.Shuffle(len(keys), func(i, j int) { keys[i], keys[j] = keys[j], keys[i] })
		parts := make([]string, len(keys))
		for i, k := range keys {
			parts[i] = spellStr(k, g) + ":" + ws(g) + respell(x[k], g)
		}
		return "{" + strings.Join(parts, ",") + "}"
	}
	return "null"
}

// a pointer for an operation on cur: mostly resolvable, sometimes a near miss
func genPointer(cur interface{}, forAdd bool, odd bool) string {
	var locs []loc
	locations(cur, "", nil, &locs)
	l := locs[rng.Intn(len(locs))]
	r := rng.Float64()
	switch {
	case r < 0.45:
		if l.ptr == "" && len(locs) > 1 && chance(0.9) {
			l = locs[1+rng.Intn(len(locs)-1)]
		}
		return l.ptr
	case r < 0.80:
		// a child position of a container: new member, len, '-', negative, len+1
		switch x := l.val.(type) {
		case map[string]interface{}:
			return l.ptr + "/" + escTok(keyPool[rng.Intn(len(keyPool))])
		case []interface{}:
			n := len(x)
			if chance(0.04) {
				// the ends of the int64 range (strconv.Atoi accepts them; -x overflows for the least one)
				// (only the negative end: a huge positive index under EnsurePathExistsOnAdd asks for that
				// much padding, which the property excludes)
				t := pick("-9223372036854775808", "-9223372036854775807", "-9223372036854775808")
				if chance(0.3) {
					return l.ptr + "/" + t + "/" + pick("0", "a", "-")
				}
				return l.ptr + "/" + t
			}
			if forAdd && chance(0.05) {
				// far beyond the end, with more tokens to follow (EnsurePathExistsOnAdd pads with nulls)
				return l.ptr + "/" + strconv.Itoa(n+16+rng.Intn(30)) + "/" + pick("x", "0", "a")
			}
			return l.ptr + "/" + pick(strconv.Itoa(n), "-", strconv.Itoa(n+1), "-1", strconv.Itoa(-n), strconv.Itoa(-n-1), strconv.Itoa(-n-2), "0", strconv.Itoa(rng.Intn(n+1)), "x")
		default:
			return l.ptr + "/" + pick("a", "0", "-")
		}
	case r < 0.81 && forAdd:
		// a long way down through things that are missing (or partly there): more reference tokens than any
		// fixed-size buffer holds
		n := 12 + rng.Intn(30)
		var toks []string
		for j := 0; j < n; j++ {
			toks = append(toks, pick("p", "q", "0", "a", "0", "x y", "k"))
		}
		if chance(0.3) {
			toks[n-1] = "-"
		}
		return l.ptr + "/" + strings.Join(toks, "/")
	case r < 0.92:
		// through something missing
		// (the token after the missing one decides, under EnsurePathExistsOnAdd, whether an array or an
		// object is created: decimal digits of other scripts, signs and spaces are member names)
		return l.ptr + "/" + pick("nope", "7", "a", "\xd9\xa3") + "/" + pick("a", "0", "-", "a", "0", "-", "", "\xd9\xa3", "\xef\xbc\x91\xef\xbc\x92", "\xe0\xa5\xa7", "1\xd9\xa3", "+1", "1e0", " 1", "0x1", "1_0")
	default:
		if odd {
			return pick(l.ptr+"/", "/", "//a", l.ptr+"/+1", l.ptr+"/01", l.ptr+"/-0", "a", "a/b", l.ptr+"/~2", l.ptr+"/~", l.ptr+"/9223372036854775808", l.ptr+"/00")
		}
		return l.ptr + "/" + pick("~01", "~10", "a~1b", "m~0n")
	}
}

func lookup(cur interface{}, ptr string) (interface{}, bool) {
	var locs []loc
	locations(cur, "", nil, &locs)
	for _, l := range locs {
		if l.ptr == ptr {
			return l.val, true
		}
	}
	return nil, false
}

type patchGen struct {
	g       genOpts
	odd     bool    // out-of-domain spellings allowed
	pTestOK float64 // fraction of tests made to pass
	maxOps  int
	kinds   []string
	orig    []byte   // the document the patch starts from, as spelled
	parents []string // parents of the locations earlier adds of this patch wrote to
	pending []string // operations queued to follow the one just generated
}

// rawAt returns the bytes of the value at ptr in the text doc exactly as spelled there (what a
// lazily parsed node keeps as its raw message), walking with json.RawMessage
func rawAt(doc []byte, ptr string) ([]byte, bool) {
	cur := stdjson.RawMessage(doc)
	if ptr == "" {
		return cur, true
	}
	for _, tok := range strings.Split(ptr, "/")[1:] {
		tok = strings.ReplaceAll(strings.ReplaceAll(tok, "~1", "/"), "~0", "~")
		var m map[string]stdjson.RawMessage
		var a []stdjson.RawMessage
		if stdjson.Unmarshal(cur, &m) == nil && m != nil {
			v, ok := m[tok]
			if !ok {
				return nil, false
			}
			cur = v
		} else if stdjson.Unmarshal(cur, &a) == nil && a != nil {
			i, err := strconv.Atoi(tok)
			if err != nil || i < 0 || i >= len(a) {
				return nil, false
			}
			cur = a[i]
		} else {
			return nil, false
		}
	}
	return cur, true
}

// jsonStr spells the op / path / from strings of generated operations: mostly the way Go's encoder
// does, sometimes the way other encoders do (the solidus escaped, characters beyond the BMP as a
// surrogate pair of escapes, a letter as an escape)
func jsonStr(s string) string {
	q := quoteGo(s, false)
	if chance(0.05) {
		q = strings.ReplaceAll(q, "/", "\\/")
	}
	if chance(0.05) {
		var sb strings.Builder
		for _, r := range q {
			if r >= 0x10000 && r != utf8.RuneError {
				r -= 0x10000
				fmt.Fprintf(&sb, "\\u%04x\\u%04x", 0xd800+(r>>10), 0xdc00+(r&0x3ff))
			} else {
				sb.WriteRune(r)
			}
		}
		if utf8.ValidString(q) {
			q = sb.String()
		}
	}
	if chance(0.03) && len(q) > 2 && q[1] >= 'a' && q[1] <= 'z' {
		q = fmt.Sprintf("\"\\u%04x%s", q[1], q[2:])
	}
	return q
}

// genOp makes one operation against cur; in the awkward streams an operation sometimes lacks a
// member it needs (value, from, path) or has it as null: the legacy DecodePatch validates nothing
func (pg *patchGen) genOp(cur interface{}) string {
	op := pg.genOp0(cur)
	if pg.odd && chance(0.06) {
		var m map[string]stdjson.RawMessage
		if stdjson.Unmarshal([]byte(op), &m) == nil {
			keys := []string{}
			for k := range m {
				if k != "op" {
					keys = append(keys, k)
				}
			}
			sortStrings(keys)
			if len(keys) > 0 {
				k := keys[rng.Intn(len(keys))]
				if chance(0.7) {
					delete(m, k)
				} else {
					m[k] = stdjson.RawMessage("null")
				}
				if chance(0.5) {
					m["path"] = stdjson.RawMessage(`""`)
				}
				if b, err := stdjson.Marshal(m); err == nil {
					return string(b)
				}
			}
		}
	}
	return op
}

func (pg *patchGen) genOp0(cur interface{}) string {
	if len(pg.pending) > 0 {
		op := pg.pending[0]
		pg.pending = pg.pending[1:]
		return op
	}
	kind := pg.kinds[rng.Intn(len(pg.kinds))]
	g := pg.g
	vg := g
	vg.depth = 2
	switch kind {
	case "add", "replace":
		p := genPointer(cur, kind == "add", pg.odd)
		if kind == "add" && len(pg.parents) > 0 && chance(0.25) {
			// below a parent an earlier add of this patch wrote to (which may have been replaced since)
			p = pg.parents[rng.Intn(len(pg.parents))] + "/" + escTok(keyPool[rng.Intn(len(keyPool))])
		}
		if kind == "add" && len(pg.parents) > 0 && chance(0.12) {
			// overwrite the top-level member (or element) such a parent starts with by a fresh container
			par := pg.parents[rng.Intn(len(pg.parents))]
			top := par
			if i := strings.Index(par[1:], "/"); i >= 0 {
				top = par[:i+1]
			}
			// ... and then add below the same parent again (its containers have to be created again)
			pg.pending = append(pg.pending, fmt.Sprintf(`{"op":"add","path":%s,"value":%s}`, jsonStr(par+"/"+escTok(keyPool[rng.Intn(len(keyPool))])), genValue(vg, 1)))
			return fmt.Sprintf(`{"op":"add","path":%s,"value":%s}`, jsonStr(top), pick(`{}`, `{"z":true}`, `[]`, `{"b":{}}`))
		}
		if kind == "add" {
			if i := strings.LastIndex(p, "/"); i > 0 {
				pg.parents = append(pg.parents, p[:i])
			}
		}
		if kind == "add" && p != "" && !strings.HasSuffix(p, "/-") && chance(0.04) {
			// a null is stored, duplicated, and both are looked at
			if i := strings.LastIndex(p, "/"); i >= 0 {
				dup := p[:i] + "/" + escTok(pick("dup", "n2", "zz"))
				pg.pending = append(pg.pending,
					fmt.Sprintf(`{"op":"copy","from":%s,"path":%s}`, jsonStr(p), jsonStr(dup)),
					fmt.Sprintf(`{"op":"test","path":%s,"value":null}`, jsonStr(pick(dup, dup, p))))
				return fmt.Sprintf(`{"op":"add","path":%s,"value":null}`, jsonStr(p))
			}
		}
		if p == "" && chance(0.8) {
			// root replacement: mostly containers
			return fmt.Sprintf(`{"op":%s,"path":"","value":%s}`, jsonStr(kind), pick(genObject(vg, 2), genArray(vg, 2), genObject(vg, 1)))
		}
		return fmt.Sprintf(`{"op":%s,"path":%s,"value":%s}`, jsonStr(kind), jsonStr(p), genValue(vg, 2))
	case "remove":
		return fmt.Sprintf(`{"op":"remove","path":%s}`, jsonStr(genPointer(cur, false, pg.odd)))
	case "move", "copy":
		from := genPointer(cur, false, pg.odd)
		to := genPointer(cur, true, pg.odd)
		if chance(0.1) {
			to = from + "/" + pick("a", "0", "-") // into itself
		}
		if kind == "copy" && chance(0.05) {
			from = ""
		}
		if chance(0.2) {
			// prefer a source that holds null
			var locs []loc
			locations(cur, "", nil, &locs)
			var nulls []string
			for _, l := range locs {
				if l.val == nil && l.ptr != "" {
					nulls = append(nulls, l.ptr)
				}
			}
			if len(nulls) > 0 {
				from = nulls[rng.Intn(len(nulls))]
			}
		}
		if v, ok := lookup(cur, from); ok && !strings.HasSuffix(to, "/-") && chance(0.4) {
			// then look at what arrived: it must compare equal to what was there (null included)
			pg.pending = append(pg.pending, fmt.Sprintf(`{"op":"test","path":%s,"value":%s}`, jsonStr(to), respell(v, g)))
		}
		return fmt.Sprintf(`{"op":%s,"from":%s,"path":%s}`, jsonStr(kind), jsonStr(from), jsonStr(to))
	default: // test
		p := genPointer(cur, false, pg.odd)
		if pg.orig != nil && chance(0.12) {
			// the value a container had in the ORIGINAL document, spelled exactly as it was there: it
			// must compare unequal if anything below it has changed since
			if v, ok := lookup(cur, p); ok {
				if _, isMap := v.(map[string]interface{}); isMap || func() bool { _, a := v.([]interface{}); return a }() {
					if raw, ok2 := rawAt(pg.orig, p); ok2 {
						return fmt.Sprintf(`{"op":"test","path":%s,"value":%s}`, jsonStr(p), string(raw))
					}
				}
			}
		}
		if v, ok := lookup(cur, p); ok && chance(pg.pTestOK) {
			if arr, isArr := v.([]interface{}); isArr && chance(0.3) {
				// after a test has looked at this array, add below it where parents are missing (created
				// under EnsurePathExistsOnAdd, an error otherwise)
				pg.pending = append(pg.pending, fmt.Sprintf(`{"op":"add","path":%s,"value":1}`,
					jsonStr(p+"/"+pick(strconv.Itoa(len(arr)+2)+"/z", strconv.Itoa(len(arr))+"/k/0", "0/nn/k", "-"))))
			}
			return fmt.Sprintf(`{"op":"test","path":%s,"value":%s}`, jsonStr(p), respell(v, g))
		} else if ok && chance(0.5) {
			// a near miss: the value found there with one small difference (a member renamed, a null
			// member traded for another name, an element changed, dropped or added)
			return fmt.Sprintf(`{"op":"test","path":%s,"value":%s}`, jsonStr(p), respell(nearMiss(v), g))
		}
		if chance(0.1) {
			return fmt.Sprintf(`{"op":"test","path":%s}`, jsonStr(p))
		}
		return fmt.Sprintf(`{"op":"test","path":%s,"value":%s}`, jsonStr(p), genValue(vg, 2))
	}
}

// nearMiss returns a copy of a decoded value with exactly one small difference somewhere inside
func nearMiss(v interface{}) interface{} {
	switch t := v.(type) {
	case map[string]interface{}:
		m := map[string]interface{}{}
		keys := []string{}
		for k, x := range t {
			m[k] = x
			keys = append(keys, k)
		}
		sortStrings(keys)
		fresh := func() string {
			for _, k := range []string{"z", "q", "nn", "a", "b", "zz0"} {
				if _, ok := m[k]; !ok {
					return k
				}
			}
			return "zzzz"
		}
		if len(keys) == 0 {
			m[fresh()] = nil
			return m
		}
		k := keys[rng.Intn(len(keys))]
		for _, k2 := range keys { // prefer a member holding null
			if m[k2] == nil && chance(0.6) {
				k = k2
				break
			}
		}
		switch rng.Intn(5) {
		case 0: // rename the member
			x := m[k]
			delete(m, k)
			m[fresh()] = x
		case 1: // trade it for another member (same count)
			delete(m, k)
			m[fresh()] = stdjson.Number("7")
		case 2: // drop it
			delete(m, k)
		case 3: // one more member, holding null
			m[fresh()] = nil
		default:
			m[k] = nearMiss(m[k])
		}
		return m
	case []interface{}:
		a := append([]interface{}{}, t...)
		if len(a) == 0 {
			return append(a, nil)
		}
		i := rng.Intn(len(a))
		switch rng.Intn(4) {
		case 0:
			return a[:len(a)-1]
		case 1:
			return append(a, nil)
		case 2:
			if len(a) > 1 {
				a[0], a[len(a)-1] = a[len(a)-1], a[0]
				return a
			}
			fallthrough
		default:
			a[i] = nearMiss(a[i])
		}
		return a
	case nil:
		return pickI(false, stdjson.Number("0"), "", map[string]interface{}{}, []interface{}{})
	case bool:
		return !t
	case string:
		return t + "x"
	case stdjson.Number:
		if chance(0.5) {
			return stdjson.Number(string(t) + "0")
		}
		return nil
	default:
		return nil
	}
}

func pickI(xs ...interface{}) interface{} { return xs[rng.Intn(len(xs))] }

func envInt(name string, dflt int64) int64 {
	if s := os.Getenv(name); s != "" {
		if n, err := strconv.ParseInt(s, 10, 64); err == nil {
			return n
		}
	}
	return dflt
}

// ---------------------------------------------------------------- malformed / arbitrary bytes

var alphabet = []byte("{}[]:,\"\\-+.01eEtrufalsn \x00\x1f\x7f\x80\xff")

// bytes that look like blanks but are not JSON whitespace
var pseudoSpace = []string{"\v", "\f", "\x00", "\x1c", "\x1f", "\x85", "\xa0", "\xc2\xa0", "\xe2\x80\xa8", "\b"}

func mutate(s []byte) []byte {
	b := append([]byte{}, s...)
	if chance(0.15) {
		// a pseudo-space next to a structural character (between tokens, not inside a string)
		var spots []int
		for i, c := range b {
			if c == ',' || c == ':' || c == '[' || c == '{' || c == ']' || c == '}' {
				spots = append(spots, i)
			}
		}
		ps := []byte(pseudoSpace[rng.Intn(len(pseudoSpace))])
		p := len(b)
		if len(spots) > 0 && chance(0.8) {
			p = spots[rng.Intn(len(spots))] + rng.Intn(2)
		} else if chance(0.5) {
			p = 0
		}
		return append(b[:p:p], append(ps, b[p:]...)...)
	}
	if chance(0.06) {
		// a run of 8, 16 or 24 identical white-space bytes (possibly after one of another kind) anywhere,
		// also inside a string, where raw tabs are control characters
		run := strings.Repeat(pick("\t", " ", "\t", "\n"), 8*(1+rng.Intn(3)))
		if chance(0.6) {
			run = pick(" ", "\t", "\n") + run
		}
		p := rng.Intn(len(b) + 1)
		return append(b[:p:p], append([]byte(run), b[p:]...)...)
	}
	n := 1 + rng.Intn(3)
	for i := 0; i < n; i++ {
		switch rng.Intn(6) {
		case 0: // truncate
			if len(b) > 0 {
				b = b[:rng.Intn(len(b))]
			}
		case 1: // flip a byte
			if len(b) > 0 {
				b[rng.Intn(len(b))] = alphabet[rng.Intn(len(alphabet))]
			}
		case 2: // insert
			p := rng.Intn(len(b) + 1)
			b = append(b[:p], append([]byte{alphabet[rng.Intn(len(alphabet))]}, b[p:]...)...)
		case 3: // delete
			if len(b) > 0 {
				p := rng.Intn(len(b))
				b = append(b[:p], b[p+1:]...)
			}
		case 4: // trailing data
			b = append(b, []byte(pick("x", " 1", "}", "]", ",", "\x00", "{}", "\v", "\f", "\xc2\xa0", "\x1c"))...)
		case 5: // swap two bytes
			if len(b) > 1 {
				i, j := rng.Intn(len(b)), rng.Intn(len(b))
				b[i], b[j] = b[j], b[i]
			}
		}
	}
	return b
}

func randBytes() []byte {
	n := rng.Intn(8)
	b := make([]byte, n)
	for i := range b {
		b[i] = alphabet[rng.Intn(len(alphabet))]
	}
	return b
}

func sortStrings(s []string) {
	for i := 1; i < len(s); i++ {
		for j := i; j > 0 && s[j] < s[j-1]; j-- {
			s[j], s[j-1] = s[j-1], s[j]
		}
	}
}

// sharedSubtreePair: a document and a patch that hold, under the same name, byte-for-byte the same
// object text with null members in it (a client sending a sub-object back unchanged)
func sharedSubtreePair(g genOpts) ([]byte, []byte) {
	inner := pick(`"n":null`, `"n": null`, `"x":{"n":null,"y":1}`, `"x":[null],"n":null`, `"n":null,"m":null`)
	sub := "{" + inner
	if chance(0.5) {
		sub += "," + spellStr(keyPool[rng.Intn(len(keyPool))], g) + ":" + genValue(g, 1)
	}
	sub += "}"
	k := spellStr(pick("a", "b", "k", "q"), g)
	other := func() string {
		if chance(0.5) {
			return ""
		}
		return "," + spellStr(pick("o1", "o2", "c"), g) + ":" + genValue(g, 1)
	}
	doc := "{" + k + ":" + sub + other() + "}"
	patch := "{" + k + ":" + sub + other() + "}"
	if chance(0.3) { // one level deeper
		doc = `{"w":` + doc + "}"
		patch = `{"w":` + patch + "}"
	}
	return []byte(doc), []byte(patch)
}

// perturbString: a different string — half of the time of the SAME length (one ASCII byte replaced,
// white space kept so that two such strings still both hold a space), else one byte longer
func perturbString(x string) string {
	if chance(0.5) {
		b := []byte(x)
		for tries := 0; tries < 8 && len(b) > 0; tries++ {
			i := rng.Intn(len(b))
			c := b[i]
			if c >= 'a' && c <= 'z' || c >= 'A' && c <= 'Z' || c >= '0' && c <= '9' {
				if c == 'z' || c == 'Z' || c == '9' {
					b[i] = c - 1
				} else {
					b[i] = c + 1
				}
				return string(b)
			}
		}
	}
	return x + "x"
}
