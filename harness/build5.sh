#!/bin/sh
# builds the v5 harness from /repo's working tree (overlay: nothing is written into /repo)
# usage: build5.sh <out binary> [extra go build flags]
set -e
export GOFLAGS=-mod=mod GOPROXY=off GOSUMDB=off GOTOOLCHAIN=local
OUT="$1"; shift
H=/verif/harness
OV=$(mktemp)
cat > "$OV" <<J
{"Replace": {"/repo/v5/cmd/zz_verifharness/gen.go": "$H/gen.go", "/repo/v5/cmd/zz_verifharness/main5.go": "$H/main5.go"}}
J
(cd /repo/v5 && go build -tags verif -overlay "$OV" "$@" -o "$OUT" ./cmd/zz_verifharness)
rm -f "$OV"
