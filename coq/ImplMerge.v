(* ImplMerge.v — executable model of v5/merge.go: MergePatch, MergeMergePatches, CreateMergePatch.
   No proofs here.  Go's map iteration order (mergeDocs, pruneDocNulls) is modelled as the order
   of first occurrence in the patch text; it only influences the order in which new members are
   appended (see DESIGN 3.3, C05). *)
From JP Require Import Bytes Json Text Strings Den ImplV5.

(* ---- pruneNulls / pruneDocNulls ---- *)
(* one pass over the map entries: remove the nil ones (first occurrence in keys), prune the others *)
Fixpoint prune_entries (pr : node -> node) (entries : list (bytes * node))
         (keys : list bytes) (obj : list (bytes * node)) : list bytes * list (bytes * node) :=
  match entries with
  | [] => (keys, obj)
  | (k, v) :: r =>
      match v with
      | NNil => prune_entries pr r (if kmem k keys then kdel1 k keys else keys) (adel k obj)
      | _ => prune_entries pr r keys (aset k (pr v) obj)
      end
  end.

Fixpoint prune_t (t : tjson) : node :=
  match t with
  | TObj ms =>
      let keys := map (fun kv => unquote (fst kv)) ms in
      (* the map after decoding, children pruned as they are visited *)
      let obj :=
        (fix go (ms : list (bytes * tjson)) (acc : list (bytes * node)) :=
           match ms with
           | [] => acc
           | (k, v) :: r =>
               go r (aset (unquote k) (match v with TNull => NNil | _ => prune_t v end) acc)
           end) ms [] in
      let (keys', obj') := prune_entries (fun n => n) obj keys obj in
      NDoc keys' obj'
  | _ => NRaw t
  end.

Fixpoint prune_node (n : node) : node :=
  match n with
  | NRaw t => prune_t t
  | NDoc keys obj =>
      let obj1 := map (fun kv => (fst kv, prune_node (snd kv))) obj in
      let (keys', obj') := prune_entries (fun n => n) obj1 keys obj1 in
      NDoc keys' obj'
  | _ => n
  end.

(* intoDoc as merge uses it *)
Definition into_doc (n : node) : option (list bytes * list (bytes * node)) :=
  match n with
  | NDoc keys obj => Some (keys, obj)
  | NRaw (TObj ms) => Some (doc_of ms)
  | _ => None
  end.

(* the patch's map as (name, raw value) pairs: last value wins, first position kept *)
Definition patch_entries (pms : list (bytes * tjson)) : list (bytes * tjson) :=
  (fix go (pms : list (bytes * tjson)) (acc : list (bytes * tjson)) :=
     match pms with
     | [] => acc
     | (k, v) :: r => go r (aset (unquote k) v acc)
     end) pms [].

(* merge(cur, patch) with patch a raw node; fuel = size of the patch *)
Fixpoint merge_n (fuel : nat) (mm : bool) (cur : node) (p : tjson) {struct fuel} : node :=
  match fuel with
  | O => NRaw p
  | S f =>
      match into_doc cur with
      | None => prune_node (NRaw p)
      | Some (keys, obj) =>
          match p with
          | TObj pms =>
              let (keys', obj') :=
                (fix go (es : list (bytes * tjson)) (keys : list bytes) (obj : list (bytes * node)) :=
                   match es with
                   | [] => (keys, obj)
                   | (k, v) :: r =>
                       match v with
                       | TNull =>
                           if mm then go r (if kmem k keys then keys else keys ++ [k]) (aset k NNil obj)
                           else if amem k obj
                                then go r (if kmem k keys then kdel1 k keys else keys) (adel k obj)
                                else go r keys obj
                       | _ =>
                           match aget k obj with
                           | None | Some NNil =>
                               let v' := if mm then NRaw v else prune_node (NRaw v) in
                               let (k', o') := doc_set keys obj k v' in go r k' o'
                           | Some c =>
                               let (k', o') := doc_set keys obj k (merge_n f mm c v) in go r k' o'
                           end
                       end
                   end) (patch_entries pms) keys obj in
              NDoc keys' obj'
          | _ => NRaw p
          end
      end
  end.

Inductive merr := MBadDoc | MBadPatch | MBadTypes.

Inductive mres :=
| MOut (out : bytes)
| MErr (e : merr).

Definition marshal_node (n : node) : bytes := print true (render true n).

Definition api_merge (mm : bool) (doc patch : bytes) : mres :=
  match parse doc with
  | None => MErr MBadDoc
  | Some td =>
      match parse patch with
      | None => MErr MBadPatch
      | Some tp =>
          match td with
          | TNull => MErr MBadDoc
          | _ =>
              match tp with
              | TNull => MOut patch
              | TObj pms =>
                  match td with
                  | TObj dms =>
                      MOut (marshal_node (merge_n (S (tsize tp)) mm (NRaw td) tp))
                  | _ =>
                      (* not a document: the patch becomes the document *)
                      if mm then MOut (marshal_node (let (k, o) := doc_of pms in NDoc k o))
                      else MOut (marshal_node (prune_node (NRaw tp)))
                  end
              | TArr l => MOut (print true tp)
              | _ => MOut patch
              end
          end
      end
  end.

(* ---- CreateMergePatch ---- *)
From JP Require Import Rfc7396.

(* byte-wise lexicographic order on Go strings *)
Fixpoint bytes_ltb (a b : bytes) : bool :=
  match a, b with
  | [], [] => false
  | [], _ :: _ => true
  | _ :: _, [] => false
  | x :: a', y :: b' => if bn x <? bn y then true else if bn y <? bn x then false else bytes_ltb a' b'
  end.

Fixpoint insert_sorted {A} (kv : bytes * A) (l : list (bytes * A)) : list (bytes * A) :=
  match l with
  | [] => [kv]
  | kv' :: r =>
      if bytes_ltb (fst kv) (fst kv') then kv :: l
      else if bseq (fst kv) (fst kv') then kv :: r       (* the same name: later value replaces *)
      else kv' :: insert_sorted kv r
  end.

(* encoding of a decoded value held in Go maps: members sorted by name, strings quoted with
   HTML escaping, numbers by their literal *)
Fixpoint encode_sorted (j : ojson) : tjson :=
  match j with
  | ONull => TNull
  | OBool true => TTrue
  | OBool false => TFalse
  | ONum lit => TNum lit
  | OStr s => TStr (quote true s)
  | OArr l => TArr (map encode_sorted l)
  | OObj ms =>
      (* sorted by the decoded name (Go sorts the map keys), then spelled *)
      TObj (map (fun kv => (quote true (fst kv), snd kv))
                (fold_left (fun acc kv => insert_sorted kv acc)
                           (map (fun kv => (fst kv, encode_sorted (snd kv))) ms) []))
  end.

(* Go's map from a decoded object: duplicate names resolved (den already gives every
   occurrence the last value); used as the argument of diff *)
Definition create_object (a b : tjson) : option tjson :=
  let as_obj (t : tjson) : option ojson :=
    match t with
    | TObj _ => Some (den t)
    | TNull => Some (OObj [])
    | _ => None
    end in
  match as_obj a, as_obj b with
  | Some oa, Some ob => Some (encode_sorted (diff oa ob))
  | _, _ => None
  end.

Definition api_create (a b : bytes) : mres :=
  match parse a, parse b with
  | Some ta, Some tb =>
      match ta, tb with
      | TArr la, TArr lb =>
          if (length la =? length lb)%nat then
            (fix go (la lb : list tjson) (acc : list tjson) : mres :=
               match la, lb with
               | x :: ra, y :: rb =>
                   match create_object x y with
                   | Some p => go ra rb (acc ++ [p])
                   | None => MErr MBadDoc
                   end
               | _, _ => MOut (print true (TArr acc))
               end) la lb []
          else MErr MBadDoc
      | TArr _, _ | _, TArr _ => MErr MBadTypes
      | _, _ =>
          match create_object ta tb with
          | Some p => MOut (print true p)
          | None => MErr MBadDoc
          end
      end
  | _, _ => MErr MBadDoc
  end.
