(* V4MergeFacts.v — the model of the legacy root package's merge.go and Equal (ImplV4.v: prune4_t,
   merge4_n, api_merge4, equal4) refines the RFC 7396 reference (merge_patch, mm) and structural
   equality (jeq), on the values the legacy nodes denote.  A legacy partialDoc is a bare Go map:
   the model keeps it as an association list with an empty key list, so the abstraction used here
   (aval4) lists the members in the association list's order; the reference's member loop performs
   the same aset/adel steps, hence the refinement is an exact equality on aval4. *)
From Coq Require Import Lia.
From JP Require Import Bytes Json Text Strings Den ImplV5 ImplMerge ImplV4 Rfc7396 DecodeFacts JsonFacts MergeFacts
  Abs ImplMergeFacts Codec.

(* ---- the value of a legacy node ---- *)
Fixpoint aval4 (n : node) : ojson :=
  match n with
  | NNil => ONull
  | NRaw t => den t
  | NDoc _ obj => OObj (map (fun kv => (fst kv, aval4 (snd kv))) obj)
  | NAry ns => OArr (map aval4 ns)
  end.

Definition mem4 (obj : list (bytes * node)) : list (bytes * ojson) :=
  map (fun kv => (fst kv, aval4 (snd kv))) obj.

Lemma aval4_doc keys obj : aval4 (NDoc keys obj) = OObj (mem4 obj).
Proof. reflexivity. Qed.

Lemma mem4_keys obj : map fst (mem4 obj) = map fst obj.
Proof. unfold mem4. rewrite map_map. reflexivity. Qed.

Lemma mem4_aset k v obj : mem4 (aset k v obj) = aset k (aval4 v) (mem4 obj).
Proof.
  induction obj as [|[k' v'] obj IH]; simpl; auto.
  destruct (bseq k k'); simpl; auto. f_equal. exact IH.
Qed.

Lemma mem4_adel k obj : mem4 (adel k obj) = adel k (mem4 obj).
Proof.
  induction obj as [|[k' v'] obj IH]; simpl; auto.
  destruct (bseq k k'); simpl; auto. f_equal. exact IH.
Qed.

Lemma aget_mem4 k obj : aget k (mem4 obj) = option_map aval4 (aget k obj).
Proof.
  induction obj as [|[k' v'] obj IH]; simpl; auto.
  destruct (bseq k k'); simpl; auto.
Qed.

Lemma aval4_child t : aval4 (child t) = den t.
Proof. destruct t; reflexivity. Qed.

(* ---- the representation invariant of legacy nodes ---- *)
Fixpoint nwf4 (n : node) : Prop :=
  match n with
  | NNil => True
  | NRaw t => tnodup t = true
  | NDoc ks obj =>
      (* a live map: the key list of a legacy partialDoc is always [] (a non-empty key list tags the
         two null-like nodes raw_null4 / nil_doc4 of ImplV4, which merge.go never makes) *)
      ks = [] /\
      NoDup (map fst obj) /\
      (fix all (m : list (bytes * node)) : Prop :=
         match m with [] => True | kv :: r => nwf4 (snd kv) /\ all r end) obj
  | NAry ns =>
      (fix all (l : list node) : Prop := match l with [] => True | x :: r => nwf4 x /\ all r end) ns
  end.

Definition nodes_wf4 (obj : list (bytes * node)) : Prop := Forall (fun kv => nwf4 (snd kv)) obj.

Lemma nwf4_doc keys obj : nwf4 (NDoc keys obj) <-> keys = [] /\ NoDup (map fst obj) /\ nodes_wf4 obj.
Proof.
  cbn [nwf4]. unfold nodes_wf4. split; intros [H0 [H1 H2]]; (split; [exact H0|]); (split; [exact H1|]); clear H0 H1.
  - induction obj as [|kv obj IH]; constructor; destruct H2; auto.
  - induction obj as [|kv obj IH]; [exact I|]. inversion H2 as [|? ? Ha Hb]; subst. split; [exact Ha | apply IH; exact Hb].
Qed.

Lemma nwf4_ary ns : nwf4 (NAry ns) <-> Forall nwf4 ns.
Proof.
  cbn [nwf4]. split; intro H.
  - induction ns as [|x ns IH]; constructor; destruct H; auto.
  - induction ns as [|x ns IH]; [exact I|]. inversion H as [|? ? Ha Hb]; subst. split; [exact Ha | apply IH; exact Hb].
Qed.

Arguments nwf4 : simpl never.
Lemma nwf4_nil : nwf4 NNil. Proof. exact I. Qed.
Lemma nwf4_raw t : nwf4 (NRaw t) <-> tnodup t = true. Proof. reflexivity. Qed.

Lemma nwf4_child t : tnodup t = true -> nwf4 (child t).
Proof. destruct t; intro H; try exact I; exact H. Qed.

Lemma nodes_wf4_aset k v obj : nodes_wf4 obj -> nwf4 v -> nodes_wf4 (aset k v obj).
Proof. intros H Hv. apply Forall_aset; auto. Qed.

Lemma nodes_wf4_adel k obj : nodes_wf4 obj -> nodes_wf4 (adel k obj).
Proof. apply Forall_adel. Qed.

Lemma nodes_wf4_get k obj c : nodes_wf4 obj -> aget k obj = Some c -> nwf4 c.
Proof. intros H G. apply aget_In in G. unfold nodes_wf4 in H. rewrite Forall_forall in H. apply (H _ G). Qed.

(* a well-formed legacy node denotes a value without duplicate member names *)
Lemma nwf4_onodup n : nwf4 n -> onodup (aval4 n) = true.
Proof.
  induction n using node_rect'; intro W.
  - reflexivity.
  - exact W.
  - apply nwf4_doc in W as [_ [N F]]. rewrite aval4_doc. apply onodup_obj. split.
    + rewrite mem4_keys. exact N.
    + unfold mem4. rewrite Forall_map. unfold nodes_wf4 in F. rewrite Forall_forall in *.
      intros kv Hin. simpl. apply H; auto.
  - apply nwf4_ary in W. cbn [aval4]. apply onodup_arr. rewrite Forall_map. rewrite Forall_forall in *.
    intros x Hin. apply H; auto.
Qed.

(* ---- pruneNulls ---- *)
Fixpoint prune4_go (ms : list (bytes * tjson)) (acc : list (bytes * node)) : list (bytes * node) :=
  match ms with
  | [] => acc
  | (k, v) :: r =>
      match v with
      | TNull => prune4_go r (adel (unquote k) acc)
      | _ => prune4_go r (aset (unquote k) (prune4_t v) acc)
      end
  end.

Lemma prune4_t_obj ms : prune4_t (TObj ms) = NDoc [] (prune4_go ms []).
Proof.
  (* the local fix of prune4_t is literally prune4_go *)
  reflexivity.
Qed.

Lemma prune4_t_nonobj t : (forall ms, t <> TObj ms) -> prune4_t t = NRaw t.
Proof. destruct t; auto. intro H. exfalso. eapply H; eauto. Qed.

Lemma prune4_go_cons_nonnull k v r acc :
  v <> TNull -> prune4_go ((k, v) :: r) acc = prune4_go r (aset (unquote k) (prune4_t v) acc).
Proof. intro H. destruct v; try congruence; reflexivity. Qed.

Lemma prune4_go_spec ms : forall acc,
  NoDup (map fst acc ++ map (fun kv => unquote (fst kv)) ms) -> nodes_wf4 acc ->
  Forall (fun kv => tnodup (snd kv) = true ->
                    aval4 (prune4_t (snd kv)) = merge_patch ONull (den (snd kv)) /\ nwf4 (prune4_t (snd kv))) ms ->
  Forall (fun kv => tnodup (snd kv) = true) ms ->
  mem4 (prune4_go ms acc) = merge_members (den_members ms) (mem4 acc) /\
  NoDup (map fst (prune4_go ms acc)) /\ nodes_wf4 (prune4_go ms acc).
Proof.
  induction ms as [|[k v] ms IH]; intros acc N W H F.
  - simpl. simpl in N. rewrite app_nil_r in N. auto.
  - inversion H as [|? ? Hv Hr]; subst. inversion F as [|? ? Fv Fr]; subst. cbn [fst snd] in *.
    assert (Hk : ~ In (unquote k) (map fst acc)).
    { intro Hin. simpl in N. apply NoDup_remove_2 in N. apply N. apply in_or_app. now left. }
    destruct (tnull_dec v) as [->|NNv].
    + cbn [prune4_go den_members map fst snd den merge_members]. fold (den_members ms).
      rewrite adel_notin by exact Hk. rewrite adel_notin by (rewrite mem4_keys; exact Hk).
      apply IH; auto. simpl in N. apply NoDup_remove_1 in N. exact N.
    + rewrite prune4_go_cons_nonnull by exact NNv.
      assert (DN : den v <> ONull) by (intro E; apply den_null_iff in E; contradiction).
      cbn [den_members map fst snd]. fold (den_members ms).
      rewrite merge_members_cons_nonnull by exact DN.
      destruct (Hv Fv) as [P1 P2].
      assert (Hn : aget (unquote k) (mem4 acc) = None) by (apply aget_None_notin; rewrite mem4_keys; exact Hk).
      rewrite Hn. cbn [MergeFacts.or_null]. rewrite <- P1, <- mem4_aset.
      apply IH; auto.
      * rewrite aset_notin by exact Hk. rewrite map_app. simpl. rewrite <- app_assoc. exact N.
      * apply nodes_wf4_aset; auto.
Qed.

Theorem prune4_t_spec t : tnodup t = true -> aval4 (prune4_t t) = merge_patch ONull (den t) /\ nwf4 (prune4_t t).
Proof.
  induction t using tjson_rect'; intro T;
    try (rewrite prune4_t_nonobj by (intros; discriminate); split; [reflexivity | exact T]).
  pose proof (den_obj_nodup ms T) as D. apply tnodup_obj in T as [N F].
  rewrite prune4_t_obj.
  destruct (prune4_go_spec ms [] N (Forall_nil _) H F) as [P1 [P2 P3]].
  split.
  - rewrite aval4_doc, P1, D, merge_patch_obj. reflexivity.
  - apply nwf4_doc. split; [reflexivity | split; auto].
Qed.

(* ---- merge / mergeDocs ---- *)
Fixpoint merge4_loop (rec : node -> tjson -> node) (mm : bool) (es : list (bytes * tjson))
         (obj : list (bytes * node)) : list (bytes * node) :=
  match es with
  | [] => obj
  | (k, v) :: r =>
      match v with
      | TNull => if mm then merge4_loop rec mm r (aset k NNil obj) else merge4_loop rec mm r (adel k obj)
      | _ =>
          match aget k obj with
          | None | Some NNil => merge4_loop rec mm r (aset k (if mm then NRaw v else prune4_node (NRaw v)) obj)
          | Some c => merge4_loop rec mm r (aset k (rec c v) obj)
          end
      end
  end.

Lemma merge4_n_unfold f mm cur p :
  merge4_n (S f) mm cur p =
  match into_doc4 cur with
  | None => prune4_node (NRaw p)
  | Some obj =>
      match p with
      | TObj pms => NDoc [] (merge4_loop (merge4_n f mm) mm (patch_entries pms) obj)
      | _ => NRaw p
      end
  end.
Proof.
  cbn [merge4_n]. destruct (into_doc4 cur) as [obj|]; auto. destruct p; auto. f_equal.
  generalize (patch_entries ms). intro es. revert obj.
  induction es as [|[k v] es IH]; intros obj; cbn [merge4_loop]; auto.
  destruct v; try (destruct mm; apply IH); destruct (aget k obj) as [[]|]; apply IH.
Qed.

Lemma prune4_node_raw v : prune4_node (NRaw v) = prune4_t v.
Proof. reflexivity. Qed.

Lemma merge4_loop_cons_nonnull rec mm k v r obj :
  v <> TNull ->
  merge4_loop rec mm ((k, v) :: r) obj =
  match aget k obj with
  | Some c =>
      match c with
      | NNil => merge4_loop rec mm r (aset k (if mm then NRaw v else prune4_t v) obj)
      | _ => merge4_loop rec mm r (aset k (rec c v) obj)
      end
  | None => merge4_loop rec mm r (aset k (if mm then NRaw v else prune4_t v) obj)
  end.
Proof.
  intro H. destruct v; try congruence; cbn [merge4_loop]; destruct (aget k obj) as [[]|]; reflexivity.
Qed.

(* the member loop of the legacy mergeDocs (MergePatch mode) is the reference's member loop *)
Lemma merge4_loop_spec rec es : forall obj,
  NoDup (map fst obj) -> nodes_wf4 obj ->
  (forall k v, In (k, v) es -> tnodup v = true /\
               forall c, nwf4 c -> aval4 (rec c v) = merge_patch (aval4 c) (den v) /\ nwf4 (rec c v)) ->
  mem4 (merge4_loop rec false es obj) = merge_members (map (fun kv => (fst kv, den (snd kv))) es) (mem4 obj) /\
  NoDup (map fst (merge4_loop rec false es obj)) /\ nodes_wf4 (merge4_loop rec false es obj).
Proof.
  induction es as [|[k v] es IH]; intros obj N W R; cbn [map fst snd].
  - cbn [merge4_loop merge_members]. auto.
  - assert (Rv := R k v (or_introl eq_refl)). destruct Rv as [Tv Rv].
    assert (R' : forall k0 v0, In (k0, v0) es -> tnodup v0 = true /\
               forall c, nwf4 c -> aval4 (rec c v0) = merge_patch (aval4 c) (den v0) /\ nwf4 (rec c v0))
      by (intros k0 v0 Hin0; apply (R k0 v0); now right).
    assert (Step : forall v', nwf4 v' -> aval4 v' = merge_patch (MergeFacts.or_null (aget k (mem4 obj))) (den v) ->
              mem4 (merge4_loop rec false es (aset k v' obj)) =
                merge_members (map (fun kv => (fst kv, den (snd kv))) es)
                  (aset k (merge_patch (MergeFacts.or_null (aget k (mem4 obj))) (den v)) (mem4 obj)) /\
              NoDup (map fst (merge4_loop rec false es (aset k v' obj))) /\
              nodes_wf4 (merge4_loop rec false es (aset k v' obj))).
    { intros v' Wv' Ev'. rewrite <- Ev', <- mem4_aset. apply IH; auto.
      - apply NoDup_keys_aset; auto.
      - apply nodes_wf4_aset; auto. }
    destruct (tnull_dec v) as [->|NNv].
    + cbn [merge4_loop den merge_members]. rewrite <- mem4_adel. apply IH; auto.
      * apply NoDup_keys_adel; auto.
      * apply nodes_wf4_adel; auto.
    + assert (DN : den v <> ONull) by (intro E; apply den_null_iff in E; contradiction).
      rewrite merge4_loop_cons_nonnull by exact NNv. rewrite merge_members_cons_nonnull by exact DN.
      destruct (prune4_t_spec _ Tv) as [P1 P2]. rewrite aget_mem4 in *.
      destruct (aget k obj) as [c|] eqn:Eg.
      * destruct (nnil_dec c) as [->|NNc].
        -- apply (Step (prune4_t v)); auto.
        -- rewrite (match_nonnil c) by exact NNc.
           assert (Wc : nwf4 c) by (eapply nodes_wf4_get; eauto).
           destruct (Rv c Wc) as [Q1 Q2]. apply (Step (rec c v)); auto.
      * apply (Step (prune4_t v)); auto.
Qed.

Lemma obj_of_nodup ms :
  NoDup (map (fun kv => unquote (fst kv)) ms) ->
  obj_of ms = map (fun kv => (unquote (fst kv), child (snd kv))) ms.
Proof. intro N. unfold obj_of. rewrite build_obj_nodup; auto. Qed.

Lemma parsed_obj4 ms :
  tnodup (TObj ms) = true ->
  den (TObj ms) = OObj (mem4 (obj_of ms)) /\ NoDup (map fst (obj_of ms)) /\ nodes_wf4 (obj_of ms).
Proof.
  intro T. pose proof (den_obj_nodup ms T) as D. apply tnodup_obj in T as [N F].
  rewrite obj_of_nodup by exact N. split; [|split].
  - rewrite D. f_equal. unfold mem4, den_members. rewrite map_map. apply map_ext. intros [k v]. simpl.
    now rewrite aval4_child.
  - rewrite map_map. exact N.
  - unfold nodes_wf4. rewrite Forall_map. rewrite Forall_forall in *. intros [k v] Hin. simpl.
    apply nwf4_child. apply (F _ Hin).
Qed.

Lemma into_doc4_spec cur : nwf4 cur ->
  match into_doc4 cur with
  | Some obj => aval4 cur = OObj (mem4 obj) /\ NoDup (map fst obj) /\ nodes_wf4 obj
  | None => is_obj (aval4 cur) = false
  end.
Proof.
  intro W. destruct cur as [|t|keys obj|ns]; simpl into_doc4; try reflexivity.
  - destruct t; try reflexivity. apply nwf4_raw in W. exact (parsed_obj4 ms W).
  - apply nwf4_doc in W as [_ [W1 W2]]. split; [apply aval4_doc | split; auto].
Qed.

(* C19 (MergePatch): the legacy merge(cur, patch) computes RFC 7396's MergePatch on the values, at
   every depth; members in the order of the association list, which is the reference's order *)
Theorem merge4_n_spec : forall fuel p cur,
  (tsize p < fuel)%nat -> tnodup p = true -> nwf4 cur ->
  aval4 (merge4_n fuel false cur p) = merge_patch (aval4 cur) (den p) /\ nwf4 (merge4_n fuel false cur p).
Proof.
  induction fuel as [|f IH]; intros p cur Hf Tp Wc; [lia|].
  rewrite merge4_n_unfold. pose proof (into_doc4_spec cur Wc) as ID.
  destruct (into_doc4 cur) as [obj|].
  - destruct ID as [Ec [No Wo]].
    destruct (is_obj (den p)) eqn:Op.
    + destruct p; try discriminate. clear Op.
      pose proof (den_obj_nodup ms Tp) as D. apply tnodup_obj in Tp as [Nk Fk].
      rewrite patch_entries_nodup by exact Nk.
      destruct (merge4_loop_spec (merge4_n f false) (map (fun kv => (unquote (fst kv), snd kv)) ms) obj No Wo)
        as [M1 [M2 M3]].
      * intros k v Hin. apply in_map_iff in Hin as [[k0 v0] [E Hin]]. inversion E; subst.
        rewrite Forall_forall in Fk. split; [apply (Fk _ Hin)|].
        intros c Wc'. apply IH; auto; [|apply (Fk _ Hin)].
        pose proof (tsize_member_lt ms _ Hin). simpl in *. lia.
      * split; [|apply nwf4_doc; split; [reflexivity | auto]].
        rewrite aval4_doc, M1, Ec, D, merge_patch_obj. simpl members_of. f_equal. f_equal.
        unfold den_members. rewrite map_map. reflexivity.
    + assert (NO : forall ms, p <> TObj ms).
      { intros ms E. subst. rewrite (den_obj_nodup ms Tp) in Op. discriminate. }
      destruct p; try (exfalso; eapply NO; reflexivity);
        (split; [cbn [aval4]; rewrite merge_patch_nonobj; [reflexivity | apply is_obj_false; exact Op] | exact Tp]).
  - rewrite prune4_node_raw. destruct (prune4_t_spec p Tp) as [P1 P2]. split; auto.
    rewrite P1. apply merge_patch_target_irrelevant. destruct (aval4 cur); try reflexivity. discriminate.
Qed.

(* the same statement up to member order, against the value v5's abstraction would give *)
Corollary merge4_n_jeq fuel p cur :
  (tsize p < fuel)%nat -> tnodup p = true -> nwf4 cur ->
  jeq (aval4 (merge4_n fuel false cur p)) (merge_patch (aval4 cur) (den p)) = true.
Proof.
  intros Hf Tp Wc. destruct (merge4_n_spec fuel p cur Hf Tp Wc) as [E W].
  rewrite <- E. apply jeq_refl. apply nwf4_onodup. exact W.
Qed.

(* ---- the mergeMerge mode (MergeMergePatches) refines mm, for compatible patches ---- *)
Lemma into_doc4_clean cur obj : nwf4 cur -> nclean cur = true -> into_doc4 cur = Some obj -> nodes_clean obj.
Proof.
  intros W C. destruct cur as [|t|ks ob|ns]; simpl; try discriminate.
  - destruct t; try discriminate. apply nwf4_raw in W. apply tnodup_obj in W as [N _].
    rewrite obj_of_nodup by exact N. intro H; inversion H; subst.
    unfold nodes_clean. rewrite Forall_map. apply Forall_forall. intros; apply nclean_child.
  - intro H; inversion H; subst. apply (proj1 (nclean_doc ks obj)). exact C.
Qed.

Lemma aval4_clean_nonnull c : nclean c = true -> c <> NNil -> aval4 c <> ONull.
Proof.
  destruct c as [|t|ks ob|ns]; simpl; try congruence; try discriminate.
  destruct t; simpl; try discriminate; congruence.
Qed.

Lemma merge4_loop_mm_spec rec es : forall obj,
  NoDup (map fst obj) -> nodes_wf4 obj -> nodes_clean obj -> NoDup (map fst es) ->
  (forall k v, In (k, v) es -> tnodup v = true /\
     forall c, nwf4 c -> nclean c = true -> c <> NNil -> v <> TNull ->
               (is_obj (den v) = true -> compatible (aval4 c) (den v) = true) ->
               aval4 (rec c v) = mm (aval4 c) (den v) /\ nwf4 (rec c v) /\ nclean (rec c v) = true) ->
  (forall k v c, In (k, v) es -> aget k (mem4 obj) = Some c -> is_obj (den v) = true ->
                 c <> ONull -> compatible c (den v) = true) ->
  mem4 (merge4_loop rec true es obj) = mm_members (map (fun kv => (fst kv, den (snd kv))) es) (mem4 obj) /\
  NoDup (map fst (merge4_loop rec true es obj)) /\ nodes_wf4 (merge4_loop rec true es obj) /\
  nodes_clean (merge4_loop rec true es obj).
Proof.
  induction es as [|[k v] es IH]; intros obj No W Cl N R Cp; cbn [map fst snd].
  - cbn [merge4_loop mm_members]. auto.
  - inversion N as [|? ? H1 H2]; subst.
    assert (Rv := R k v (or_introl eq_refl)). destruct Rv as [Tv Rv].
    assert (R' : forall k0 v0, In (k0, v0) es -> tnodup v0 = true /\
       forall c, nwf4 c -> nclean c = true -> c <> NNil -> v0 <> TNull ->
               (is_obj (den v0) = true -> compatible (aval4 c) (den v0) = true) ->
               aval4 (rec c v0) = mm (aval4 c) (den v0) /\ nwf4 (rec c v0) /\ nclean (rec c v0) = true)
      by (intros k0 v0 Hin0; apply (R k0 v0); now right).
    (* one step: store v' at k, whose value is x *)
    assert (Step : forall v' x, nwf4 v' -> nclean v' = true -> aval4 v' = x ->
              mem4 (merge4_loop rec true es (aset k v' obj)) =
                mm_members (map (fun kv => (fst kv, den (snd kv))) es) (aset k x (mem4 obj)) /\
              NoDup (map fst (merge4_loop rec true es (aset k v' obj))) /\
              nodes_wf4 (merge4_loop rec true es (aset k v' obj)) /\
              nodes_clean (merge4_loop rec true es (aset k v' obj))).
    { intros v' x Wv' Cv' Ev'. rewrite <- Ev', <- mem4_aset. apply IH; auto.
      - apply NoDup_keys_aset; auto.
      - apply nodes_wf4_aset; auto.
      - apply Forall_aset; auto.
      - intros k0 v0 c Hin0 G O NNc. rewrite mem4_aset in G.
        assert (bseq k0 k = false).
        { apply bseq_neq. intro; subst. apply H1. apply in_map_iff. exists (k, v0); auto. }
        rewrite aget_aset_other in G by auto. eapply Cp; eauto. now right. }
    destruct (tnull_dec v) as [->|NNv].
    + (* null: kept as a deletion *)
      cbn [merge4_loop den]. rewrite mm_members_cons_null.
      apply (Step NNil ONull); auto. exact I.
    + assert (DN : den v <> ONull) by (intro E; apply den_null_iff in E; contradiction).
      rewrite merge4_loop_cons_nonnull by exact NNv. rewrite mm_members_cons_nonnull by exact DN.
      rewrite aget_mem4.
      assert (Cv : nclean (NRaw v) = true) by (destruct v; auto; congruence).
      destruct (aget k obj) as [c|] eqn:Eg; cbn [option_map].
      * destruct (nnil_dec c) as [->|NNc].
        -- cbn [aval4 is_null]. apply (Step (NRaw v) (den v)); auto.
        -- rewrite (match_nonnil c) by exact NNc.
           assert (Wc : nwf4 c) by (eapply nodes_wf4_get; eauto).
           assert (Cc : nclean c = true).
           { apply aget_In in Eg. unfold nodes_clean in Cl. rewrite Forall_forall in Cl. apply (Cl _ Eg). }
           pose proof (aval4_clean_nonnull c Cc NNc) as AN.
           replace (is_null (aval4 c)) with false by (destruct (aval4 c); auto; congruence).
           destruct (Rv c Wc Cc NNc NNv) as [Q1 [Q2 Q3]].
           { intro O. apply (Cp k v (aval4 c)); auto; try (now left); try (rewrite aget_mem4, Eg; reflexivity). }
           apply (Step (rec c v) (mm (aval4 c) (den v))); auto.
      * apply (Step (NRaw v) (den v)); auto.
Qed.

Theorem merge4_n_mm_spec : forall fuel p cur,
  (tsize p < fuel)%nat -> tnodup p = true -> p <> TNull -> nwf4 cur -> nclean cur = true ->
  (is_obj (den p) = true -> compatible (aval4 cur) (den p) = true) ->
  aval4 (merge4_n fuel true cur p) = mm (aval4 cur) (den p) /\ nwf4 (merge4_n fuel true cur p) /\
  nclean (merge4_n fuel true cur p) = true.
Proof.
  induction fuel as [|f IH]; intros p cur Hf Tp NNp Wc Cc Cp; [lia|].
  rewrite merge4_n_unfold. pose proof (into_doc4_spec cur Wc) as ID.
  assert (Cr : nclean (NRaw p) = true) by (destruct p; auto; congruence).
  destruct (is_obj (den p)) eqn:Op.
  - (* an object patch: cur is an object too *)
    destruct p; try discriminate.
    pose proof (den_obj_nodup ms Tp) as D. rewrite D in Cp. specialize (Cp eq_refl).
    pose proof (compatible_obj_is_obj _ _ Cp) as Oc.
    destruct (into_doc4 cur) as [obj|] eqn:Ei; [|rewrite ID in Oc; discriminate].
    destruct ID as [Ec [No Wo]]. pose proof (into_doc4_clean cur obj Wc Cc Ei) as Co.
    apply tnodup_obj in Tp as [Nk Fk]. rewrite patch_entries_nodup by exact Nk.
    destruct (merge4_loop_mm_spec (merge4_n f true) (map (fun kv => (unquote (fst kv), snd kv)) ms) obj No Wo Co)
      as [M1 [M2 [M3 M4]]].
    + rewrite map_map. exact Nk.
    + intros k v Hin. apply in_map_iff in Hin as [[k0 v0] [E Hin]]. inversion E; subst.
      rewrite Forall_forall in Fk. split; [apply (Fk _ Hin)|].
      intros c Wc' Cc' NNc NNv Cpv. apply IH; auto; [|apply (Fk _ Hin)].
      pose proof (tsize_member_lt ms _ Hin). simpl in *. lia.
    + intros k v c Hin G O NNc. apply in_map_iff in Hin as [[k0 v0] [E Hin]]. inversion E; subst.
      rewrite Ec in Cp. eapply compatible_members; eauto.
      unfold den_members. apply in_map_iff. eexists; split; [|exact Hin]. reflexivity.
    + split; [|split; [apply nwf4_doc; split; [reflexivity | auto] | apply nclean_doc; auto]].
      rewrite aval4_doc, M1, Ec, D, mm_obj. f_equal. f_equal.
      unfold den_members. rewrite map_map. reflexivity.
  - assert (NO : forall ms, p <> TObj ms).
    { intros ms E. subst. rewrite (den_obj_nodup ms Tp) in Op. discriminate. }
    assert (G : aval4 (NRaw p) = mm (aval4 cur) (den p) /\ nwf4 (NRaw p) /\ nclean (NRaw p) = true).
    { split; [|split; auto]. cbn [aval4]. rewrite mm_nonobj2; [reflexivity | apply is_obj_false; exact Op]. }
    destruct (into_doc4 cur) as [obj|].
    + destruct p; try exact G. exfalso. eapply NO; reflexivity.
    + rewrite prune4_node_raw, prune4_t_nonobj by exact NO. exact G.
Qed.

(* ---- the exported functions, on bytes ---- *)
Lemma marshal4_raw t : marshal4 (NRaw t) = print true t.
Proof. reflexivity. Qed.

(* legacy MergePatch: a scalar patch is rejected (the legacy package has no verbatim-patch rule);
   for an object or array patch and a non-null document the result is the encoding (marshal4:
   member names sorted, HTML-escaped) of a node whose value is RFC 7396's MergePatch(document, patch) *)
Theorem api_merge4_spec doc patch td tp :
  parse doc = Some td -> parse patch = Some tp -> td <> TNull -> tnodup td = true -> tnodup tp = true ->
  (scalar_text tp = true /\ api_merge4 false doc patch = MErr MBadPatch) \/
  (scalar_text tp = false /\ exists n, api_merge4 false doc patch = MOut (marshal4 n) /\ nwf4 n /\
                                       aval4 n = merge_patch (den td) (den tp)).
Proof.
  intros Pd Pp NNd Td Tp. unfold api_merge4. rewrite Pd, Pp.
  destruct td; try congruence;
    (destruct tp; [left; split; reflexivity | left; split; reflexivity | left; split; reflexivity
                  | left; split; reflexivity | left; split; reflexivity | | ]); right; split; try reflexivity.
  all: try (exists (NRaw (TArr l)) + exists (NRaw (TArr l0)); split; [reflexivity | split; [exact Tp | reflexivity]]).
  all: try (match goal with |- context [merge4_n ?f false ?c ?p] =>
              exists (merge4_n f false c p); split; [reflexivity|];
              destruct (merge4_n_spec f p c) as [S1 S2]; [simpl; lia | exact Tp | exact Td | split; [exact S2 | exact S1]] end).
  all: match goal with |- context [prune4_node (NRaw ?p)] =>
         exists (prune4_node (NRaw p)); split; [reflexivity|]; rewrite prune4_node_raw;
         destruct (prune4_t_spec p Tp) as [S1 S2]; split; [exact S2|]; rewrite S1;
         apply merge_patch_target_irrelevant; reflexivity end.
Qed.

(* a null document or a null patch is an error *)
Theorem api_merge4_null_rejected mm doc patch td tp :
  parse doc = Some td -> parse patch = Some tp ->
  (td = TNull -> api_merge4 mm doc patch = MErr MBadDoc) /\
  (td <> TNull -> tp = TNull -> api_merge4 mm doc patch = MErr MBadPatch).
Proof.
  intros Pd Pp. unfold api_merge4. rewrite Pd, Pp. split.
  - intros ->. reflexivity.
  - intros NN ->. destruct td; congruence.
Qed.

(* legacy MergeMergePatches on an object P1: a scalar P2 is rejected, otherwise the encoding of a
   node whose value is mm P1 P2 — the combined patch of the composition law *)
Theorem api_mergemerge4_spec p1 p2 ms1 t2 :
  parse p1 = Some (TObj ms1) -> parse p2 = Some t2 -> tnodup (TObj ms1) = true -> tnodup t2 = true ->
  compatible (den (TObj ms1)) (den t2) = true ->
  (scalar_text t2 = true /\ api_merge4 true p1 p2 = MErr MBadPatch) \/
  (scalar_text t2 = false /\ exists n, api_merge4 true p1 p2 = MOut (marshal4 n) /\ nwf4 n /\
                                       aval4 n = mm (den (TObj ms1)) (den t2)).
Proof.
  intros P1 P2 T1 T2 C. unfold api_merge4. rewrite P1, P2.
  destruct t2; [left; split; reflexivity | left; split; reflexivity | left; split; reflexivity
               | left; split; reflexivity | left; split; reflexivity | | ]; right; split; try reflexivity.
  - exists (NRaw (TArr l)). split; [reflexivity | split; [exact T2 | reflexivity]].
  - match goal with |- context [merge4_n ?f true ?c ?p] =>
      exists (merge4_n f true c p); split; [reflexivity|];
      assert (S : aval4 (merge4_n f true c p) = mm (aval4 c) (den p) /\ nwf4 (merge4_n f true c p) /\ nclean (merge4_n f true c p) = true)
        by (apply merge4_n_mm_spec; auto; try (simpl; lia); try discriminate);
      destruct S as [S1 [S2 _]]; split; [exact S2 | exact S1] end.
Qed.

(* together with the reference's composition law: applying the legacy combined patch equals
   applying the two patches in turn (on values, up to member order) *)
Corollary api_mergemerge4_composes p1 p2 ms1 t2 d :
  parse p1 = Some (TObj ms1) -> parse p2 = Some t2 -> tnodup (TObj ms1) = true -> tnodup t2 = true ->
  compatible (den (TObj ms1)) (den t2) = true -> scalar_text t2 = false -> onodup d = true ->
  exists n, api_merge4 true p1 p2 = MOut (marshal4 n) /\
            jeq (merge_patch d (aval4 n)) (merge_patch (merge_patch d (den (TObj ms1))) (den t2)) = true.
Proof.
  intros P1 P2 T1 T2 C Sc Nd.
  destruct (api_mergemerge4_spec p1 p2 ms1 t2 P1 P2 T1 T2 C) as [[S _]|[_ [n [E [W A]]]]]; [congruence|].
  exists n. split; [exact E|]. rewrite A. apply compose_law; auto.
Qed.

(* ---- what marshal4 writes: the rendered tree denotes the node's value, up to member order ---- *)
Definition sort4 {A} (l : list (bytes * A)) : list (bytes * A) :=
  fold_left (fun acc kv => insert_sorted kv acc) l [].

Lemma render4_doc obj :
  render4 (NDoc [] obj) =
  TObj (map (fun kv => (quote true (fst kv), snd kv)) (sort4 (map (fun kv => (fst kv, render4 (snd kv))) obj))).
Proof. reflexivity. Qed.

Lemma aget_insert_sorted {A} k (kv : bytes * A) l :
  aget k (insert_sorted kv l) = if bseq k (fst kv) then Some (snd kv) else aget k l.
Proof.
  destruct kv as [k0 v0]. cbn [fst snd].
  induction l as [|[k' v'] l IH]; [reflexivity|]. cbn [insert_sorted fst snd].
  destruct (bytes_ltb k0 k'); [reflexivity|].
  destruct (bseq k0 k') eqn:E.
  - apply bseq_eq in E. subst k'. cbn [aget]. destruct (bseq k k0); reflexivity.
  - cbn [aget]. rewrite IH. destruct (bseq k k') eqn:E1, (bseq k k0) eqn:E2; try reflexivity.
    apply bseq_eq in E1, E2. subst. rewrite bseq_refl in E. discriminate.
Qed.

Lemma In_keys_aget {A} k (m : list (bytes * A)) : In k (map fst m) <-> aget k m <> None.
Proof.
  split.
  - intros H E. apply aget_None_notin in E. contradiction.
  - intro H. destruct (aget k m) eqn:E; [eapply aget_In_fst; eauto | congruence].
Qed.

Lemma In_keys_insert_sorted {A} k (kv : bytes * A) l :
  In k (map fst (insert_sorted kv l)) <-> k = fst kv \/ In k (map fst l).
Proof.
  rewrite !In_keys_aget, aget_insert_sorted. destruct (bseq k (fst kv)) eqn:E.
  - apply bseq_eq in E. split; [auto | intros _; discriminate].
  - apply bseq_neq in E. split; [auto | intros [H|H]; [contradiction | exact H]].
Qed.

Lemma NoDup_keys_insert_sorted {A} (kv : bytes * A) l :
  ~ In (fst kv) (map fst l) -> NoDup (map fst l) -> NoDup (map fst (insert_sorted kv l)).
Proof.
  destruct kv as [k0 v0]. cbn [fst].
  induction l as [|[k' v'] l IH]; intros Hk N; cbn [insert_sorted fst snd].
  - constructor; [intros [] | constructor].
  - destruct (bytes_ltb k0 k'); [constructor; auto|].
    destruct (bseq k0 k') eqn:E.
    + apply bseq_eq in E. subst. exfalso. apply Hk. now left.
    + apply bseq_neq in E. inversion N as [|? ? N1 N2]; subst. cbn [map fst]. constructor.
      * intro Hin. apply In_keys_insert_sorted in Hin as [Hin|Hin]; [cbn [fst] in Hin; congruence | contradiction].
      * apply IH; auto. intro Hin. apply Hk. now right.
Qed.

Lemma NoDup_app_split {A} (l m : list A) :
  NoDup (l ++ m) -> NoDup l /\ NoDup m /\ (forall x, In x l -> In x m -> False).
Proof.
  induction l as [|a l IH]; simpl; intro N.
  - split; [constructor | split; [exact N | intros x []]].
  - inversion N as [|? ? N1 N2]; subst. destruct (IH N2) as [I1 [I2 I3]]. split; [|split; auto].
    + constructor; auto. intro H. apply N1. apply in_or_app. now left.
    + intros x [->|H] Hm; [apply N1; apply in_or_app; now right | eapply I3; eauto].
Qed.

Lemma sort4_go_spec {A} (l : list (bytes * A)) : forall acc,
  NoDup (map fst l ++ map fst acc) ->
  NoDup (map fst (fold_left (fun a kv => insert_sorted kv a) l acc)) /\
  forall k, aget k (fold_left (fun a kv => insert_sorted kv a) l acc) =
            match aget k l with Some v => Some v | None => aget k acc end.
Proof.
  induction l as [|[k0 v0] l IH]; intros acc N.
  - simpl in *. auto.
  - cbn [fold_left]. cbn [map fst app] in N. inversion N as [|? ? N1 N2]; subst.
    assert (Ha : ~ In k0 (map fst acc)) by (intro H; apply N1; apply in_or_app; now right).
    assert (Hl : ~ In k0 (map fst l)) by (intro H; apply N1; apply in_or_app; now left).
    destruct (IH (insert_sorted (k0, v0) acc)) as [I1 I2].
    { destruct (NoDup_app_split _ _ N2) as [S1 [S2 S3]]. apply NoDup_app_intro.
      - exact S1.
      - apply NoDup_keys_insert_sorted; auto.
      - intros x H1 H2. apply In_keys_insert_sorted in H2 as [H2|H2]; cbn [fst] in H2.
        + subst. contradiction.
        + apply (S3 x H1 H2). }
    split; [exact I1|]. intro k. rewrite I2, aget_insert_sorted. cbn [aget fst snd].
    destruct (bseq k k0) eqn:E; [|reflexivity].
    apply bseq_eq in E. subst. apply aget_None_notin in Hl. rewrite Hl. reflexivity.
Qed.

Lemma sort4_spec {A} (l : list (bytes * A)) :
  NoDup (map fst l) -> NoDup (map fst (sort4 l)) /\ forall k, aget k (sort4 l) = aget k l.
Proof.
  intro N. destruct (sort4_go_spec l []) as [S1 S2]; [simpl; rewrite app_nil_r; exact N|].
  split; [exact S1|]. intro k. unfold sort4. rewrite S2. destruct (aget k l); reflexivity.
Qed.

Lemma aget_map_snd {A B} (f : A -> B) k (m : list (bytes * A)) :
  aget k (map (fun kv => (fst kv, f (snd kv))) m) = option_map f (aget k m).
Proof.
  induction m as [|[k' v'] m IH]; simpl; auto. destruct (bseq k k'); simpl; auto.
Qed.

(* member names are valid UTF-8 (they are decoded from well-formed string bodies); raw texts have
   well-formed string bodies *)
Fixpoint nku (n : node) : Prop :=
  match n with
  | NNil => True
  | NRaw t => tsb t
  | NDoc _ obj =>
      (fix all (m : list (bytes * node)) : Prop :=
         match m with [] => True | kv :: r => (utf8 (fst kv) /\ nku (snd kv)) /\ all r end) obj
  | NAry ns =>
      (fix all (l : list node) : Prop := match l with [] => True | x :: r => nku x /\ all r end) ns
  end.

Definition nodes_ku (obj : list (bytes * node)) : Prop := Forall (fun kv => utf8 (fst kv) /\ nku (snd kv)) obj.

Lemma nku_doc keys obj : nku (NDoc keys obj) <-> nodes_ku obj.
Proof.
  cbn [nku]. unfold nodes_ku. split; intro H.
  - induction obj as [|kv obj IH]; constructor; destruct H; auto.
  - induction obj as [|kv obj IH]; [exact I|]. inversion H as [|? ? Ha Hb]; subst. split; [exact Ha | apply IH; exact Hb].
Qed.

Lemma nku_ary ns : nku (NAry ns) <-> Forall nku ns.
Proof.
  cbn [nku]. split; intro H.
  - induction ns as [|x ns IH]; constructor; destruct H; auto.
  - induction ns as [|x ns IH]; [exact I|]. inversion H as [|? ? Ha Hb]; subst. split; [exact Ha | apply IH; exact Hb].
Qed.
Arguments nku : simpl never.

Lemma jeq_list_refl_on (f g : node -> ojson) ns :
  Forall (fun x => jeq (f x) (g x) = true) ns -> jeq_list (map f ns) (map g ns) = true.
Proof. induction 1; simpl; auto. rewrite H. exact IHForall. Qed.

(* the tree marshal4 prints denotes the value of the node, members reordered (sorted by name) *)
Theorem render4_den n : nwf4 n -> nku n ->
  onodup (den (render4 n)) = true /\ jeq (den (render4 n)) (aval4 n) = true.
Proof.
  induction n using node_rect'; intros W K.
  - split; reflexivity.
  - cbn [render4 aval4]. split; [exact W | apply jeq_refl; exact W].
  - apply nwf4_doc in W as [-> [N W]]. apply nku_doc in K.
    unfold nodes_wf4, nodes_ku in *. rewrite Forall_forall in H, W, K.
    rewrite render4_doc, aval4_doc.
    set (R := map (fun kv => (fst kv, render4 (snd kv))) obj).
    assert (NR : NoDup (map fst R)) by (unfold R; rewrite map_map; exact N).
    destruct (sort4_spec R NR) as [S1 S2].
    assert (Kin : forall kv, In kv (sort4 R) -> In (fst kv) (map fst obj)).
    { intros [k v] Hin. cbn [fst]. apply (In_aget_nodup k v _ S1) in Hin. rewrite S2 in Hin.
      apply aget_In_fst in Hin. unfold R in Hin. rewrite map_map in Hin. exact Hin. }
    assert (Ku : forall k, In k (map fst obj) -> utf8 k).
    { intros k Hin. apply in_map_iff in Hin as [kv [<- Hin]]. apply (K _ Hin). }
    set (D := map (fun kv => (fst kv, den (snd kv))) (sort4 R)).
    assert (ED : den (TObj (map (fun kv => (quote true (fst kv), snd kv)) (sort4 R))) = OObj D).
    { cbn [den]. rewrite map_map. cbn [fst snd].
      assert (E : map (fun x => (unquote (quote true (fst x)), den (snd x))) (sort4 R) = D).
      { unfold D. apply map_ext_in. intros kv Hin. f_equal. apply unquote_quote. apply Ku. apply Kin. exact Hin. }
      rewrite E. rewrite resolve_dups_nodup; [reflexivity|]. unfold D. rewrite map_map. exact S1. }
    rewrite ED.
    assert (ND : NoDup (map fst D)) by (unfold D; rewrite map_map; exact S1).
    assert (GD : forall k, aget k D = option_map (fun v => den (render4 v)) (aget k obj)).
    { intro k. unfold D. rewrite aget_map_snd, S2. unfold R. rewrite aget_map_snd.
      destruct (aget k obj); reflexivity. }
    split.
    + apply onodup_obj. split; [exact ND|]. apply Forall_forall. intros [k x] Hin. cbn [snd].
      apply (In_aget_nodup k x D ND) in Hin. rewrite GD in Hin.
      destruct (aget k obj) as [v|] eqn:G; [|discriminate]. inversion Hin; subst.
      apply aget_In in G. apply (H _ G); [apply (W _ G) | apply (K _ G)].
    + apply jeq_obj_char; [exact ND | rewrite mem4_keys; exact N|].
      intro k. rewrite GD, aget_mem4. unfold lookup_rel.
      destruct (aget k obj) as [v|] eqn:G; cbn [option_map]; [|exact I].
      apply aget_In in G. apply (H _ G); [apply (W _ G) | apply (K _ G)].
  - apply nwf4_ary in W. apply nku_ary in K. rewrite Forall_forall in H, W, K.
    cbn [render4 aval4 den]. rewrite map_map. split.
    + apply onodup_arr. rewrite Forall_map. apply Forall_forall. intros x Hin. apply (H x Hin); auto.
    + rewrite jeq_arr. apply jeq_list_refl_on. apply Forall_forall. intros x Hin. apply (H x Hin); auto.
Qed.

(* ---- the invariant nku is kept by parsing, pruneNulls and merge ---- *)
Lemma Forall_aset_key {A} (P : bytes * A -> Prop) k v m : Forall P m -> P (k, v) -> Forall P (aset k v m).
Proof.
  intros H Hv. induction m as [|[k' v'] m IH]; simpl.
  - constructor; auto.
  - inversion H; subst. destruct (bseq k k') eqn:E; constructor; auto.
    apply bseq_eq in E. subst. exact Hv.
Qed.

Lemma utf8_unquote k : sbody k -> utf8 (unquote k).
Proof. intro H. apply (unquote_utf8 (length k)); auto. Qed.

Lemma nku_child t : tsb t -> nku (child t).
Proof. destruct t; intro H; try exact I; exact H. Qed.

Lemma build_obj_ku ms : forall acc,
  Forall (fun kv => sbody (fst kv) /\ tsb (snd kv)) ms -> nodes_ku acc -> nodes_ku (build_obj ms acc).
Proof.
  induction ms as [|[k v] ms IH]; intros acc F Ha; simpl; auto.
  inversion F as [|? ? [F1 F2] Fr]; subst. cbn [fst snd] in *. apply IH; auto.
  apply Forall_aset_key; auto. split; [apply utf8_unquote; auto | apply nku_child; auto].
Qed.

Lemma into_doc4_ku cur obj : nku cur -> into_doc4 cur = Some obj -> nodes_ku obj.
Proof.
  intros K. destruct cur as [|t|ks ob|ns]; simpl; try discriminate.
  - destruct t; try discriminate. intro H; inversion H; subst. unfold obj_of.
    apply build_obj_ku; [apply tsb_obj; exact K | constructor].
  - intro H; inversion H; subst. apply nku_doc in K. exact K.
Qed.

Lemma prune4_go_ku ms : forall acc,
  Forall (fun kv => tsb (snd kv) -> nku (prune4_t (snd kv))) ms ->
  Forall (fun kv => sbody (fst kv) /\ tsb (snd kv)) ms -> nodes_ku acc -> nodes_ku (prune4_go ms acc).
Proof.
  induction ms as [|[k v] ms IH]; intros acc H F Ha; simpl; auto.
  inversion H as [|? ? Hv Hr]; subst. inversion F as [|? ? [F1 F2] Fr]; subst. cbn [fst snd] in *.
  assert (G : nodes_ku (aset (unquote k) (prune4_t v) acc)).
  { apply Forall_aset_key; auto. split; [apply utf8_unquote; auto | auto]. }
  destruct v; apply IH; auto. apply Forall_adel. exact Ha.
Qed.

Lemma prune4_t_ku t : tsb t -> nku (prune4_t t).
Proof.
  induction t using tjson_rect'; intro S; try exact S.
  rewrite prune4_t_obj. apply nku_doc. apply prune4_go_ku; auto; [apply tsb_obj; exact S | constructor].
Qed.

Lemma patch_entries_ku pms :
  Forall (fun kv => sbody (fst kv) /\ tsb (snd kv)) pms ->
  Forall (fun kv => utf8 (fst kv) /\ tsb (snd kv)) (patch_entries pms).
Proof.
  unfold patch_entries. generalize (@nil (bytes * tjson)) (Forall_nil (fun kv : bytes * tjson => utf8 (fst kv) /\ tsb (snd kv))).
  induction pms as [|[k v] pms IH]; intros acc Ha F; auto.
  inversion F as [|? ? [F1 F2] Fr]; subst. cbn [fst snd] in *. apply IH; auto.
  apply Forall_aset_key; auto. split; [apply utf8_unquote; auto | exact F2].
Qed.

Lemma merge4_loop_ku rec mm es : forall obj,
  Forall (fun kv => utf8 (fst kv) /\ tsb (snd kv)) es ->
  (forall c v, nku c -> tsb v -> nku (rec c v)) ->
  nodes_ku obj -> nodes_ku (merge4_loop rec mm es obj).
Proof.
  induction es as [|[k v] es IH]; intros obj F R Ho; cbn [merge4_loop]; auto.
  inversion F as [|? ? [F1 F2] Fr]; subst. cbn [fst snd] in *.
  assert (St : forall v', nku v' -> nodes_ku (merge4_loop rec mm es (aset k v' obj))).
  { intros v' Kv. apply IH; auto. apply Forall_aset_key; auto. }
  assert (Fresh : nku (if mm then NRaw v else prune4_node (NRaw v))).
  { destruct mm; [exact F2 | rewrite prune4_node_raw; apply prune4_t_ku; exact F2]. }
  assert (Rec : forall c, aget k obj = Some c -> nku (rec c v)).
  { intros c G. apply R; auto. apply aget_In in G. unfold nodes_ku in Ho. rewrite Forall_forall in Ho.
    apply (Ho _ G). }
  destruct v; try (destruct mm; [apply St; exact I | apply IH; auto; apply Forall_adel; exact Ho]);
    (destruct (aget k obj) as [c|] eqn:G; [destruct c; apply St; auto | apply St; auto]).
Qed.

Lemma merge4_n_ku : forall fuel mm p cur, tsb p -> nku cur -> nku (merge4_n fuel mm cur p).
Proof.
  induction fuel as [|f IH]; intros mm p cur Sp Kc; [exact Sp|].
  rewrite merge4_n_unfold. destruct (into_doc4 cur) as [obj|] eqn:Ei.
  - destruct p; try exact Sp. apply nku_doc. apply merge4_loop_ku.
    + apply patch_entries_ku. apply tsb_obj. exact Sp.
    + intros c v Kc' Sv. apply IH; auto.
    + eapply into_doc4_ku; eauto.
  - rewrite prune4_node_raw. apply prune4_t_ku. exact Sp.
Qed.

(* ---- MergePatch / MergeMergePatches, on the tree that is printed ---- *)
(* the legacy MergePatch output is the (HTML-escaping) print of a tree that denotes RFC 7396's
   MergePatch(document, patch), up to the order of members *)
Theorem api_merge4_output doc patch td tp :
  parse doc = Some td -> parse patch = Some tp -> td <> TNull -> tnodup td = true -> tnodup tp = true ->
  tsb td -> tsb tp -> scalar_text tp = false ->
  exists t, api_merge4 false doc patch = MOut (print true t) /\
            onodup (den t) = true /\ jeq (den t) (merge_patch (den td) (den tp)) = true.
Proof.
  intros Pd Pp NNd Td Tp Sd Sp Sc.
  assert (G : exists n, api_merge4 false doc patch = MOut (marshal4 n) /\ nwf4 n /\ nku n /\
                        aval4 n = merge_patch (den td) (den tp)).
  { unfold api_merge4. rewrite Pd, Pp.
    destruct td; try congruence; destruct tp; try discriminate.
    all: try (exists (NRaw (TArr l)) + exists (NRaw (TArr l0)); split; [reflexivity | split; [exact Tp | split; [exact Sp | reflexivity]]]).
    all: try (match goal with |- context [merge4_n ?f false ?c ?p] =>
                exists (merge4_n f false c p); split; [reflexivity|];
                destruct (merge4_n_spec f p c) as [S1 S2]; [simpl; lia | exact Tp | exact Td |];
                split; [exact S2 | split; [apply merge4_n_ku; [exact Sp | exact Sd] | exact S1]] end).
    all: match goal with |- context [prune4_node (NRaw ?p)] =>
           exists (prune4_node (NRaw p)); split; [reflexivity|]; rewrite prune4_node_raw;
           destruct (prune4_t_spec p Tp) as [S1 S2]; split; [exact S2|]; split; [apply prune4_t_ku; exact Sp|];
           rewrite S1; apply merge_patch_target_irrelevant; reflexivity end. }
  destruct G as [n [E [W [K A]]]]. exists (render4 n). split; [exact E|].
  destruct (render4_den n W K) as [R1 R2]. split; [exact R1|]. rewrite <- A. exact R2.
Qed.

Theorem api_mergemerge4_output p1 p2 ms1 t2 :
  parse p1 = Some (TObj ms1) -> parse p2 = Some t2 -> tnodup (TObj ms1) = true -> tnodup t2 = true ->
  tsb (TObj ms1) -> tsb t2 -> compatible (den (TObj ms1)) (den t2) = true -> scalar_text t2 = false ->
  exists t, api_merge4 true p1 p2 = MOut (print true t) /\
            onodup (den t) = true /\ jeq (den t) (mm (den (TObj ms1)) (den t2)) = true.
Proof.
  intros P1 P2 T1 T2 S1 S2 C Sc.
  assert (G : exists n, api_merge4 true p1 p2 = MOut (marshal4 n) /\ nwf4 n /\ nku n /\
                        aval4 n = mm (den (TObj ms1)) (den t2)).
  { unfold api_merge4. rewrite P1, P2. destruct t2; try discriminate.
    - exists (NRaw (TArr l)). split; [reflexivity | split; [exact T2 | split; [exact S2 | reflexivity]]].
    - match goal with |- context [merge4_n ?f true ?c ?p] =>
        exists (merge4_n f true c p); split; [reflexivity|];
        assert (S : aval4 (merge4_n f true c p) = mm (aval4 c) (den p) /\ nwf4 (merge4_n f true c p) /\ nclean (merge4_n f true c p) = true)
          by (apply merge4_n_mm_spec; auto; try (simpl; lia); try discriminate);
        destruct S as [Q1 [Q2 _]]; split; [exact Q2 | split; [apply merge4_n_ku; [exact S2 | exact S1] | exact Q1]] end. }
  destruct G as [n [E [W [K A]]]]. exists (render4 n). split; [exact E|].
  destruct (render4_den n W K) as [R1 R2]. split; [exact R1|]. rewrite <- A. exact R2.
Qed.
