(* Domain.v — the stated domains of the properties as boolean predicates, and the translation of a
   decoded patch to the reference's operations.  No proofs here.  These predicates are used both
   by the theorems (as hypotheses) and by the correspondence oracle (to decide Skip). *)
From JP Require Import Bytes Json Text Strings Den Pointer Rfc6902 ImplV5.

Definition ref_kind (k : opk) : opkind :=
  match k with
  | KAdd => OpAdd | KRemove => OpRemove | KReplace => OpReplace
  | KMove => OpMove | KCopy => OpCopy | _ => OpTest
  end.

Definition str_or_empty (r : res bytes) : bytes := match r with Ok s => s | _ => [] end.

(* the reference operation denoted by a decoded Operation *)
Definition den_op (op : operation) : rop :=
  mkRop (ref_kind (op_kind op))
        (str_or_empty (op_str op (B "path")))
        (str_or_empty (op_str op (B "from")))
        (match aget (B "value") op with
         | Some (Some t) => Some (den t)
         | Some None => Some ONull
         | None => None
         end).

(* a pointer the properties talk about: "" or /tok/tok... with no empty token, and every token
   that strconv.Atoi would read as a number spelled canonically *)
Definition token_ok (t : bytes) : bool :=
  match t with
  | [] => false
  | _ =>
      match atoi t with
      | Some _ => match canonical_nat t, canonical_neg t with None, None => false | _, _ => true end
      | None => true
      end
  end.

Definition pointer_ok (p : bytes) : bool :=
  match p with
  | [] => true
  | x2f :: r => forallb token_ok (split_slash r)
  | _ => false
  end.

Definition is_empty (p : bytes) : bool := match p with [] => true | _ => false end.

Definition value_is_null (op : operation) : bool :=
  match aget (B "value") op with
  | Some None => true
  | Some (Some TNull) => true
  | _ => false
  end.

(* C01's exclusions, per operation *)
Definition op_in_domain (op : operation) : bool :=
  let path := str_or_empty (op_str op (B "path")) in
  let from := str_or_empty (op_str op (B "from")) in
  pointer_ok path &&
  match op_kind op with
  | KAdd | KReplace => negb (is_empty path && value_is_null op)
  | KRemove => negb (is_empty path)
  | KMove | KCopy => pointer_ok from && negb (is_empty path)
  | KTest => true
  | KUnknown => false
  end.

Definition values_nodup (op : operation) : bool :=
  match aget (B "value") op with
  | Some (Some t) => tnodup t
  | _ => true
  end.

Definition in_domain_C01 (ops : list operation) : bool :=
  forallb op_in_domain ops && forallb values_nodup ops.

Definition root_container (t : tjson) : bool :=
  match t with TObj _ | TArr _ => true | _ => false end.

Definition dialect_of (o : opts) : dialect := mkDialect (o_neg o).

(* ---- C14: add paths whose tokens are member names or canonical non-negative indices,
   '-' only as the last token ---- *)
Definition c14_token_ok (last : bool) (t : bytes) : bool :=
  match t with
  | [] => false
  | _ =>
      if bseq t [x2d] then last else
      match atoi t with
      | Some _ => match canonical_nat t with Some _ => true | None => false end
      | None => true
      end
  end.

Fixpoint c14_tokens_ok (ts : list bytes) : bool :=
  match ts with
  | [] => true
  | [t] => c14_token_ok true t
  | t :: r => c14_token_ok false t && c14_tokens_ok r
  end.

Definition c14_path_ok (p : bytes) : bool :=
  match p with
  | x2f :: r => c14_tokens_ok (split_slash r)
  | _ => false
  end.

(* ---- spelled as the encoder itself spells it (C15's byte-identity clauses) ---- *)
Fixpoint canonical_spelling (esc : bool) (t : tjson) : bool :=
  match t with
  | TStr b => bseq (quote esc (unquote b)) b
  | TArr l => forallb (canonical_spelling esc) l
  | TObj ms =>
      forallb (fun kv => bseq (quote esc (unquote (fst kv))) (fst kv) && canonical_spelling esc (snd kv)) ms
  | _ => true
  end.

(* ---- nesting depth of decoded values, and the side condition of the copy depth check ----
   (definitions only; the facts about them are in Depth.v) *)
Fixpoint odepth (j : ojson) : N :=
  match j with
  | OArr l => 1 + (fix go (l : list ojson) : N := match l with [] => 0 | x :: r => N.max (odepth x) (go r) end) l
  | OObj ms => 1 + (fix go (m : list (bytes * ojson)) : N := match m with [] => 0 | kv :: r => N.max (odepth (snd kv)) (go r) end) ms
  | _ => 0
  end.


(* ---- the side condition on the reference run ---- *)
(* the operation is not a copy whose source value, as the reference resolves it in doc, nests
   deeper than the decoder accepts *)
Definition copy_fits (d : dialect) (doc : ojson) (o : rop) : bool :=
  match rkind o with
  | OpCopy =>
      match ptr_tokens (rfrom o) with
      | Some ftoks =>
          match get_at d ftoks doc with
          | Rfc6902.Ok v => (odepth v <=? max_depth)%N
          | Rfc6902.Fail _ => true
          end
      | None => true
      end
  | _ => true
  end.

(* copy_fits at every operation the reference run reaches (it stops at the first failure) *)
Fixpoint copies_fit (d : dialect) (doc : ojson) (p : list rop) : bool :=
  match p with
  | [] => true
  | o :: rest =>
      copy_fits d doc o &&
      match rfc_step d doc o with
      | Rfc6902.Ok doc' => copies_fit d doc' rest
      | Rfc6902.Fail _ => true
      end
  end.

