(* AllowEnsureFacts.v — the two options of the v5 model that forgive a missing path:
     AllowMissingPathOnRemove (C13): the skip case, for one operation and for whole patches;
     EnsurePathExistsOnAdd   (C14): the creation clauses (what ensurePathExists builds).
   Everything is stated on the VALUES the model states denote (Abs.aval / ApplySim.sval), against
   the ordered RFC 6902 reference (Rfc6902.v). *)
From Coq Require Import Lia.
From JP Require Import Bytes Json Text Strings Den Pointer Rfc6902 ImplV5 DecodeFacts JsonFacts Abs EqualFacts
                       ImplFacts RefFacts ApplyFacts Depth ApplySim Domain.

(* ================================================================================================ *)
(* C13 — AllowMissingPathOnRemove                                                                    *)
(* ================================================================================================ *)

Lemma set_allow_self o : o_allow o = true -> set_allow o true = o.
Proof. destruct o; simpl; intros ->; reflexivity. Qed.

(* the token is an array index of the dialect: a canonical non-negative number, or, when negative
   indices are supported, a canonical negative one *)
Definition idx_like (d : dialect) (t : bytes) : bool :=
  match canonical_nat t with
  | Some _ => true
  | None => match canonical_neg t with Some _ => neg_idx d | None => false end
  end.

(* the reference's reasons for which a remove fails that the option forgives: the member is
   absent, an ancestor is absent or is no container, the index (an index of the dialect) is out of
   range.  NOT forgiven: a last token on an array that is no index of the dialect (a name, or a
   negative number while negative indices are off) *)
Definition skip_cause (d : dialect) (key : bytes) (cz : cause) : bool :=
  match cz with
  | FMissingMember | FUnreachable => true
  | FIndex => idx_like d key
  | _ => false
  end.

Lemma ary_remove_allow_none o (ns : list node) t :
  o_allow o = true -> tok_small t -> tok_canonical t ->
  idx_existing (dia o) (Rfc6902.zlen ns) t = None ->
  if idx_like (dia o) t then ary_remove o ns t = Ok ns else ary_remove o ns t = Err EInvalidIndex.
Proof.
  intros Al L [[n Hn]|[k Hk]]; [pose proof (proj1 L _ Hn) as Sm | pose proof (proj2 L _ Hk) as Sm];
    unfold idx_existing, idx_like, ary_remove, Rfc6902.zlen, ImplV5.zlen, dia in *; simpl; rewrite Al.
  - rewrite Hn. pose proof (canonical_nat_digits _ _ Hn) as [_ [N0 _]].
    destruct (n <? Z.of_nat (length ns))%Z eqn:E; [discriminate|]. intros _.
    apply Z.ltb_ge in E. rewrite (atoi_canonical_nat _ _ Hn) by lia.
    replace (Z.of_nat (length ns) <=? n)%Z with true by (symmetry; apply Z.leb_le; lia). reflexivity.
  - destruct (canonical_nat t) eqn:Hn; [exfalso; eapply canonical_nat_not_neg; eauto|]. rewrite Hk.
    destruct (atoi_canonical_neg _ _ Hk) as [At Kp]; auto. rewrite At.
    replace (Z.of_nat (length ns) <=? - k)%Z with false by (symmetry; apply Z.leb_gt; lia).
    replace (- k <? 0)%Z with true by (symmetry; apply Z.ltb_lt; lia).
    destruct (o_neg o); simpl; [|reflexivity].
    destruct (k <=? Z.of_nat (length ns))%Z eqn:E; [discriminate|]. intros _. apply Z.leb_gt in E.
    replace (- k <? - Z.of_nat (length ns))%Z with true by (symmetry; apply Z.ltb_lt; lia). reflexivity.
Qed.

(* remove at the container reached, option on *)
Lemma con_remove_allow_sim o cp key :
  o_allow o = true -> cgood cp -> tok_dom key ->
  match remove_leaf (dia o) (cval cp) key with
  | ROk j' => exists cp', con_remove o cp key = Ok cp' /\ cval cp' = j' /\ cgood cp'
  | RFail cz =>
      if skip_cause (dia o) key cz then con_remove o cp key = Ok cp
      else cz = FIndex /\ exists e, con_remove o cp key = Err e /\ (e = EInvalidIndex \/ e = EAtoi)
  end.
Proof.
  intros Al G D.
  pose proof (con_remove_sim (set_allow o false) cp key eq_refl G D) as S.
  change (dia (set_allow o false)) with (dia o) in S.
  destruct (remove_leaf (dia o) (cval cp) key) as [j'|cz] eqn:RL.
  - destruct S as [cp' [S1 S2]]. exists cp'. split; auto.
    apply con_remove_allow_ok in S1. now rewrite (set_allow_self o Al) in S1.
  - clear S. destruct G as [G NK]. destruct cp as [self keys obj|self|self ns]; [| contradiction |].
    + apply ngood_doc in G as [Ag Gs]. unfold cval in RL. cbn [node_of_con] in RL. rewrite aval_doc in RL.
      cbn [remove_leaf] in RL.
      assert (Am : amem key (abs_members keys obj) = amem key obj).
      { unfold amem. rewrite (aget_abs_members_agree keys obj key Ag). destruct (aget key obj); reflexivity. }
      rewrite Am in RL. destruct (amem key obj) eqn:M; [discriminate|]. inversion RL; subst cz.
      cbn [skip_cause con_remove]. rewrite M, Al. reflexivity.
    + apply ngood_ary in G. unfold cval in RL. cbn [node_of_con aval remove_leaf] in RL.
      unfold Rfc6902.zlen in RL. rewrite map_length in RL.
      destruct (idx_existing (dia o) (Z.of_nat (length ns)) key) as [i|] eqn:Ei; [discriminate|].
      inversion RL; subst cz. cbn [skip_cause con_remove].
      destruct (tok_dom_cases _ D) as [Can|[A1 [A2 A3]]].
      * pose proof (ary_remove_allow_none o ns key Al (proj1 (proj2 D)) Can Ei) as R.
        destruct (idx_like (dia o) key); rewrite R; [reflexivity|]. split; auto. eauto.
      * unfold idx_like. rewrite A2, A3. unfold ary_remove. rewrite A1. split; auto. eauto.
Qed.

(* ---- one remove, option on, path not the empty pointer ---- *)
Theorem op_remove_allow_sim o st op r c :
  s_root st = RCon c -> cgood c -> o_allow o = true ->
  op_str op (B "path") = Ok (x2f :: r) -> Forall tok_dom (map decode_token (split_slash r)) ->
  match at_parent (dia o) (ptoks r) (cval c) (remove_leaf (dia o)) with
  | ROk j' => exists st', op_remove o st op = Ok st' /\ sval st' = j' /\ sgood st' /\ s_acc st' = s_acc st
  | RFail cz =>
      if skip_cause (dia o) (path_key r) cz
      then exists st', op_remove o st op = Ok st' /\ sval st' = sval st /\ sgood st' /\ s_acc st' = s_acc st
      else cz = FIndex /\ exists e, op_remove o st op = Err e /\ (e = EInvalidIndex \/ e = EAtoi)
  end.
Proof.
  intros Hr G Al Hp D.
  assert (SV : sval st = cval c) by (unfold sval; rewrite Hr; reflexivity).
  set (f := fun (c' : con) (key : bytes) =>
              (con_remove o c' key, match con_remove o c' key with Ok c'' => c'' | _ => c' end)).
  pose proof (find_spec o c r f G D) as FS.
  pose proof (proj2 (dom_split r D)) as Dk.
  unfold op_remove. rewrite Hp, Hr, Al. fold f.
  unfold ptoks. rewrite at_parent_snoc.
  assert (Skip : forall c', find o c (x2f :: r) f = (FoundNil, c') -> cval c' = cval c -> cgood c' ->
            exists st', match find o c (x2f :: r) f with
                        | (FoundAt (Ok _), c2) => Ok (mkState (RCon c2) (s_acc st))
                        | (FoundAt (Err e), _) => Err e
                        | (FoundAt Panic, _) => Panic
                        | (_, c2) => Ok (mkState (RCon c2) (s_acc st))
                        end = Ok st' /\ sval st' = sval st /\ sgood st' /\ s_acc st' = s_acc st).
  { intros c' F1 F2 F3. rewrite F1. eexists. split; [reflexivity|]. unfold sval at 1, sgood. cbn [s_root s_acc].
    split; [now rewrite SV|]. split; eauto. }
  destruct (descend (dia o) (map decode_token (path_parts r)) (cval c)) as [p|] eqn:Ed.
  2: { destruct FS as [c' [F1 [F2 F3]]]. cbn [skip_cause]. apply (Skip c'); auto. }
  destruct (is_container p) eqn:Cp.
  2: { destruct FS as [c' [F1 [F2 F3]]].
       rewrite (proj1 (proj2 (leaf_noncontainer (dia o) p (path_key r) Cp))). cbn [bind skip_cause].
       apply (Skip c'); auto. }
  destruct FS as [cp [back [E1 [E2 [E3 E4]]]]]. rewrite E3. clear Skip.
  pose proof (con_remove_allow_sim o cp (path_key r) Al E2 Dk) as CR. rewrite E1 in CR.
  unfold f. destruct (remove_leaf (dia o) p (path_key r)) as [p'|cz]; cbn [bind].
  - destruct CR as [cp' [R1 [R2 R3]]]. rewrite R1. cbn [fst snd].
    destruct (E4 cp' R3) as [F1 F2]. eexists. split; [reflexivity|].
    unfold sval, sgood. cbn [s_root s_acc]. split; [now rewrite F1, R2|]. split; eauto.
  - destruct (skip_cause (dia o) (path_key r) cz).
    + rewrite CR. cbn [fst snd]. destruct (E4 cp E2) as [F1 F2]. eexists. split; [reflexivity|].
      unfold sval at 1, sgood. cbn [s_root s_acc]. split; [|split; eauto].
      rewrite SV, F1, E1. apply rebuild_same. exact Ed.
    + destruct CR as [-> [e [R1 R2]]]. rewrite R1. cbn [fst snd]. split; auto. eauto.
Qed.

(* the skip case in plain words: the reference cannot remove (absent member, absent or
   non-container ancestor, index of the dialect out of range) — the operation succeeds, the document
   value and the accumulated copy size are what they were *)
Corollary remove_absent_skipped o st op r c cz :
  s_root st = RCon c -> cgood c -> o_allow o = true ->
  op_str op (B "path") = Ok (x2f :: r) -> Forall tok_dom (map decode_token (split_slash r)) ->
  at_parent (dia o) (ptoks r) (cval c) (remove_leaf (dia o)) = RFail cz ->
  skip_cause (dia o) (path_key r) cz = true ->
  exists st', op_remove o st op = Ok st' /\ sval st' = sval st /\ sgood st' /\ s_acc st' = s_acc st.
Proof.
  intros Hr G Al Hp D AP SC. pose proof (op_remove_allow_sim o st op r c Hr G Al Hp D) as S.
  rewrite AP, SC in S. exact S.
Qed.

(* what the option does not forgive: a last token on an array that is no index of the dialect *)
Corollary remove_bad_index_still_fails o st op r c cz :
  s_root st = RCon c -> cgood c -> o_allow o = true ->
  op_str op (B "path") = Ok (x2f :: r) -> Forall tok_dom (map decode_token (split_slash r)) ->
  at_parent (dia o) (ptoks r) (cval c) (remove_leaf (dia o)) = RFail cz ->
  skip_cause (dia o) (path_key r) cz = false ->
  cz = FIndex /\ exists e, op_remove o st op = Err e /\ (e = EInvalidIndex \/ e = EAtoi).
Proof.
  intros Hr G Al Hp D AP SC. pose proof (op_remove_allow_sim o st op r c Hr G Al Hp D) as S.
  rewrite AP, SC in S. exact S.
Qed.

(* the document was replaced by null (nil container): every remove is skipped *)
Lemma remove_on_null_root_skipped o st op path :
  s_root st = RNull -> o_allow o = true -> op_str op (B "path") = Ok path -> op_remove o st op = Ok st.
Proof. intros Hr Al Hp. unfold op_remove. now rewrite Hp, Hr, Al. Qed.

(* ---- one operation of a patch, option on ---- *)
Lemma leaf_key_slash r : leaf_key (x2f :: r) = path_key r.
Proof. unfold leaf_key. now rewrite split_path_slash. Qed.

(* the operation is a remove that the reference cannot perform, for a forgiven reason *)
Definition absent_remove (d : dialect) (doc : ojson) (op : operation) : bool :=
  match op_kind op with
  | KRemove =>
      match rfc_step d doc (den_op op) with
      | RFail cz => skip_cause d (leaf_key (str_or_empty (op_str op (B "path")))) cz
      | ROk _ => false
      end
  | _ => false
  end.

(* in the stated domain the option is consulted by remove only *)
Lemma step_allow_off_dom o st op :
  op_dom op -> op_kind op <> KRemove -> step (set_allow o false) st op = step o st op.
Proof.
  intros [Vg [path [Hp K]]] NR. destruct (op_kind op) eqn:Ek; try congruence; unfold step; rewrite Ek;
    auto using op_add_allow, op_replace_allow, op_test_allow, op_copy_allow.
  destruct K as [_ [from [Hf [[rf [-> Df]]| ->]]]].
  - apply op_move_allow. intros from' Hf'. rewrite Hf in Hf'. inversion Hf'; subst from'.
    rewrite leaf_key_slash. exact (proj1 (proj2 (dom_split rf Df))).
  - unfold op_move. rewrite Hf. reflexivity.
Qed.

Definition allow_opts (o : opts) : Prop := o_allow o = true /\ o_ensure o = false /\ o_limit o = 0%Z.

Lemma allow_opts_off o : allow_opts o -> plain_opts (set_allow o false).
Proof. intros [_ [E L]]. split; [reflexivity|]. split; [exact E | exact L]. Qed.

(* a skipped remove is no copy *)
Lemma absent_remove_fits d doc op : absent_remove d doc op = true -> copy_fits d doc (den_op op) = true.
Proof.
  unfold absent_remove. intro H. apply copy_fits_not_copy. unfold den_op. cbn [rkind].
  destruct (op_kind op); try discriminate H. discriminate.
Qed.

(* copy_fits: as in step_sim (the depth check of deepCopy does not consult the option) *)
Theorem step_allow_sim o st op :
  sgood st -> allow_opts o -> op_dom op ->
  copy_fits (dia o) (sval st) (den_op op) = true ->
  if absent_remove (dia o) (sval st) op
  then exists st', step o st op = Ok st' /\ sval st' = sval st /\ sgood st' /\ s_acc st' = s_acc st
  else match rfc_step (dia o) (sval st) (den_op op) with
       | ROk j' => exists st', step o st op = Ok st' /\ sval st' = j' /\ sgood st'
       | RFail cz => exists e, step o st op = Err e /\ cause_rel cz e
       end.
Proof.
  intros G AO Dop Fit.
  assert (Dec : op_kind op = KRemove \/ op_kind op <> KRemove) by (destruct (op_kind op); auto; right; discriminate).
  destruct Dec as [Ek|NR].
  2: { pose proof (step_sim (set_allow o false) st op G (allow_opts_off o AO) Dop Fit) as S.
       rewrite (step_allow_off_dom o st op Dop NR) in S. change (dia (set_allow o false)) with (dia o) in S.
       unfold absent_remove. destruct (op_kind op); try congruence; exact S. }
  (* remove *)
  destruct G as [c [Hr G]]. destruct AO as [Al _]. destruct Dop as [Vg [path [Hp K]]]. rewrite Ek in K.
  destruct K as [r [-> D]].
  assert (SV : sval st = cval c) by (unfold sval; rewrite Hr; reflexivity).
  pose proof (op_remove_allow_sim o st op r c Hr G Al Hp D) as S.
  unfold absent_remove. rewrite Ek, Hp. cbn [str_or_empty]. rewrite leaf_key_slash.
  assert (RS : rfc_step (dia o) (sval st) (den_op op) = at_parent (dia o) (ptoks r) (cval c) (remove_leaf (dia o))).
  { unfold rfc_step.
    assert (RP : rpath (den_op op) = x2f :: r) by (unfold den_op; simpl; rewrite Hp; reflexivity).
    assert (RK : rkind (den_op op) = OpRemove) by (unfold den_op; simpl; rewrite Ek; reflexivity).
    rewrite RP, RK, SV, ptr_tokens_slash. fold (ptoks r). apply match_nonempty. apply ptoks_nonempty. }
  rewrite RS. unfold step. rewrite Ek.
  destruct (at_parent (dia o) (ptoks r) (cval c) (remove_leaf (dia o))) as [j'|cz].
  - destruct S as [st' [S1 [S2 [S3 _]]]]. eauto.
  - destruct (skip_cause (dia o) (path_key r) cz); [exact S|].
    destruct S as [-> [e [S1 S2]]]. exists e. split; auto. destruct S2 as [-> | ->]; simpl; auto.
Qed.

(* ---- whole patches: the patch with exactly the skipped removes deleted ---- *)
(* strip follows the run of the REFERENCE and deletes the removes whose target does not resolve at
   that moment; everything else stays (after the first failing operation nothing matters) *)
Fixpoint strip (d : dialect) (doc : ojson) (p : list operation) : list operation :=
  match p with
  | [] => []
  | op :: rest =>
      if absent_remove d doc op then strip d doc rest
      else op :: match rfc_step d doc (den_op op) with
                 | ROk doc' => strip d doc' rest
                 | RFail _ => rest
                 end
  end.

Lemma strip_incl d : forall p doc op, In op (strip d doc p) -> In op p.
Proof.
  induction p as [|op0 p IH]; intros doc op; cbn [strip]; auto.
  destruct (absent_remove d doc op0).
  - intro H. right. eapply IH; eauto.
  - intros [H|H]; [now left|]. right. destruct (rfc_step d doc (den_op op0)); [eapply IH; eauto | exact H].
Qed.

Lemma strip_dom d doc p : Forall op_dom p -> Forall op_dom (strip d doc p).
Proof. rewrite !Forall_forall. intros H op Hin. apply H. eapply strip_incl; eauto. Qed.

Lemma strip_has_copy d doc p : has_copy (strip d doc p) -> has_copy p.
Proof. intros [op [Hin K]]. exists op. split; auto. eapply strip_incl; eauto. Qed.

(* only removes are deleted, and only those the reference cannot perform *)
Lemma strip_keeps d : forall p doc, (forall op, In op p -> absent_remove d doc op = false) ->
  (forall op, In op p -> op_kind op <> KRemove) -> strip d doc p = p.
Proof.
  induction p as [|op p IH]; intros doc H NR; cbn [strip]; auto.
  assert (A : absent_remove d doc op = false).
  { unfold absent_remove. pose proof (NR op (or_introl eq_refl)). destruct (op_kind op); congruence. }
  rewrite A. f_equal. destruct (rfc_step d doc (den_op op)); auto. apply IH.
  - intros op' Hin. unfold absent_remove. pose proof (NR op' (or_intror Hin)). destruct (op_kind op'); congruence.
  - intros op' Hin. apply NR. now right.
Qed.

(* the run with the option on, against the reference run of the stripped patch.
   The depth condition copies_fit is stated on THAT run (the reference run of the stripped patch):
   a skipped remove leaves the document value unchanged, so the run with the option on meets every
   copy at the same document value as the reference run of the stripped patch does *)
Theorem allow_strip_ref o : allow_opts o -> forall p i i' st,
  sgood st -> Forall op_dom p ->
  copies_fit (dia o) (sval st) (map den_op (strip (dia o) (sval st) p)) = true ->
  match rfc_apply_from (dia o) i' (sval st) (map den_op (strip (dia o) (sval st) p)) with
  | Done doc => exists st', apply_from o i st p = AOk st' /\ sval st' = doc /\ sgood st'
  | Failed k cz => exists k1 e, apply_from o i st p = AErr k1 e /\ cause_rel cz e /\
                     (i <= k1)%nat /\ (i' <= k)%nat /\
                     nth_error p (k1 - i) = nth_error (strip (dia o) (sval st) p) (k - i')
  end.
Proof.
  intros AO. induction p as [|op p IH]; intros i i' st G D F; cbn [strip] in *.
  - cbn [map rfc_apply_from apply_from]. exists st. auto.
  - inversion D as [|? ? Dop Dp]; subst.
    assert (F1 : copy_fits (dia o) (sval st) (den_op op) = true).
    { destruct (absent_remove (dia o) (sval st) op) eqn:A; [apply absent_remove_fits; exact A|].
      cbn [map copies_fit] in F. apply andb_prop in F. exact (proj1 F). }
    pose proof (step_allow_sim o st op G AO Dop F1) as S. cbn [apply_from].
    destruct (absent_remove (dia o) (sval st) op).
    + destruct S as [st' [S1 [S2 [S3 _]]]]. rewrite S1.
      specialize (IH (S i) i' st' S3 Dp). rewrite S2 in IH. specialize (IH F).
      destruct (rfc_apply_from (dia o) i' (sval st) (map den_op (strip (dia o) (sval st) p))) as [doc|k cz]; [exact IH|].
      destruct IH as [k1 [e [I1 [I2 [I3 [I4 I5]]]]]]. exists k1, e. split; auto. split; auto. split; [lia|]. split; auto.
      replace (k1 - i)%nat with (S (k1 - S i))%nat by lia. exact I5.
    + cbn [map rfc_apply_from copies_fit] in *. apply andb_prop in F as [_ F2].
      destruct (rfc_step (dia o) (sval st) (den_op op)) as [j'|cz].
      * destruct S as [st' [S1 [S2 S3]]]. rewrite S1.
        specialize (IH (S i) (S i') st' S3 Dp). rewrite S2 in IH. specialize (IH F2).
        destruct (rfc_apply_from (dia o) (S i') j' (map den_op (strip (dia o) j' p))) as [doc|k cz]; [exact IH|].
        destruct IH as [k1 [e [I1 [I2 [I3 [I4 I5]]]]]]. exists k1, e. split; auto. split; auto. split; [lia|]. split; [lia|].
        replace (k1 - i)%nat with (S (k1 - S i))%nat by lia. replace (k - i')%nat with (S (k - S i'))%nat by lia. exact I5.
      * destruct S as [e [S1 S2]]. rewrite S1. exists i, e. split; auto. split; auto. split; [lia|]. split; [lia|].
        rewrite !Nat.sub_diag. reflexivity.
Qed.

(* C13, whole patches: applying P with the option on has the outcome of applying, with the option
   off, P with exactly the skipped removes deleted: both succeed with the same document value, or
   both fail, at the same operation, for the same reference cause *)
Theorem allow_equals_stripped o p i st :
  allow_opts o -> sgood st -> Forall op_dom p ->
  let p' := strip (dia o) (sval st) p in
  copies_fit (dia o) (sval st) (map den_op p') = true ->
  match apply_from (set_allow o false) i st p' with
  | AOk st2 => exists st1, apply_from o i st p = AOk st1 /\ sval st1 = sval st2 /\ sgood st1 /\ sgood st2
  | AErr k e2 => exists k1 e1 cz, apply_from o i st p = AErr k1 e1 /\ cause_rel cz e1 /\ cause_rel cz e2 /\
                   (i <= k1)%nat /\ (i <= k)%nat /\ nth_error p (k1 - i) = nth_error p' (k - i)
  | APanic _ => False
  end.
Proof.
  intros AO G D p' F.
  pose proof (allow_strip_ref o AO p i i st G D F) as A. fold p' in A.
  pose proof (apply_sim (set_allow o false) (allow_opts_off o AO) p' i st G (strip_dom _ _ _ D) F) as B.
  change (dia (set_allow o false)) with (dia o) in B.
  destruct (rfc_apply_from (dia o) i (sval st) (map den_op p')) as [doc|k cz].
  - destruct B as [st2 [B1 [B2 B3]]]. rewrite B1. destruct A as [st1 [A1 [A2 A3]]].
    exists st1. split; auto. split; [congruence|]. auto.
  - destruct B as [e2 [B1 B2]]. rewrite B1. destruct A as [k1 [e1 [A1 [A2 [A3 [A4 A5]]]]]].
    exists k1, e1, cz. auto 10.
Qed.

(* in particular the failed-test sentinel is reported by one run exactly when by the other *)
Corollary allow_equals_stripped_test o p i st k e2 :
  allow_opts o -> sgood st -> Forall op_dom p ->
  copies_fit (dia o) (sval st) (map den_op (strip (dia o) (sval st) p)) = true ->
  apply_from (set_allow o false) i st (strip (dia o) (sval st) p) = AErr k e2 ->
  exists k1 e1, apply_from o i st p = AErr k1 e1 /\ (e1 = ETestFailed <-> e2 = ETestFailed).
Proof.
  intros AO G D F H. pose proof (allow_equals_stripped o p i st AO G D) as T. cbv zeta in T. specialize (T F). rewrite H in T.
  destruct T as [k1 [e1 [cz [T1 [T2 [T3 _]]]]]]. exists k1, e1. split; auto.
  rewrite (cause_rel_test_iff cz e1 T2), (cause_rel_test_iff cz e2 T3). reflexivity.
Qed.

(* the two observations that go with the value-level statement: (1) the walk of a skipped remove
   parses the containers it passes, so a member name spelled with an escape is re-spelled in the
   output (same value, other bytes); (2) with a copy-size limit the re-spelling changes the size a
   later copy is counted with, so the limit error is NOT invariant under stripping (limit settings
   are outside the configurations C13 names; allow_equals_stripped assumes the limit is off) *)
Example skip_respells_bytes :
  match api_decode (B "[{""op"":""remove"",""path"":""/a/zz""}]") with
  | Some p =>
      api_apply (mkOpts false 0 true false false [] None) [] p (B "{""a"":{""x\/y"":1}}") = ROut (B "{""a"":{""x/y"":1}}") /\
      api_apply (mkOpts false 0 false false false [] None) [] [] (B "{""a"":{""x\/y"":1}}") = ROut (B "{""a"":{""x\/y"":1}}")
  | None => False
  end.
Proof. vm_compute. split; reflexivity. Qed.

Example skip_changes_copy_size :
  match api_decode (B "[{""op"":""remove"",""path"":""/a/zz""},{""op"":""copy"",""from"":""/a"",""path"":""/b""}]"),
        api_decode (B "[{""op"":""copy"",""from"":""/a"",""path"":""/b""}]") with
  | Some p, Some p' =>
      api_apply (mkOpts false 9 true false false [] None) [] p (B "{""a"":{""x\/y"":1}}")
        = ROut (B "{""a"":{""x/y"":1},""b"":{""x/y"":1}}") /\
      api_apply (mkOpts false 9 false false false [] None) [] p' (B "{""a"":{""x\/y"":1}}")
        = RErr (Some 0%nat) (ECopyLimit 9 10)
  | _, _ => False
  end.
Proof. vm_compute. split; reflexivity. Qed.

(* ================================================================================================ *)
(* C14 — EnsurePathExistsOnAdd                                                                       *)
(* ================================================================================================ *)

(* ---- strconv.Atoi and strconv.Itoa ---- *)
Lemma digits_val_all : forall s acc v, digits_val acc s = Some v -> Forall (fun c => is_digit c = true) s.
Proof.
  induction s as [|c s IH]; intros acc v H; [constructor|]. simpl in H.
  destruct (is_digit c) eqn:E; [|discriminate]. constructor; eauto.
Qed.

Lemma atoi_nondigit c r : is_digit c = false -> c <> x2d -> c <> x2b -> atoi (c :: r) = None.
Proof. intros H1 H2 H3. destruct c; try congruence; try discriminate; reflexivity. Qed.

(* sign or digit *)
Definition sd (c : byte) : bool := is_digit c || Byte.eqb c x2d || Byte.eqb c x2b.

Lemma atoi_shape s z : atoi s = Some z -> Forall (fun c => sd c = true) s.
Proof.
  destruct s as [|c r]; [discriminate|]. intro H.
  assert (T : forall l, Forall (fun c => is_digit c = true) l -> Forall (fun c => sd c = true) l).
  { intros l F. eapply Forall_impl; [|exact F]. intros a Ha. unfold sd. now rewrite Ha. }
  destruct (is_digit c) eqn:Dg.
  - rewrite atoi_unsigned in H by exact Dg. destruct (digits_val 0 (c :: r)) eqn:E; [|discriminate].
    apply T. eapply digits_val_all; eauto.
  - destruct (Byte.eqb c x2d) eqn:E1.
    + apply Byte.byte_dec_bl in E1. subst c. constructor; [reflexivity|]. apply T.
      unfold atoi in H. destruct r as [|c r]; [discriminate|].
      destruct (digits_val 0 (c :: r)) eqn:E; [|discriminate]. eapply digits_val_all; eauto.
    + destruct (Byte.eqb c x2b) eqn:E2.
      * apply Byte.byte_dec_bl in E2. subst c. constructor; [reflexivity|]. apply T.
        unfold atoi in H. destruct r as [|c r]; [discriminate|].
        destruct (digits_val 0 (c :: r)) eqn:E; [|discriminate]. eapply digits_val_all; eauto.
      * rewrite atoi_nondigit in H; [discriminate | exact Dg | |]; intro; subst c; discriminate.
Qed.

(* a token made of signs and digits holds no escape *)
Lemma decode_sd : forall p, Forall (fun c => sd c = true) p -> decode_token p = p.
Proof.
  induction p as [|c r IH]; [reflexivity|]. intro H. inversion H as [|? ? Hd Tl]; subst.
  destruct c; try discriminate Hd; simpl; f_equal; apply IH; exact Tl.
Qed.

Lemma decoded_sd : forall p, Forall (fun c => sd c = true) (decode_token p) -> decode_token p = p.
Proof.
  induction p as [|c r IH]; [reflexivity|].
  destruct c; try (simpl; intro H; inversion H as [|? ? Hd Tl]; subst; f_equal; apply IH; exact Tl).
  (* the escape character: whatever follows, the decoded token starts with '~' or '/' *)
  intro H. exfalso. destruct r as [|c2 r2].
  - simpl in H. inversion H as [|? ? Hd Tl]. discriminate Hd.
  - destruct c2; simpl in H; inversion H as [|? ? Hd Tl]; discriminate Hd.
Qed.

Lemma atoi_decode p : atoi (decode_token p) = atoi p.
Proof.
  destruct (atoi p) as [z|] eqn:A.
  - rewrite (decode_sd p (atoi_shape p z A)). exact A.
  - destruct (atoi (decode_token p)) as [z|] eqn:E; [|reflexivity].
    rewrite (decoded_sd p (atoi_shape _ z E)) in E. congruence.
Qed.

Lemma dash_decode p : bseq (decode_token p) [x2d] = bseq p [x2d].
Proof.
  destruct (bseq p [x2d]) eqn:A.
  - apply bseq_eq in A. subst p. reflexivity.
  - destruct (bseq (decode_token p) [x2d]) eqn:E; [|reflexivity]. apply bseq_eq in E.
    assert (F : Forall (fun c => sd c = true) (decode_token p)) by (rewrite E; repeat constructor).
    rewrite (decoded_sd p F) in E. subst p. discriminate.
Qed.

Lemma digit_byte m : (m < 10)%N ->
  is_digit (nb (48 + m)) = true /\ Z.of_N (bn (nb (48 + m)) - 48) = Z.of_N m.
Proof.
  intro H.
  assert (C : (m = 0 \/ m = 1 \/ m = 2 \/ m = 3 \/ m = 4 \/ m = 5 \/ m = 6 \/ m = 7 \/ m = 8 \/ m = 9)%N) by lia.
  repeat (destruct C as [->|C]; [split; reflexivity|]). subst m. split; reflexivity.
Qed.

Lemma itoa_go_S f n acc :
  itoa_go (S f) n acc =
  if (n <? 10)%N then nb (48 + n mod 10) :: acc else itoa_go f (n / 10) (nb (48 + n mod 10) :: acc).
Proof. reflexivity. Qed.

Lemma itoa_go_spec : forall f n acc, (n < 10 ^ N.of_nat (S f))%N ->
  exists c ds, itoa_go (S f) n acc = (c :: ds) ++ acc /\ is_digit c = true /\
    forall rest, digits_val 0 ((c :: ds) ++ rest) = digits_val (Z.of_N n) rest.
Proof.
  induction f as [|f IH]; intros n acc Hn.
  - change (10 ^ N.of_nat 1)%N with 10%N in Hn. rewrite itoa_go_S.
    replace (n <? 10)%N with true by (symmetry; apply N.ltb_lt; exact Hn).
    assert (M : (n mod 10 = n)%N) by (apply N.mod_small; exact Hn). rewrite M.
    destruct (digit_byte n Hn) as [D1 D2].
    exists (nb (48 + n)), []. split; [reflexivity|]. split; [exact D1|].
    intro rest. cbn [app digits_val]. rewrite D1, D2. reflexivity.
  - rewrite itoa_go_S. destruct (n <? 10)%N eqn:L.
    + apply N.ltb_lt in L.
      assert (M : (n mod 10 = n)%N) by (apply N.mod_small; exact L). rewrite M.
      destruct (digit_byte n L) as [D1 D2].
      exists (nb (48 + n)), []. split; [reflexivity|]. split; [exact D1|].
      intro rest. cbn [app digits_val]. rewrite D1, D2. reflexivity.
    + assert (Hq : (n / 10 < 10 ^ N.of_nat (S f))%N).
      { apply N.div_lt_upper_bound; [discriminate|].
        replace (N.of_nat (S (S f))) with (N.succ (N.of_nat (S f))) in Hn by lia.
        rewrite N.pow_succ_r' in Hn. exact Hn. }
      destruct (IH (n / 10)%N (nb (48 + n mod 10) :: acc) Hq) as [c [ds [E1 [E2 E3]]]].
      assert (Lm : (n mod 10 < 10)%N) by (apply N.mod_lt; discriminate).
      destruct (digit_byte (n mod 10) Lm) as [D1 D2].
      exists c, (ds ++ [nb (48 + n mod 10)]). split; [|split; [exact E2|]].
      * rewrite E1. simpl. rewrite <- app_assoc. reflexivity.
      * intro rest.
        replace ((c :: ds ++ [nb (48 + n mod 10)]) ++ rest) with ((c :: ds) ++ nb (48 + n mod 10) :: rest)
          by (simpl; rewrite <- app_assoc; reflexivity).
        rewrite E3. cbn [digits_val]. rewrite D1, D2. f_equal.
        pose proof (N.div_mod n 10). lia.
Qed.

Lemma itoa_shape n : (Z.of_nat n <= int64_max)%Z ->
  exists c ds, itoa (N.of_nat n) = c :: ds /\ is_digit c = true /\ atoi (c :: ds) = Some (Z.of_nat n).
Proof.
  intro H. unfold itoa.
  assert (P : (10 ^ N.of_nat 30 = 1000000000000000000000000000000)%N) by reflexivity.
  destruct (itoa_go_spec 29 (N.of_nat n) []) as [c [ds [E1 [E2 E3]]]].
  { rewrite P. unfold int64_max in H. lia. }
  rewrite app_nil_r in E1. exists c, ds. split; [exact E1|]. split; [exact E2|].
  rewrite atoi_unsigned by exact E2. specialize (E3 []). rewrite app_nil_r in E3. rewrite E3. cbn [digits_val].
  unfold in_int64.
  replace (int64_min <=? Z.of_N (N.of_nat n))%Z with true by (symmetry; apply Z.leb_le; unfold int64_min; lia).
  replace (Z.of_N (N.of_nat n) <=? int64_max)%Z with true by (symmetry; apply Z.leb_le; lia).
  cbn [andb]. f_equal. lia.
Qed.

(* ---- padding an array with nulls ---- *)
Lemma digit_not_dash c : is_digit c = true -> Byte.eqb c x2d = false.
Proof. destruct c; try discriminate; reflexivity. Qed.

Lemma ary_add_append o ns v : (Z.of_nat (length ns) <= int64_max)%Z ->
  ary_add o ns (itoa (N.of_nat (length ns))) v = Ok (ns ++ [v]).
Proof.
  intro H. destruct (itoa_shape (length ns) H) as [c [ds [E1 [E2 E3]]]]. rewrite E1.
  unfold ary_add. cbn [bseq]. rewrite (digit_not_dash c E2). cbn [andb]. rewrite E3.
  unfold ImplV5.zlen.
  replace (Z.of_nat (length ns) + 1 <=? Z.of_nat (length ns))%Z with false by (symmetry; apply Z.leb_gt; lia).
  replace (Z.of_nat (length ns) <? 0)%Z with false by (symmetry; apply Z.ltb_ge; lia).
  rewrite Nat2Z.id, firstn_all, skipn_all. reflexivity.
Qed.

Lemma pad_nulls_ary o s : forall count ns, (Z.of_nat (length ns + count) <= int64_max)%Z ->
  pad_nulls o (KAry s ns) (length ns) count = KAry s (ns ++ repeat (NRaw TNull) count).
Proof.
  induction count as [|k IH]; intros ns H; cbn [pad_nulls repeat].
  - now rewrite app_nil_r.
  - cbn [con_add]. rewrite ary_add_append by lia.
    replace (S (length ns)) with (length (ns ++ [NRaw TNull])) by (rewrite app_length; simpl; lia).
    rewrite IH by (rewrite app_length; simpl; lia). rewrite <- app_assoc. reflexivity.
Qed.

Lemma map_repeat' {A B} (f : A -> B) x n : map f (repeat x n) = repeat (f x) n.
Proof. induction n; simpl; congruence. Qed.

Lemma Forall_repeat {A} (P : A -> Prop) x n : P x -> Forall P (repeat x n).
Proof. intro H. induction n; simpl; constructor; auto. Qed.

Lemma ngood_rawnull : ngood (NRaw TNull).
Proof. repeat split. Qed.

(* ---- the reference: what ensurePathExists builds, on values ---- *)
(* the path domain of C14, per decoded token: a member name or a canonical non-negative index
   that fits 64 bits (the token "-" counts as a name here; where it may stand is said below) *)
Definition ctok (t : bytes) : Prop := tok_dom t /\ canonical_neg t = None.

(* the container created for a missing parent: an array when the NEXT token is an index or "-"
   (padded with nulls up to that index), an object otherwise *)
Definition fresh_for (next : bytes) : ojson :=
  if bseq next [x2d] then OArr []
  else match canonical_nat next with
       | Some k => OArr (repeat ONull (Z.to_nat k))
       | None => OObj []
       end.

(* an existing array is padded with nulls up to the index at which the missing parent goes *)
Definition pad_to (j : ojson) (t : bytes) : ojson :=
  match j, canonical_nat t with
  | OArr l, Some n => OArr (l ++ repeat ONull (Z.to_nat n - length l))
  | _, _ => j
  end.

(* creation of the missing parents of the location toks (its last token is left to the add) *)
Fixpoint ens (d : dialect) (toks : list bytes) (j : ojson) {struct toks} : option ojson :=
  match toks with
  | [] => Some j
  | [_] => Some j
  | t :: ((next :: _) as rest) =>
      match child_at d j t with
      | Some c => if is_container c then option_map (put_child d j t) (ens d rest c) else None
      | None =>
          match ens d rest (fresh_for next) with
          | Some c' => match add_leaf d c' (pad_to j t) t with ROk j' => Some j' | RFail _ => None end
          | None => None
          end
      end
  end.

Lemma ens_unfold d t next rest0 j :
  ens d (t :: next :: rest0) j =
  match child_at d j t with
  | Some c => if is_container c then option_map (put_child d j t) (ens d (next :: rest0) c) else None
  | None =>
      match ens d (next :: rest0) (fresh_for next) with
      | Some c' => match add_leaf d c' (pad_to j t) t with ROk j' => Some j' | RFail _ => None end
      | None => None
      end
  end.
Proof. reflexivity. Qed.

(* ---- the model's pieces ---- *)
Definition pad_model (o : opts) (part : bytes) (c : con) : con :=
  match atoi part, c with
  | Some idx, KAry _ ns =>
      if (ImplV5.zlen ns + 1 <=? idx)%Z then pad_nulls o c (length ns) (Z.to_nat (idx - ImplV5.zlen ns)) else c
  | _, _ => c
  end.

Definition fresh_then {X} (o : opts) (nextp : bytes) (K : con -> X) (Bad : X) : X :=
  match atoi nextp, bseq nextp [x2d] with
  | None, false => K (KDoc NNil [] [])
  | _, _ =>
      let ai := match atoi nextp with Some i => i | None => 0%Z end in
      if (ai <? 0)%Z && negb (o_neg o) then Bad
      else if (ai <? -1)%Z then Bad
      else let ai := if (ai <? 0)%Z then 0%Z else ai in K (pad_nulls o (KAry NNil []) 0 (Z.to_nat ai))
  end.

Lemma ensure_unfold_missing o part nextp rest0 c e :
  con_get o c (decode_token part) = Err e ->
  ensure o (part :: nextp :: rest0) c =
  let c1 := pad_model o part c in
  fresh_then o nextp
    (fun ch => let (e, ch') := ensure o (nextp :: rest0) ch in
               (e, ignore_err c1 (con_add o c1 (decode_token part) (node_of_con ch'))))
    (Some EInvalidIndex, c1).
Proof. intro H. rewrite ensure_unfold. cbv zeta. rewrite H. reflexivity. Qed.

Lemma ensure_unfold_existing o part nextp rest0 c n ch :
  con_get o c (decode_token part) = Ok n -> is_container (aval n) = true -> into_con n = Some ch ->
  ensure o (part :: nextp :: rest0) c =
  let (e, ch') := ensure o (nextp :: rest0) ch in (e, con_put o c (decode_token part) (node_of_con ch')).
Proof.
  intros Hg Cj Hic. rewrite ensure_unfold. cbv zeta. rewrite Hg.
  destruct n as [|t|ks ob|ns]; cbn [aval] in Cj.
  - discriminate.
  - destruct t; try discriminate; rewrite Hic; [reflexivity|].
    destruct ch; try reflexivity; cbn [into_con] in Hic; destruct (doc_of ms); discriminate.
  - rewrite Hic. destruct ch; try reflexivity; cbn [into_con] in Hic; discriminate.
  - rewrite Hic. reflexivity.
Qed.

Lemma ctok_cases t : ctok t ->
  (exists n, canonical_nat t = Some n /\ (0 <= n <= int64_max)%Z /\ atoi t = Some n /\ bseq t [x2d] = false) \/
  (atoi t = None /\ canonical_nat t = None).
Proof.
  intros [D Ng]. destruct (tok_dom_cases t D) as [[[n Hn]|[k Hk]]|[A [C1 C2]]].
  - left. exists n. pose proof (proj1 (proj1 (proj2 D)) n Hn) as Sm.
    pose proof (canonical_nat_digits _ _ Hn) as [_ [N0 _]].
    split; auto. split; [lia|]. split; [apply atoi_canonical_nat; auto | eapply canonical_not_dash; eauto].
  - congruence.
  - right. auto.
Qed.

Lemma pad_model_sim o part c : cgood c -> ctok (decode_token part) ->
  cval (pad_model o part c) = pad_to (cval c) (decode_token part) /\ cgood (pad_model o part c).
Proof.
  intros G D. unfold pad_model. rewrite <- atoi_decode. set (key := decode_token part) in *.
  destruct (ctok_cases key D) as [[n [Hn [Rn [An _]]]]|[An Cn]]; rewrite An.
  2: { split; [|exact G]. unfold pad_to. rewrite Cn. destruct (cval c); reflexivity. }
  destruct c as [s ks ob|s st|s ns]; [| exfalso; exact (proj2 G) |].
  - split; [|exact G]. unfold cval. cbn [node_of_con]. rewrite aval_doc. reflexivity.
  - pose proof (proj1 G) as Gn. cbn [node_of_con] in Gn. apply ngood_ary in Gn.
    unfold cval. cbn [node_of_con aval pad_to]. rewrite Hn, map_length. unfold ImplV5.zlen.
    destruct (Z.of_nat (length ns) + 1 <=? n)%Z eqn:E.
    + apply Z.leb_le in E. rewrite pad_nulls_ary by lia. cbn [node_of_con aval].
      rewrite map_app, map_repeat'. cbn [aval den].
      replace (Z.to_nat n - length ns)%nat with (Z.to_nat (n - Z.of_nat (length ns))) by lia.
      split; [reflexivity|]. split; [|exact I]. cbn [node_of_con]. apply ngood_ary. apply Forall_app. split; auto.
      apply Forall_repeat. exact ngood_rawnull.
    + apply Z.leb_gt in E. replace (Z.to_nat n - length ns)%nat with 0%nat by lia. cbn [repeat].
      rewrite app_nil_r. split; [reflexivity | exact G].
Qed.

Lemma fresh_then_sim {X} o nextp (K : con -> X) (Bad : X) : ctok (decode_token nextp) ->
  exists ch, cgood ch /\ cval ch = fresh_for (decode_token nextp) /\ fresh_then o nextp K Bad = K ch.
Proof.
  intro D. unfold fresh_then, fresh_for. rewrite <- (atoi_decode nextp), <- (dash_decode nextp).
  set (nkey := decode_token nextp) in *.
  destruct (ctok_cases nkey D) as [[n [Hn [Rn [An Bn]]]]|[An Cn]]; rewrite An.
  - rewrite Bn, Hn. cbv zeta.
    replace (n <? 0)%Z with false by (symmetry; apply Z.ltb_ge; lia).
    replace (n <? -1)%Z with false by (symmetry; apply Z.ltb_ge; lia). cbn [andb].
    pose proof (pad_nulls_ary o NNil (Z.to_nat n) []) as P. cbn [length app] in P. rewrite P by (simpl; lia).
    eexists. split; [|split; [|reflexivity]].
    + split; [|exact I]. cbn [node_of_con]. apply ngood_ary. apply Forall_repeat. exact ngood_rawnull.
    + unfold cval. cbn [node_of_con aval]. rewrite map_repeat'. reflexivity.
  - rewrite Cn. destruct (bseq nkey [x2d]).
    + cbv zeta. cbn. exists (KAry NNil []). split; [|split; reflexivity].
      split; [|exact I]. cbn [node_of_con]. apply ngood_ary. constructor.
    + exists (KDoc NNil [] []). split; [|split; reflexivity].
      split; [|exact I]. cbn [node_of_con]. apply ngood_doc. split; [|split; constructor].
      split; [constructor|]. split; [constructor|]. intro k. reflexivity.
Qed.

(* ---- ensurePathExists builds exactly ens ---- *)
Theorem ensure_sim o : forall parts c j1,
  cgood c -> Forall ctok (map decode_token parts) ->
  ens (dia o) (map decode_token parts) (cval c) = Some j1 ->
  exists c1, ensure o parts c = (None, c1) /\ cval c1 = j1 /\ cgood c1.
Proof.
  induction parts as [|part parts IH]; intros c j1 G D H.
  - cbn in H. inversion H; subst. exists c. auto.
  - destruct parts as [|nextp rest].
    + cbn in H. inversion H; subst. exists c. auto.
    + inversion D as [|? ? Dk Dr]; subst. pose proof Dr as Dr'. inversion Dr' as [|? ? Dn _]; subst.
      cbn [map] in H. rewrite ens_unfold in H.
      change (decode_token nextp :: map decode_token rest) with (map decode_token (nextp :: rest)) in H.
      pose proof (con_get_sim o c (decode_token part) G (proj1 Dk)) as CG.
      destruct (child_at (dia o) (cval c) (decode_token part)) as [j|] eqn:Ech.
      * (* the parent exists: walk into it *)
        destruct (is_container j) eqn:Cj; [|discriminate].
        destruct (ens (dia o) (map decode_token (nextp :: rest)) j) as [x|] eqn:Ex; [|discriminate].
        cbn [option_map] in H. inversion H; subst j1. clear H.
        destruct CG as [n [Hg [Ev Gn]]].
        pose proof (into_con_sim n Gn) as IC. rewrite Ev, Cj in IC. destruct IC as [ch [Hic [Evc Gch]]].
        rewrite <- Evc in Ex. destruct (IH ch x Gch Dr Ex) as [ch' [E1 [E2 E3]]].
        rewrite (ensure_unfold_existing o part nextp rest c n ch Hg) by (rewrite ?Ev; auto).
        rewrite E1. eexists. split; [reflexivity|].
        destruct (con_put_sim o c (decode_token part) (node_of_con ch') n G (proj1 Dk) Hg (proj1 E3)) as [Q1 Q2].
        split; [|exact Q2]. rewrite Q1. fold (cval ch'). now rewrite E2.
      * (* the parent is missing: pad, create, recurse into the new container, add it *)
        destruct CG as [e [Hg _]]. rewrite (ensure_unfold_missing o part nextp rest c e Hg). cbv zeta.
        destruct (pad_model_sim o part c G Dk) as [P1 P2].
        match goal with |- context [fresh_then o nextp ?K ?Bad] =>
          destruct (fresh_then_sim o nextp K Bad Dn) as [ch [F1 [F2 F3]]]; rewrite F3 end.
        rewrite <- F2 in H.
        destruct (ens (dia o) (map decode_token (nextp :: rest)) (cval ch)) as [x|] eqn:Ex; [|discriminate].
        destruct (IH ch x F1 Dr Ex) as [ch' [E1 [E2 E3]]]. rewrite E1.
        pose proof (con_add_sim o (pad_model o part c) (decode_token part) (node_of_con ch') P2 (proj1 Dk) (proj1 E3)) as CA.
        fold (cval ch') in CA. rewrite E2, P1 in CA.
        destruct (add_leaf (dia o) x (pad_to (cval c) (decode_token part)) (decode_token part)) as [j'|cz]; [|discriminate].
        inversion H; subst j1. destruct CA as [cp' [C1 [C2 C3]]]. rewrite C1. cbn [ignore_err].
        exists cp'. auto.
Qed.

Lemma ptoks_eq r : ptoks r = map decode_token (split_slash r).
Proof. unfold ptoks, path_parts, path_key. symmetry. apply tokens_split. apply split_slash_nonempty. Qed.

Lemma ensure_path_slash o c r : ensure_path o c (x2f :: r) = ensure o (split_slash r) c.
Proof.
  unfold ensure_path. change (split_slash (x2f :: r)) with ([] :: split_slash r).
  destruct (split_slash r) eqn:E; [exfalso; eapply split_slash_nonempty; eauto | reflexivity].
Qed.

Lemma ctok_dom l : Forall ctok l -> Forall tok_dom l.
Proof. intro H. eapply Forall_impl; [|exact H]. intros a [Ha _]. exact Ha. Qed.

(* ---- one add with EnsurePathExistsOnAdd: the reference's add on the document ens built ---- *)
Theorem ensure_add_sim o st op r c j1 :
  s_root st = RCon c -> cgood c -> o_ensure o = true ->
  op_str op (B "path") = Ok (x2f :: r) -> Forall ctok (map decode_token (split_slash r)) -> val_good op ->
  ens (dia o) (ptoks r) (cval c) = Some j1 ->
  match at_parent (dia o) (ptoks r) j1 (add_leaf (dia o) (ref_value op)) with
  | ROk j' => exists st', op_add o st op = Ok st' /\ sval st' = j' /\ sgood st' /\ s_acc st' = s_acc st
  | RFail cz => exists e, op_add o st op = Err e /\ cause_rel cz e
  end.
Proof.
  intros Hr G En Hp D Vg H. rewrite ptoks_eq in H.
  destruct (ensure_sim o (split_slash r) c j1 G D H) as [c1 [E1 [E2 E3]]].
  pose proof (opv_good op Vg) as Gv.
  pose proof (add_find_sim o c1 r (opv op) E3 (ctok_dom _ D) Gv) as AF. rewrite opv_aval, E2 in AF.
  unfold op_add. rewrite Hp, Hr, En, ensure_path_slash, E1. fold (opv op).
  change (find o c1 (x2f :: r) _) with (find o c1 (x2f :: r) (add_fn o (opv op))).
  destruct (at_parent (dia o) (ptoks r) j1 (add_leaf (dia o) (ref_value op))) as [j'|cz].
  - destruct AF as [a [c2 [A1 [A2 A3]]]]. rewrite A1. eexists. split; [reflexivity|].
    unfold sval, sgood. cbn [s_root s_acc]. split; auto. split; eauto.
  - destruct AF as [e [c2 [[A1|[A1 ->]] A2]]]; rewrite A1; eauto.
Qed.

(* ================================================================================================ *)
(* what is built, in closed form (reference level)                                                   *)
(* ================================================================================================ *)

(* the container j with x attached at the missing token t: an object gets a new last member; an
   array is padded with nulls up to the index and x appended ("-": appended) *)
Definition grow (j : ojson) (t : bytes) (x : ojson) : ojson :=
  match j with
  | OObj ms => OObj (aset t x ms)
  | OArr l =>
      if bseq t [x2d] then OArr (l ++ [x]) else
      match canonical_nat t with
      | Some n => OArr (l ++ repeat ONull (Z.to_nat n - length l) ++ [x])
      | None => j
      end
  | _ => j
  end.

(* the value built for the missing part toks of a path, holding v at its end: nothing but the path
   and the padding *)
Fixpoint chain (toks : list bytes) (v : ojson) : ojson :=
  match toks with
  | [] => v
  | t :: rest => grow (fresh_for t) t (chain rest v)
  end.

(* t is missing in the container j and can be created there *)
Definition growable (d : dialect) (j : ojson) (t : bytes) : Prop :=
  child_at d j t = None /\
  match j with
  | OObj _ => True
  | OArr _ => t = [x2d] \/ exists n, canonical_nat t = Some n
  | _ => False
  end.

Lemma growable_container d j t : growable d j t -> is_container j = true.
Proof. intros [_ H]. destruct j; try contradiction; reflexivity. Qed.

Lemma insert_at_end {A} (l : list A) x i : i = length l -> insert_at i x l = l ++ [x].
Proof. intros ->. unfold insert_at. now rewrite firstn_all, skipn_all. Qed.

Lemma set_at_end {A} (l : list A) x y i : i = length l -> set_at i y (l ++ [x]) = l ++ [y].
Proof.
  intros ->. unfold set_at. rewrite firstn_app, firstn_all, Nat.sub_diag. cbn [firstn]. rewrite app_nil_r.
  rewrite skipn_all2 by (rewrite app_length; simpl; lia). reflexivity.
Qed.

Lemma aset_aset {A} k (x y : A) m : aset k y (aset k x m) = aset k y m.
Proof.
  induction m as [|[k' v'] m IH]; simpl.
  - now rewrite bseq_refl.
  - destruct (bseq k k') eqn:E; simpl; rewrite E; [reflexivity | now rewrite IH].
Qed.

(* the shape of a grown array *)
Lemma grow_arr d l t n : canonical_nat t = Some n -> idx_existing d (Rfc6902.zlen l) t = None ->
  exists l', (forall x, grow (OArr l) t x = OArr (l' ++ [x])) /\
             pad_to (OArr l) t = OArr l' /\ length l' = Z.to_nat n /\ (0 <= n)%Z.
Proof.
  intros Hn Hi. pose proof (canonical_nat_digits _ _ Hn) as [_ [N0 _]].
  unfold idx_existing in Hi. rewrite Hn in Hi. destruct (n <? Rfc6902.zlen l)%Z eqn:E; [discriminate|].
  apply Z.ltb_ge in E. unfold Rfc6902.zlen in E.
  exists (l ++ repeat ONull (Z.to_nat n - length l)). split; [|split; [|split]]; auto.
  - intro x. cbn [grow]. rewrite (canonical_not_dash _ _ Hn), Hn. now rewrite app_assoc.
  - cbn [pad_to]. now rewrite Hn.
  - rewrite app_length, repeat_length. lia.
Qed.

Lemma idx_existing_end d (l' : list ojson) x t n :
  canonical_nat t = Some n -> length l' = Z.to_nat n -> (0 <= n)%Z ->
  idx_existing d (Rfc6902.zlen (l' ++ [x])) t = Some (length l').
Proof.
  intros Hn L N0. unfold idx_existing, Rfc6902.zlen. rewrite Hn, app_length. cbn [length].
  replace (n <? Z.of_nat (length l' + 1))%Z with true by (symmetry; apply Z.ltb_lt; lia). now rewrite L.
Qed.

Lemma attach_grow d j t x : growable d j t -> add_leaf d x (pad_to j t) t = ROk (grow j t x).
Proof.
  intros [Hc Sh]. destruct j as [| | | |l|ms]; try contradiction.
  - destruct Sh as [->|[n Hn]].
    + change (pad_to (OArr l) [x2d]) with (OArr l). change (grow (OArr l) [x2d] x) with (OArr (l ++ [x])).
      cbn [add_leaf]. change (idx_insert d (Rfc6902.zlen l) [x2d]) with (Some (Z.to_nat (Rfc6902.zlen l))). cbv iota.
      unfold Rfc6902.zlen. rewrite Nat2Z.id. now rewrite insert_at_end.
    + cbn [child_at] in Hc. destruct (idx_existing d (Rfc6902.zlen l) t) eqn:Ei; [discriminate|].
      destruct (grow_arr d l t n Hn Ei) as [l' [G1 [G2 [G3 G4]]]]. rewrite G1, G2. cbn [add_leaf].
      unfold idx_insert. rewrite (canonical_not_dash _ _ Hn), Hn. unfold Rfc6902.zlen.
      replace (n <=? Z.of_nat (length l'))%Z with true by (symmetry; apply Z.leb_le; lia).
      now rewrite insert_at_end.
  - reflexivity.
Qed.

Lemma grow_child d j t x : growable d j t -> t <> [x2d] -> child_at d (grow j t x) t = Some x.
Proof.
  intros [Hc Sh] ND. destruct j as [| | | |l|ms]; try contradiction.
  - destruct Sh as [->|[n Hn]]; [congruence|].
    cbn [child_at] in Hc. destruct (idx_existing d (Rfc6902.zlen l) t) eqn:Ei; [discriminate|].
    destruct (grow_arr d l t n Hn Ei) as [l' [G1 [G2 [G3 G4]]]]. rewrite G1. cbn [child_at].
    rewrite (idx_existing_end d l' x t n Hn G3 G4). now rewrite nth_middle.
  - cbn. now rewrite aget_aset_same.
Qed.

Lemma grow_put d j t x y : growable d j t -> t <> [x2d] -> put_child d (grow j t x) t y = grow j t y.
Proof.
  intros [Hc Sh] ND. destruct j as [| | | |l|ms]; try contradiction.
  - destruct Sh as [->|[n Hn]]; [congruence|].
    cbn [child_at] in Hc. destruct (idx_existing d (Rfc6902.zlen l) t) eqn:Ei; [discriminate|].
    destruct (grow_arr d l t n Hn Ei) as [l' [G1 [G2 [G3 G4]]]]. rewrite !G1. cbn [put_child].
    rewrite (idx_existing_end d l' x t n Hn G3 G4). now rewrite set_at_end.
  - cbn. now rewrite aset_aset.
Qed.

Lemma fresh_growable d t : growable d (fresh_for t) t.
Proof.
  unfold fresh_for. destruct (bseq t [x2d]) eqn:B.
  - apply bseq_eq in B. subst t. split; [reflexivity | now left].
  - destruct (canonical_nat t) as [n|] eqn:Hn.
    + pose proof (canonical_nat_digits _ _ Hn) as [_ [N0 _]]. split; [|right; eauto].
      cbn [child_at]. unfold idx_existing, Rfc6902.zlen. rewrite Hn, repeat_length.
      replace (n <? Z.of_nat (Z.to_nat n))%Z with false by (symmetry; apply Z.ltb_ge; lia). reflexivity.
    + split; [reflexivity | exact I].
Qed.

Lemma pad_to_fresh t : pad_to (fresh_for t) t = fresh_for t.
Proof.
  unfold fresh_for. destruct (bseq t [x2d]) eqn:B.
  - apply bseq_eq in B. subst t. reflexivity.
  - destruct (canonical_nat t) as [n|] eqn:Hn; [|reflexivity].
    cbn [pad_to]. rewrite Hn, repeat_length, Nat.sub_diag. cbn [repeat]. now rewrite app_nil_r.
Qed.

Lemma at_parent_cons d t next rest0 j f :
  at_parent d (t :: next :: rest0) j f =
  match child_at d j t with
  | Some c => bind (at_parent d (next :: rest0) c f) (fun c' => ROk (put_child d j t c'))
  | None => RFail FUnreachable
  end.
Proof.
  destruct j; try reflexivity.
  cbn [at_parent child_at put_child]. destruct (idx_existing d (Rfc6902.zlen l) t); reflexivity.
Qed.

Definition nodash (t : bytes) : Prop := t <> [x2d].

(* one missing level, given what the levels below build *)
Lemma step_create d v t rest j c' x :
  rest <> [] -> nodash t -> growable d j t ->
  ens d rest (fresh_for (hd [] rest)) = Some c' -> at_parent d rest c' (add_leaf d v) = ROk x ->
  ens d (t :: rest) j = Some (grow j t c') /\
  at_parent d (t :: rest) (grow j t c') (add_leaf d v) = ROk (grow j t x).
Proof.
  intros NE ND Gr H1 H2. destruct rest as [|next rest0]; [congruence|]. cbn [hd] in H1.
  split.
  - rewrite ens_unfold, (proj1 Gr), H1, (attach_grow d j t c' Gr). reflexivity.
  - rewrite at_parent_cons, (grow_child d j t c' Gr ND), H2. cbn [bind]. now rewrite (grow_put d j t c' x Gr ND).
Qed.

(* a chain of missing levels inside a container created for them *)
Lemma fresh_chain d v : forall rest, rest <> [] -> Forall nodash (removelast rest) ->
  exists c', ens d rest (fresh_for (hd [] rest)) = Some c' /\ at_parent d rest c' (add_leaf d v) = ROk (chain rest v).
Proof.
  induction rest as [|t rest IH]; intros NE ND; [congruence|].
  destruct rest as [|next rest0].
  - exists (fresh_for t). split; [reflexivity|]. cbn [at_parent chain hd].
    rewrite <- (pad_to_fresh t) at 1. apply attach_grow. apply fresh_growable.
  - change (removelast (t :: next :: rest0)) with (t :: removelast (next :: rest0)) in ND.
    inversion ND as [|? ? Nt Nr]; subst.
    destruct (IH ltac:(discriminate) Nr) as [c' [E1 E2]].
    destruct (step_create d v t (next :: rest0) (fresh_for t) c' (chain (next :: rest0) v)
                ltac:(discriminate) Nt (fresh_growable d t) E1 E2) as [S1 S2].
    exists (grow (fresh_for t) t c'). split; [exact S1 | exact S2].
Qed.

(* the first missing parent is here *)
Lemma create_here d v t rest j :
  rest <> [] -> Forall nodash (t :: removelast rest) -> growable d j t ->
  exists c', ens d (t :: rest) j = Some (grow j t c') /\
             at_parent d (t :: rest) (grow j t c') (add_leaf d v) = ROk (grow j t (chain rest v)).
Proof.
  intros NE ND Gr. inversion ND as [|? ? Nt Nr]; subst.
  destruct (fresh_chain d v rest NE Nr) as [c' [E1 E2]]. exists c'.
  apply step_create; auto.
Qed.

(* ---- through the parents that exist ---- *)
Lemma child_at_container d c t x : child_at d c t = Some x -> is_container c = true.
Proof. destruct c; try discriminate; reflexivity. Qed.

Lemma set_at_length {A} i (x : A) l : (i < length l)%nat -> length (set_at i x l) = length l.
Proof.
  intro H. unfold set_at. rewrite app_length, firstn_length. cbn [length]. rewrite skipn_length. lia.
Qed.

Lemma nth_set_at {A} i (x : A) l dflt : (i < length l)%nat -> nth i (set_at i x l) dflt = x.
Proof.
  intro H. unfold set_at.
  assert (L : length (firstn i l) = i) by (rewrite firstn_length; lia).
  remember (firstn i l) as f. remember (skipn (S i) l) as g. rewrite <- L. apply nth_middle.
Qed.

Lemma set_at_set_at {A} i (x y : A) l : (i < length l)%nat -> set_at i y (set_at i x l) = set_at i y l.
Proof.
  intro H. unfold set_at.
  assert (L : length (firstn i l) = i) by (rewrite firstn_length; lia).
  rewrite firstn_app, L, Nat.sub_diag, firstn_firstn, Nat.min_id. cbn [firstn]. rewrite app_nil_r. f_equal. f_equal.
  replace (S i) with (length (firstn i l) + 1)%nat by lia. rewrite skipn_app.
  rewrite skipn_all2 by lia. replace (length (firstn i l) + 1 - length (firstn i l))%nat with 1%nat by lia.
  reflexivity.
Qed.

Lemma child_put_same d j t c x : child_at d j t = Some c -> child_at d (put_child d j t x) t = Some x.
Proof.
  destruct j; try discriminate; cbn [child_at put_child].
  - destruct (idx_existing d (Rfc6902.zlen l) t) as [i|] eqn:E; [|discriminate]. intros _.
    pose proof (idx_existing_lt d l t i E) as L. cbn [child_at].
    unfold Rfc6902.zlen in *. rewrite set_at_length by exact L. rewrite E. now rewrite nth_set_at.
  - intros _. now rewrite aget_aset_same.
Qed.

Lemma put_put d j t c x y : child_at d j t = Some c -> put_child d (put_child d j t x) t y = put_child d j t y.
Proof.
  destruct j; try discriminate; cbn [child_at put_child].
  - destruct (idx_existing d (Rfc6902.zlen l) t) as [i|] eqn:E; [|discriminate]. intros _.
    pose proof (idx_existing_lt d l t i E) as L. cbn [put_child].
    unfold Rfc6902.zlen in *. rewrite set_at_length by exact L. rewrite E. now rewrite set_at_set_at.
  - intros _. now rewrite aset_aset.
Qed.

Lemma descend_rebuild d : forall ps j p x, descend d ps j = Some p -> descend d ps (rebuild d ps j x) = Some x.
Proof.
  induction ps as [|t ps IH]; intros j p x H; cbn [descend rebuild] in *; [reflexivity|].
  destruct (child_at d j t) as [c|] eqn:E; [|discriminate].
  rewrite (child_put_same d j t c _ E). eapply IH; eauto.
Qed.

Lemma rebuild_rebuild d : forall ps j p x y, descend d ps j = Some p ->
  rebuild d ps (rebuild d ps j x) y = rebuild d ps j y.
Proof.
  induction ps as [|t ps IH]; intros j p x y H; cbn [descend rebuild] in *; [reflexivity|].
  destruct (child_at d j t) as [c|] eqn:E; [|discriminate].
  rewrite (child_put_same d j t c _ E), (put_put d j t c _ _ E). f_equal. eapply IH; eauto.
Qed.

Lemma ens_prefix d : forall ps j p t next rest0,
  descend d ps j = Some p -> is_container p = true ->
  ens d (ps ++ t :: next :: rest0) j = option_map (rebuild d ps j) (ens d (t :: next :: rest0) p).
Proof.
  induction ps as [|t0 ps IH]; intros j p t next rest0 H Cp.
  - cbn [descend] in H. inversion H; subst. cbn [app rebuild]. destruct (ens d (t :: next :: rest0) p); reflexivity.
  - cbn [descend] in H. destruct (child_at d j t0) as [c|] eqn:E; [|discriminate].
    assert (Cc : is_container c = true).
    { destruct ps as [|t1 ps']; cbn [descend] in H.
      - inversion H; subst. exact Cp.
      - destruct (child_at d c t1) eqn:E1; [|discriminate]. eapply child_at_container; eauto. }
    change ((t0 :: ps) ++ t :: next :: rest0) with (t0 :: (ps ++ t :: next :: rest0)).
    destruct (ps ++ t :: next :: rest0) as [|n1 r1] eqn:Ea; [destruct ps; discriminate|].
    rewrite ens_unfold, E, Cc, <- Ea, (IH c p t next rest0 H Cp). cbn [rebuild]. rewrite E.
    destruct (ens d (t :: next :: rest0) p); reflexivity.
Qed.

Lemma at_parent_prefix d f : forall ps j toks, toks <> [] ->
  at_parent d (ps ++ toks) j f =
  match descend d ps j with
  | Some p => bind (at_parent d toks p f) (fun p' => ROk (rebuild d ps j p'))
  | None => RFail FUnreachable
  end.
Proof.
  induction ps as [|t0 ps IH]; intros j toks NE.
  - cbn [app descend rebuild]. now rewrite bind_ok.
  - change ((t0 :: ps) ++ toks) with (t0 :: (ps ++ toks)).
    destruct (ps ++ toks) as [|n1 r1] eqn:Ea; [destruct ps; [cbn in Ea; congruence | discriminate]|].
    rewrite at_parent_cons, <- Ea. cbn [descend rebuild].
    destruct (child_at d j t0) as [c|] eqn:E; [|reflexivity].
    rewrite (IH c toks NE). destruct (descend d ps c); [|reflexivity].
    destruct (at_parent d toks o f); reflexivity.
Qed.

(* C14, the creation clauses in closed form: the parents ps exist and lead to the container p, the
   next token t is missing there, rest (not empty) are the tokens after it.  ensurePathExists
   followed by the add yields the document in which p has grown by the chain built for rest *)
Theorem ensure_add_closed d v ps t rest j p :
  descend d ps j = Some p -> growable d p t -> rest <> [] -> Forall nodash (t :: removelast rest) ->
  exists j1, ens d (ps ++ t :: rest) j = Some j1 /\
             at_parent d (ps ++ t :: rest) j1 (add_leaf d v) = ROk (rebuild d ps j (grow p t (chain rest v))).
Proof.
  intros Hd Gr NE ND. destruct (create_here d v t rest p NE ND Gr) as [c' [E1 E2]].
  exists (rebuild d ps j (grow p t c')). split.
  - destruct rest as [|next rest0]; [congruence|].
    rewrite (ens_prefix d ps j p t next rest0 Hd (growable_container d p t Gr)), E1. reflexivity.
  - rewrite at_parent_prefix by discriminate. rewrite (descend_rebuild d ps j p _ Hd), E2. cbn [bind].
    now rewrite (rebuild_rebuild d ps j p _ _ Hd).
Qed.

(* ---- the model: an add with the option on whose parents are missing from some point on ---- *)
Theorem ensure_creates o st op r c ps t rest p :
  s_root st = RCon c -> cgood c -> o_ensure o = true ->
  op_str op (B "path") = Ok (x2f :: r) -> Forall ctok (map decode_token (split_slash r)) -> val_good op ->
  map decode_token (split_slash r) = ps ++ t :: rest ->
  descend (dia o) ps (cval c) = Some p -> growable (dia o) p t -> rest <> [] -> Forall nodash (t :: removelast rest) ->
  exists st', op_add o st op = Ok st' /\
              sval st' = rebuild (dia o) ps (cval c) (grow p t (chain rest (ref_value op))) /\
              sgood st' /\ s_acc st' = s_acc st.
Proof.
  intros Hr G En Hp D Vg Tk Hd Gr NE ND.
  destruct (ensure_add_closed (dia o) (ref_value op) ps t rest (cval c) p Hd Gr NE ND) as [j1 [E1 E2]].
  rewrite <- Tk, <- ptoks_eq in E1, E2.
  pose proof (ensure_add_sim o st op r c j1 Hr G En Hp D Vg E1) as S. rewrite E2 in S. exact S.
Qed.

(* the shapes, spelled out *)
Definition is_name (t : bytes) : Prop := t <> [x2d] /\ canonical_nat t = None.

Lemma grow_obj_missing ms t x : aget t ms = None -> grow (OObj ms) t x = OObj (ms ++ [(t, x)]).
Proof. intro H. cbn [grow]. f_equal. apply aset_notin. now apply aget_None_notin. Qed.

Lemma grow_arr_index l t n x : canonical_nat t = Some n ->
  grow (OArr l) t x = OArr (l ++ repeat ONull (Z.to_nat n - length l) ++ [x]).
Proof. intro H. cbn [grow]. now rewrite (canonical_not_dash _ _ H), H. Qed.

Lemma chain_name t rest v : is_name t -> chain (t :: rest) v = OObj [(t, chain rest v)].
Proof.
  intros [ND Cn]. cbn [chain]. unfold fresh_for.
  replace (bseq t [x2d]) with false by (symmetry; apply bseq_neq; exact ND). rewrite Cn. reflexivity.
Qed.

Lemma chain_index t n rest v : canonical_nat t = Some n ->
  chain (t :: rest) v = OArr (repeat ONull (Z.to_nat n) ++ [chain rest v]).
Proof.
  intro Hn. cbn [chain]. unfold fresh_for. rewrite (canonical_not_dash _ _ Hn), Hn.
  rewrite (grow_arr_index _ t n _ Hn), repeat_length, Nat.sub_diag. reflexivity.
Qed.

Lemma chain_dash rest v : chain ([x2d] :: rest) v = OArr [chain rest v].
Proof. reflexivity. Qed.

(* a chain of member names builds nested one-member objects *)
Fixpoint obj_chain (toks : list bytes) (v : ojson) : ojson :=
  match toks with
  | [] => v
  | t :: rest => OObj [(t, obj_chain rest v)]
  end.

Lemma chain_names toks v : Forall is_name toks -> chain toks v = obj_chain toks v.
Proof.
  induction toks as [|t toks IH]; intro H; [reflexivity|]. inversion H as [|? ? Ht Hr]; subst.
  rewrite (chain_name t toks v Ht). cbn [obj_chain]. now rewrite IH.
Qed.

Lemma is_name_nodash l : Forall is_name l -> Forall nodash l.
Proof. intro H. eapply Forall_impl; [|exact H]. intros a [Ha _]. exact Ha. Qed.

Lemma Forall_removelast {A} (P : A -> Prop) l : Forall P l -> Forall P (removelast l).
Proof.
  induction l as [|x l IH]; intro H; [constructor|]. inversion H; subst.
  destruct l; [constructor|]. cbn [removelast]. constructor; auto.
Qed.

(* (a)+(b): the parents ps exist and end in an object that lacks the member t; t and everything
   after it up to the last token are member names (one or several missing parents): each becomes
   an object holding exactly the next one, the innermost holds the added member *)
Corollary ensure_creates_objects o st op r c ps t rest ms :
  s_root st = RCon c -> cgood c -> o_ensure o = true ->
  op_str op (B "path") = Ok (x2f :: r) -> Forall ctok (map decode_token (split_slash r)) -> val_good op ->
  map decode_token (split_slash r) = ps ++ t :: rest ->
  descend (dia o) ps (cval c) = Some (OObj ms) -> aget t ms = None -> rest <> [] -> Forall is_name (t :: rest) ->
  exists st', op_add o st op = Ok st' /\
              sval st' = rebuild (dia o) ps (cval c) (OObj (ms ++ [(t, obj_chain rest (ref_value op))])) /\
              sgood st' /\ s_acc st' = s_acc st.
Proof.
  intros Hr G En Hp D Vg Tk Hd Ha NE Nm. inversion Nm as [|? ? Nt Nr]; subst.
  rewrite <- (chain_names rest (ref_value op) Nr), <- (grow_obj_missing ms t _ Ha).
  eapply ensure_creates; eauto.
  - split; [exact Ha | exact I].
  - constructor; [exact (proj1 Nt)|]. apply Forall_removelast. apply is_name_nodash. exact Nr.
Qed.

(* (a) the single missing last parent: "/.../t/k" where only t is missing *)
Corollary ensure_creates_last_parent o st op r c ps t k ms :
  s_root st = RCon c -> cgood c -> o_ensure o = true ->
  op_str op (B "path") = Ok (x2f :: r) -> Forall ctok (map decode_token (split_slash r)) -> val_good op ->
  map decode_token (split_slash r) = ps ++ [t; k] ->
  descend (dia o) ps (cval c) = Some (OObj ms) -> aget t ms = None -> is_name t -> is_name k ->
  exists st', op_add o st op = Ok st' /\
              sval st' = rebuild (dia o) ps (cval c) (OObj (ms ++ [(t, OObj [(k, ref_value op)])])) /\
              sgood st' /\ s_acc st' = s_acc st.
Proof.
  intros Hr G En Hp D Vg Tk Hd Ha Nt Nk.
  apply (ensure_creates_objects o st op r c ps t [k] ms); auto; try discriminate; repeat constructor; auto.
Qed.

(* (c) arrays.  The member t is missing in an object and the token after it is the index n: t
   becomes an array of n nulls followed by what the rest of the path builds *)
Corollary ensure_creates_array o st op r c ps t i n rest ms :
  s_root st = RCon c -> cgood c -> o_ensure o = true ->
  op_str op (B "path") = Ok (x2f :: r) -> Forall ctok (map decode_token (split_slash r)) -> val_good op ->
  map decode_token (split_slash r) = ps ++ t :: i :: rest ->
  descend (dia o) ps (cval c) = Some (OObj ms) -> aget t ms = None -> nodash t ->
  canonical_nat i = Some n -> Forall nodash (removelast (i :: rest)) ->
  exists st', op_add o st op = Ok st' /\
              sval st' = rebuild (dia o) ps (cval c)
                           (OObj (ms ++ [(t, OArr (repeat ONull (Z.to_nat n) ++ [chain rest (ref_value op)]))])) /\
              sgood st' /\ s_acc st' = s_acc st.
Proof.
  intros Hr G En Hp D Vg Tk Hd Ha Nt Hn ND.
  rewrite <- (chain_index i n rest (ref_value op) Hn), <- (grow_obj_missing ms t _ Ha).
  eapply ensure_creates; eauto; try discriminate; try (split; [exact Ha | exact I]); try (constructor; auto).
Qed.

(* ... and when the last token is "-": an empty array is created and the value appended *)
Corollary ensure_creates_array_dash o st op r c ps t ms :
  s_root st = RCon c -> cgood c -> o_ensure o = true ->
  op_str op (B "path") = Ok (x2f :: r) -> Forall ctok (map decode_token (split_slash r)) -> val_good op ->
  map decode_token (split_slash r) = ps ++ [t; [x2d]] ->
  descend (dia o) ps (cval c) = Some (OObj ms) -> aget t ms = None -> nodash t ->
  exists st', op_add o st op = Ok st' /\
              sval st' = rebuild (dia o) ps (cval c) (OObj (ms ++ [(t, OArr [ref_value op])])) /\
              sgood st' /\ s_acc st' = s_acc st.
Proof.
  intros Hr G En Hp D Vg Tk Hd Ha Nt.
  change (OArr [ref_value op]) with (chain [[x2d]] (ref_value op)). rewrite <- (grow_obj_missing ms t _ Ha).
  eapply ensure_creates; eauto; try discriminate; try (split; [exact Ha | exact I]); try (repeat constructor; auto).
Qed.

(* an existing array that is too short for the index n of the missing parent is padded with nulls
   up to n and the new container appended *)
Corollary ensure_pads_array o st op r c ps t n rest l :
  s_root st = RCon c -> cgood c -> o_ensure o = true ->
  op_str op (B "path") = Ok (x2f :: r) -> Forall ctok (map decode_token (split_slash r)) -> val_good op ->
  map decode_token (split_slash r) = ps ++ t :: rest ->
  descend (dia o) ps (cval c) = Some (OArr l) -> canonical_nat t = Some n -> (Z.of_nat (length l) <= n)%Z ->
  rest <> [] -> Forall nodash (removelast rest) ->
  exists st', op_add o st op = Ok st' /\
              sval st' = rebuild (dia o) ps (cval c)
                           (OArr (l ++ repeat ONull (Z.to_nat n - length l) ++ [chain rest (ref_value op)])) /\
              sgood st' /\ s_acc st' = s_acc st.
Proof.
  intros Hr G En Hp D Vg Tk Hd Hn Ln NE ND.
  rewrite <- (grow_arr_index l t n _ Hn).
  eapply ensure_creates; eauto.
  - split; [|right; eauto]. cbn [child_at]. unfold idx_existing, Rfc6902.zlen. rewrite Hn.
    replace (n <? Z.of_nat (length l))%Z with false by (symmetry; apply Z.ltb_ge; lia). reflexivity.
  - constructor; auto. intro E. subst t. discriminate.
Qed.

(* ================================================================================================ *)
(* afterwards the added value is found at the path                                                   *)
(* ================================================================================================ *)
Lemma get_at_child d t rest j c : child_at d j t = Some c -> get_at d (t :: rest) j = get_at d rest c.
Proof.
  destruct j; try discriminate; cbn [child_at get_at].
  - destruct (idx_existing d (Rfc6902.zlen l) t); [|discriminate]. intro H; inversion H; reflexivity.
  - destruct (aget t ms); [|discriminate]. intro H; inversion H; reflexivity.
Qed.

Lemma insert_at_length {A} i (x : A) l : (i <= length l)%nat -> length (insert_at i x l) = S (length l).
Proof. intro H. unfold insert_at. rewrite app_length, firstn_length. cbn [length]. rewrite skipn_length. lia. Qed.

Lemma nth_insert_at {A} i (x : A) l dflt : (i <= length l)%nat -> nth i (insert_at i x l) dflt = x.
Proof.
  intro H. unfold insert_at.
  assert (L : length (firstn i l) = i) by (rewrite firstn_length; lia).
  remember (firstn i l) as f. remember (skipn i l) as g. rewrite <- L. apply nth_middle.
Qed.

Definition nonneg (t : bytes) : Prop := canonical_neg t = None.

(* the reference's add, then the reference's get: for a last token that is a member name or a
   non-negative index (for "-" the value is the last element of the array instead) *)
Theorem add_then_get d v : forall toks j j2,
  at_parent d toks j (add_leaf d v) = ROk j2 -> nodash (last toks []) -> nonneg (last toks []) ->
  get_at d toks j2 = ROk v.
Proof.
  induction toks as [|t toks IH]; intros j j2 H ND NN; [discriminate|].
  destruct toks as [|next rest0].
  - cbn [at_parent last] in *. destruct j; try discriminate; cbn [add_leaf] in H.
    + unfold idx_insert in H. replace (bseq t [x2d]) with false in H by (symmetry; apply bseq_neq; exact ND).
      destruct (canonical_nat t) as [n|] eqn:Hn.
      * pose proof (canonical_nat_digits _ _ Hn) as [_ [N0 _]].
        destruct (n <=? Rfc6902.zlen l)%Z eqn:E; [|discriminate]. apply Z.leb_le in E. unfold Rfc6902.zlen in E.
        inversion H; subst j2. cbn [get_at]. unfold idx_existing, Rfc6902.zlen. rewrite Hn.
        rewrite insert_at_length by lia.
        replace (n <? Z.of_nat (S (length l)))%Z with true by (symmetry; apply Z.ltb_lt; lia).
        rewrite nth_insert_at by lia. reflexivity.
      * unfold nonneg in NN. rewrite NN in H. discriminate.
    + inversion H; subst j2. cbn [get_at]. now rewrite aget_aset_same.
  - rewrite at_parent_cons in H. destruct (child_at d j t) as [c|] eqn:E; [|discriminate].
    destruct (at_parent d (next :: rest0) c (add_leaf d v)) as [c'|] eqn:E2; [|discriminate].
    cbn [bind] in H. inversion H; subst j2.
    rewrite (get_at_child d t (next :: rest0) _ c' (child_put_same d j t c c' E)).
    apply (IH c c' E2); assumption.
Qed.

(* the model: after an add with the option on, the reference's lookup of the path in the
   resulting document value yields the added value *)
Theorem ensure_add_found o st op r c j1 st' :
  s_root st = RCon c -> cgood c -> o_ensure o = true ->
  op_str op (B "path") = Ok (x2f :: r) -> Forall ctok (map decode_token (split_slash r)) -> val_good op ->
  ens (dia o) (ptoks r) (cval c) = Some j1 -> nodash (path_key r) ->
  op_add o st op = Ok st' ->
  get_at (dia o) (ptoks r) (sval st') = ROk (ref_value op).
Proof.
  intros Hr G En Hp D Vg H ND Hs.
  pose proof (ensure_add_sim o st op r c j1 Hr G En Hp D Vg H) as S.
  assert (LK : last (ptoks r) [] = path_key r) by (unfold ptoks; apply last_last).
  assert (NN : nonneg (path_key r)).
  { pose proof D as D'. rewrite <- ptoks_eq in D'. unfold ptoks in D'. apply Forall_app in D' as [_ D'].
    inversion D' as [|? ? [_ Ng] _]. exact Ng. }
  destruct (at_parent (dia o) (ptoks r) j1 (add_leaf (dia o) (ref_value op))) as [j'|cz] eqn:AP.
  - destruct S as [st2 [S1 [S2 _]]]. rewrite Hs in S1. inversion S1; subst st2. rewrite S2.
    apply (add_then_get (dia o) (ref_value op) (ptoks r) j1 j' AP); rewrite LK; assumption.
  - destruct S as [e [S1 _]]. rewrite Hs in S1. discriminate.
Qed.

(* when every parent exists nothing is created (the reference-level form of ensure_existing) *)
Lemma ens_all_exist d : forall toks j p,
  descend d (removelast toks) j = Some p -> is_container p = true -> ens d toks j = Some j.
Proof.
  induction toks as [|t toks IH]; intros j p H Cp; [reflexivity|].
  destruct toks as [|next rest0]; [reflexivity|].
  change (removelast (t :: next :: rest0)) with (t :: removelast (next :: rest0)) in H.
  cbn [descend] in H. destruct (child_at d j t) as [c|] eqn:E; [|discriminate].
  assert (Cc : is_container c = true).
  { destruct (removelast (next :: rest0)) as [|t1 ps']; cbn [descend] in H.
    - inversion H; subst. exact Cp.
    - destruct (child_at d c t1) eqn:E1; [|discriminate]. eapply child_at_container; eauto. }
  rewrite ens_unfold, E, Cc, (IH c p H Cp). cbn [option_map]. f_equal. apply put_child_same. exact E.
Qed.

(* ================================================================================================ *)
(* canonical index spellings are unique                                                              *)
(* ================================================================================================ *)
Definition dig (c : byte) : Z := Z.of_N (bn c - 48).

Lemma dig_range c : is_digit c = true -> (0 <= dig c <= 9)%Z.
Proof. destruct c; try discriminate; intros _; unfold dig; cbn; lia. Qed.

Lemma dig_inj c c' : is_digit c = true -> is_digit c' = true -> dig c = dig c' -> c = c'.
Proof.
  destruct c; try discriminate; intros _; destruct c'; try discriminate; intros _; unfold dig; cbn; intro H;
    first [reflexivity | discriminate H].
Qed.

Lemma digits_val_snoc : forall s acc c, is_digit c = true ->
  digits_val acc (s ++ [c]) = option_map (fun v => v * 10 + dig c)%Z (digits_val acc s).
Proof.
  induction s as [|x s IH]; intros acc c Hc; cbn [app digits_val].
  - rewrite Hc. reflexivity.
  - destruct (is_digit x); [apply IH; exact Hc | reflexivity].
Qed.

Lemma digits_val_bounds : forall s acc v, (0 <= acc)%Z -> digits_val acc s = Some v ->
  (acc * 10 ^ Z.of_nat (length s) <= v < (acc + 1) * 10 ^ Z.of_nat (length s))%Z.
Proof.
  induction s as [|c s IH]; intros acc v Ha H.
  - cbn in *. inversion H; subst. lia.
  - cbn [digits_val] in H. destruct (is_digit c) eqn:Dc; [|discriminate].
    pose proof (dig_range c Dc) as R. fold (dig c) in H.
    apply IH in H; [|lia]. cbn [length]. rewrite Nat2Z.inj_succ, Z.pow_succ_r by lia.
    assert (P : (0 < 10 ^ Z.of_nat (length s))%Z) by (apply Z.pow_pos_nonneg; lia).
    nia.
Qed.

Lemma digits_same_length : forall a b va vb,
  length a = length b -> digits_val 0 a = Some va -> digits_val 0 b = Some vb -> va = vb -> a = b.
Proof.
  induction a as [|ca a IH] using rev_ind; intros b va vb L Ha Hb E.
  - destruct b; [reflexivity | discriminate].
  - destruct b as [|cb b _] using rev_ind; [rewrite app_length in L; cbn in L; lia|].
    rewrite !app_length in L. cbn [length] in L.
    pose proof (digits_val_all _ _ _ Ha) as Fa. pose proof (digits_val_all _ _ _ Hb) as Fb.
    apply Forall_app in Fa as [Fa Da]. apply Forall_app in Fb as [Fb Db].
    inversion Da as [|? ? Dca _]; subst. inversion Db as [|? ? Dcb _]; subst.
    rewrite digits_val_snoc in Ha, Hb by assumption.
    destruct (digits_val 0 a) as [xa|] eqn:Xa; [|discriminate].
    destruct (digits_val 0 b) as [xb|] eqn:Xb; [|discriminate].
    cbn [option_map] in Ha, Hb. inversion Ha; inversion Hb; subst.
    pose proof (dig_range ca Dca). pose proof (dig_range cb Dcb).
    assert (xa = xb) by lia. assert (dig ca = dig cb) by lia.
    f_equal; [eapply IH; eauto; lia | f_equal; apply dig_inj; auto].
Qed.

Lemma canonical_nat_inj a b n : canonical_nat a = Some n -> canonical_nat b = Some n -> a = b.
Proof.
  assert (Shape : forall s v, canonical_nat s = Some v ->
            digits_val 0 s = Some v /\ (s = [x30] \/ (10 ^ (Z.of_nat (length s) - 1) <= v)%Z)).
  { intros s v H. pose proof (canonical_nat_digits _ _ H) as [D _]. split; [exact D|].
    unfold canonical_nat in H. destruct s as [|c r]; [discriminate|].
    destruct (is_digit19 c && forallb is_digit r) eqn:E.
    - right. apply andb_prop in E as [E _].
      assert (Dc : is_digit c = true /\ (1 <= dig c)%Z).
      { destruct c; try discriminate; split; try reflexivity; unfold dig; cbn; lia. }
      cbn [digits_val] in D. rewrite (proj1 Dc) in D. fold (dig c) in D.
      apply digits_val_bounds in D; [|lia]. cbn [length].
      replace (Z.of_nat (S (length r)) - 1)%Z with (Z.of_nat (length r)) by lia.
      assert (P : (0 < 10 ^ Z.of_nat (length r))%Z) by (apply Z.pow_pos_nonneg; lia). nia.
    - left. destruct c; try discriminate; destruct r; try discriminate; reflexivity. }
  intros Ha Hb. destruct (Shape a n Ha) as [Da Sa]. destruct (Shape b n Hb) as [Db Sb].
  pose proof (digits_val_bounds a 0 n ltac:(lia) Da) as Ba.
  pose proof (digits_val_bounds b 0 n ltac:(lia) Db) as Bb.
  assert (Z0 : forall s, s = [x30] -> digits_val 0 s = Some n -> n = 0%Z) by (intros s -> H; cbn in H; congruence).
  assert (L : length a = length b).
  { destruct Sa as [Sa|Sa]; destruct Sb as [Sb|Sb].
    - subst; reflexivity.
    - pose proof (Z0 a Sa Da). subst n.
      assert (0 < 10 ^ (Z.of_nat (length b) - 1))%Z; [|lia].
      destruct b; [discriminate|]. cbn [length]. apply Z.pow_pos_nonneg; lia.
    - pose proof (Z0 b Sb Db). subst n.
      assert (0 < 10 ^ (Z.of_nat (length a) - 1))%Z; [|lia].
      destruct a; [discriminate|]. cbn [length]. apply Z.pow_pos_nonneg; lia.
    - destruct (Nat.lt_trichotomy (length a) (length b)) as [Lt|[Eq|Gt]]; [exfalso| exact Eq |exfalso].
      + assert (10 ^ Z.of_nat (length a) <= 10 ^ (Z.of_nat (length b) - 1))%Z by (apply Z.pow_le_mono_r; lia). lia.
      + assert (10 ^ Z.of_nat (length b) <= 10 ^ (Z.of_nat (length a) - 1))%Z by (apply Z.pow_le_mono_r; lia). lia. }
  eapply digits_same_length; eauto.
Qed.

(* ================================================================================================ *)
(* frame: what existed before and is not on the path keeps its value                                 *)
(* ================================================================================================ *)
Definition is_prefix (q toks : list bytes) : Prop := exists s, toks = q ++ s.

Lemma get_at_ok_child d a q' j x :
  get_at d (a :: q') j = ROk x -> exists ca, child_at d j a = Some ca /\ get_at d q' ca = ROk x.
Proof.
  destruct j; try discriminate; cbn [get_at child_at].
  - destruct (idx_existing d (Rfc6902.zlen l) a); [eauto | destruct q'; discriminate].
  - destruct (aget a ms); [eauto | destruct q'; discriminate].
Qed.

Lemma set_at_cons {A} i (y x : A) l : set_at (S i) y (x :: l) = x :: set_at i y l.
Proof. reflexivity. Qed.

Lemma nth_set_at_other {A} : forall (l : list A) i ia y dflt,
  (i < length l)%nat -> ia <> i -> nth ia (set_at i y l) dflt = nth ia l dflt.
Proof.
  induction l as [|x l IH]; intros i ia y dflt L N; [cbn in L; lia|].
  destruct i as [|i].
  - destruct ia; [congruence | reflexivity].
  - rewrite set_at_cons. destruct ia; [reflexivity|]. cbn [nth]. apply IH; [cbn in L; lia | congruence].
Qed.

Lemma idx_existing_nonneg d len a ia : nonneg a -> idx_existing d len a = Some ia ->
  exists na, canonical_nat a = Some na /\ (0 <= na < len)%Z /\ ia = Z.to_nat na.
Proof.
  unfold nonneg, idx_existing. intros Ng H. rewrite Ng in H.
  destruct (canonical_nat a) as [na|] eqn:Hn; [|discriminate].
  pose proof (canonical_nat_digits _ _ Hn) as [_ [N0 _]].
  destruct (na <? len)%Z eqn:E; [|discriminate]. apply Z.ltb_lt in E. inversion H. exists na. auto.
Qed.

Lemma child_put_other d j t y a : a <> t -> nonneg a -> nonneg t ->
  child_at d (put_child d j t y) a = child_at d j a.
Proof.
  intros Neq Na Nt. destruct j; try reflexivity; cbn [put_child].
  - destruct (idx_existing d (Rfc6902.zlen l) t) as [i|] eqn:Ei; [|reflexivity].
    pose proof (idx_existing_lt d l t i Ei) as L. cbn [child_at].
    unfold Rfc6902.zlen in *. rewrite set_at_length by exact L.
    destruct (idx_existing d (Z.of_nat (length l)) a) as [ia|] eqn:Ea; [|reflexivity].
    rewrite nth_set_at_other; auto. intro E. subst ia.
    destruct (idx_existing_nonneg _ _ _ _ Na Ea) as [na [Ha [Ra Ia]]].
    destruct (idx_existing_nonneg _ _ _ _ Nt Ei) as [nt [Ht [Rt It]]].
    assert (na = nt) by lia. subst nt. apply Neq. eapply canonical_nat_inj; eauto.
  - cbn [child_at]. apply aget_aset_other. apply bseq_neq. exact Neq.
Qed.

Lemma grow_child_other d j t y a ca :
  growable d j t -> child_at d j a = Some ca -> nonneg a -> child_at d (grow j t y) a = Some ca.
Proof.
  intros [Hc Sh] Ca Na. destruct j as [| | | |l|ms]; try contradiction; cbn [child_at] in *.
  - destruct (idx_existing d (Rfc6902.zlen l) a) as [ia|] eqn:Ea; [|discriminate]. inversion Ca; subst ca.
    destruct (idx_existing_nonneg _ _ _ _ Na Ea) as [na [Ha [Ra Ia]]]. unfold Rfc6902.zlen in Ra.
    assert (G : exists ext, grow (OArr l) t y = OArr (l ++ ext)).
    { cbn [grow]. destruct (bseq t [x2d]) eqn:B; [eauto|]. destruct Sh as [->|[n Hn]]; [discriminate B|]. rewrite Hn. eauto. }
    destruct G as [ext ->]. cbn [child_at]. unfold idx_existing, Rfc6902.zlen. rewrite Ha, app_length.
    replace (na <? Z.of_nat (length l + length ext))%Z with true by (symmetry; apply Z.ltb_lt; lia).
    rewrite <- Ia. rewrite app_nth1 by lia. reflexivity.
  - cbn [grow child_at]. rewrite aget_aset_other; [exact Ca|]. apply bseq_neq. intro E. subst a. congruence.
Qed.

Lemma attach_ok_growable d j t x j1 :
  child_at d j t = None -> nonneg t -> add_leaf d x (pad_to j t) t = ROk j1 -> growable d j t.
Proof.
  intros Hc Nt H. split; [exact Hc|]. destruct j as [| | | |l|ms]; try discriminate; [|exact I].
  destruct (canonical_nat t) as [n|] eqn:Hn; [right; eauto|].
  cbn [pad_to] in H. rewrite Hn in H. cbn [add_leaf] in H. unfold idx_insert in H.
  destruct (bseq t [x2d]) eqn:B; [left; apply bseq_eq; exact B|].
  unfold nonneg in Nt. rewrite Hn, Nt in H. discriminate.
Qed.

(* C14, the frame clause: an add with the option on that had to create at least one parent leaves
   every location q that existed before, and is not a prefix of the path, with its value *)
Theorem creation_frame d v : forall toks j j1 j2,
  Forall nonneg toks -> Forall nodash (removelast toks) ->
  ens d toks j = Some j1 -> at_parent d toks j1 (add_leaf d v) = ROk j2 ->
  descend d (removelast toks) j = None ->
  forall q x, Forall nonneg q -> get_at d q j = ROk x -> ~ is_prefix q toks -> get_at d q j2 = ROk x.
Proof.
  induction toks as [|t toks IH]; intros j j1 j2 NN ND He Ha Hm q x NQ Hq NP.
  - cbn in Hm. discriminate.
  - destruct toks as [|next rest0]; [cbn in Hm; discriminate|].
    change (removelast (t :: next :: rest0)) with (t :: removelast (next :: rest0)) in *.
    inversion NN as [|? ? Nt NN']; subst. inversion ND as [|? ? Dt ND']; subst.
    destruct q as [|a q']; [exfalso; apply NP; exists (t :: next :: rest0); reflexivity|].
    inversion NQ as [|? ? Na NQ']; subst.
    destruct (get_at_ok_child d a q' j x Hq) as [ca [Ca Gq]].
    rewrite ens_unfold in He. cbn [descend] in Hm.
    destruct (child_at d j t) as [c|] eqn:Ec.
    + destruct (is_container c); [|discriminate].
      destruct (ens d (next :: rest0) c) as [c1|] eqn:E1; [|discriminate].
      cbn [option_map] in He. inversion He; subst j1.
      rewrite at_parent_cons, (child_put_same d j t c c1 Ec) in Ha.
      destruct (at_parent d (next :: rest0) c1 (add_leaf d v)) as [c2|] eqn:E2; [|discriminate].
      cbn [bind] in Ha. inversion Ha; subst j2. rewrite (put_put d j t c c1 c2 Ec).
      destruct (bseq a t) eqn:B.
      * apply bseq_eq in B. subst a. rewrite Ec in Ca. inversion Ca; subst ca.
        rewrite (get_at_child d t q' _ c2 (child_put_same d j t c c2 Ec)).
        apply (IH c c1 c2 NN' ND' E1 E2 Hm q' x NQ' Gq). intros [s Hs]. apply NP. exists s. cbn [app]. now rewrite Hs.
      * apply bseq_neq in B. rewrite (get_at_child d a q' _ ca); [exact Gq|]. rewrite child_put_other; auto.
    + destruct (ens d (next :: rest0) (fresh_for next)) as [c'|] eqn:E1; [|discriminate].
      destruct (add_leaf d c' (pad_to j t) t) as [jj|] eqn:E3; [|discriminate]. inversion He; subst jj.
      pose proof (attach_ok_growable d j t c' j1 Ec Nt E3) as Gr.
      rewrite (attach_grow d j t c' Gr) in E3. inversion E3; subst j1.
      rewrite at_parent_cons, (grow_child d j t c' Gr Dt) in Ha.
      destruct (at_parent d (next :: rest0) c' (add_leaf d v)) as [c2|] eqn:E2; [|discriminate].
      cbn [bind] in Ha. inversion Ha; subst j2. rewrite (grow_put d j t c' c2 Gr Dt).
      rewrite (get_at_child d a q' _ ca); [exact Gq|]. apply grow_child_other; auto.
Qed.

(* the model: frame clause for an add with the option on that created at least one parent *)
Theorem ensure_add_frame o st op r c j1 st' :
  s_root st = RCon c -> cgood c -> o_ensure o = true ->
  op_str op (B "path") = Ok (x2f :: r) -> Forall ctok (map decode_token (split_slash r)) -> val_good op ->
  ens (dia o) (ptoks r) (cval c) = Some j1 ->
  Forall nodash (map decode_token (path_parts r)) ->
  descend (dia o) (map decode_token (path_parts r)) (cval c) = None ->
  op_add o st op = Ok st' ->
  forall q x, Forall nonneg q -> get_at (dia o) q (sval st) = ROk x -> ~ is_prefix q (ptoks r) ->
              get_at (dia o) q (sval st') = ROk x.
Proof.
  intros Hr G En Hp D Vg H ND Hm Hs q x NQ Hq NP.
  pose proof (ensure_add_sim o st op r c j1 Hr G En Hp D Vg H) as S.
  assert (SV : sval st = cval c) by (unfold sval; rewrite Hr; reflexivity). rewrite SV in Hq.
  assert (RL : removelast (ptoks r) = map decode_token (path_parts r)) by (unfold ptoks; apply removelast_last).
  assert (NN : Forall nonneg (ptoks r)).
  { rewrite ptoks_eq. eapply Forall_impl; [|exact D]. intros a [_ Ha]. exact Ha. }
  destruct (at_parent (dia o) (ptoks r) j1 (add_leaf (dia o) (ref_value op))) as [j'|cz] eqn:AP.
  - destruct S as [st2 [S1 [S2 _]]]. rewrite Hs in S1. inversion S1; subst st2. rewrite S2.
    apply (creation_frame (dia o) (ref_value op) (ptoks r) (cval c) j1 j'); auto; rewrite RL; assumption.
  - destruct S as [e [S1 _]]. rewrite Hs in S1. discriminate.
Qed.

(* a concrete instance of the closed form, computed by the model and by the formula *)
Example ensure_closed_form_instance :
  match api_decode (B "[{""op"":""add"",""path"":""/k/3/x~1y/-"",""value"":7}]") with
  | Some p =>
      api_apply (mkOpts false 0 false true false [] None) [] p (B "{""k"":[9],""z"":0}")
        = ROut (B "{""k"":[9,null,null,{""x/y"":[7]}],""z"":0}") /\
      rebuild (mkDialect false) [B "k"] (OObj [(B "k", OArr [ONum (B "9")]); (B "z", ONum (B "0"))])
              (grow (OArr [ONum (B "9")]) (B "3") (chain [B "x/y"; B "-"] (ONum (B "7"))))
        = OObj [(B "k", OArr [ONum (B "9"); ONull; ONull; OObj [(B "x/y", OArr [ONum (B "7")])]]); (B "z", ONum (B "0"))]
  | None => False
  end.
Proof. vm_compute. split; reflexivity. Qed.
