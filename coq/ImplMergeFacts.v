(* ImplMergeFacts.v — the model of v5/merge.go (ImplMerge.v) refines the RFC 7396 reference:
   pruneNulls, merge/mergeDocs (MergePatch) and the mergeMerge mode (MergeMergePatches), on the
   values the nodes denote (Abs.aval), for every document, patch and nesting depth. *)
From Coq Require Import Lia.
From JP Require Import Bytes Json Text Strings Den ImplV5 ImplMerge Rfc7396 DecodeFacts JsonFacts MergeFacts Abs.

Notation or_null := Abs.or_null.

Lemma or_null_eq o : MergeFacts.or_null o = Abs.or_null o.
Proof. reflexivity. Qed.

(* ---- the reference on an empty target: drop null members, recursively ---- *)
Definition prune_spec (dms : list (bytes * ojson)) : list (bytes * ojson) :=
  flat_map (fun kv => match snd kv with ONull => [] | v => [(fst kv, merge_patch ONull v)] end) dms.

Lemma prune_spec_keys dms k : In k (map fst (prune_spec dms)) -> In k (map fst dms).
Proof.
  induction dms as [|[k' v] dms IH]; simpl; auto.
  rewrite map_app, in_app_iff. intros [H|H]; auto. left. destruct v; simpl in H; tauto.
Qed.

Lemma merge_members_fresh dms : forall acc,
  NoDup (map fst acc ++ map fst dms) ->
  merge_members dms acc = acc ++ prune_spec dms.
Proof.
  induction dms as [|[k v] dms IH]; intros acc N; simpl.
  - now rewrite app_nil_r.
  - assert (Hk : ~ In k (map fst acc)).
    { intro Hin. simpl in N. apply NoDup_remove_2 in N. apply N. apply in_or_app. now left. }
    assert (Hn : aget k acc = None) by (apply aget_None_notin; auto).
    destruct v; try (rewrite Hn; simpl MergeFacts.or_null; rewrite aset_notin by auto; rewrite IH;
                     [rewrite <- app_assoc; reflexivity | rewrite map_app; simpl; rewrite <- app_assoc; exact N]).
    rewrite adel_notin by auto. apply IH. simpl in N. apply NoDup_remove_1 in N. exact N.
Qed.

Lemma merge_patch_target_irrelevant t t' p :
  members_of t = members_of t' -> merge_patch t p = merge_patch t' p.
Proof.
  intro H. destruct (is_obj p) eqn:O.
  - apply is_obj_true in O as [ms ->]. rewrite !merge_patch_obj, H. reflexivity.
  - rewrite !merge_patch_nonobj by (apply is_obj_false; auto). reflexivity.
Qed.

Lemma den_null_iff t : den t = ONull <-> t = TNull.
Proof. destruct t; simpl; split; intro H; try discriminate; auto. Qed.

(* ---- prune_entries on the abstract members ---- *)
Fixpoint drop_nulls (entries : list (bytes * node)) (tms : list (bytes * ojson)) : list (bytes * ojson) :=
  match entries with
  | [] => tms
  | (k, NNil) :: r => drop_nulls r (adel k tms)
  | _ :: r => drop_nulls r tms
  end.

Lemma prune_entries_abs entries : forall keys obj,
  keys_agree keys obj -> NoDup (map fst entries) ->
  (forall k v, In (k, v) entries -> aget k obj = Some v) ->
  let (keys', obj') := prune_entries (fun n => n) entries keys obj in
  abs_members keys' obj' = drop_nulls entries (abs_members keys obj) /\ keys_agree keys' obj' /\
  (forall k v, aget k obj' = Some v -> aget k obj = Some v).
Proof.
  induction entries as [|[k v] entries IH]; intros keys obj Ag N H; simpl.
  - split; [reflexivity | split; [exact Ag | auto]].
  - inversion N; subst.
    assert (Hk : aget k obj = Some v) by (apply H; now left).
    destruct v.
    + (* a nil member: removed *)
      assert (Kin : kmem k keys = true).
      { apply kmem_In. destruct Ag as [_ [_ Ag]]. apply Ag. eapply aget_In_fst; eauto. }
      rewrite Kin. destruct (abs_del keys obj k Ag) as [A1 A2].
      specialize (IH (kdel1 k keys) (adel k obj) A2 H3).
      destruct (prune_entries (fun n => n) entries (kdel1 k keys) (adel k obj)) as [keys' obj'].
      destruct IH as [I1 [I2 I3]].
      * intros k' v' Hin. rewrite aget_adel_other; [apply H; now right|].
        apply bseq_neq. intro; subst. apply H2. apply in_map_iff. exists (k, v'); auto.
      * rewrite I1, A1. split; [reflexivity | split; [exact I2|]]. intros k' v' G. apply I3 in G.
        destruct (bseq k' k) eqn:E; [apply bseq_eq in E; subst; rewrite aget_adel_same in G; discriminate|].
        rewrite aget_adel_other in G; auto.
    + rewrite aset_same by auto. apply IH; auto. intros; apply H; now right.
    + rewrite aset_same by auto. apply IH; auto. intros; apply H; now right.
    + rewrite aset_same by auto. apply IH; auto. intros; apply H; now right.
Qed.

Lemma drop_nulls_cons_notin entries : forall k x tms,
  ~ In k (map fst entries) -> drop_nulls entries ((k, x) :: tms) = (k, x) :: drop_nulls entries tms.
Proof.
  induction entries as [|[k' v] entries IH]; intros k x tms H; simpl; auto.
  simpl in H. assert (bseq k' k = false) by (apply bseq_neq; intro; subst; auto).
  destruct v; try (apply IH; auto). simpl. rewrite H0. apply IH; auto.
Qed.

Lemma drop_nulls_self (g : node -> ojson) entries :
  NoDup (map fst entries) ->
  drop_nulls entries (map (fun kv => (fst kv, g (snd kv))) entries) =
  map (fun kv => (fst kv, g (snd kv))) (filter (fun kv => negb (match snd kv with NNil => true | _ => false end)) entries).
Proof.
  induction entries as [|[k v] entries IH]; simpl; auto. intro N. inversion N; subst.
  destruct v; simpl.
  - rewrite bseq_refl. rewrite adel_notin; auto. rewrite map_map. simpl. exact H1.
  - rewrite drop_nulls_cons_notin by auto. f_equal. auto.
  - rewrite drop_nulls_cons_notin by auto. f_equal. auto.
  - rewrite drop_nulls_cons_notin by auto. f_equal. auto.
Qed.

(* ---- pruneNulls ---- *)
Definition pchild (v : tjson) : node := match v with TNull => NNil | _ => prune_t v end.

Lemma prune_t_obj ms :
  prune_t (TObj ms) =
  let keys := map (fun kv => unquote (fst kv)) ms in
  let obj := build_with pchild ms [] in
  let (keys', obj') := prune_entries (fun n => n) obj keys obj in NDoc keys' obj'.
Proof.
  cbn [prune_t]. cbv zeta.
  assert (E : forall ms acc,
             (fix go (ms : list (bytes * tjson)) (acc : list (bytes * node)) :=
                match ms with
                | [] => acc
                | (k, v) :: r => go r (aset (unquote k) (match v with TNull => NNil | _ => prune_t v end) acc)
                end) ms acc = build_with pchild ms acc).
  { clear. induction ms as [|[k v] ms IH]; intro acc; simpl; auto. }
  rewrite E. reflexivity.
Qed.

Lemma prune_t_nonobj t : (forall ms, t <> TObj ms) -> prune_t t = NRaw t.
Proof. destruct t; auto. intro H. exfalso. eapply H; eauto. Qed.

Lemma pchild_nonnil v : v <> TNull -> pchild v <> NNil.
Proof.
  destruct v; cbn [pchild]; try congruence; try (intros _; rewrite prune_t_nonobj by (intros; discriminate); discriminate). intros _.
  rewrite prune_t_obj. cbv zeta.
  destruct (prune_entries (fun n => n) (build_with pchild ms []) (map (fun kv => unquote (fst kv)) ms) (build_with pchild ms [])).
  discriminate.
Qed.

Lemma tnull_dec (v : tjson) : {v = TNull} + {v <> TNull}.
Proof. destruct v; auto; right; discriminate. Qed.

Lemma pchild_eq v : v <> TNull -> pchild v = prune_t v.
Proof. destruct v; auto. congruence. Qed.

Lemma prune_one_nonnull (k : bytes) x :
  x <> ONull -> match x with ONull => [] | v => [(k, merge_patch ONull v)] end = [(k, merge_patch ONull x)].
Proof. destruct x; auto. congruence. Qed.

Theorem prune_t_spec t : tnodup t = true -> aval (prune_t t) = merge_patch ONull (den t) /\ nwf (prune_t t).
Proof.
  induction t using tjson_rect'; intro T;
    try (rewrite prune_t_nonobj by (intros; discriminate); split; [reflexivity | exact T]).
  pose proof (den_obj_nodup ms T) as D. apply tnodup_obj in T as [N F].
  rewrite prune_t_obj. cbv zeta.
  rewrite build_with_nodup by exact N. simpl app.
  set (obj := map (fun kv => (unquote (fst kv), pchild (snd kv))) ms).
  assert (K : map fst obj = map (fun kv => unquote (fst kv)) ms) by (unfold obj; rewrite map_map; reflexivity).
  rewrite <- K. assert (No : NoDup (map fst obj)) by (rewrite K; exact N).
  pose proof (prune_entries_abs obj (map fst obj) obj (keys_agree_self No) No
                (fun k v Hin => In_aget_nodup k v obj No Hin)) as PE.
  destruct (prune_entries (fun n => n) obj (map fst obj) obj) as [keys' obj'].
  destruct PE as [P1 [P2 P3]].
  rewrite Forall_forall in H, F.
  split.
  - rewrite aval_doc, P1, abs_members_self, drop_nulls_self by auto.
    rewrite D, merge_patch_obj. simpl members_of.
    rewrite merge_members_fresh by (simpl; rewrite den_members_keys; exact N). simpl app. f_equal.
    unfold obj. clear - H F.
    induction ms as [|[k v] ms IH]; [reflexivity|].
    assert (Hv : tnodup v = true) by (apply (F (k, v)); now left).
    assert (IHv := H (k, v) (or_introl eq_refl) Hv). simpl in IHv.
    assert (R : forall kv, In kv ms -> tnodup (snd kv) = true -> aval (prune_t (snd kv)) = merge_patch ONull (den (snd kv)) /\ nwf (prune_t (snd kv)))
      by (intros; apply H; auto; now right).
    assert (F' : forall kv, In kv ms -> tnodup (snd kv) = true) by (intros; apply F; now right).
    specialize (IH R F').
    cbn [map filter fst snd den_members prune_spec flat_map].
    fold (den_members ms). fold (prune_spec (den_members ms)).
    destruct (tnull_dec v) as [->|NNv].
    + simpl. apply IH.
    + pose proof (pchild_nonnil v NNv) as PN. rewrite (pchild_eq v NNv) in *.
      assert (DN : den v <> ONull) by (intro E; apply den_null_iff in E; contradiction).
      replace (negb match prune_t v with NNil => true | _ => false end) with true
        by (destruct (prune_t v); try reflexivity; contradiction).
      destruct IHv as [IHv1 _].
      destruct (den v) eqn:Ed; [exfalso; apply DN; reflexivity | ..]; cbn [map fst snd app];
        (f_equal; [f_equal; exact IHv1 | apply IH]).
  - apply nwf_doc. split; auto. apply Forall_forall. intros [k v] Hin. simpl.
    assert (G : aget k obj = Some v) by (apply P3; destruct P2 as [_ [P2 _]]; apply In_aget_nodup; auto).
    apply aget_In in G. unfold obj in G. apply in_map_iff in G as [[k0 v0] [E Hin0]]. inversion E; subst.
    destruct (tnull_dec v0) as [->|NNv]; [exact I|]. rewrite (pchild_eq v0 NNv).
    apply (H (k0, v0) Hin0). apply (F _ Hin0).
Qed.

(* ---- merge / mergeDocs ---- *)
Fixpoint merge_loop (rec : node -> tjson -> node) (mm : bool) (es : list (bytes * tjson))
         (keys : list bytes) (obj : list (bytes * node)) : list bytes * list (bytes * node) :=
  match es with
  | [] => (keys, obj)
  | (k, v) :: r =>
      match v with
      | TNull =>
          if mm then merge_loop rec mm r (if kmem k keys then keys else keys ++ [k]) (aset k NNil obj)
          else if amem k obj
               then merge_loop rec mm r (if kmem k keys then kdel1 k keys else keys) (adel k obj)
               else merge_loop rec mm r keys obj
      | _ =>
          match aget k obj with
          | None | Some NNil =>
              let v' := if mm then NRaw v else prune_node (NRaw v) in
              let (k', o') := doc_set keys obj k v' in merge_loop rec mm r k' o'
          | Some c =>
              let (k', o') := doc_set keys obj k (rec c v) in merge_loop rec mm r k' o'
          end
      end
  end.

Lemma merge_n_unfold f mm cur p :
  merge_n (S f) mm cur p =
  match into_doc cur with
  | None => prune_node (NRaw p)
  | Some (keys, obj) =>
      match p with
      | TObj pms => let (keys', obj') := merge_loop (merge_n f mm) mm (patch_entries pms) keys obj in NDoc keys' obj'
      | _ => NRaw p
      end
  end.
Proof.
  cbn [merge_n]. destruct (into_doc cur) as [[keys obj]|]; auto. destruct p; auto.
  generalize (patch_entries ms). intro es. revert keys obj.
  induction es as [|[k v] es IH]; intros keys obj; cbn [merge_loop]; auto.
  destruct v; try (destruct mm; [|destruct (amem k obj)]; apply IH);
    destruct (aget k obj) as [[]|]; cbv zeta;
    match goal with |- context [doc_set ?a ?b ?c ?d] => destruct (doc_set a b c d) end; apply IH.
Qed.

Lemma patch_entries_nodup pms :
  NoDup (map (fun kv => unquote (fst kv)) pms) ->
  patch_entries pms = map (fun kv => (unquote (fst kv), snd kv)) pms.
Proof.
  intro N. unfold patch_entries.
  assert (G : forall acc, NoDup (map fst acc ++ map (fun kv => unquote (fst kv)) pms) ->
              (fix go (pms : list (bytes * tjson)) (acc : list (bytes * tjson)) :=
                 match pms with [] => acc | (k, v) :: r => go r (aset (unquote k) v acc) end) pms acc
              = acc ++ map (fun kv => (unquote (fst kv), snd kv)) pms).
  { clear N. induction pms as [|[k v] pms IH]; intros acc N; simpl.
    - now rewrite app_nil_r.
    - simpl in N. rewrite aset_notin.
      + rewrite IH; [rewrite <- app_assoc; reflexivity | rewrite map_app; simpl; rewrite <- app_assoc; exact N].
      + intro Hin. apply NoDup_remove_2 in N. apply N. apply in_or_app. now left. }
  apply (G []). exact N.
Qed.

Definition nodes_wf (obj : list (bytes * node)) : Prop := Forall (fun kv => nwf (snd kv)) obj.

Lemma nodes_wf_aset k v obj : nodes_wf obj -> nwf v -> nodes_wf (aset k v obj).
Proof. intros H Hv. apply Forall_aset; auto. Qed.

Lemma nodes_wf_adel k obj : nodes_wf obj -> nodes_wf (adel k obj).
Proof. apply Forall_adel. Qed.

Lemma nodes_wf_get k obj c : nodes_wf obj -> aget k obj = Some c -> nwf c.
Proof. intros H G. apply aget_In in G. unfold nodes_wf in H. rewrite Forall_forall in H. apply (H _ G). Qed.

Lemma prune_node_raw v : prune_node (NRaw v) = prune_t v.
Proof. reflexivity. Qed.

Lemma nnil_dec (c : node) : {c = NNil} + {c <> NNil}.
Proof. destruct c; auto; right; discriminate. Qed.

Lemma match_nonnil {A} (c : node) (a b : A) :
  c <> NNil -> match c with NNil => a | _ => b end = b.
Proof. destruct c; auto. congruence. Qed.

Lemma merge_loop_cons_nonnull rec mm k v r keys obj :
  v <> TNull ->
  merge_loop rec mm ((k, v) :: r) keys obj =
  match aget k obj with
  | Some c =>
      match c with
      | NNil => let (k', o') := doc_set keys obj k (if mm then NRaw v else prune_t v) in merge_loop rec mm r k' o'
      | _ => let (k', o') := doc_set keys obj k (rec c v) in merge_loop rec mm r k' o'
      end
  | None => let (k', o') := doc_set keys obj k (if mm then NRaw v else prune_t v) in merge_loop rec mm r k' o'
  end.
Proof.
  intro H. destruct v; try congruence; cbn [merge_loop]; destruct (aget k obj) as [[]|]; reflexivity.
Qed.

Lemma merge_members_cons_nonnull k x r tms :
  x <> ONull ->
  merge_members ((k, x) :: r) tms = merge_members r (aset k (merge_patch (MergeFacts.or_null (aget k tms)) x) tms).
Proof. intro H. destruct x; try congruence; reflexivity. Qed.

(* the member loop of mergeDocs (MergePatch mode) is the reference's member loop *)
Lemma merge_loop_spec rec es : forall keys obj,
  keys_agree keys obj -> nodes_wf obj -> NoDup (map fst es) ->
  (forall k v, In (k, v) es -> tnodup v = true /\
               forall c, nwf c -> aval (rec c v) = merge_patch (aval c) (den v) /\ nwf (rec c v)) ->
  let (keys', obj') := merge_loop rec false es keys obj in
  abs_members keys' obj' = merge_members (map (fun kv => (fst kv, den (snd kv))) es) (abs_members keys obj) /\
  keys_agree keys' obj' /\ nodes_wf obj'.
Proof.
  induction es as [|[k v] es IH]; intros keys obj Ag W N R; cbn [map fst snd].
  - cbn [merge_loop merge_members]. split; [reflexivity | split; [exact Ag | exact W]].
  - inversion N; subst.
    assert (Rv := R k v (or_introl eq_refl)). destruct Rv as [Tv Rv].
    assert (R' : forall k0 v0, In (k0, v0) es -> tnodup v0 = true /\
               forall c, nwf c -> aval (rec c v0) = merge_patch (aval c) (den v0) /\ nwf (rec c v0))
      by (intros k0 v0 Hin0; apply (R k0 v0); now right).
    assert (Hget : aget k (abs_members keys obj) = option_map aval (aget k obj)) by (apply aget_abs_members_agree; auto).
    assert (Fresh : forall v', nwf v' -> aval v' = merge_patch (MergeFacts.or_null (aget k (abs_members keys obj))) (den v) ->
              let (k', o') := doc_set keys obj k v' in
              let (keys', obj') := merge_loop rec false es k' o' in
              abs_members keys' obj' =
                merge_members (map (fun kv => (fst kv, den (snd kv))) es)
                  (aset k (merge_patch (MergeFacts.or_null (aget k (abs_members keys obj))) (den v)) (abs_members keys obj)) /\
              keys_agree keys' obj' /\ nodes_wf obj').
    { intros v' Wv' Ev'. pose proof (abs_doc_set keys obj k v' Ag) as DS.
      destruct (doc_set keys obj k v') as [k' o'] eqn:Eds. destruct DS as [D1 D2].
      assert (Wo' : nodes_wf o') by (unfold doc_set in Eds; inversion Eds; subst; apply nodes_wf_aset; auto).
      specialize (IH k' o' D2 Wo' H2 R'). destruct (merge_loop rec false es k' o') as [keys' obj'].
      rewrite D1, Ev' in IH. exact IH. }
    destruct (tnull_dec v) as [->|NNv].
    2: {
      assert (DN : den v <> ONull) by (intro E; apply den_null_iff in E; contradiction).
      rewrite merge_loop_cons_nonnull by exact NNv. rewrite merge_members_cons_nonnull by exact DN.
      destruct (prune_t_spec _ Tv) as [P1 P2].
      destruct (aget k obj) as [c|] eqn:Eg.
      - destruct (nnil_dec c) as [->|NNc].
        + apply (Fresh (prune_t v)); auto. rewrite P1, Hget. reflexivity.
        + rewrite (match_nonnil c) by exact NNc.
          assert (Wc : nwf c) by (eapply nodes_wf_get; eauto).
          destruct (Rv c Wc) as [Q1 Q2]. apply (Fresh (rec c v)); auto. rewrite Q1, Hget. reflexivity.
      - apply (Fresh (prune_t v)); auto. rewrite P1, Hget. reflexivity. }
    cbn [merge_loop den merge_members].
    (* TNull: delete *)
    destruct (amem k obj) eqn:Am.
    + assert (Kin : kmem k keys = true).
      { apply kmem_In. destruct Ag as [_ [_ Ag']]. apply Ag'. apply amem_In. exact Am. }
      rewrite Kin. destruct (abs_del keys obj k Ag) as [A1 A2].
      specialize (IH (kdel1 k keys) (adel k obj) A2 (nodes_wf_adel k obj W) H2 R').
      destruct (merge_loop rec false es (kdel1 k keys) (adel k obj)) as [keys' obj'].
      rewrite A1 in IH. exact IH.
    + specialize (IH keys obj Ag W H2 R'). destruct (merge_loop rec false es keys obj) as [keys' obj'].
      rewrite adel_notin; auto.
      unfold abs_members. rewrite map_map. simpl. rewrite map_id.
      destruct Ag as [_ [_ Ag']]. intro Hin. apply Ag' in Hin. apply amem_In in Hin. congruence.
Qed.

Lemma into_doc_spec cur : nwf cur ->
  match into_doc cur with
  | Some (keys, obj) => aval cur = OObj (abs_members keys obj) /\ keys_agree keys obj /\ nodes_wf obj
  | None => is_obj (aval cur) = false
  end.
Proof.
  intro W. destruct cur as [|t|keys obj|ns]; simpl into_doc; try reflexivity.
  - destruct t; try reflexivity. apply nwf_raw in W. pose proof (parsed_obj ms W) as P.
    destruct (doc_of ms) as [keys obj]. destruct P as [P1 P2]. apply nwf_doc in P2 as [P2 P3].
    split; [|split; auto]. change (aval (NRaw (TObj ms))) with (den (TObj ms)). rewrite <- P1. apply aval_doc.
  - apply nwf_doc in W as [W1 W2]. split; [apply aval_doc | split; auto].
Qed.

Lemma tsize_member_lt (ms : list (bytes * tjson)) kv : In kv ms -> (tsize (snd kv) < tsize (TObj ms))%nat.
Proof.
  simpl. induction ms as [|kv' ms IH]; [intros []|]. intros [E|Hin]; simpl.
  - subst. lia.
  - specialize (IH Hin). lia.
Qed.

(* C02: merge(cur, patch) computes RFC 7396's MergePatch on the values, at every depth *)
Theorem merge_n_spec : forall fuel p cur,
  (tsize p < fuel)%nat -> tnodup p = true -> nwf cur ->
  aval (merge_n fuel false cur p) = merge_patch (aval cur) (den p) /\ nwf (merge_n fuel false cur p).
Proof.
  induction fuel as [|f IH]; intros p cur Hf Tp Wc; [lia|].
  rewrite merge_n_unfold. pose proof (into_doc_spec cur Wc) as ID.
  destruct (into_doc cur) as [[keys obj]|].
  - destruct ID as [Ec [Ag Wo]].
    destruct (is_obj (den p)) eqn:Op.
    + destruct p; try discriminate. clear Op.
      pose proof (den_obj_nodup ms Tp) as D. apply tnodup_obj in Tp as [Nk Fk].
      rewrite patch_entries_nodup by exact Nk.
      pose proof (merge_loop_spec (merge_n f false) (map (fun kv => (unquote (fst kv), snd kv)) ms) keys obj Ag Wo) as ML.
      destruct (merge_loop (merge_n f false) false (map (fun kv => (unquote (fst kv), snd kv)) ms) keys obj) as [keys' obj'].
      destruct ML as [M1 [M2 M3]].
      * rewrite map_map. exact Nk.
      * intros k v Hin. apply in_map_iff in Hin as [[k0 v0] [E Hin]]. inversion E; subst.
        rewrite Forall_forall in Fk. split; [apply (Fk _ Hin)|].
        intros c Wc'. apply IH; auto; [|apply (Fk _ Hin)].
        pose proof (tsize_member_lt ms _ Hin). simpl in *. lia.
      * split; [|apply nwf_doc; auto].
        rewrite aval_doc, M1, Ec, D, merge_patch_obj. simpl members_of. f_equal. f_equal.
        unfold den_members. rewrite map_map. reflexivity.
    + assert (NO : forall ms, p <> TObj ms).
      { intros ms E. subst. rewrite (den_obj_nodup ms Tp) in Op. discriminate. }
      destruct p; try (exfalso; eapply NO; reflexivity);
        (split; [simpl aval; rewrite merge_patch_nonobj; [reflexivity | apply is_obj_false; exact Op] | exact Tp]).
  - rewrite prune_node_raw. destruct (prune_t_spec p Tp) as [P1 P2]. split; auto.
    rewrite P1. apply merge_patch_target_irrelevant. destruct (aval cur); try reflexivity. discriminate.
Qed.

(* ---- the mergeMerge mode (MergeMergePatches) refines mm, for compatible patches ---- *)
Fixpoint nclean (n : node) : bool :=
  match n with
  | NRaw TNull => false
  | NDoc _ obj => forallb (fun kv => nclean (snd kv)) obj
  | NAry ns => forallb nclean ns
  | _ => true
  end.

Definition nodes_clean (obj : list (bytes * node)) : Prop := Forall (fun kv => nclean (snd kv) = true) obj.

Lemma nclean_doc keys obj : nclean (NDoc keys obj) = true <-> nodes_clean obj.
Proof. simpl. unfold nodes_clean. rewrite forallb_forall, Forall_forall. tauto. Qed.

Lemma nclean_child t : nclean (child t) = true.
Proof. destruct t; reflexivity. Qed.

Lemma into_doc_clean cur keys obj : nwf cur -> nclean cur = true -> into_doc cur = Some (keys, obj) -> nodes_clean obj.
Proof.
  intros W C. destruct cur as [|t|ks ob|ns]; simpl; try discriminate.
  - destruct t; try discriminate. apply nwf_raw in W. apply tnodup_obj in W as [N _].
    rewrite doc_of_nodup by exact N. intro H; inversion H; subst.
    unfold nodes_clean. rewrite Forall_map. apply Forall_forall. intros; apply nclean_child.
  - intro H; inversion H; subst. apply (proj1 (nclean_doc keys obj)). exact C.
Qed.

Lemma aval_clean_nonnull c : nclean c = true -> c <> NNil -> aval c <> ONull.
Proof.
  destruct c as [|t|ks ob|ns]; simpl; try congruence; try discriminate.
  destruct t; simpl; try discriminate; congruence.
Qed.

Lemma compatible_obj_is_obj p1 ms2 : compatible p1 (OObj ms2) = true -> is_obj p1 = true.
Proof. intro H. apply compatible_obj in H as [ms1 [-> _]]. reflexivity. Qed.

Lemma mm_members_cons_null k r acc : mm_members ((k, ONull) :: r) acc = mm_members r (aset k ONull acc).
Proof. reflexivity. Qed.

Lemma mm_members_cons_nonnull k x r acc :
  x <> ONull ->
  mm_members ((k, x) :: r) acc =
  mm_members r (aset k (match aget k acc with
                        | Some c => if is_null c then x else mm c x
                        | None => x
                        end) acc).
Proof.
  intro H. destruct x; try congruence; cbn [mm_members]; destruct (aget k acc) as [[]|]; reflexivity.
Qed.

Lemma merge_loop_mm_spec rec es : forall keys obj,
  keys_agree keys obj -> nodes_wf obj -> nodes_clean obj -> NoDup (map fst es) ->
  (forall k v, In (k, v) es -> tnodup v = true /\
     forall c, nwf c -> nclean c = true -> c <> NNil -> v <> TNull ->
               (is_obj (den v) = true -> compatible (aval c) (den v) = true) ->
               aval (rec c v) = mm (aval c) (den v) /\ nwf (rec c v) /\ nclean (rec c v) = true) ->
  (forall k v c, In (k, v) es -> aget k (abs_members keys obj) = Some c -> is_obj (den v) = true ->
                 c <> ONull -> compatible c (den v) = true) ->
  let (keys', obj') := merge_loop rec true es keys obj in
  abs_members keys' obj' = mm_members (map (fun kv => (fst kv, den (snd kv))) es) (abs_members keys obj) /\
  keys_agree keys' obj' /\ nodes_wf obj' /\ nodes_clean obj'.
Proof.
  induction es as [|[k v] es IH]; intros keys obj Ag W Cl N R Cp; cbn [map fst snd].
  - cbn [merge_loop mm_members]. repeat (split; auto).
  - inversion N; subst.
    assert (Rv := R k v (or_introl eq_refl)). destruct Rv as [Tv Rv].
    assert (R' : forall k0 v0, In (k0, v0) es -> tnodup v0 = true /\
       forall c, nwf c -> nclean c = true -> c <> NNil -> v0 <> TNull ->
               (is_obj (den v0) = true -> compatible (aval c) (den v0) = true) ->
               aval (rec c v0) = mm (aval c) (den v0) /\ nwf (rec c v0) /\ nclean (rec c v0) = true)
      by (intros k0 v0 Hin0; apply (R k0 v0); now right).
    assert (Hget : aget k (abs_members keys obj) = option_map aval (aget k obj)) by (apply aget_abs_members_agree; auto).
    (* one step: store v' at k, whose value is x *)
    assert (Step : forall v' x, nwf v' -> nclean v' = true -> aval v' = x ->
              let (k', o') := doc_set keys obj k v' in
              let (keys', obj') := merge_loop rec true es k' o' in
              abs_members keys' obj' =
                mm_members (map (fun kv => (fst kv, den (snd kv))) es) (aset k x (abs_members keys obj)) /\
              keys_agree keys' obj' /\ nodes_wf obj' /\ nodes_clean obj').
    { intros v' x Wv' Cv' Ev'. pose proof (abs_doc_set keys obj k v' Ag) as DS.
      destruct (doc_set keys obj k v') as [k' o'] eqn:Eds. destruct DS as [D1 D2].
      assert (Wo' : nodes_wf o') by (unfold doc_set in Eds; inversion Eds; subst; apply nodes_wf_aset; auto).
      assert (Co' : nodes_clean o') by (unfold doc_set in Eds; inversion Eds; subst; apply Forall_aset; auto).
      specialize (IH k' o' D2 Wo' Co' H2 R').
      assert (Cp' : forall k0 v0 c, In (k0, v0) es -> aget k0 (abs_members k' o') = Some c -> is_obj (den v0) = true ->
                 c <> ONull -> compatible c (den v0) = true).
      { intros k0 v0 c Hin0 G O NNc. rewrite D1 in G.
        assert (bseq k0 k = false).
        { apply bseq_neq. intro; subst. apply H1. apply in_map_iff. exists (k, v0); auto. }
        rewrite aget_aset_other in G by auto. eapply Cp; eauto. now right. }
      specialize (IH Cp'). destruct (merge_loop rec true es k' o') as [keys' obj'].
      rewrite D1, Ev' in IH. exact IH. }
    destruct (tnull_dec v) as [->|NNv].
    + (* null: kept as a deletion *)
      cbn [merge_loop den]. rewrite mm_members_cons_null.
      apply (Step NNil ONull); auto. exact I.
    + assert (DN : den v <> ONull) by (intro E; apply den_null_iff in E; contradiction).
      rewrite merge_loop_cons_nonnull by exact NNv. rewrite mm_members_cons_nonnull by exact DN.
      rewrite Hget.
      assert (Cv : nclean (NRaw v) = true) by (destruct v; auto; congruence).
      destruct (aget k obj) as [c|] eqn:Eg; cbn [option_map].
      * destruct (nnil_dec c) as [->|NNc].
        -- cbn [aval is_null]. apply (Step (NRaw v) (den v)); auto.
        -- rewrite (match_nonnil c) by exact NNc.
           assert (Wc : nwf c) by (eapply nodes_wf_get; eauto).
           assert (Cc : nclean c = true).
           { apply aget_In in Eg. unfold nodes_clean in Cl. rewrite Forall_forall in Cl. apply (Cl _ Eg). }
           pose proof (aval_clean_nonnull c Cc NNc) as AN.
           replace (is_null (aval c)) with false by (destruct (aval c); auto; congruence).
           destruct (Rv c Wc Cc NNc NNv) as [Q1 [Q2 Q3]].
           { intro O. apply (Cp k v (aval c)); auto; try (now left); try (rewrite Hget, Eg; reflexivity). }
           apply (Step (rec c v) (mm (aval c) (den v))); auto.
      * apply (Step (NRaw v) (den v)); auto.
Qed.

Lemma compatible_members ms1 ms2 k v c :
  compatible (OObj ms1) (OObj ms2) = true -> In (k, v) ms2 -> aget k ms1 = Some c -> is_obj v = true ->
  compatible c v = true.
Proof.
  intros C Hin G O. apply compatible_obj in C as [ms1' [E C]]. inversion E; subst ms1'.
  apply is_obj_true in O as [ms ->]. eapply C; eauto.
Qed.

Theorem merge_n_mm_spec : forall fuel p cur,
  (tsize p < fuel)%nat -> tnodup p = true -> p <> TNull -> nwf cur -> nclean cur = true ->
  (is_obj (den p) = true -> compatible (aval cur) (den p) = true) ->
  aval (merge_n fuel true cur p) = mm (aval cur) (den p) /\ nwf (merge_n fuel true cur p) /\
  nclean (merge_n fuel true cur p) = true.
Proof.
  induction fuel as [|f IH]; intros p cur Hf Tp NNp Wc Cc Cp; [lia|].
  rewrite merge_n_unfold. pose proof (into_doc_spec cur Wc) as ID.
  assert (Cr : nclean (NRaw p) = true) by (destruct p; auto; congruence).
  destruct (is_obj (den p)) eqn:Op.
  - (* an object patch: cur is an object too *)
    destruct p; try discriminate.
    pose proof (den_obj_nodup ms Tp) as D. rewrite D in Cp. specialize (Cp eq_refl).
    pose proof (compatible_obj_is_obj _ _ Cp) as Oc.
    destruct (into_doc cur) as [[keys obj]|] eqn:Ei; [|rewrite ID in Oc; discriminate].
    destruct ID as [Ec [Ag Wo]]. pose proof (into_doc_clean cur keys obj Wc Cc Ei) as Co.
    apply tnodup_obj in Tp as [Nk Fk]. rewrite patch_entries_nodup by exact Nk.
    pose proof (merge_loop_mm_spec (merge_n f true) (map (fun kv => (unquote (fst kv), snd kv)) ms) keys obj Ag Wo Co) as ML.
    destruct (merge_loop (merge_n f true) true (map (fun kv => (unquote (fst kv), snd kv)) ms) keys obj) as [keys' obj'].
    destruct ML as [M1 [M2 [M3 M4]]].
    + rewrite map_map. exact Nk.
    + intros k v Hin. apply in_map_iff in Hin as [[k0 v0] [E Hin]]. inversion E; subst.
      rewrite Forall_forall in Fk. split; [apply (Fk _ Hin)|].
      intros c Wc' Cc' NNc NNv Cpv. apply IH; auto; [|apply (Fk _ Hin)].
      pose proof (tsize_member_lt ms _ Hin). simpl in *. lia.
    + intros k v c Hin G O NNc. apply in_map_iff in Hin as [[k0 v0] [E Hin]]. inversion E; subst.
      rewrite Ec in Cp. eapply compatible_members; eauto.
      unfold den_members. apply in_map_iff. eexists; split; [|exact Hin]. reflexivity.
    + split; [|split; [apply nwf_doc; auto | apply nclean_doc; auto]].
      rewrite aval_doc, M1, Ec, D, mm_obj. f_equal. f_equal.
      unfold den_members. rewrite map_map. reflexivity.
  - assert (NO : forall ms, p <> TObj ms).
    { intros ms E. subst. rewrite (den_obj_nodup ms Tp) in Op. discriminate. }
    assert (G : aval (NRaw p) = mm (aval cur) (den p) /\ nwf (NRaw p) /\ nclean (NRaw p) = true).
    { split; [|split; auto]. simpl aval. rewrite mm_nonobj2; [reflexivity | apply is_obj_false; exact Op]. }
    destruct (into_doc cur) as [[keys obj]|].
    + destruct p; try exact G. exfalso. eapply NO; reflexivity.
    + rewrite prune_node_raw, prune_t_nonobj by exact NO. exact G.
Qed.

(* ---- the exported functions, on bytes ---- *)
Definition scalar_text (t : tjson) : bool :=
  match t with TObj _ | TArr _ => false | _ => true end.

Lemma render_raw esc t : render esc (NRaw t) = t.
Proof. reflexivity. Qed.

(* MergePatch: the result is a scalar/null patch verbatim, or the encoding of a node whose value
   is RFC 7396's MergePatch(document, patch) — ordered as the reference orders it *)
Theorem api_merge_spec doc patch td tp :
  parse doc = Some td -> parse patch = Some tp -> td <> TNull -> tnodup td = true -> tnodup tp = true ->
  (scalar_text tp = true /\ api_merge false doc patch = MOut patch) \/
  (scalar_text tp = false /\ exists n, api_merge false doc patch = MOut (marshal_node n) /\ nwf n /\
                                       aval n = merge_patch (den td) (den tp)).
Proof.
  intros Pd Pp NNd Td Tp. unfold api_merge. rewrite Pd, Pp.
  destruct td; try congruence;
    (destruct tp; [left; split; reflexivity | left; split; reflexivity | left; split; reflexivity
                  | left; split; reflexivity | left; split; reflexivity | | ]); right; split; try reflexivity.
  all: try (exists (NRaw (TArr l)) + exists (NRaw (TArr l0)); split; [reflexivity | split; [exact Tp | reflexivity]]).
  all: try (match goal with |- context [merge_n ?f false ?c ?p] =>
              exists (merge_n f false c p); split; [reflexivity|];
              destruct (merge_n_spec f p c) as [S1 S2]; [simpl; lia | exact Tp | exact Td | split; [exact S2 | exact S1]] end).
  all: match goal with |- context [prune_node (NRaw ?p)] =>
         exists (prune_node (NRaw p)); split; [reflexivity|]; rewrite prune_node_raw;
         destruct (prune_t_spec p Tp) as [S1 S2]; split; [exact S2|]; rewrite S1;
         apply merge_patch_target_irrelevant; reflexivity end.
Qed.

(* MergeMergePatches on an object P1: a scalar/null P2 verbatim, or the encoding of a node whose
   value is mm P1 P2 — the combined patch of the composition law *)
Theorem api_mergemerge_spec p1 p2 ms1 t2 :
  parse p1 = Some (TObj ms1) -> parse p2 = Some t2 -> tnodup (TObj ms1) = true -> tnodup t2 = true ->
  compatible (den (TObj ms1)) (den t2) = true ->
  (scalar_text t2 = true /\ api_merge true p1 p2 = MOut p2) \/
  (scalar_text t2 = false /\ exists n, api_merge true p1 p2 = MOut (marshal_node n) /\ nwf n /\
                                       aval n = mm (den (TObj ms1)) (den t2)).
Proof.
  intros P1 P2 T1 T2 C. unfold api_merge. rewrite P1, P2.
  destruct t2; [left; split; reflexivity | left; split; reflexivity | left; split; reflexivity
               | left; split; reflexivity | left; split; reflexivity | | ]; right; split; try reflexivity.
  - exists (NRaw (TArr l)). split; [reflexivity | split; [exact T2 | reflexivity]].
  - match goal with |- context [merge_n ?f true ?c ?p] =>
      exists (merge_n f true c p); split; [reflexivity|];
      assert (S : aval (merge_n f true c p) = mm (aval c) (den p) /\ nwf (merge_n f true c p) /\ nclean (merge_n f true c p) = true)
        by (apply merge_n_mm_spec; auto; try (simpl; lia); try discriminate);
      destruct S as [S1 [S2 _]]; split; [exact S2 | exact S1] end.
Qed.
