(* Utf8Rune.v -- hand-written MODEL of unicode/utf8.DecodeRune / DecodeRuneInString (Go standard
   library).  No proofs here.

   The standard library function is NOT translated from its source: gen/QuoteGen.v (the translation
   of encodeState.string by tools/goquote2v) calls decode_rune where the Go code calls
   utf8.DecodeRuneInString(s[i:]).  decode_rune is written on top of Strings.utf8_len (the length of
   the well-formed sequence at the head of the bytes, 0 if there is none):

     decode_rune []  = (RuneError, 0)
     decode_rune s   = (RuneError, 1)                 when the head of s is not a well-formed sequence
                                                      (also: over-long forms, surrogates, > U+10FFFF, truncated)
     decode_rune s   = (code point, 1|2|3|4)          otherwise, the code point computed from the payload
                                                      bits of the 1..4 bytes as DecodeRune does
                                                      (p0&mask)<<6k | ... | (b_k & 0x3F)

   RuneError = U+FFFD = 65533.  A well-formed encoding of U+FFFD itself (ef bf bd) gives (65533, 3).

   Compared once (2026-09-28, go1.23.5, by vm_compute on a generated scratch file) with the results of
   utf8.DecodeRune and utf8.DecodeRuneInString on the empty input, all 256 one-byte and all 65536
   two-byte inputs, and 12132 three- to five-byte inputs around every boundary of the encoding table
   (lead bytes 80 bf c0 c1 c2 df e0 e1 e2 ec ed ee ef f0 f1 f3 f4 f5 ff, second bytes 7f 80 8f 90 9f a0
   bf c0, later bytes 7f 80 a8 a9 bf c0): equal on all of them.  That comparison is evidence, not proof:
   decode_rune is trusted to be what the Go function computes. *)
From JP Require Import Bytes Strings.
Local Open Scope Z_scope.

(* the numeric value of a byte as a Go integer *)
Definition bz (b : byte) : Z := Z.of_N (bn b).

Definition rune_error : Z := 65533.

Definition decode_rune (s : bytes) : Z * Z :=
  match s with
  | [] => (rune_error, 0)
  | c0 :: r =>
      match utf8_len s, r with
      | 1%nat, _ => (bz c0, 1)
      | 2%nat, c1 :: _ => ((bz c0 mod 32) * 64 + bz c1 mod 64, 2)
      | 3%nat, c1 :: c2 :: _ => (((bz c0 mod 16) * 64 + bz c1 mod 64) * 64 + bz c2 mod 64, 3)
      | 4%nat, c1 :: c2 :: c3 :: _ =>
          ((((bz c0 mod 8) * 64 + bz c1 mod 64) * 64 + bz c2 mod 64) * 64 + bz c3 mod 64, 4)
      | _, _ => (rune_error, 1)
      end
  end.

(* sanity: the examples of the Go documentation and the corner cases *)
Example decode_rune_examples :
  decode_rune [] = (65533, 0) /\
  decode_rune [x41; x42] = (65, 1) /\
  decode_rune [xc3; xa9] = (233, 2) /\                      (* U+00E9 *)
  decode_rune [xe2; x80; xa8; x41] = (8232, 3) /\           (* U+2028 *)
  decode_rune [xe2; x80; xa9] = (8233, 3) /\                (* U+2029 *)
  decode_rune [xef; xbf; xbd] = (65533, 3) /\               (* U+FFFD, well-formed *)
  decode_rune [xf0; x9f; x98; x80] = (128512, 4) /\         (* U+1F600 *)
  decode_rune [xf4; x8f; xbf; xbf] = (1114111, 4) /\        (* U+10FFFF *)
  decode_rune [xf4; x90; x80; x80] = (65533, 1) /\          (* beyond U+10FFFF *)
  decode_rune [xed; xa0; x80] = (65533, 1) /\               (* surrogate *)
  decode_rune [xc0; x80] = (65533, 1) /\                    (* over-long *)
  decode_rune [xe0; x9f; xbf] = (65533, 1) /\               (* over-long *)
  decode_rune [xe2; x80] = (65533, 1) /\                    (* truncated *)
  decode_rune [x80] = (65533, 1) /\                         (* lone continuation byte *)
  decode_rune [xff; x41] = (65533, 1).
Proof. vm_compute. repeat split. Qed.
