(* TestTransparent.v — C15, the byte-identity clause for passing test operations:
   "test operations that pass leave the output bytes identical to those of the same patch without
   them", over documents (and operation values) whose strings and member names are spelled as the
   encoder itself spells them (Domain.canonical_spelling).

   Route:
   1. reference level (Rfc6902): a test operation that succeeds returns the document unchanged, so a
      patch that runs to the end runs to the same end without its tests (and copies_fit is kept).
   2. cenc esc : ojson -> tjson, the encoder's own spelling of a decoded value; for a node whose raw
      messages are canonically spelled (ncanon) and have no duplicate names (nwf) the tree Apply
      encodes is a function of the VALUE alone: render esc n = cenc esc (aval n).
   3. ncanon is an invariant of the engine: OutputFacts.RawInv (generic in the predicate on raw
      messages) for add/remove/replace/move/test, for every options record and arbitrary paths;
      for copy (deepCopy re-encodes: needs valid UTF-8 names, StrInv.nstr) in the domain of the
      simulation.
   4. hence, in the domain of ApplySim.api_apply_sim, Apply's bytes ARE output (cenc (RFC 6902 result)),
      and the bytes with and without the passing tests are the same.
   5. the spelling hypothesis is needed: a member name spelled with an escaped solidus below the
      top level is re-spelled by a passing test (Example spelling_hypothesis_needed). *)
From Coq Require Import Lia.
From JP Require Import Bytes Json Text Strings Den Pointer Rfc6902 ImplV5 DecodeFacts JsonFacts Abs EqualFacts
                       ImplFacts RefFacts ApplyFacts Codec StrInv Depth ApplySim Domain Totality OutputFacts.

(* ================================================================================================ *)
(* 1. the reference: a test that succeeds changes nothing                                            *)
(* ================================================================================================ *)
Lemma test_leaf_id d v p t p' : test_leaf d v p t = ROk p' -> p' = p.
Proof.
  unfold test_leaf. destruct p as [| | | |l|ms]; try discriminate.
  - destruct (idx_existing d (Rfc6902.zlen l) t); [|discriminate].
    destruct (jeq _ v); [|discriminate]. intro H; inversion H; reflexivity.
  - destruct (jeq _ v); [|discriminate]. intro H; inversion H; reflexivity.
Qed.

Lemma at_parent_id d (f : ojson -> bytes -> Rfc6902.res ojson) :
  (forall p t p', f p t = ROk p' -> p' = p) ->
  forall toks j j', at_parent d toks j f = ROk j' -> j' = j.
Proof.
  intro Hf. induction toks as [|t rest IH]; intros j j'; [discriminate|].
  destruct rest as [|t2 rest].
  - cbn [at_parent]. apply Hf.
  - change (at_parent d (t :: t2 :: rest) j f) with
      (match j with
       | OObj ms =>
           match aget t ms with
           | Some c => c' <- at_parent d (t2 :: rest) c f ;; ROk (OObj (aset t c' ms))
           | None => RFail FUnreachable
           end
       | OArr l =>
           match idx_existing d (Rfc6902.zlen l) t with
           | Some i => c' <- at_parent d (t2 :: rest) (nth i l ONull) f ;; ROk (OArr (set_at i c' l))
           | None => RFail FUnreachable
           end
       | _ => RFail FUnreachable
       end).
    destruct j as [| | | |l|ms]; try discriminate.
    + destruct (idx_existing d (Rfc6902.zlen l) t) as [i|] eqn:E; [|discriminate].
      destruct (at_parent d (t2 :: rest) (nth i l ONull) f) as [c'|cz] eqn:A; [|discriminate].
      cbn [bind]. intro H; inversion H; subst j'. rewrite (IH _ _ A). f_equal.
      apply set_at_same. eapply idx_existing_lt; eauto.
    + destruct (aget t ms) as [c|] eqn:E; [|discriminate].
      destruct (at_parent d (t2 :: rest) c f) as [c'|cz] eqn:A; [|discriminate].
      cbn [bind]. intro H; inversion H; subst j'. rewrite (IH _ _ A). f_equal. apply aset_same. exact E.
Qed.

Theorem rfc_test_id d j r j' : rkind r = OpTest -> rfc_step d j r = ROk j' -> j' = j.
Proof.
  intro K. unfold rfc_step. rewrite K. destruct (ptr_tokens (rpath r)) as [toks|]; [|discriminate].
  destruct toks as [|t toks].
  - destruct (jeq j _); [|discriminate]. intro H; inversion H; reflexivity.
  - apply at_parent_id. intros p t0 p'. apply test_leaf_id.
Qed.

(* the operations that are kept *)
Definition not_test (op : operation) : bool := match op_kind op with KTest => false | _ => true end.

Lemma not_test_false op : not_test op = false -> rkind (den_op op) = OpTest.
Proof. unfold not_test, den_op. cbn [rkind]. destruct (op_kind op); try discriminate; reflexivity. Qed.

(* a run that reaches the end reaches the same end without its tests; the side condition on copies
   is kept (the documents the remaining operations see are the same) *)
Theorem rfc_without_tests d : forall p i i' j r,
  rfc_apply_from d i j (map den_op p) = Done r ->
  rfc_apply_from d i' j (map den_op (filter not_test p)) = Done r /\
  (copies_fit d j (map den_op p) = true -> copies_fit d j (map den_op (filter not_test p)) = true).
Proof.
  induction p as [|op p IH]; intros i i' j r; cbn [map filter rfc_apply_from copies_fit].
  - intro H. split; [exact H | reflexivity].
  - destruct (rfc_step d j (den_op op)) as [j1|cz] eqn:St; [|discriminate]. intro H.
    destruct (not_test op) eqn:N.
    + cbn [map rfc_apply_from copies_fit]. rewrite St. destruct (IH (S i) (S i') j1 r H) as [I1 I2]. split; [exact I1|].
      intro F. apply andb_prop in F as [F1 F2]. rewrite F1. cbn [andb]. apply I2. exact F2.
    + pose proof (rfc_test_id d j (den_op op) j1 (not_test_false op N) St) as E. subst j1.
      destruct (IH (S i) i' j r H) as [I1 I2]. split; [exact I1|].
      intro F. apply andb_prop in F as [_ F2]. apply I2. exact F2.
Qed.

Lemma Forall_filter_keep {A} (Q : A -> Prop) f (l : list A) : Forall Q l -> Forall Q (filter f l).
Proof. induction 1 as [|x l Hx _ IH]; cbn [filter]; [constructor|]. destruct (f x); [constructor|]; assumption. Qed.

(* ================================================================================================ *)
(* 2. the encoder's own spelling of a value                                                          *)
(* ================================================================================================ *)
Fixpoint cenc (esc : bool) (j : ojson) : tjson :=
  match j with
  | ONull => TNull
  | OBool b => if b then TTrue else TFalse
  | ONum lit => TNum lit
  | OStr s => TStr (quote esc s)
  | OArr l => TArr (map (cenc esc) l)
  | OObj ms => TObj (map (fun kv => (quote esc (fst kv), cenc esc (snd kv))) ms)
  end.

Definition csp (esc : bool) (t : tjson) : Prop := canonical_spelling esc t = true.

Lemma csp_null esc : csp esc TNull. Proof. reflexivity. Qed.

Lemma csp_arr esc l : csp esc (TArr l) -> Forall (csp esc) l.
Proof. unfold csp. cbn [canonical_spelling]. rewrite forallb_forall, Forall_forall. auto. Qed.

Lemma csp_obj_full esc ms : csp esc (TObj ms) ->
  Forall (fun kv => quote esc (unquote (fst kv)) = fst kv /\ csp esc (snd kv)) ms.
Proof.
  unfold csp. cbn [canonical_spelling]. rewrite forallb_forall, Forall_forall. intros H kv Hk.
  specialize (H kv Hk). apply andb_prop in H as [H1 H2]. split; [apply bseq_eq; exact H1 | exact H2].
Qed.

Lemma csp_obj esc ms : csp esc (TObj ms) -> Forall (fun kv => csp esc (snd kv)) ms.
Proof. intro H. apply csp_obj_full in H. revert H. apply Forall_impl. intros kv [_ H]. exact H. Qed.

Lemma csp_str esc b : csp esc (TStr b) -> quote esc (unquote b) = b.
Proof. unfold csp. cbn [canonical_spelling]. apply bseq_eq. Qed.

(* a canonically spelled text without duplicate names IS the encoding of its value *)
Theorem csp_cenc esc t : csp esc t -> tnodup t = true -> t = cenc esc (den t).
Proof.
  induction t as [| | |lit|b|l IH|ms IH] using tjson_rect'; intros C T; try reflexivity.
  - cbn [den cenc]. now rewrite (csp_str esc b C).
  - cbn [den cenc]. f_equal. rewrite map_map. apply csp_arr in C. apply tnodup_arr in T.
    rewrite Forall_forall in IH, C, T. rewrite <- (map_id l) at 1. apply map_ext_in. intros x Hx. apply (IH x Hx); auto.
  - rewrite (den_obj_nodup ms T). cbn [cenc]. f_equal. unfold den_members. rewrite map_map. cbn [fst snd].
    apply csp_obj_full in C. apply tnodup_obj in T as [_ T].
    rewrite Forall_forall in IH, C, T. rewrite <- (map_id ms) at 1. apply map_ext_in. intros [k v] Hk.
    destruct (C _ Hk) as [C1 C2]. cbn [fst snd] in *. rewrite C1. f_equal. apply (IH _ Hk); [exact C2 | exact (T _ Hk)].
Qed.

(* nodes whose raw messages are canonically spelled *)
Definition ncanon (esc : bool) : node -> Prop := nall (csp esc).
Definition scanon (esc : bool) : state -> Prop := sall (csp esc).
Definition op_canon (esc : bool) : operation -> Prop := op_all (csp esc).

(* the tree Apply encodes is a function of the value of the node *)
Theorem render_cenc esc n : ncanon esc n -> nwf n -> render esc n = cenc esc (aval n).
Proof.
  induction n as [|t|keys obj IH|ns IH] using node_rect'; intros C W.
  - reflexivity.
  - cbn [render aval]. apply csp_cenc; [exact C | exact W].
  - apply (nall_doc (csp esc) keys obj) in C. apply nwf_doc in W as [_ W]. rewrite render_doc, aval_doc. cbn [cenc]. f_equal.
    unfold abs_members. rewrite map_map. cbn [fst snd]. apply map_ext. intro k. f_equal.
    destruct (aget k obj) as [v|] eqn:E; cbn [option_map or_null]; [|reflexivity].
    apply aget_In in E. rewrite Forall_forall in IH, C, W. apply (IH _ E); [exact (C _ E) | exact (W _ E)].
  - apply (nall_ary (csp esc) ns) in C. apply nwf_ary in W. cbn [render aval cenc]. f_equal. rewrite map_map.
    rewrite Forall_forall in IH, C, W. apply map_ext_in. intros x Hx. apply (IH x Hx); [exact (C x Hx) | exact (W x Hx)].
Qed.

Corollary render_value_only esc n n' :
  ncanon esc n -> ncanon esc n' -> nwf n -> nwf n' -> aval n = aval n' -> render esc n = render esc n'.
Proof. intros C C' W W' E. rewrite !render_cenc by assumption. now rewrite E. Qed.

(* ================================================================================================ *)
(* 3. canonical spelling is an invariant of the engine                                               *)
(* ================================================================================================ *)
(* ---- what deepCopy stores: HTML escaping does not change what the encoder wrote ---- *)
(* (same statements as V4ApplySim.he_qchar / is_ls_prefix / he_quote, repeated here so that this file does
   not depend on the v4 development) *)
Lemma tt_he_qchar c X : (bn c <? 128) = true -> html_escape (qchar true c ++ X) = qchar true c ++ html_escape X.
Proof. intro H. destruct c; try discriminate; reflexivity. Qed.

Lemma tt_is_ls_prefix c r n Q :
  (bn c <? 128) = false -> utf8_len (c :: r) = S n -> is_ls (c :: r) = None ->
  is_ls (firstn (S n) (c :: r) ++ Q) = None.
Proof.
  intros H E L. cbn [firstn app]. destruct c; try reflexivity.
  destruct r as [|c1 r]; [discriminate|]. destruct r as [|c2 r]; [vm_compute in E; destruct c1; discriminate|].
  assert (N2 : n = 2%nat).
  { unfold utf8_len in E. cbn in E. destruct (in_range _ _ c1 && cont c2); [congruence | discriminate]. }
  subst n. cbn [firstn app]. destruct c1; try reflexivity. destruct c2; try reflexivity; discriminate.
Qed.

Lemma tt_he_quote k : utf8 k -> html_escape (quote true k) = quote true k.
Proof.
  induction 1 as [|c r H U IH|c r n H E U IH].
  - reflexivity.
  - rewrite quote_ascii by exact H. rewrite tt_he_qchar by exact H. now rewrite IH.
  - rewrite (quote_multi true c r n H E).
    destruct (is_ls (c :: r)) as [[d r']|] eqn:L.
    + unfold is_ls in L. destruct c; try discriminate. destruct r as [|c1 r1]; try discriminate.
      destruct c1; try discriminate. destruct r1 as [|c2 r2]; try discriminate.
      destruct c2; try discriminate; inversion L; subst d r';
        (assert (n = 2%nat) by (vm_compute in E; congruence); subst n; cbn [skipn] in IH;
         cbn [app]; rewrite he_u4 by reflexivity; rewrite IH; reflexivity).
    + pose proof (utf8_len_firstn_length c r n E) as FL.
      set (Q := quote true (skipn (S n) (c :: r))) in *.
      assert (Hd : exists t, firstn (S n) (c :: r) = c :: t) by (cbn [firstn]; eauto).
      destruct Hd as [t Ht].
      pose proof (tt_is_ls_prefix c r n Q H E L) as L'. pose proof (utf8_len_prefix c r n Q H E) as E'.
      rewrite Ht in L', E' |- *. cbn [app] in *.
      rewrite (he_chunk c (t ++ Q) n H E' L').
      change (c :: t ++ Q) with ((c :: t) ++ Q). rewrite <- Ht.
      destruct (firstn_app_exact (S n) (firstn (S n) (c :: r)) Q FL) as [F1 F2].
      rewrite F1, F2, IH. reflexivity.
Qed.

Lemma esc_body_quote esc k : utf8 k -> esc_body esc (quote esc k) = quote esc k.
Proof. intro U. destruct esc; [apply tt_he_quote; exact U | reflexivity]. Qed.

Lemma esc_body_canonical esc b : sbody b -> quote esc (unquote b) = b -> esc_body esc b = b.
Proof. intros Sb E. rewrite <- E. apply esc_body_quote. apply sbody_unquote_utf8. exact Sb. Qed.

(* a canonically spelled text (made of bodies the scanner accepts) is left as it is *)
Lemma escape_tree_canonical esc t : tsb t -> csp esc t -> escape_tree esc t = t.
Proof.
  induction t as [| | |lit|b|l IH|ms IH] using tjson_rect'; intros Sb C; rewrite escape_tree_eq; try reflexivity.
  - f_equal. apply esc_body_canonical; [exact Sb | apply csp_str; exact C].
  - f_equal. apply tsb_arr in Sb. apply csp_arr in C. rewrite Forall_forall in IH, Sb, C.
    rewrite <- (map_id l) at 2. apply map_ext_in. intros x Hx. apply (IH x Hx); auto.
  - f_equal. apply tsb_obj in Sb. apply csp_obj_full in C. rewrite Forall_forall in IH, Sb, C.
    rewrite <- (map_id ms) at 2. apply map_ext_in. intros [k v] Hk.
    destruct (Sb _ Hk) as [S1 S2]. destruct (C _ Hk) as [C1 C2]. cbn [fst snd] in *. f_equal.
    + apply esc_body_canonical; assumption.
    + apply (IH _ Hk); assumption.
Qed.

(* the re-encoding of a node: canonical, provided the names of its parsed objects are valid UTF-8 *)
Theorem csp_enc esc v : nstr v -> ncanon esc v -> csp esc (enc esc v).
Proof.
  induction v as [|t|keys obj IH|ns IH] using node_rect'; intros Sv C.
  - unfold enc. cbn [render]. rewrite escape_tree_eq. reflexivity.
  - unfold enc. cbn [render]. rewrite escape_tree_canonical; [exact C | exact Sv | exact C].
  - apply nstr_doc in Sv as [Uk Ss]. apply (nall_doc (csp esc) keys obj) in C. rewrite enc_doc.
    unfold csp. cbn [canonical_spelling]. apply forallb_forall. intros kv Hkv.
    apply in_map_iff in Hkv as [k [<- Hk]]. cbn [fst snd]. rewrite Forall_forall in IH, Uk, Ss, C.
    rewrite (esc_body_quote esc k (Uk k Hk)), (unquote_quote esc k (Uk k Hk)), bseq_refl. cbn [andb].
    destruct (aget k obj) as [x|] eqn:E; cbn [option_map]; [|reflexivity].
    apply aget_In in E. apply (IH _ E); [exact (proj2 (Ss _ E)) | exact (C _ E)].
  - apply nstr_ary in Sv. apply (nall_ary (csp esc) ns) in C. rewrite enc_ary.
    unfold csp. cbn [canonical_spelling]. apply forallb_forall. intros t Ht.
    apply in_map_iff in Ht as [x [<- Hx]]. rewrite Forall_forall in IH, Sv, C. apply (IH x Hx); [exact (Sv x Hx) | exact (C x Hx)].
Qed.

Lemma ncanon_deep_copy o v : nstr v -> ncanon (o_esc o) v -> ncanon (o_esc o) (fst (deep_copy o v)).
Proof.
  intros Sv C. destruct v; cbn [deep_copy fst]; try exact I;
    apply (nall_raw (csp (o_esc o))); apply (csp_enc (o_esc o)); assumption.
Qed.

(* ---- every operation but copy: any options record, arbitrary paths, any esc ---- *)
Theorem step_canon_nocopy esc o st op st' :
  op_kind op <> KCopy -> scanon esc st -> (op_kind op <> KTest -> op_canon esc op) ->
  step o st op = Ok st' -> scanon esc st'.
Proof.
  intros NC Cs A. unfold step. destruct (op_kind op) eqn:K.
  - apply (op_add_all (csp esc) (csp_null esc) (csp_arr esc) (csp_obj esc)); [exact Cs | apply A; discriminate].
  - apply (op_remove_all (csp esc) (csp_arr esc) (csp_obj esc)); exact Cs.
  - apply (op_replace_all (csp esc) (csp_null esc) (csp_arr esc) (csp_obj esc)); [exact Cs | apply A; discriminate].
  - apply (op_move_all (csp esc) (csp_arr esc) (csp_obj esc)); exact Cs.
  - congruence.
  - apply (op_test_all (csp esc) (csp_arr esc) (csp_obj esc)); exact Cs.
  - discriminate.
Qed.

(* ---- copy, in the domain of the simulation ---- *)
Lemma find_get_good o c rf v c2 :
  cgood c -> Forall tok_dom (map decode_token (split_slash rf)) ->
  find o c (x2f :: rf) (get_fn o) = (FoundAt (Ok v), c2) -> ngood v /\ cgood c2.
Proof.
  intros G D E. pose proof (find_get_sim o c rf G D) as FG. fold (get_fn o) in FG.
  destruct (get_at (dia o) _ (cval c)) as [j|cz].
  - destruct FG as [v' [c2' [F1 [_ [F3 [_ F5]]]]]]. rewrite F1 in E. inversion E; subst. split; assumption.
  - destruct FG as [e [c2' [[F1|[F1 _]] _]]]; rewrite F1 in E; discriminate.
Qed.

Lemma find_unit_good o c r u c2 :
  cgood c -> Forall tok_dom (map decode_token (split_slash r)) ->
  find o c (x2f :: r) unit_fn = (FoundAt u, c2) -> cgood c2.
Proof.
  intros G D E. pose proof (find_unit_sim o c r G D) as FU.
  destruct (descend (dia o) _ (cval c)) as [p|]; [destruct (is_container p)|].
  - destruct FU as [c2' [U1 [_ U3]]]. rewrite U1 in E. inversion E; subst. exact U3.
  - destruct FU as [c2' U1]. rewrite U1 in E. discriminate.
  - destruct FU as [c2' U1]. rewrite U1 in E. discriminate.
Qed.

Lemma op_copy_canon o st op st' c :
  s_root st = RCon c -> cgood c -> call (csp (o_esc o)) c ->
  (exists r, op_str op (B "path") = Ok (x2f :: r) /\ Forall tok_dom (map decode_token (split_slash r))) ->
  (exists from, op_str op (B "from") = Ok from /\ (ptr_ok from \/ from = [])) ->
  op_copy o st op = Ok st' -> scanon (o_esc o) st'.
Proof.
  intros Hr G C [r [Hp Dp]] [from [Hf Kf]]. unfold op_copy. rewrite Hf, Hr.
  set (P := csp (o_esc o)) in *.
  assert (PA : forall l, P (TArr l) -> Forall P l) by (apply csp_arr).
  assert (PO : forall ms, P (TObj ms) -> Forall (fun kv => P (snd kv)) ms) by (apply csp_obj).
  (* first walk: the source *)
  change (find o c from _) with (find o c from (get_fn o)).
  assert (W1 : forall x c1, find o c from (get_fn o) = (FoundAt (Ok x), c1) -> cgood c1 /\ call P c1).
  { intros x c1 E. split.
    - destruct Kf as [[rf [-> Df]]| ->].
      + exact (proj2 (find_get_good o c rf x c1 G Df E)).
      + cbv in E. inversion E; subst. exact G.
    - destruct (find_get_all P PA PO o c from C) as [H1 _]. fold (get_fn o) in H1. rewrite E in H1. exact H1. }
  destruct (find o c from (get_fn o)) as [[| |[x|e|]] c1] eqn:E1; try discriminate.
  destruct (W1 x c1 eq_refl) as [G1 C1]. rewrite Hp.
  (* second walk: the destination parent *)
  change (find o c1 (x2f :: r) _) with (find o c1 (x2f :: r) unit_fn).
  destruct (find o c1 (x2f :: r) unit_fn) as [[| |u] c2] eqn:E2; try discriminate.
  pose proof (find_unit_good o c1 r u c2 G1 Dp E2) as G2.
  assert (C2 : call P c2).
  { destruct (find_all P PA PO (fun _ : unit => True) o c1 (x2f :: r) unit_fn) as [H1 _]; [|exact C1|rewrite E2 in H1; exact H1].
    intros c0 key C0. split; [exact I | exact C0]. }
  (* third walk: the source again *)
  assert (SRC : forall v, (match from with
                 | [] => Ok (node_of_con c2)
                 | _ => match find o c2 from (fun c' key => (con_get o c' key, c')) with
                        | (FoundAt res, _) => res
                        | _ => Err EMissing
                        end
                 end) = Ok v -> ngood v /\ nall P v).
  { intro v. destruct Kf as [[rf [-> Df]]| ->].
    - change (find o c2 (x2f :: rf) _) with (find o c2 (x2f :: rf) (get_fn o)). cbv beta iota.
      destruct (find_get_all P PA PO o c2 (x2f :: rf) C2) as [_ N3]. fold (get_fn o) in N3.
      destruct (find o c2 (x2f :: rf) (get_fn o)) as [[| |res] c3] eqn:E3; try discriminate.
      intro E; subst res. split; [exact (proj1 (find_get_good o c2 rf v c3 G2 Df E3)) | apply N3; reflexivity].
    - intro E; inversion E; subst. split; [exact (proj1 G2) | exact (call_node P c2 C2)]. }
  destruct (match from with [] => Ok (node_of_con c2) | _ => _ end) as [v|e|]; try discriminate.
  destruct (SRC v eq_refl) as [Gv Cv].
  destruct (copy_too_deep o v); [discriminate|].
  pose proof (ncanon_deep_copy o v (proj2 (proj2 Gv)) Cv) as Hcp. destruct (deep_copy o v) as [cp sz]. cbn [fst] in Hcp.
  destruct ((0 <? o_limit o)%Z && (o_limit o <? s_acc st + sz)%Z); [discriminate|].
  pose proof (find_add_all P PA PO o c2 (x2f :: r) cp C2 Hcp) as A1. unfold Totality.add_leaf in A1.
  destruct (find o c2 (x2f :: r) _) as [[| |[c''|e|]] c3]; cbn [fst snd] in *; try discriminate.
  intro H; inversion H; subst. exact A1.
Qed.

(* ---- one operation, in the domain of the simulation (no condition on the options) ---- *)
Theorem step_canon o st op st' :
  sgood st -> op_dom op -> scanon (o_esc o) st -> (op_kind op <> KTest -> op_canon (o_esc o) op) ->
  step o st op = Ok st' -> scanon (o_esc o) st'.
Proof.
  intros [c [Hr G]] [_ [path [Hp K]]] Cs A.
  destruct (op_kind op) eqn:Ek; try (apply step_canon_nocopy; [rewrite Ek; discriminate | exact Cs | rewrite Ek; exact A]).
  unfold step. rewrite Ek. destruct K as [[r [-> D]] Kf].
  apply (op_copy_canon o st op st' c Hr G).
  - unfold scanon, sall in Cs. rewrite Hr in Cs. exact Cs.
  - exists r. split; [exact Hp | exact D].
  - exact Kf.
Qed.

(* ================================================================================================ *)
(* 4. whole patches: the bytes Apply writes are the encoding of the RFC 6902 result                   *)
(* ================================================================================================ *)
(* the values that are stored: those of every operation but test *)
Definition stored_canon (esc : bool) (op : operation) : Prop := op_kind op <> KTest -> op_canon esc op.

(* the simulation (ApplySim.apply_sim) together with the spelling invariant *)
Theorem apply_sim_canon o : plain_opts o -> forall p i st,
  sgood st -> Forall op_dom p ->
  copies_fit (dia o) (sval st) (map den_op p) = true ->
  scanon (o_esc o) st -> Forall (stored_canon (o_esc o)) p ->
  match rfc_apply_from (dia o) i (sval st) (map den_op p) with
  | Done doc => exists st', apply_from o i st p = AOk st' /\ sval st' = doc /\ sgood st' /\ scanon (o_esc o) st'
  | Failed j cz => exists e, apply_from o i st p = AErr j e /\ cause_rel cz e
  end.
Proof.
  intros PO. induction p as [|op p IH]; intros i st G D F Cs A; cbn [map rfc_apply_from apply_from copies_fit] in *.
  - exists st. auto.
  - inversion D as [|? ? Dop Dp]; subst. inversion A as [|? ? Aop Ap]; subst. apply andb_prop in F as [F1 F2].
    pose proof (step_sim o st op G PO Dop F1) as Sim.
    destruct (rfc_step (dia o) (sval st) (den_op op)) as [j'|cz].
    + destruct Sim as [st' [S1 [S2 S3]]]. rewrite S1. rewrite <- S2 in F2.
      pose proof (step_canon o st op st' G Dop Cs Aop S1) as Cs'.
      specialize (IH (S i) st' S3 Dp F2 Cs' Ap). rewrite S2 in IH. exact IH.
    + destruct Sim as [e [S1 S2]]. rewrite S1. eauto.
Qed.

(* Apply on bytes, in the domain of ApplySim.api_apply_sim, for a document and stored values spelled as
   the encoder spells them: the output is a function of the RFC 6902 result alone *)
Theorem api_apply_canonical_bytes o indent p doc t :
  plain_opts o -> parse doc = Some t -> root_container t = true -> tnodup t = true ->
  Forall op_dom p ->
  copies_fit (dia o) (den t) (map den_op p) = true ->
  canonical_spelling (o_esc o) t = true ->
  Forall (stored_canon (o_esc o)) p ->
  match rfc_apply (dia o) (den t) (map den_op p) with
  | Done j => api_apply o indent p doc = ROut (output o indent (cenc (o_esc o) j))
  | Failed i cz => exists e, api_apply o indent p doc = RErr (Some i) e /\ cause_rel cz e
  end.
Proof.
  intros PO Pd RC T D F Ct A. unfold api_apply. destruct doc as [|b doc]; [rewrite parse_nil in Pd; discriminate|].
  rewrite Pd. unfold apply_tree.
  destruct (load_doc_good o _ t Pd RC T) as [c [S1 [S2 S3]]]. rewrite S1.
  pose proof (load_doc_all (csp (o_esc o)) (csp_arr _) (csp_obj _) o t (RCon c) Ct S1) as RA.
  assert (F' : copies_fit (dia o) (sval (mkState (RCon c) 0)) (map den_op p) = true).
  { unfold sval. cbn [s_root]. rewrite S3. exact F. }
  pose proof (apply_sim_canon o PO p 0%nat (mkState (RCon c) 0) (ex_intro _ c (conj eq_refl S2)) D F' RA A) as AS.
  unfold sval in AS at 1. cbn [s_root] in AS. rewrite S3 in AS. unfold rfc_apply.
  destruct (rfc_apply_from (dia o) 0 (den t) (map den_op p)) as [j|i cz].
  - destruct AS as [st' [A1 [A2 [[c' [A3 A4]] A5]]]]. rewrite A1. unfold marshal_root. rewrite A3.
    unfold sval in A2. rewrite A3 in A2. unfold scanon, sall in A5. rewrite A3 in A5. cbn [rall] in A5.
    assert (R : render (o_esc o) (node_of_con c') = cenc (o_esc o) j).
    { rewrite <- A2. apply render_cenc; [exact (call_node _ c' A5) | exact (proj1 (proj1 A4))]. }
    destruct c' as [s k ob| |s ns]; [| exfalso; exact (proj2 A4) |]; rewrite R; reflexivity.
  - destruct AS as [e [A1 A2]]. rewrite A1. eauto.
Qed.

Lemma stored_canon_filter esc p : Forall (stored_canon esc) p -> Forall (stored_canon esc) (filter not_test p).
Proof. apply Forall_filter_keep. Qed.

(* ---- the clause of C15 ---- *)
(* test operations that pass leave the output bytes identical to those of the same patch without them *)
Theorem passing_tests_transparent o indent p doc t out :
  plain_opts o -> parse doc = Some t -> root_container t = true -> tnodup t = true ->
  Forall op_dom p ->
  copies_fit (dia o) (den t) (map den_op p) = true ->
  canonical_spelling (o_esc o) t = true ->
  Forall (stored_canon (o_esc o)) p ->
  api_apply o indent p doc = ROut out ->
  api_apply o indent (filter not_test p) doc = ROut out.
Proof.
  intros PO Pd RC T D F Ct A H.
  pose proof (api_apply_canonical_bytes o indent p doc t PO Pd RC T D F Ct A) as B1.
  unfold rfc_apply in B1.
  destruct (rfc_apply_from (dia o) 0 (den t) (map den_op p)) as [j|i cz] eqn:R.
  2:{ destruct B1 as [e [B1 _]]. rewrite B1 in H. discriminate. }
  destruct (rfc_without_tests (dia o) p 0%nat 0%nat (den t) j R) as [R' F'].
  pose proof (api_apply_canonical_bytes o indent (filter not_test p) doc t PO Pd RC T
                (Forall_filter_keep _ _ _ D) (F' F) Ct (stored_canon_filter _ _ A)) as B2.
  unfold rfc_apply in B2. rewrite R' in B2. rewrite B2, <- B1. exact H.
Qed.

(* the other direction: if the patch without its tests has output out, the patch with them has the
   same output, or it fails at an operation (a test that does not pass); nothing else *)
Theorem tests_only_pass_or_fail o indent p doc t out :
  plain_opts o -> parse doc = Some t -> root_container t = true -> tnodup t = true ->
  Forall op_dom p ->
  copies_fit (dia o) (den t) (map den_op p) = true ->
  canonical_spelling (o_esc o) t = true ->
  Forall (stored_canon (o_esc o)) p ->
  api_apply o indent (filter not_test p) doc = ROut out ->
  api_apply o indent p doc = ROut out \/ exists i e, api_apply o indent p doc = RErr (Some i) e.
Proof.
  intros PO Pd RC T D F Ct A H.
  pose proof (api_apply_canonical_bytes o indent p doc t PO Pd RC T D F Ct A) as B1.
  unfold rfc_apply in B1.
  destruct (rfc_apply_from (dia o) 0 (den t) (map den_op p)) as [j|i cz] eqn:R.
  2:{ destruct B1 as [e [B1 _]]. right. eauto. }
  left. pose proof (passing_tests_transparent o indent p doc t _ PO Pd RC T D F Ct A B1) as B2.
  rewrite B2 in H. rewrite B1. exact H.
Qed.

(* any two patches in the domain with the same RFC 6902 result produce the same bytes *)
Corollary same_result_same_bytes o indent p q doc t j :
  plain_opts o -> parse doc = Some t -> root_container t = true -> tnodup t = true ->
  Forall op_dom p -> Forall op_dom q ->
  copies_fit (dia o) (den t) (map den_op p) = true -> copies_fit (dia o) (den t) (map den_op q) = true ->
  canonical_spelling (o_esc o) t = true ->
  Forall (stored_canon (o_esc o)) p -> Forall (stored_canon (o_esc o)) q ->
  rfc_apply (dia o) (den t) (map den_op p) = Done j -> rfc_apply (dia o) (den t) (map den_op q) = Done j ->
  api_apply o indent p doc = api_apply o indent q doc.
Proof.
  intros PO Pd RC T Dp Dq Fp Fq Ct Ap Aq Rp Rq.
  pose proof (api_apply_canonical_bytes o indent p doc t PO Pd RC T Dp Fp Ct Ap) as B1. rewrite Rp in B1.
  pose proof (api_apply_canonical_bytes o indent q doc t PO Pd RC T Dq Fq Ct Aq) as B2. rewrite Rq in B2.
  now rewrite B1, B2.
Qed.

(* ---- the same, on the boolean domain the harness evaluates, for a patch produced by DecodePatch ---- *)
From JP Require PointerDomain.

Definition stored_canonb (esc : bool) (op : operation) : bool :=
  match op_kind op with
  | KTest => true
  | _ => match aget (B "value") op with Some (Some t) => canonical_spelling esc t | _ => true end
  end.

Lemma stored_canonb_ok esc op : stored_canonb esc op = true -> stored_canon esc op.
Proof.
  unfold stored_canonb, stored_canon, op_canon, op_all, csp. intros H NT t E. rewrite E in H.
  destruct (op_kind op); try exact H. congruence.
Qed.

Theorem passing_tests_transparent_decoded o indent patch p doc t out :
  plain_opts o ->
  api_decode patch = Some p -> in_domain_C01 p = true -> forallb PointerDomain.op_small p = true ->
  parse doc = Some t -> root_container t = true -> tnodup t = true ->
  copies_fit (dia o) (den t) (map den_op p) = true ->
  canonical_spelling (o_esc o) t = true -> forallb (stored_canonb (o_esc o)) p = true ->
  api_apply o indent p doc = ROut out ->
  api_apply o indent (filter not_test p) doc = ROut out.
Proof.
  intros PO Dc D Sm Pd RC T F Ct A. apply passing_tests_transparent with (t := t); auto.
  - eapply PointerDomain.decoded_in_domain_op_dom; eauto.
  - rewrite forallb_forall in A. apply Forall_forall. intros op Hin. apply stored_canonb_ok. apply A. exact Hin.
Qed.

(* ================================================================================================ *)
(* 5. the spelling hypothesis is needed; the theorem is not vacuous                                   *)
(* ================================================================================================ *)
Definition tt_opts (esc : bool) : opts := mkOpts false 0 false false esc [] None.

(* a member name below the top level spelled with an escaped solidus (which the encoder never writes):
   the passing test parses the object and the encoder re-spells the name.  Every other hypothesis of
   passing_tests_transparent_decoded holds. *)
Definition ex1_doc : bytes := B "{""a"":{""\/"":1}}".
Definition ex1_patch : bytes := B "[{""op"":""test"",""path"":""/a"",""value"":{""/"":1}}]".

Example spelling_hypothesis_needed :
  match api_decode ex1_patch, parse ex1_doc with
  | Some p, Some t =>
      api_apply (tt_opts false) [] p ex1_doc = ROut (B "{""a"":{""/"":1}}") /\
      api_apply (tt_opts false) [] (filter not_test p) ex1_doc = ROut (B "{""a"":{""\/"":1}}") /\
      in_domain_C01 p = true /\ forallb PointerDomain.op_small p = true /\
      root_container t = true /\ tnodup t = true /\
      copies_fit (dia (tt_opts false)) (den t) (map den_op p) = true /\
      forallb (stored_canonb false) p = true /\
      canonical_spelling false t = false
  | _, _ => False
  end.
Proof. vm_compute. repeat split; reflexivity. Qed.

(* the same with an upper-case hex escape: the name is the control character U+001F, spelled
   backslash u 0 0 1 F in the document; the encoder writes backslash u 0 0 1 f *)
Definition ex2_name_upper : bytes := [x5c; x75; x30; x30; x31; x46].
Definition ex2_name_lower : bytes := [x5c; x75; x30; x30; x31; x66].
Definition ex2_doc : bytes := B "{""a"":{""" ++ ex2_name_upper ++ B """:1}}".
Definition ex2_patch : bytes := B "[{""op"":""test"",""path"":""/a"",""value"":{""" ++ ex2_name_lower ++ B """:1}}]".

Example spelling_hypothesis_needed_hex :
  match api_decode ex2_patch, parse ex2_doc with
  | Some p, Some t =>
      api_apply (tt_opts false) [] p ex2_doc = ROut (B "{""a"":{""" ++ ex2_name_lower ++ B """:1}}") /\
      api_apply (tt_opts false) [] (filter not_test p) ex2_doc = ROut ex2_doc /\
      canonical_spelling false t = false
  | _, _ => False
  end.
Proof. vm_compute. repeat split; reflexivity. Qed.

(* on the model only member names matter: a STRING spelled non-canonically is written as it was stored,
   with or without the test (the theorem nevertheless assumes the spelling of strings too: its proof goes
   through the decoded value, which forgets the spelling) *)
Definition ex4_doc : bytes := B "{""a"":[""\/"",""x<y""]}".
Example string_spelling_not_observed :
  match api_decode (B "[{""op"":""test"",""path"":""/a"",""value"":[""/"",""x<y""]}]") with
  | Some p =>
      api_apply (tt_opts false) [] p ex4_doc = ROut ex4_doc /\
      api_apply (tt_opts false) [] (filter not_test p) ex4_doc = ROut ex4_doc
  | None => False
  end.
Proof. vm_compute. split; reflexivity. Qed.

(* the theorem applied: every hypothesis discharged on a document spelled canonically and a patch with
   three passing tests (one of them on a freshly copied value) between an add, a copy and a remove *)
Definition ex3_doc : bytes := B "{""a"":{""b"":[1,""x/y""]},""c"":""d""}".
Definition ex3_patch : bytes :=
  B "[{""op"":""test"",""path"":""/a/b/1"",""value"":""x\/y""},{""op"":""add"",""path"":""/e"",""value"":{""k"":""v""}},{""op"":""test"",""path"":""/a"",""value"":{""b"":[1,""x/y""]}},{""op"":""copy"",""from"":""/a"",""path"":""/f""},{""op"":""test"",""path"":""/f/b/0"",""value"":1},{""op"":""remove"",""path"":""/c""}]".
Definition ex3_t : tjson := Eval vm_compute in match parse ex3_doc with Some t => t | None => TNull end.
Definition ex3_p : list operation := Eval vm_compute in match api_decode ex3_patch with Some p => p | None => [] end.
Definition ex3_out : bytes := B "{""a"":{""b"":[1,""x/y""]},""e"":{""k"":""v""},""f"":{""b"":[1,""x/y""]}}".

Example theorem_applies :
  length (filter not_test ex3_p) = 3%nat /\
  api_apply (tt_opts false) [] ex3_p ex3_doc = ROut ex3_out /\
  api_apply (tt_opts false) [] (filter not_test ex3_p) ex3_doc = ROut ex3_out.
Proof.
  assert (A : api_apply (tt_opts false) [] ex3_p ex3_doc = ROut ex3_out) by (vm_compute; reflexivity).
  split; [vm_compute; reflexivity|]. split; [exact A|].
  apply (passing_tests_transparent_decoded (tt_opts false) [] ex3_patch ex3_p ex3_doc ex3_t ex3_out);
    try exact A; try (vm_compute; reflexivity). repeat split.
Qed.

Print Assumptions rfc_without_tests.
Print Assumptions render_cenc.
Print Assumptions step_canon.
Print Assumptions api_apply_canonical_bytes.
Print Assumptions passing_tests_transparent.
Print Assumptions tests_only_pass_or_fail.
Print Assumptions same_result_same_bytes.
Print Assumptions passing_tests_transparent_decoded.
Print Assumptions theorem_applies.
