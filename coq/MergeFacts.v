(* MergeFacts.v — laws of the RFC 7396 reference (Rfc7396.v): lookup characterisations of
   merge_patch / mm / diff on objects without duplicate names, preservation of "no duplicate
   names", the composition law (C07) and the round trip of diff (C03). *)
From Coq Require Import Lia.
From JP Require Import Bytes Json DecodeFacts JsonFacts Rfc7396.

Definition members_of (j : ojson) : list (bytes * ojson) := match j with OObj ms => ms | _ => [] end.
Definition or_null (o : option ojson) : ojson := match o with Some c => c | None => ONull end.
Definition is_null (j : ojson) : bool := match j with ONull => true | _ => false end.

Fixpoint merge_members (pms tms : list (bytes * ojson)) : list (bytes * ojson) :=
  match pms with
  | [] => tms
  | (k, v) :: rest =>
      match v with
      | ONull => merge_members rest (adel k tms)
      | _ => merge_members rest (aset k (merge_patch (or_null (aget k tms)) v) tms)
      end
  end.

Lemma merge_patch_obj t pms : merge_patch t (OObj pms) = OObj (merge_members pms (members_of t)).
Proof. reflexivity. Qed.

Lemma merge_patch_nonobj t p : (forall ms, p <> OObj ms) -> merge_patch t p = p.
Proof. destruct p; simpl; auto. intro H. exfalso. eapply H; eauto. Qed.

Lemma merge_members_notin k pms tms :
  ~ In k (map fst pms) -> aget k (merge_members pms tms) = aget k tms.
Proof.
  revert tms. induction pms as [|[k' v] pms IH]; intros tms H; simpl in *; auto.
  assert (Hk : bseq k k' = false) by (apply bseq_neq; intro; subst; auto).
  assert (Hr : ~ In k (map fst pms)) by auto.
  destruct v; rewrite (IH _ Hr); try apply aget_aset_other; try apply aget_adel_other; auto.
Qed.

Definition merge_lookup (p t : option ojson) : option ojson :=
  match p with
  | None => t
  | Some ONull => None
  | Some v => Some (merge_patch (or_null t) v)
  end.

Lemma merge_members_lookup k pms tms :
  NoDup (map fst pms) ->
  aget k (merge_members pms tms) = merge_lookup (aget k pms) (aget k tms).
Proof.
  revert tms. induction pms as [|[k' v] pms IH]; intros tms N; simpl in *; auto.
  inversion N; subst. destruct (bseq k k') eqn:E.
  - apply bseq_eq in E. subst k'.
    destruct v; rewrite merge_members_notin; auto; simpl;
      try apply aget_adel_same; try apply aget_aset_same.
  - destruct v; rewrite IH; auto; f_equal; try apply aget_aset_other; try apply aget_adel_other; auto.
Qed.

Lemma merge_members_nodup pms tms : NoDup (map fst tms) -> NoDup (map fst (merge_members pms tms)).
Proof.
  revert tms. induction pms as [|[k v] pms IH]; intros tms N; simpl; auto.
  destruct v; apply IH; try apply NoDup_keys_adel; try apply NoDup_keys_aset; auto.
Qed.

(* every value of the result is a value of the target or a merge result *)
Lemma onodup_members j : onodup j = true ->
  NoDup (map fst (members_of j)) /\ Forall (fun kv => onodup (snd kv) = true) (members_of j).
Proof.
  destruct j; simpl; intro H; try (split; constructor).
  apply onodup_obj in H. exact H.
Qed.

Lemma onodup_or_null (o : option ojson) ms k :
  Forall (fun kv => onodup (snd kv) = true) ms -> onodup (or_null (aget k ms)) = true.
Proof.
  intro H. destruct (aget k ms) eqn:E; simpl; auto. apply aget_In in E.
  rewrite Forall_forall in H. apply (H _ E).
Qed.

Lemma merge_patch_nodup p : forall t, onodup t = true -> onodup p = true -> onodup (merge_patch t p) = true.
Proof.
  induction p using ojson_rect'; intros t Nt Np; try exact Np.
  rewrite merge_patch_obj. apply onodup_obj in Np as [Np1 Np2].
  apply onodup_members in Nt as [Nt1 Nt2]. apply onodup_obj.
  generalize dependent (members_of t). clear t.
  induction ms as [|[k v] ms IH]; intros tms Nt1 Nt2; simpl.
  - split; auto.
  - inversion H; subst. inversion Np1; subst. inversion Np2; subst. simpl in *.
    assert (G : forall tms', NoDup (map fst tms') -> Forall (fun kv => onodup (snd kv) = true) tms' ->
                NoDup (map fst (merge_members ms tms')) /\ Forall (fun kv => onodup (snd kv) = true) (merge_members ms tms')).
    { intros. apply IH; auto. }
    destruct v; apply G; try apply NoDup_keys_adel; try apply NoDup_keys_aset; try apply Forall_adel; auto;
      apply Forall_aset; auto; intros; simpl; apply H2; auto; apply (onodup_or_null None); auto.
Qed.

(* ---- mm: combining two patches ---- *)
Fixpoint mm_members (ms2 acc : list (bytes * ojson)) : list (bytes * ojson) :=
  match ms2 with
  | [] => acc
  | (k, v) :: rest =>
      match v with
      | ONull => mm_members rest (aset k ONull acc)
      | _ =>
          match aget k acc with
          | Some ONull | None => mm_members rest (aset k v acc)
          | Some c => mm_members rest (aset k (mm c v) acc)
          end
      end
  end.

Lemma mm_obj ms1 ms2 : mm (OObj ms1) (OObj ms2) = OObj (mm_members ms2 ms1).
Proof. reflexivity. Qed.

Lemma mm_nonobj2 p1 p2 : (forall ms, p2 <> OObj ms) -> mm p1 p2 = p2.
Proof. destruct p2; simpl; auto. intro H. exfalso. eapply H; eauto. Qed.

Lemma mm_nonobj1 p1 ms2 : (forall ms, p1 <> OObj ms) -> mm p1 (OObj ms2) = OObj ms2.
Proof. destruct p1; simpl; auto. intro H. exfalso. eapply H; eauto. Qed.

Definition mm_lookup (v2 v1 : option ojson) : option ojson :=
  match v2 with
  | None => v1
  | Some ONull => Some ONull
  | Some v =>
      match v1 with
      | Some ONull | None => Some v
      | Some c => Some (mm c v)
      end
  end.

Lemma mm_members_notin k ms2 acc : ~ In k (map fst ms2) -> aget k (mm_members ms2 acc) = aget k acc.
Proof.
  revert acc. induction ms2 as [|[k' v] ms2 IH]; intros acc H; simpl in *; auto.
  assert (Hk : bseq k k' = false) by (apply bseq_neq; intro; subst; auto).
  assert (Hr : ~ In k (map fst ms2)) by auto.
  destruct v; try (rewrite (IH _ Hr); apply aget_aset_other; auto);
    destruct (aget k' acc) as [[]|]; rewrite (IH _ Hr); apply aget_aset_other; auto.
Qed.

Lemma mm_members_lookup k ms2 acc :
  NoDup (map fst ms2) -> aget k (mm_members ms2 acc) = mm_lookup (aget k ms2) (aget k acc).
Proof.
  revert acc. induction ms2 as [|[k' v] ms2 IH]; intros acc N; simpl in *; auto.
  inversion N; subst. destruct (bseq k k') eqn:E.
  - apply bseq_eq in E. subst k'.
    destruct v; try (rewrite mm_members_notin; auto; simpl; apply aget_aset_same);
      simpl; destruct (aget k acc) as [[]|]; rewrite mm_members_notin; auto; apply aget_aset_same.
  - destruct v; try (rewrite IH; auto; f_equal; apply aget_aset_other; auto);
      destruct (aget k' acc) as [[]|]; rewrite IH; auto; f_equal; apply aget_aset_other; auto.
Qed.

Lemma mm_members_nodup ms2 acc : NoDup (map fst acc) -> NoDup (map fst (mm_members ms2 acc)).
Proof.
  revert acc. induction ms2 as [|[k v] ms2 IH]; intros acc N; simpl; auto.
  destruct v; try (apply IH; apply NoDup_keys_aset; auto);
    destruct (aget k acc) as [[]|]; apply IH; apply NoDup_keys_aset; auto.
Qed.

Lemma mm_nodup p2 : forall p1, onodup p1 = true -> onodup p2 = true -> onodup (mm p1 p2) = true.
Proof.
  induction p2 using ojson_rect'; intros p1 N1 N2; try exact N2.
  destruct p1; try exact N2.
  rewrite mm_obj. apply onodup_obj in N2 as [Na Nb]. apply onodup_obj in N1 as [Nc Nd]. apply onodup_obj.
  revert ms0 Nc Nd. induction ms as [|[k v] ms IH]; intros acc Nc Nd; simpl.
  - split; auto.
  - inversion H; subst. inversion Na; subst. inversion Nb; subst. simpl in *.
    assert (G : forall acc', NoDup (map fst acc') -> Forall (fun kv => onodup (snd kv) = true) acc' ->
                NoDup (map fst (mm_members ms acc')) /\ Forall (fun kv => onodup (snd kv) = true) (mm_members ms acc')).
    { intros. apply IH; auto. }
    assert (S1 : forall w, onodup w = true -> Forall (fun kv => onodup (snd kv) = true) (aset k w acc)).
    { intros. apply Forall_aset; auto. }
    destruct v; try (apply G; [apply NoDup_keys_aset; auto | apply S1; auto]);
      destruct (aget k acc) as [c|] eqn:Ec; try (apply G; [apply NoDup_keys_aset; auto | apply S1; auto]);
      assert (Hc : onodup c = true) by (apply aget_In in Ec; rewrite Forall_forall in Nd; apply (Nd _ Ec));
      destruct c; apply G; try apply NoDup_keys_aset; auto; apply S1; auto; apply H2; auto.
Qed.

Lemma mm_nonnull c v : v <> ONull -> mm c v <> ONull.
Proof. destruct v; simpl; try congruence. destruct c; congruence. Qed.

Arguments merge_patch : simpl never.
Arguments mm : simpl never.
Arguments compatible : simpl never.

(* ---- C07: the composition law ---- *)
Lemma compatible_obj p1 ms2 : compatible p1 (OObj ms2) = true ->
  exists ms1, p1 = OObj ms1 /\
    forall k v c, In (k, v) ms2 -> aget k ms1 = Some c -> (exists ms, v = OObj ms) -> compatible c v = true.
Proof.
  destruct p1; simpl; try discriminate. intro H. exists ms. split; auto.
  induction ms2 as [|[k v] ms2 IH]; intros k' v' c Hin Hc Hv; [destruct Hin|].
  apply andb_prop in H as [H1 H2]. destruct Hin as [E|Hin].
  - inversion E; subst. rewrite Hc in H1. destruct Hv as [ms' ->]. exact H1.
  - eapply IH; eauto.
Qed.

Lemma compatible_nonobj p1 p2 : (forall ms, p2 <> OObj ms) -> compatible p1 p2 = true.
Proof. destruct p2; simpl; auto. intro H. exfalso. eapply H; eauto. Qed.

Definition is_obj (j : ojson) : bool := match j with OObj _ => true | _ => false end.
Lemma is_obj_false j : is_obj j = false -> forall ms, j <> OObj ms.
Proof. destruct j; simpl; congruence. Qed.
Lemma is_obj_true j : is_obj j = true -> exists ms, j = OObj ms.
Proof. destruct j; simpl; try discriminate. eauto. Qed.
Lemma null_dec (j : ojson) : {j = ONull} + {j <> ONull}.
Proof. destruct j; auto; right; discriminate. Qed.

Lemma merge_lookup_nonnull v t : v <> ONull -> merge_lookup (Some v) t = Some (merge_patch (or_null t) v).
Proof. destruct v; simpl; congruence. Qed.
Lemma mm_lookup_null v1 : mm_lookup (Some ONull) v1 = Some ONull.
Proof. reflexivity. Qed.
Lemma mm_lookup_fresh v v1 : v <> ONull -> v1 = None \/ v1 = Some ONull -> mm_lookup (Some v) v1 = Some v.
Proof. intros H [->| ->]; destruct v; simpl; congruence. Qed.
Lemma mm_lookup_both v c : v <> ONull -> c <> ONull -> mm_lookup (Some v) (Some c) = Some (mm c v).
Proof. intros H1 H2. destruct v; try congruence; destruct c; simpl; congruence. Qed.

Theorem compose_law p2 : forall d p1,
  onodup d = true -> onodup p1 = true -> onodup p2 = true -> compatible p1 p2 = true ->
  jeq (merge_patch d (mm p1 p2)) (merge_patch (merge_patch d p1) p2) = true.
Proof.
  induction p2 using ojson_rect'; intros d p1 Nd N1 N2 C;
    try (rewrite mm_nonobj2 by (intros; discriminate); rewrite !merge_patch_nonobj by (intros; discriminate);
         apply jeq_refl; exact N2).
  apply compatible_obj in C as [ms1 [-> C]].
  rewrite mm_obj, !merge_patch_obj. simpl members_of at 2.
  pose proof (onodup_members d Nd) as [Nd1 Nd2]. set (dms := members_of d) in *.
  apply onodup_obj in N1 as [N1a N1b]. apply onodup_obj in N2 as [N2a N2b].
  assert (NL : NoDup (map fst (merge_members (mm_members ms ms1) dms))) by (apply merge_members_nodup; auto).
  assert (NR : NoDup (map fst (merge_members ms (merge_members ms1 dms)))) by (apply merge_members_nodup, merge_members_nodup; auto).
  assert (NM : NoDup (map fst (mm_members ms ms1))) by (apply mm_members_nodup; auto).
  apply jeq_obj_char; auto. intro k.
  rewrite !merge_members_lookup, mm_members_lookup; auto.
  assert (Ndk : onodup (or_null (aget k dms)) = true) by (apply (onodup_or_null None); auto).
  destruct (aget k ms) as [v2|] eqn:E2.
  - (* P2 mentions k *)
    assert (Hin2 : In (k, v2) ms) by (apply aget_In; auto).
    assert (Nv2 : onodup v2 = true) by (rewrite Forall_forall in N2b; apply (N2b _ Hin2)).
    assert (IHv : forall d' p1', onodup d' = true -> onodup p1' = true -> compatible p1' v2 = true ->
                    jeq (merge_patch d' (mm p1' v2)) (merge_patch (merge_patch d' p1') v2) = true).
    { intros. rewrite Forall_forall in H. apply (H _ Hin2); auto. }
    destruct (null_dec v2) as [->|NN2]; [rewrite mm_lookup_null; exact I|].
    rewrite (merge_lookup_nonnull v2) by exact NN2.
    destruct (aget k ms1) as [c|] eqn:E1.
    + assert (Hin1 : In (k, c) ms1) by (apply aget_In; auto).
      assert (Nc : onodup c = true) by (rewrite Forall_forall in N1b; apply (N1b _ Hin1)).
      destruct (null_dec c) as [->|NNc].
      * rewrite mm_lookup_fresh by auto. rewrite merge_lookup_nonnull by exact NN2. simpl.
        destruct (is_obj v2) eqn:O2.
        -- apply is_obj_true in O2 as [ms0 ->]. specialize (C _ _ _ Hin2 E1 (ex_intro _ ms0 eq_refl)). discriminate.
        -- rewrite !merge_patch_nonobj by (apply is_obj_false; auto). apply jeq_refl; auto.
      * rewrite mm_lookup_both by auto. rewrite !merge_lookup_nonnull by (auto using mm_nonnull). simpl.
        apply IHv; auto.
        destruct (is_obj v2) eqn:O2.
        -- apply is_obj_true in O2 as [ms0 ->]. eapply C; eauto.
        -- apply compatible_nonobj. apply is_obj_false; auto.
    + rewrite mm_lookup_fresh by auto. rewrite merge_lookup_nonnull by exact NN2. simpl.
      apply jeq_refl. apply merge_patch_nodup; auto.
  - (* P2 does not mention k: both sides are D merged with P1 at k *)
    simpl. destruct (aget k ms1) as [c|] eqn:E1.
    + assert (Hin1 : In (k, c) ms1) by (apply aget_In; auto).
      assert (Nc : onodup c = true) by (rewrite Forall_forall in N1b; apply (N1b _ Hin1)).
      destruct (null_dec c) as [->|NNc]; [exact I|].
      rewrite merge_lookup_nonnull by exact NNc. simpl. apply jeq_refl. apply merge_patch_nodup; auto.
    + simpl. destruct (aget k dms) eqn:Ed; simpl; auto. apply jeq_refl.
      apply aget_In in Ed. rewrite Forall_forall in Nd2. apply (Nd2 _ Ed).
Qed.

(* the side condition cannot be dropped: a witness *)
Example compose_law_needs_compat :
  let d := OObj [(B "a", OObj [(B "x", ONum (B "1"))])] in
  let p1 := OObj [(B "a", ONull)] in
  let p2 := OObj [(B "a", OObj [(B "y", ONum (B "2"))])] in
  compatible p1 p2 = false /\
  jeq (merge_patch d (mm p1 p2)) (merge_patch (merge_patch d p1) p2) = false.
Proof. vm_compute. split; reflexivity. Qed.

(* ---- C03: diff ---- *)
Arguments jeq : simpl never.

Fixpoint diff_members (ams bms : list (bytes * ojson)) : list (bytes * ojson) :=
  match bms with
  | [] => []
  | (k, bv) :: rest =>
      match aget k ams with
      | None => (k, bv) :: diff_members ams rest
      | Some av =>
          match av, bv with
          | OObj _, OObj _ =>
              match diff av bv with
              | OObj [] => diff_members ams rest
              | dd => (k, dd) :: diff_members ams rest
              end
          | _, _ => if jeq av bv then diff_members ams rest else (k, bv) :: diff_members ams rest
          end
      end
  end.

Definition diff_dels (ams bms : list (bytes * ojson)) : list (bytes * ojson) :=
  map (fun kv => (fst kv, ONull)) (filter (fun kv => negb (amem (fst kv) bms)) ams).

Lemma diff_obj ams bms : diff (OObj ams) (OObj bms) = OObj (diff_members ams bms ++ diff_dels ams bms).
Proof.
  unfold diff_dels. cbn [diff]. f_equal. f_equal.
  induction bms as [|[k bv] bms IH]; cbn [diff_members]; auto.
  destruct (aget k ams) as [av|]; [|now rewrite IH].
  destruct av, bv; try (destruct (jeq _ _); now rewrite IH).
  rewrite IH. reflexivity.
Qed.

Lemma diff_nonobj a b : is_obj a && is_obj b = false -> diff a b = b.
Proof. destruct a, b; simpl; auto; discriminate. Qed.

Arguments diff : simpl never.

(* what the difference says about one name *)
Definition diff_entry (av : option ojson) (bv : ojson) : option ojson :=
  match av with
  | None => Some bv
  | Some a =>
      if is_obj a && is_obj bv then
        match diff a bv with OObj [] => None | dd => Some dd end
      else if jeq a bv then None else Some bv
  end.

Ltac destruct_diff :=
  match goal with |- context [diff (OObj ?a) (OObj ?b)] => destruct (diff (OObj a) (OObj b)) as [| | | | |[|]] end.

Lemma diff_members_keys ams bms k : In k (map fst (diff_members ams bms)) -> In k (map fst bms).
Proof.
  induction bms as [|[k' bv] bms IH]; simpl; auto.
  destruct (aget k' ams) as [av|].
  - destruct av, bv; try (destruct (jeq _ _); simpl; intuition; fail).
    destruct_diff; simpl; intuition.
  - simpl. intuition.
Qed.

Lemma diff_members_nodup ams bms : NoDup (map fst bms) -> NoDup (map fst (diff_members ams bms)).
Proof.
  induction bms as [|[k' bv] bms IH]; simpl; intro N; [constructor|]. inversion N; subst.
  assert (G : forall x, NoDup (map fst ((k', x) :: diff_members ams bms))).
  { intro x. simpl. constructor; auto. intro Hin. apply diff_members_keys in Hin. auto. }
  destruct (aget k' ams) as [av|]; [|apply G].
  destruct av, bv; try (destruct (jeq _ _); [auto | apply G]).
  destruct_diff; auto; apply G.
Qed.

Lemma diff_members_lookup ams bms k :
  NoDup (map fst bms) ->
  aget k (diff_members ams bms) =
  match aget k bms with Some bv => diff_entry (aget k ams) bv | None => None end.
Proof.
  induction bms as [|[k' bv] bms IH]; simpl; intro N; auto. inversion N; subst.
  assert (Hn : bseq k k' = true -> aget k (diff_members ams bms) = None).
  { intro E. apply bseq_eq in E. subst. apply aget_None_notin. intro Hin. apply diff_members_keys in Hin. auto. }
  destruct (bseq k k') eqn:E.
  - rewrite <- (bseq_eq _ _ E) in *. clear E. unfold diff_entry.
    destruct (aget k ams) as [av|]; [|simpl; now rewrite bseq_refl].
    destruct av, bv; simpl is_obj; cbn [andb];
      try (destruct (jeq _ _); [apply Hn; reflexivity | simpl; now rewrite bseq_refl]).
    destruct_diff; try (simpl; now rewrite bseq_refl).
    apply Hn; reflexivity.
  - assert (G : forall x, aget k ((k', x) :: diff_members ams bms) = aget k (diff_members ams bms))
      by (intro; simpl; now rewrite E).
    rewrite <- (IH H2).
    destruct (aget k' ams) as [av|]; [|apply G].
    destruct av, bv; try (destruct (jeq _ _); [reflexivity | apply G]).
    destruct_diff; try apply G. reflexivity.
Qed.

Lemma diff_dels_lookup ams bms k :
  aget k (diff_dels ams bms) =
  match aget k ams with Some _ => if amem k bms then None else Some ONull | None => None end.
Proof.
  unfold diff_dels. induction ams as [|[k' av] ams IH]; simpl; auto.
  destruct (bseq k k') eqn:E.
  - apply bseq_eq in E. subst k'. destruct (amem k bms) eqn:M; simpl.
    + rewrite IH. destruct (aget k ams); auto; try (rewrite M; auto).
    + now rewrite bseq_refl.
  - destruct (amem k' bms); simpl; [|rewrite E]; apply IH.
Qed.

Lemma diff_dels_keys ams bms k : In k (map fst (diff_dels ams bms)) -> In k (map fst ams) /\ ~ In k (map fst bms).
Proof.
  unfold diff_dels. rewrite map_map. simpl. intro H. apply in_map_iff in H as [[k' v] [E H]]. simpl in E. subst k'.
  apply filter_In in H as [H1 H2]. simpl in H2. split.
  - apply in_map_iff. exists (k, v). auto.
  - intro Hin. apply amem_In in Hin. rewrite Hin in H2. discriminate.
Qed.

Lemma diff_dels_nodup ams bms : NoDup (map fst ams) -> NoDup (map fst (diff_dels ams bms)).
Proof.
  unfold diff_dels. rewrite map_map. simpl. induction ams as [|[k v] ams IH]; simpl; intro N; [constructor|].
  inversion N; subst. destruct (amem k bms); simpl; auto. constructor; auto.
  intro Hin. apply in_map_iff in Hin as [[k' v'] [E Hin]]. simpl in E. subst k'. apply filter_In in Hin as [Hin _].
  apply H1. apply in_map_iff. exists (k, v'). auto.
Qed.

Lemma aget_app {A} k (l m : list (bytes * A)) :
  aget k (l ++ m) = match aget k l with Some v => Some v | None => aget k m end.
Proof. induction l as [|[k' v] l IH]; simpl; auto. destruct (bseq k k'); auto. Qed.

Lemma diff_patch_nodup ams bms :
  NoDup (map fst ams) -> NoDup (map fst bms) -> NoDup (map fst (diff_members ams bms ++ diff_dels ams bms)).
Proof.
  intros Na Nb. rewrite map_app. apply NoDup_app_intro.
  - apply diff_members_nodup; auto.
  - apply diff_dels_nodup; auto.
  - intros k H1 H2. apply diff_members_keys in H1. apply diff_dels_keys in H2 as [_ H2]. auto.
Qed.

Lemma no_null_member_obj ms :
  no_null_member (OObj ms) = true <->
  Forall (fun kv => snd kv <> ONull /\ no_null_member (snd kv) = true) ms.
Proof.
  cbn [no_null_member]. rewrite forallb_forall, Forall_forall. split; intros H kv Hin; specialize (H kv Hin).
  - apply andb_prop in H as [H1 H2]. split; auto. intro E. rewrite E in H1. discriminate.
  - destruct H as [H1 H2]. rewrite H2. destruct (snd kv); try reflexivity. congruence.
Qed.

Lemma merge_fresh v : forall t, onodup v = true -> no_null_member v = true -> is_obj t = false ->
  jeq (merge_patch t v) v = true.
Proof.
  induction v using ojson_rect'; intros t N NN T;
    try (rewrite merge_patch_nonobj by (intros; discriminate); apply jeq_refl; exact N).
  rewrite merge_patch_obj. replace (members_of t) with (@nil (bytes * ojson)) by (destruct t; simpl in *; auto; discriminate).
  apply onodup_obj in N as [N1 N2]. apply no_null_member_obj in NN.
  apply jeq_obj_char; auto. { apply merge_members_nodup. constructor. }
  intro k. rewrite merge_members_lookup by auto. simpl (aget k []).
  destruct (aget k ms) as [v'|] eqn:E; [|exact I].
  apply aget_In in E. rewrite Forall_forall in H, N2, NN. destruct (NN _ E) as [Q1 Q2]. simpl in Q1, Q2.
  rewrite merge_lookup_nonnull by auto. simpl. apply (H _ E); auto; apply (N2 _ E).
Qed.

Lemma merge_empty_patch ams : merge_patch (OObj ams) (OObj []) = OObj ams.
Proof. reflexivity. Qed.

Lemma diff_is_obj ams bms : exists ms, diff (OObj ams) (OObj bms) = OObj ms.
Proof. rewrite diff_obj. eauto. Qed.

Lemma diff_patch_lookup ams bms k :
  NoDup (map fst bms) ->
  aget k (diff_members ams bms ++ diff_dels ams bms) =
  match aget k bms with
  | Some bv => diff_entry (aget k ams) bv
  | None => match aget k ams with Some _ => Some ONull | None => None end
  end.
Proof.
  intro Nb. rewrite aget_app, diff_members_lookup, diff_dels_lookup by auto.
  unfold amem. destruct (aget k bms) as [bv|].
  - destruct (diff_entry (aget k ams) bv); auto. destruct (aget k ams); auto.
  - reflexivity.
Qed.

(* C03: applying the difference to A gives B *)
Theorem diff_roundtrip b : forall a,
  onodup a = true -> onodup b = true -> no_null_member b = true -> is_obj a = true -> is_obj b = true ->
  jeq (merge_patch a (diff a b)) b = true.
Proof.
  induction b using ojson_rect'; intros a Na Nb NN Oa Ob; try discriminate.
  apply is_obj_true in Oa as [ams ->]. rename ms into bms.
  rewrite diff_obj, merge_patch_obj. simpl members_of.
  apply onodup_obj in Na as [Na1 Na2]. apply onodup_obj in Nb as [Nb1 Nb2]. apply no_null_member_obj in NN.
  pose proof (diff_patch_nodup ams bms Na1 Nb1) as NP.
  apply jeq_obj_char; auto. { apply merge_members_nodup; auto. }
  intro k. rewrite merge_members_lookup by auto. rewrite diff_patch_lookup by auto.
  rewrite Forall_forall in H, Na2, Nb2, NN.
  destruct (aget k bms) as [bv|] eqn:Eb.
  - apply aget_In in Eb. destruct (NN _ Eb) as [Q1 Q2]. pose proof (Nb2 _ Eb) as Q3. simpl in Q1, Q2, Q3.
    unfold diff_entry. destruct (aget k ams) as [av|] eqn:Ea.
    + apply aget_In in Ea. pose proof (Na2 _ Ea) as Q4. simpl in Q4.
      destruct (is_obj av && is_obj bv) eqn:OO.
      * apply andb_prop in OO as [O1 O2].
        pose proof (H _ Eb av Q4 Q3 Q2 O1 O2) as IH. simpl in IH.
        apply is_obj_true in O1 as [ams' ->]. apply is_obj_true in O2 as [bms' ->].
        destruct (diff_is_obj ams' bms') as [dm Ed]. rewrite Ed in *.
        destruct dm as [|e dm].
        -- simpl. rewrite merge_empty_patch in IH. exact IH.
        -- rewrite merge_lookup_nonnull by discriminate. exact IH.
      * destruct (jeq av bv) eqn:J; [exact J|].
        rewrite merge_lookup_nonnull by auto. simpl.
        destruct (is_obj bv) eqn:O2.
        -- rewrite andb_true_r in OO. apply merge_fresh; auto.
        -- rewrite merge_patch_nonobj by (apply is_obj_false; auto). apply jeq_refl; auto.
    + rewrite merge_lookup_nonnull by auto. simpl. apply merge_fresh; auto.
  - destruct (aget k ams); exact I.
Qed.

(* C03: minimality.  The patch is {} exactly when A and B are equal *)
Lemma all_none_nil {A} (l : list (bytes * A)) : (forall k, aget k l = None) -> l = [].
Proof. destruct l as [|[k v] l]; auto. intro H. specialize (H k). simpl in H. rewrite bseq_refl in H. discriminate. Qed.

Theorem diff_empty_iff b : forall a,
  onodup a = true -> onodup b = true -> is_obj a = true -> is_obj b = true ->
  (diff a b = OObj [] <-> jeq a b = true).
Proof.
  induction b using ojson_rect'; intros a Na Nb Oa Ob; try discriminate.
  apply is_obj_true in Oa as [ams ->]. rename ms into bms.
  apply onodup_obj in Na as [Na1 Na2]. apply onodup_obj in Nb as [Nb1 Nb2].
  rewrite diff_obj. rewrite jeq_obj_char by auto.
  rewrite Forall_forall in H, Na2, Nb2.
  assert (Step : forall k, aget k (diff_members ams bms ++ diff_dels ams bms) = None <->
                           lookup_rel (fun x y => jeq x y = true) (aget k ams) (aget k bms)).
  { intro k. rewrite diff_patch_lookup by auto. unfold lookup_rel, diff_entry.
    destruct (aget k bms) as [bv|] eqn:Eb.
    - apply aget_In in Eb. pose proof (Nb2 _ Eb) as Q3. simpl in Q3.
      destruct (aget k ams) as [av|] eqn:Ea; [|split; [discriminate | tauto]].
      apply aget_In in Ea. pose proof (Na2 _ Ea) as Q4. simpl in Q4.
      destruct (is_obj av && is_obj bv) eqn:OO.
      + apply andb_prop in OO as [O1 O2]. pose proof (H _ Eb av Q4 Q3 O1 O2) as IH. simpl in IH.
        apply is_obj_true in O1 as [ams' ->]. apply is_obj_true in O2 as [bms' ->].
        destruct (diff_is_obj ams' bms') as [dm Ed]. rewrite Ed in *.
        destruct dm as [|e dm]; split; intro G; auto; try discriminate.
        * apply IH; auto.
        * apply IH in G. discriminate.
      + destruct (jeq av bv); split; auto; discriminate.
    - destruct (aget k ams); split; auto; try discriminate; tauto. }
  split.
  - intros E k. apply Step. inversion E as [E']. rewrite E'. reflexivity.
  - intro G. f_equal. apply all_none_nil. intro k. apply Step. apply G.
Qed.

(* every member the patch mentions differs between A and B; removed members are null; the
   values it carries are B's own values, verbatim (so number literals are unchanged), or the
   difference of two objects *)
Theorem diff_mentions ams bms k v :
  NoDup (map fst ams) -> NoDup (map fst bms) ->
  Forall (fun kv => onodup (snd kv) = true) ams -> Forall (fun kv => onodup (snd kv) = true) bms ->
  aget k (members_of (diff (OObj ams) (OObj bms))) = Some v ->
  ~ lookup_rel (fun x y => jeq x y = true) (aget k ams) (aget k bms) /\
  (   (aget k bms = None /\ v = ONull /\ aget k ams <> None)
   \/ (aget k bms = Some v)
   \/ (exists av bv, aget k ams = Some av /\ aget k bms = Some bv /\ is_obj av = true /\ is_obj bv = true /\
                     v = diff av bv)).
Proof.
  intros Na1 Nb1 Na2 Nb2. rewrite diff_obj. simpl members_of. rewrite diff_patch_lookup by auto.
  rewrite Forall_forall in Na2, Nb2. unfold diff_entry, lookup_rel.
  destruct (aget k bms) as [bv|] eqn:Eb.
  - apply aget_In in Eb. pose proof (Nb2 _ Eb) as Q3. simpl in Q3.
    destruct (aget k ams) as [av|] eqn:Ea.
    + apply aget_In in Ea. pose proof (Na2 _ Ea) as Q4. simpl in Q4.
      destruct (is_obj av && is_obj bv) eqn:OO.
      * apply andb_prop in OO as [O1 O2].
        pose proof (diff_empty_iff bv av Q4 Q3 O1 O2) as M.
        destruct (diff av bv) as [| | | | |[|e dm]] eqn:Ed; intro G; inversion G; subst; split;
          try (intro J; apply M in J; discriminate); right; right; exists av, bv; auto.
      * destruct (jeq av bv) eqn:J; intro G; inversion G; subst. split; [congruence|]. right; left; auto.
    + intro G; inversion G; subst. split; auto.
  - destruct (aget k ams) eqn:Ea; intro G; inversion G; subst. split; auto. left. repeat split; congruence.
Qed.
