(* V4EqualDomain.v — statements about the legacy package restricted to, or strengthened for, the
   domain the properties speak about.

   1. Equal on object- and array-rooted texts.  The Go legacy Equal answers true for the pairs
      (null, {}), ({}, null), ([], null): a lazy node unmarshalled from the text null is the nil
      pointer, and the comparison of a nil node falls through the type switch.  The model's
      api_equal4 answers Some false there (api_equal4_null_root below), so api_equal4_spec and
      api_equal4_sound of V4EqualFacts.v, which carry no hypothesis on the root, say something about
      null-rooted texts that is not true of the library.  The property restricts Equal to texts
      whose root is an object or an array; the corollaries below carry that restriction
      (Domain.root_container) and are the ones Properties/C19.v states.

   2. The bytes MergePatch / MergeMergePatches return.  api_merge4_output_bytes and
      api_mergemerge4_output_bytes of OutputFacts.v conclude jeq (den t') spec = true only; jeq
      looks members of its LEFT argument up in the right one after comparing the lengths, so with a
      repeated name on the left it is one-sided (jeq_onesided_with_repeated_name below).  The strong
      forms add onodup (den t') = true, which render4_den provides and the weak proofs dropped;
      same shape as api_apply4_output_bytes (C18_apply_output_bytes). *)
From JP Require Import Bytes Json Text Strings Scan Den Rfc7396 ImplV5 ImplMerge ImplV4 Domain JsonFacts MergeFacts
  Abs ImplMergeFacts ParseFacts Codec V4MergeFacts V4EqualFacts PrintParse ScannerParse OutputFacts.

(* ================================================================================================ *)
(* 1. Equal on container roots                                                                       *)
(* ================================================================================================ *)
Theorem api_equal4_spec_container a b ta tb :
  parse a = Some ta -> parse b = Some tb -> root_container ta = true -> root_container tb = true ->
  tnodup ta = true -> tnodup tb = true -> tplain ta = true -> tplain tb = true ->
  api_equal4 a b = Some (jeq (den ta) (den tb)).
Proof. intros Pa Pb _ _. exact (api_equal4_spec a b ta tb Pa Pb). Qed.

Theorem api_equal4_sound_container a b ta tb :
  parse a = Some ta -> parse b = Some tb -> root_container ta = true -> root_container tb = true ->
  tnodup ta = true -> tnodup tb = true ->
  api_equal4 a b = Some true -> jeq (den ta) (den tb) = true.
Proof. intros Pa Pb _ _. exact (api_equal4_sound a b ta tb Pa Pb). Qed.

(* the model at the null root: Some false, where the Go function answers true.  These inputs are
   OUTSIDE the domain of the two theorems above (root_container TNull = false). *)
Example api_equal4_null_root :
  api_equal4 (B "null") (B "{}") = Some false /\ api_equal4 (B "{}") (B "null") = Some false /\
  api_equal4 (B "[]") (B "null") = Some false /\
  root_container TNull = false /\ parse (B "null") = Some TNull.
Proof. vm_compute. repeat split; reflexivity. Qed.

(* ================================================================================================ *)
(* 2. output bytes of the legacy merge functions, with the no-duplicate half                         *)
(* ================================================================================================ *)
(* why jeq alone is too weak: a left argument that repeats a name *)
Example jeq_onesided_with_repeated_name :
  jeq (OObj [(B "a", ONum (B "1")); (B "a", ONum (B "1"))]) (OObj [(B "a", ONum (B "1")); (B "b", ONum (B "2"))]) = true /\
  jeq (OObj [(B "a", ONum (B "1")); (B "b", ONum (B "2"))]) (OObj [(B "a", ONum (B "1")); (B "a", ONum (B "1"))]) = false.
Proof. vm_compute. split; reflexivity. Qed.

Theorem api_merge4_output_bytes_strong doc patch td tp :
  parse doc = Some td -> parse patch = Some tp -> td <> TNull -> tnodup td = true -> tnodup tp = true ->
  scalar_text tp = false ->
  exists out t', api_merge4 false doc patch = MOut out /\ parse out = Some t' /\
                 jeq (den t') (merge_patch (den td) (den tp)) = true /\ onodup (den t') = true /\
                 valid_gen out = true.
Proof.
  intros Pd Pp NN Td Tp Sc.
  destruct (merge4_node_spec td tp NN Td Tp Sc) as [W V].
  destruct (merge4_node_output false td tp (parse_twf _ _ Pd) (parse_twf _ _ Pp)) as [O [TR NS]].
  destruct (render4_den _ W (nstr_nku _ NS)) as [ND J].
  exists (marshal4 (merge4_node false td tp)), (escape_tree true (render4 (merge4_node false td tp))).
  split; [eapply api_merge4_node; eauto|]. split; [exact O|].
  rewrite escape_tree_den by (apply tok_tsb; exact TR). split; [rewrite <- V; exact J|].
  split; [exact ND | apply valid_gen_iff_parse; eauto].
Qed.

Theorem api_mergemerge4_output_bytes_strong p1 p2 ms1 t2 :
  parse p1 = Some (TObj ms1) -> parse p2 = Some t2 -> tnodup (TObj ms1) = true -> tnodup t2 = true ->
  compatible (den (TObj ms1)) (den t2) = true -> scalar_text t2 = false ->
  exists out t', api_merge4 true p1 p2 = MOut out /\ parse out = Some t' /\
                 jeq (den t') (mm (den (TObj ms1)) (den t2)) = true /\ onodup (den t') = true /\
                 valid_gen out = true.
Proof.
  intros P1 P2 T1 T2 C Sc.
  destruct (merge4_node_mm_spec ms1 t2 T1 T2 C Sc) as [W V].
  destruct (merge4_node_output true (TObj ms1) t2 (parse_twf _ _ P1) (parse_twf _ _ P2)) as [O [TR NS]].
  destruct (render4_den _ W (nstr_nku _ NS)) as [ND J].
  exists (marshal4 (merge4_node true (TObj ms1) t2)), (escape_tree true (render4 (merge4_node true (TObj ms1) t2))).
  split; [eapply api_merge4_node; eauto; discriminate|]. split; [exact O|].
  rewrite escape_tree_den by (apply tok_tsb; exact TR). split; [rewrite <- V; exact J|].
  split; [exact ND | apply valid_gen_iff_parse; eauto].
Qed.

(* with both halves the comparison is symmetric: the output and the specified value are equal up to
   member order in both directions *)
Corollary api_merge4_output_bytes_both doc patch td tp :
  parse doc = Some td -> parse patch = Some tp -> td <> TNull -> tnodup td = true -> tnodup tp = true ->
  scalar_text tp = false ->
  exists out t', api_merge4 false doc patch = MOut out /\ parse out = Some t' /\
                 jeq (den t') (merge_patch (den td) (den tp)) = true /\
                 jeq (merge_patch (den td) (den tp)) (den t') = true.
Proof.
  intros Pd Pp NN Td Tp Sc.
  destruct (api_merge4_output_bytes_strong doc patch td tp Pd Pp NN Td Tp Sc) as [out [t' [A [P [J [N _]]]]]].
  exists out, t'. split; [exact A|]. split; [exact P|]. split; [exact J|].
  apply jeq_sym; [exact N | | exact J].
  apply merge_patch_nodup; [exact Td | exact Tp].
Qed.

Print Assumptions api_equal4_spec_container.
Print Assumptions api_equal4_sound_container.
Print Assumptions api_merge4_output_bytes_strong.
Print Assumptions api_mergemerge4_output_bytes_strong.
Print Assumptions api_merge4_output_bytes_both.
