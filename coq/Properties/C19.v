(* C19 — legacy root package: merge patches and Equal.
   The legacy package implements the same RFC 7396 functions; the laws below are the ones proved
   once at the level of the reference (MergeFacts.v) and are what the correspondence judges the
   staged legacy package against on every run (MergePatch vs merge_patch, CreateMergePatch vs diff
   on float-stable numbers, MergeMergePatches vs mm under compatibility, Equal vs jeq on
   escape-free texts).  The refinement of the legacy model (ImplV4.v) to these references is proved
   in V4MergeFacts.v (prune4_t, merge4_n in both modes, api_merge4) and V4EqualFacts.v (equal4,
   api_equal4), on the value aval4 a legacy node denotes (members in the order of the model's
   association list; marshal4 then sorts the names). *)
From JP Require Import Bytes Json Text Strings Den Rfc7396 ImplV5 ImplMerge ImplV4 JsonFacts MergeFacts
  Abs ImplMergeFacts Codec V4MergeFacts V4EqualFacts Domain V4EqualDomain.

Theorem C19_compose_law : forall d p1 p2,
  onodup d = true -> onodup p1 = true -> onodup p2 = true -> compatible p1 p2 = true ->
  jeq (merge_patch d (mm p1 p2)) (merge_patch (merge_patch d p1) p2) = true.
Proof. intros d p1 p2. exact (compose_law p2 d p1). Qed.
Print Assumptions C19_compose_law.

Theorem C19_create_roundtrip : forall a b,
  onodup a = true -> onodup b = true -> no_null_member b = true -> is_obj a = true -> is_obj b = true ->
  jeq (merge_patch a (diff a b)) b = true.
Proof. intros a b. exact (diff_roundtrip b a). Qed.
Print Assumptions C19_create_roundtrip.

Theorem C19_create_minimal : forall a b,
  onodup a = true -> onodup b = true -> is_obj a = true -> is_obj b = true ->
  (diff a b = OObj [] <-> jeq a b = true).
Proof. intros a b. exact (diff_empty_iff b a). Qed.
Print Assumptions C19_create_minimal.

(* structural equality, the relation the legacy Equal is compared with, is an equivalence *)
Theorem C19_equality_is_equivalence : forall a b c,
  onodup a = true -> onodup b = true -> onodup c = true ->
  jeq a a = true /\ (jeq a b = true -> jeq b a = true) /\ (jeq a b = true -> jeq b c = true -> jeq a c = true).
Proof.
  intros a b c Na Nb Nc. split; [apply jeq_refl; auto|]. split; [apply jeq_sym; auto | apply jeq_trans; auto].
Qed.
Print Assumptions C19_equality_is_equivalence.

(* ---- the legacy model refines the references ---- *)
Theorem C19_prune4 : forall t,
  tnodup t = true -> aval4 (prune4_t t) = merge_patch ONull (den t) /\ nwf4 (prune4_t t).
Proof. exact prune4_t_spec. Qed.
Print Assumptions C19_prune4.

Theorem C19_merge4_refines : forall fuel p cur,
  (tsize p < fuel)%nat -> tnodup p = true -> nwf4 cur ->
  aval4 (merge4_n fuel false cur p) = merge_patch (aval4 cur) (den p) /\ nwf4 (merge4_n fuel false cur p).
Proof. exact merge4_n_spec. Qed.
Print Assumptions C19_merge4_refines.

Theorem C19_merge4_refines_jeq : forall fuel p cur,
  (tsize p < fuel)%nat -> tnodup p = true -> nwf4 cur ->
  jeq (aval4 (merge4_n fuel false cur p)) (merge_patch (aval4 cur) (den p)) = true.
Proof. exact merge4_n_jeq. Qed.
Print Assumptions C19_merge4_refines_jeq.

Theorem C19_mergemerge4_refines : forall fuel p cur,
  (tsize p < fuel)%nat -> tnodup p = true -> p <> TNull -> nwf4 cur -> nclean cur = true ->
  (is_obj (den p) = true -> compatible (aval4 cur) (den p) = true) ->
  aval4 (merge4_n fuel true cur p) = mm (aval4 cur) (den p) /\ nwf4 (merge4_n fuel true cur p) /\
  nclean (merge4_n fuel true cur p) = true.
Proof. exact merge4_n_mm_spec. Qed.
Print Assumptions C19_mergemerge4_refines.

Theorem C19_MergePatch : forall doc patch td tp,
  parse doc = Some td -> parse patch = Some tp -> td <> TNull -> tnodup td = true -> tnodup tp = true ->
  (scalar_text tp = true /\ api_merge4 false doc patch = MErr MBadPatch) \/
  (scalar_text tp = false /\ exists n, api_merge4 false doc patch = MOut (marshal4 n) /\ nwf4 n /\
                                       aval4 n = merge_patch (den td) (den tp)).
Proof. exact api_merge4_spec. Qed.
Print Assumptions C19_MergePatch.

Theorem C19_MergeMergePatches : forall p1 p2 ms1 t2,
  parse p1 = Some (TObj ms1) -> parse p2 = Some t2 -> tnodup (TObj ms1) = true -> tnodup t2 = true ->
  compatible (den (TObj ms1)) (den t2) = true ->
  (scalar_text t2 = true /\ api_merge4 true p1 p2 = MErr MBadPatch) \/
  (scalar_text t2 = false /\ exists n, api_merge4 true p1 p2 = MOut (marshal4 n) /\ nwf4 n /\
                                       aval4 n = mm (den (TObj ms1)) (den t2)).
Proof. exact api_mergemerge4_spec. Qed.
Print Assumptions C19_MergeMergePatches.

Theorem C19_MergeMergePatches_composes : forall p1 p2 ms1 t2 d,
  parse p1 = Some (TObj ms1) -> parse p2 = Some t2 -> tnodup (TObj ms1) = true -> tnodup t2 = true ->
  compatible (den (TObj ms1)) (den t2) = true -> scalar_text t2 = false -> onodup d = true ->
  exists n, api_merge4 true p1 p2 = MOut (marshal4 n) /\
            jeq (merge_patch d (aval4 n)) (merge_patch (merge_patch d (den (TObj ms1))) (den t2)) = true.
Proof. exact api_mergemerge4_composes. Qed.
Print Assumptions C19_MergeMergePatches_composes.

(* what is printed: marshal4 n = print true (render4 n), and the rendered tree (member names sorted)
   denotes the node's value up to member order *)
Theorem C19_marshalled_tree : forall n, nwf4 n -> nku n ->
  onodup (den (render4 n)) = true /\ jeq (den (render4 n)) (aval4 n) = true.
Proof. exact render4_den. Qed.
Print Assumptions C19_marshalled_tree.

Theorem C19_MergePatch_output : forall doc patch td tp,
  parse doc = Some td -> parse patch = Some tp -> td <> TNull -> tnodup td = true -> tnodup tp = true ->
  tsb td -> tsb tp -> scalar_text tp = false ->
  exists t, api_merge4 false doc patch = MOut (print true t) /\
            onodup (den t) = true /\ jeq (den t) (merge_patch (den td) (den tp)) = true.
Proof. exact api_merge4_output. Qed.
Print Assumptions C19_MergePatch_output.

Theorem C19_MergeMergePatches_output : forall p1 p2 ms1 t2,
  parse p1 = Some (TObj ms1) -> parse p2 = Some t2 -> tnodup (TObj ms1) = true -> tnodup t2 = true ->
  tsb (TObj ms1) -> tsb t2 -> compatible (den (TObj ms1)) (den t2) = true -> scalar_text t2 = false ->
  exists t, api_merge4 true p1 p2 = MOut (print true t) /\
            onodup (den t) = true /\ jeq (den t) (mm (den (TObj ms1)) (den t2)) = true.
Proof. exact api_mergemerge4_output. Qed.
Print Assumptions C19_MergeMergePatches_output.

Theorem C19_null_rejected : forall mm doc patch td tp,
  parse doc = Some td -> parse patch = Some tp ->
  (td = TNull -> api_merge4 mm doc patch = MErr MBadDoc) /\
  (td <> TNull -> tp = TNull -> api_merge4 mm doc patch = MErr MBadPatch).
Proof. exact api_merge4_null_rejected. Qed.
Print Assumptions C19_null_rejected.

Theorem C19_node_equal4 : forall n o, good4 n -> good4 o -> node_equal4 n o = jeq (aval4 n) (aval4 o).
Proof. exact node_equal4_spec. Qed.
Print Assumptions C19_node_equal4.

(* Equal, on the property's domain: texts whose root is an object or an array (Domain.root_container).
   The restriction is needed for the statement to be about the library: the Go legacy Equal answers
   true for (null, {}), ({}, null) and ([], null) -- a node read from the text null is the nil pointer
   and falls through the comparison -- while the model api_equal4 answers Some false there (see
   C19_Equal_null_root_outside_domain below).  Without root_container the theorems would assert the
   model's answer for null-rooted texts, which is not the library's.  V4EqualDomain.v. *)
Theorem C19_Equal : forall a b ta tb,
  parse a = Some ta -> parse b = Some tb -> root_container ta = true -> root_container tb = true ->
  tnodup ta = true -> tnodup tb = true -> tplain ta = true -> tplain tb = true ->
  api_equal4 a b = Some (jeq (den ta) (den tb)).
Proof. exact api_equal4_spec_container. Qed.
Print Assumptions C19_Equal.

(* without the hypothesis on strings one direction remains: what legacy Equal accepts is equal *)
Theorem C19_Equal_sound : forall a b ta tb,
  parse a = Some ta -> parse b = Some tb -> root_container ta = true -> root_container tb = true ->
  tnodup ta = true -> tnodup tb = true ->
  api_equal4 a b = Some true -> jeq (den ta) (den tb) = true.
Proof. exact api_equal4_sound_container. Qed.
Print Assumptions C19_Equal_sound.

(* OUTSIDE the property's domain: at a null root the model says Some false; the Go function says
   true for these three pairs.  Recorded so that nobody reads the model's answer here as a claim
   about the library: root_container TNull = false, so C19_Equal / C19_Equal_sound do not apply. *)
Example C19_Equal_null_root_outside_domain :
  api_equal4 (B "null") (B "{}") = Some false /\ api_equal4 (B "{}") (B "null") = Some false /\
  api_equal4 (B "[]") (B "null") = Some false /\
  root_container TNull = false /\ parse (B "null") = Some TNull.
Proof. exact api_equal4_null_root. Qed.

Theorem C19_node_equal4_sound : forall n o,
  good4w n -> good4w o -> node_equal4 n o = true -> jeq (aval4 n) (aval4 o) = true.
Proof. exact node_equal4_sound. Qed.
Print Assumptions C19_node_equal4_sound.

(* ASCII strings without a backslash are spelled as they decode *)
Theorem C19_plain_strings : forall b, forallb plain_byte b = true -> unquote b = b.
Proof. exact unquote_ascii_plain. Qed.
Print Assumptions C19_plain_strings.

(* the hypothesis on strings cannot be dropped: legacy Equal compares spellings *)
Theorem C19_Equal_compares_spellings :
  node_equal4 (NRaw (TStr (B "\/"))) (NRaw (TStr (B "/"))) = false /\
  jeq (aval4 (NRaw (TStr (B "\/")))) (aval4 (NRaw (TStr (B "/")))) = true /\
  api_equal4 (B "{""a"":""\/""}") (B "{""a"":""/""}") = Some false.
Proof. exact equal4_naive_false_strings. Qed.
Print Assumptions C19_Equal_compares_spellings.

(* ---- wiring of OutputFacts.v / V4EqualDomain.v: the bytes the legacy MergePatch / MergeMergePatches return
   are a JSON text that parses to a value WITHOUT REPEATED NAMES equal, up to member order, to the RFC 7396
   result (no hypothesis on strings).  The no-repeated-names half matters: jeq looks the members of its left
   argument up in the right one, so jeq (den t') spec alone would also be met by an output that repeats a
   name (V4EqualDomain.jeq_onesided_with_repeated_name); with onodup (den t') the comparison holds in both
   directions (C19_MergePatch_output_bytes_both).  Same shape as C18_apply_output_bytes. ---- *)
From JP Require Import Scan OutputFacts.

Theorem C19_MergePatch_output_bytes : forall doc patch td tp,
  parse doc = Some td -> parse patch = Some tp -> td <> TNull -> tnodup td = true -> tnodup tp = true ->
  scalar_text tp = false ->
  exists out t', api_merge4 false doc patch = MOut out /\ parse out = Some t' /\
                 jeq (den t') (merge_patch (den td) (den tp)) = true /\ onodup (den t') = true /\
                 valid_gen out = true.
Proof. exact api_merge4_output_bytes_strong. Qed.
Print Assumptions C19_MergePatch_output_bytes.

Theorem C19_MergePatch_output_bytes_both : forall doc patch td tp,
  parse doc = Some td -> parse patch = Some tp -> td <> TNull -> tnodup td = true -> tnodup tp = true ->
  scalar_text tp = false ->
  exists out t', api_merge4 false doc patch = MOut out /\ parse out = Some t' /\
                 jeq (den t') (merge_patch (den td) (den tp)) = true /\
                 jeq (merge_patch (den td) (den tp)) (den t') = true.
Proof. exact api_merge4_output_bytes_both. Qed.
Print Assumptions C19_MergePatch_output_bytes_both.

Theorem C19_MergeMergePatches_output_bytes : forall p1 p2 ms1 t2,
  parse p1 = Some (TObj ms1) -> parse p2 = Some t2 -> tnodup (TObj ms1) = true -> tnodup t2 = true ->
  compatible (den (TObj ms1)) (den t2) = true -> scalar_text t2 = false ->
  exists out t', api_merge4 true p1 p2 = MOut out /\ parse out = Some t' /\
                 jeq (den t') (mm (den (TObj ms1)) (den t2)) = true /\ onodup (den t') = true /\
                 valid_gen out = true.
Proof. exact api_mergemerge4_output_bytes_strong. Qed.
Print Assumptions C19_MergeMergePatches_output_bytes.

Example C19_nonvacuous :
  api_merge4 false (B "{""b"":{""x"":1,""y"":2},""a"":1}") (B "{""b"":{""x"":null,""z"":[null]},""c"":{""d"":null}}")
    = MOut (B "{""a"":1,""b"":{""y"":2,""z"":[null]},""c"":{}}") /\
  api_merge4 true (B "{""a"":{""x"":1}}") (B "{""a"":{""x"":null,""y"":2}}") = MOut (B "{""a"":{""x"":null,""y"":2}}") /\
  api_equal4 (B "{""a"":[1,null],""b"":""s""}") (B " {""b"":""s"",""a"":[1,null]}") = Some true.
Proof. vm_compute. repeat split; reflexivity. Qed.

(* ---- the main theorems applied: every hypothesis of C19_MergePatch, C19_MergePatch_output_bytes (strong
   form), C19_MergeMergePatches, C19_MergeMergePatches_output_bytes, C19_Equal and C19_Equal_sound discharged
   on the texts of C19_nonvacuous (object roots, plain strings).  The patches are objects, so the merge
   theorems yield their second branch. ---- *)
Definition C19_ex_doc := B "{""b"":{""x"":1,""y"":2},""a"":1}".
Definition C19_ex_patch := B "{""b"":{""x"":null,""z"":[null]},""c"":{""d"":null}}".
Definition C19_ex_p1 := B "{""a"":{""x"":1}}".
Definition C19_ex_p2 := B "{""a"":{""x"":null,""y"":2}}".
Definition C19_ex_e1 := B "{""a"":[1,null],""b"":""s""}".
Definition C19_ex_e2 := B " {""b"":""s"",""a"":[1,null]}".
Definition C19_ex_td : tjson := Eval vm_compute in match parse C19_ex_doc with Some t => t | None => TNull end.
Definition C19_ex_tp : tjson := Eval vm_compute in match parse C19_ex_patch with Some t => t | None => TNull end.
Definition C19_ex_ms1 : list (bytes * tjson) := Eval vm_compute in match parse C19_ex_p1 with Some (TObj ms) => ms | _ => [] end.
Definition C19_ex_t2 : tjson := Eval vm_compute in match parse C19_ex_p2 with Some t => t | None => TNull end.
Definition C19_ex_ta : tjson := Eval vm_compute in match parse C19_ex_e1 with Some t => t | None => TNull end.
Definition C19_ex_tb : tjson := Eval vm_compute in match parse C19_ex_e2 with Some t => t | None => TNull end.

Example C19_main_theorem_applies :
  (exists n, api_merge4 false C19_ex_doc C19_ex_patch = MOut (marshal4 n) /\ nwf4 n /\
             aval4 n = merge_patch (den C19_ex_td) (den C19_ex_tp)) /\
  (exists out t', api_merge4 false C19_ex_doc C19_ex_patch = MOut out /\ parse out = Some t' /\
             jeq (den t') (merge_patch (den C19_ex_td) (den C19_ex_tp)) = true /\ onodup (den t') = true /\
             valid_gen out = true) /\
  (exists n, api_merge4 true C19_ex_p1 C19_ex_p2 = MOut (marshal4 n) /\ nwf4 n /\
             aval4 n = mm (den (TObj C19_ex_ms1)) (den C19_ex_t2)) /\
  (exists out t', api_merge4 true C19_ex_p1 C19_ex_p2 = MOut out /\ parse out = Some t' /\
             jeq (den t') (mm (den (TObj C19_ex_ms1)) (den C19_ex_t2)) = true /\ onodup (den t') = true /\
             valid_gen out = true) /\
  api_equal4 C19_ex_e1 C19_ex_e2 = Some (jeq (den C19_ex_ta) (den C19_ex_tb)) /\
  jeq (den C19_ex_ta) (den C19_ex_tb) = true.
Proof.
  assert (Pd : parse C19_ex_doc = Some C19_ex_td) by (vm_compute; reflexivity).
  assert (Pp : parse C19_ex_patch = Some C19_ex_tp) by (vm_compute; reflexivity).
  assert (NN : C19_ex_td <> TNull) by discriminate.
  assert (Nd : tnodup C19_ex_td = true) by (vm_compute; reflexivity).
  assert (Np : tnodup C19_ex_tp = true) by (vm_compute; reflexivity).
  assert (P1 : parse C19_ex_p1 = Some (TObj C19_ex_ms1)) by (vm_compute; reflexivity).
  assert (P2 : parse C19_ex_p2 = Some C19_ex_t2) by (vm_compute; reflexivity).
  assert (N1 : tnodup (TObj C19_ex_ms1) = true) by (vm_compute; reflexivity).
  assert (N2 : tnodup C19_ex_t2 = true) by (vm_compute; reflexivity).
  assert (C : compatible (den (TObj C19_ex_ms1)) (den C19_ex_t2) = true) by (vm_compute; reflexivity).
  assert (Pa : parse C19_ex_e1 = Some C19_ex_ta) by (vm_compute; reflexivity).
  assert (Pb : parse C19_ex_e2 = Some C19_ex_tb) by (vm_compute; reflexivity).
  assert (Na : tnodup C19_ex_ta = true) by (vm_compute; reflexivity).
  assert (Nb : tnodup C19_ex_tb = true) by (vm_compute; reflexivity).
  assert (Eq : api_equal4 C19_ex_e1 C19_ex_e2 = Some (jeq (den C19_ex_ta) (den C19_ex_tb))).
  { apply (C19_Equal C19_ex_e1 C19_ex_e2 C19_ex_ta C19_ex_tb Pa Pb eq_refl eq_refl Na Nb); vm_compute; reflexivity. }
  split; [|split; [|split; [|split; [|split]]]].
  - destruct (C19_MergePatch C19_ex_doc C19_ex_patch C19_ex_td C19_ex_tp Pd Pp NN Nd Np) as [[S _] | [_ H]];
      [discriminate S | exact H].
  - exact (C19_MergePatch_output_bytes C19_ex_doc C19_ex_patch C19_ex_td C19_ex_tp Pd Pp NN Nd Np eq_refl).
  - destruct (C19_MergeMergePatches C19_ex_p1 C19_ex_p2 C19_ex_ms1 C19_ex_t2 P1 P2 N1 N2 C) as [[S _] | [_ H]];
      [discriminate S | exact H].
  - exact (C19_MergeMergePatches_output_bytes C19_ex_p1 C19_ex_p2 C19_ex_ms1 C19_ex_t2 P1 P2 N1 N2 C eq_refl).
  - exact Eq.
  - apply (C19_Equal_sound C19_ex_e1 C19_ex_e2 C19_ex_ta C19_ex_tb Pa Pb eq_refl eq_refl Na Nb).
    vm_compute. reflexivity.
Qed.
Print Assumptions C19_main_theorem_applies.

(* ---- the legacy MergePatch / MergeMergePatches write valid UTF-8 given UTF-8 input (Utf8Out.v) ---- *)
From JP Require Utf8Out.
Theorem C19_merge_output_utf8 : forall mm doc patch out,
  Utf8Out.utf8_text doc -> Utf8Out.utf8_text patch -> api_merge4 mm doc patch = MOut out -> Utf8Out.utf8_text out.
Proof. exact Utf8Out.api_merge4_utf8. Qed.
Print Assumptions C19_merge_output_utf8.
