(* C19 — legacy root package: merge patches and Equal.
   The legacy package implements the same RFC 7396 functions; the laws below are the ones proved
   once at the level of the reference (MergeFacts.v) and are what the correspondence judges the
   staged legacy package against on every run (MergePatch vs merge_patch, CreateMergePatch vs diff
   on float-stable numbers, MergeMergePatches vs mm under compatibility, Equal vs jeq on
   escape-free texts).  The refinement of the legacy model's merge4_n to merge_patch is an open
   obligation (its v5 counterpart is proved in ImplMergeFacts.v). *)
From JP Require Import Bytes Json Text Strings Den Rfc7396 ImplV5 ImplMerge ImplV4 JsonFacts MergeFacts.

Theorem C19_compose_law : forall d p1 p2,
  onodup d = true -> onodup p1 = true -> onodup p2 = true -> compatible p1 p2 = true ->
  jeq (merge_patch d (mm p1 p2)) (merge_patch (merge_patch d p1) p2) = true.
Proof. intros d p1 p2. exact (compose_law p2 d p1). Qed.
Print Assumptions C19_compose_law.

Theorem C19_create_roundtrip : forall a b,
  onodup a = true -> onodup b = true -> no_null_member b = true -> is_obj a = true -> is_obj b = true ->
  jeq (merge_patch a (diff a b)) b = true.
Proof. intros a b. exact (diff_roundtrip b a). Qed.
Print Assumptions C19_create_roundtrip.

Theorem C19_create_minimal : forall a b,
  onodup a = true -> onodup b = true -> is_obj a = true -> is_obj b = true ->
  (diff a b = OObj [] <-> jeq a b = true).
Proof. intros a b. exact (diff_empty_iff b a). Qed.
Print Assumptions C19_create_minimal.

(* structural equality, the relation the legacy Equal is compared with, is an equivalence *)
Theorem C19_equality_is_equivalence : forall a b c,
  onodup a = true -> onodup b = true -> onodup c = true ->
  jeq a a = true /\ (jeq a b = true -> jeq b a = true) /\ (jeq a b = true -> jeq b c = true -> jeq a c = true).
Proof.
  intros a b c Na Nb Nc. split; [apply jeq_refl; auto|]. split; [apply jeq_sym; auto | apply jeq_trans; auto].
Qed.
Print Assumptions C19_equality_is_equivalence.

Example C19_nonvacuous :
  api_merge4 false (B "{""b"":{""x"":1,""y"":2},""a"":1}") (B "{""b"":{""x"":null,""z"":[null]},""c"":{""d"":null}}")
    = MOut (B "{""a"":1,""b"":{""y"":2,""z"":[null]},""c"":{}}") /\
  api_merge4 true (B "{""a"":{""x"":1}}") (B "{""a"":{""x"":null,""y"":2}}") = MOut (B "{""a"":{""x"":null,""y"":2}}") /\
  api_equal4 (B "{""a"":[1,null],""b"":""s""}") (B " {""b"":""s"",""a"":[1,null]}") = Some true.
Proof. vm_compute. repeat split; reflexivity. Qed.
