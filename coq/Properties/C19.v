(* C19 — legacy root package: merge patches and Equal.
   The legacy package implements the same RFC 7396 functions; the laws below are the ones proved
   once at the level of the reference (MergeFacts.v) and are what the correspondence judges the
   staged legacy package against on every run (MergePatch vs merge_patch, CreateMergePatch vs diff
   on float-stable numbers, MergeMergePatches vs mm under compatibility, Equal vs jeq on
   escape-free texts).  The refinement of the legacy model (ImplV4.v) to these references is proved
   in V4MergeFacts.v (prune4_t, merge4_n in both modes, api_merge4) and V4EqualFacts.v (equal4,
   api_equal4), on the value aval4 a legacy node denotes (members in the order of the model's
   association list; marshal4 then sorts the names). *)
From JP Require Import Bytes Json Text Strings Den Rfc7396 ImplV5 ImplMerge ImplV4 JsonFacts MergeFacts
  Abs ImplMergeFacts Codec V4MergeFacts V4EqualFacts.

Theorem C19_compose_law : forall d p1 p2,
  onodup d = true -> onodup p1 = true -> onodup p2 = true -> compatible p1 p2 = true ->
  jeq (merge_patch d (mm p1 p2)) (merge_patch (merge_patch d p1) p2) = true.
Proof. intros d p1 p2. exact (compose_law p2 d p1). Qed.
Print Assumptions C19_compose_law.

Theorem C19_create_roundtrip : forall a b,
  onodup a = true -> onodup b = true -> no_null_member b = true -> is_obj a = true -> is_obj b = true ->
  jeq (merge_patch a (diff a b)) b = true.
Proof. intros a b. exact (diff_roundtrip b a). Qed.
Print Assumptions C19_create_roundtrip.

Theorem C19_create_minimal : forall a b,
  onodup a = true -> onodup b = true -> is_obj a = true -> is_obj b = true ->
  (diff a b = OObj [] <-> jeq a b = true).
Proof. intros a b. exact (diff_empty_iff b a). Qed.
Print Assumptions C19_create_minimal.

(* structural equality, the relation the legacy Equal is compared with, is an equivalence *)
Theorem C19_equality_is_equivalence : forall a b c,
  onodup a = true -> onodup b = true -> onodup c = true ->
  jeq a a = true /\ (jeq a b = true -> jeq b a = true) /\ (jeq a b = true -> jeq b c = true -> jeq a c = true).
Proof.
  intros a b c Na Nb Nc. split; [apply jeq_refl; auto|]. split; [apply jeq_sym; auto | apply jeq_trans; auto].
Qed.
Print Assumptions C19_equality_is_equivalence.

(* ---- the legacy model refines the references ---- *)
Theorem C19_prune4 : forall t,
  tnodup t = true -> aval4 (prune4_t t) = merge_patch ONull (den t) /\ nwf4 (prune4_t t).
Proof. exact prune4_t_spec. Qed.
Print Assumptions C19_prune4.

Theorem C19_merge4_refines : forall fuel p cur,
  (tsize p < fuel)%nat -> tnodup p = true -> nwf4 cur ->
  aval4 (merge4_n fuel false cur p) = merge_patch (aval4 cur) (den p) /\ nwf4 (merge4_n fuel false cur p).
Proof. exact merge4_n_spec. Qed.
Print Assumptions C19_merge4_refines.

Theorem C19_merge4_refines_jeq : forall fuel p cur,
  (tsize p < fuel)%nat -> tnodup p = true -> nwf4 cur ->
  jeq (aval4 (merge4_n fuel false cur p)) (merge_patch (aval4 cur) (den p)) = true.
Proof. exact merge4_n_jeq. Qed.
Print Assumptions C19_merge4_refines_jeq.

Theorem C19_mergemerge4_refines : forall fuel p cur,
  (tsize p < fuel)%nat -> tnodup p = true -> p <> TNull -> nwf4 cur -> nclean cur = true ->
  (is_obj (den p) = true -> compatible (aval4 cur) (den p) = true) ->
  aval4 (merge4_n fuel true cur p) = mm (aval4 cur) (den p) /\ nwf4 (merge4_n fuel true cur p) /\
  nclean (merge4_n fuel true cur p) = true.
Proof. exact merge4_n_mm_spec. Qed.
Print Assumptions C19_mergemerge4_refines.

Theorem C19_MergePatch : forall doc patch td tp,
  parse doc = Some td -> parse patch = Some tp -> td <> TNull -> tnodup td = true -> tnodup tp = true ->
  (scalar_text tp = true /\ api_merge4 false doc patch = MErr MBadPatch) \/
  (scalar_text tp = false /\ exists n, api_merge4 false doc patch = MOut (marshal4 n) /\ nwf4 n /\
                                       aval4 n = merge_patch (den td) (den tp)).
Proof. exact api_merge4_spec. Qed.
Print Assumptions C19_MergePatch.

Theorem C19_MergeMergePatches : forall p1 p2 ms1 t2,
  parse p1 = Some (TObj ms1) -> parse p2 = Some t2 -> tnodup (TObj ms1) = true -> tnodup t2 = true ->
  compatible (den (TObj ms1)) (den t2) = true ->
  (scalar_text t2 = true /\ api_merge4 true p1 p2 = MErr MBadPatch) \/
  (scalar_text t2 = false /\ exists n, api_merge4 true p1 p2 = MOut (marshal4 n) /\ nwf4 n /\
                                       aval4 n = mm (den (TObj ms1)) (den t2)).
Proof. exact api_mergemerge4_spec. Qed.
Print Assumptions C19_MergeMergePatches.

Theorem C19_MergeMergePatches_composes : forall p1 p2 ms1 t2 d,
  parse p1 = Some (TObj ms1) -> parse p2 = Some t2 -> tnodup (TObj ms1) = true -> tnodup t2 = true ->
  compatible (den (TObj ms1)) (den t2) = true -> scalar_text t2 = false -> onodup d = true ->
  exists n, api_merge4 true p1 p2 = MOut (marshal4 n) /\
            jeq (merge_patch d (aval4 n)) (merge_patch (merge_patch d (den (TObj ms1))) (den t2)) = true.
Proof. exact api_mergemerge4_composes. Qed.
Print Assumptions C19_MergeMergePatches_composes.

(* what is printed: marshal4 n = print true (render4 n), and the rendered tree (member names sorted)
   denotes the node's value up to member order *)
Theorem C19_marshalled_tree : forall n, nwf4 n -> nku n ->
  onodup (den (render4 n)) = true /\ jeq (den (render4 n)) (aval4 n) = true.
Proof. exact render4_den. Qed.
Print Assumptions C19_marshalled_tree.

Theorem C19_MergePatch_output : forall doc patch td tp,
  parse doc = Some td -> parse patch = Some tp -> td <> TNull -> tnodup td = true -> tnodup tp = true ->
  tsb td -> tsb tp -> scalar_text tp = false ->
  exists t, api_merge4 false doc patch = MOut (print true t) /\
            onodup (den t) = true /\ jeq (den t) (merge_patch (den td) (den tp)) = true.
Proof. exact api_merge4_output. Qed.
Print Assumptions C19_MergePatch_output.

Theorem C19_MergeMergePatches_output : forall p1 p2 ms1 t2,
  parse p1 = Some (TObj ms1) -> parse p2 = Some t2 -> tnodup (TObj ms1) = true -> tnodup t2 = true ->
  tsb (TObj ms1) -> tsb t2 -> compatible (den (TObj ms1)) (den t2) = true -> scalar_text t2 = false ->
  exists t, api_merge4 true p1 p2 = MOut (print true t) /\
            onodup (den t) = true /\ jeq (den t) (mm (den (TObj ms1)) (den t2)) = true.
Proof. exact api_mergemerge4_output. Qed.
Print Assumptions C19_MergeMergePatches_output.

Theorem C19_null_rejected : forall mm doc patch td tp,
  parse doc = Some td -> parse patch = Some tp ->
  (td = TNull -> api_merge4 mm doc patch = MErr MBadDoc) /\
  (td <> TNull -> tp = TNull -> api_merge4 mm doc patch = MErr MBadPatch).
Proof. exact api_merge4_null_rejected. Qed.
Print Assumptions C19_null_rejected.

Theorem C19_node_equal4 : forall n o, good4 n -> good4 o -> node_equal4 n o = jeq (aval4 n) (aval4 o).
Proof. exact node_equal4_spec. Qed.
Print Assumptions C19_node_equal4.

Theorem C19_Equal : forall a b ta tb,
  parse a = Some ta -> parse b = Some tb -> tnodup ta = true -> tnodup tb = true ->
  tplain ta = true -> tplain tb = true ->
  api_equal4 a b = Some (jeq (den ta) (den tb)).
Proof. exact api_equal4_spec. Qed.
Print Assumptions C19_Equal.

(* without the hypothesis on strings one direction remains: what legacy Equal accepts is equal *)
Theorem C19_Equal_sound : forall a b ta tb,
  parse a = Some ta -> parse b = Some tb -> tnodup ta = true -> tnodup tb = true ->
  api_equal4 a b = Some true -> jeq (den ta) (den tb) = true.
Proof. exact api_equal4_sound. Qed.
Print Assumptions C19_Equal_sound.

Theorem C19_node_equal4_sound : forall n o,
  good4w n -> good4w o -> node_equal4 n o = true -> jeq (aval4 n) (aval4 o) = true.
Proof. exact node_equal4_sound. Qed.
Print Assumptions C19_node_equal4_sound.

(* ASCII strings without a backslash are spelled as they decode *)
Theorem C19_plain_strings : forall b, forallb plain_byte b = true -> unquote b = b.
Proof. exact unquote_ascii_plain. Qed.
Print Assumptions C19_plain_strings.

(* the hypothesis on strings cannot be dropped: legacy Equal compares spellings *)
Theorem C19_Equal_compares_spellings :
  node_equal4 (NRaw (TStr (B "\/"))) (NRaw (TStr (B "/"))) = false /\
  jeq (aval4 (NRaw (TStr (B "\/")))) (aval4 (NRaw (TStr (B "/")))) = true /\
  api_equal4 (B "{""a"":""\/""}") (B "{""a"":""/""}") = Some false.
Proof. exact equal4_naive_false_strings. Qed.
Print Assumptions C19_Equal_compares_spellings.

(* ---- wiring of OutputFacts.v: the bytes the legacy MergePatch / MergeMergePatches return are a JSON text
   that parses to a value equal, up to member order, to the RFC 7396 result (no hypothesis on strings) ---- *)
From JP Require Import Scan OutputFacts.

Theorem C19_MergePatch_output_bytes : forall doc patch td tp,
  parse doc = Some td -> parse patch = Some tp -> td <> TNull -> tnodup td = true -> tnodup tp = true ->
  scalar_text tp = false ->
  exists out t', api_merge4 false doc patch = MOut out /\ parse out = Some t' /\
                 jeq (den t') (merge_patch (den td) (den tp)) = true /\ valid_gen out = true.
Proof. exact api_merge4_output_bytes. Qed.
Print Assumptions C19_MergePatch_output_bytes.

Theorem C19_MergeMergePatches_output_bytes : forall p1 p2 ms1 t2,
  parse p1 = Some (TObj ms1) -> parse p2 = Some t2 -> tnodup (TObj ms1) = true -> tnodup t2 = true ->
  compatible (den (TObj ms1)) (den t2) = true -> scalar_text t2 = false ->
  exists out t', api_merge4 true p1 p2 = MOut out /\ parse out = Some t' /\
                 jeq (den t') (mm (den (TObj ms1)) (den t2)) = true /\ valid_gen out = true.
Proof. exact api_mergemerge4_output_bytes. Qed.
Print Assumptions C19_MergeMergePatches_output_bytes.

Example C19_nonvacuous :
  api_merge4 false (B "{""b"":{""x"":1,""y"":2},""a"":1}") (B "{""b"":{""x"":null,""z"":[null]},""c"":{""d"":null}}")
    = MOut (B "{""a"":1,""b"":{""y"":2,""z"":[null]},""c"":{}}") /\
  api_merge4 true (B "{""a"":{""x"":1}}") (B "{""a"":{""x"":null,""y"":2}}") = MOut (B "{""a"":{""x"":null,""y"":2}}") /\
  api_equal4 (B "{""a"":[1,null],""b"":""s""}") (B " {""b"":""s"",""a"":[1,null]}") = Some true.
Proof. vm_compute. repeat split; reflexivity. Qed.
