(* C02 — RFC 7396 merge patch application (v5).  The model of MergePatch (ImplMerge.api_merge,
   tied to merge.go by the correspondence) refines the RFC's MergePatch (Rfc7396.merge_patch). *)
From JP Require Import Bytes Json Text Strings Den ImplV5 ImplMerge Rfc7396 JsonFacts MergeFacts Abs ImplMergeFacts.
From JP Require Import Scan OutputFacts.

(* For every pair of well-formed texts with a non-null document (no duplicate names): MergePatch
   returns a scalar or null patch verbatim; otherwise it returns the encoding of a node whose
   value (Abs.aval) is exactly — member order included — RFC 7396's MergePatch(document, patch).
   No bound on size or nesting. *)
Theorem C02_merge_refines_rfc : forall doc patch td tp,
  parse doc = Some td -> parse patch = Some tp -> td <> TNull -> tnodup td = true -> tnodup tp = true ->
  (scalar_text tp = true /\ api_merge false doc patch = MOut patch) \/
  (scalar_text tp = false /\ exists n, api_merge false doc patch = MOut (marshal_node n) /\ nwf n /\
                                       aval n = merge_patch (den td) (den tp)).
Proof. exact api_merge_spec. Qed.
Print Assumptions C02_merge_refines_rfc.

(* the recursive core: merge(cur, patch) on any node in any parse state, at every depth *)
Theorem C02_merge_core : forall fuel p cur,
  (tsize p < fuel)%nat -> tnodup p = true -> nwf cur ->
  aval (merge_n fuel false cur p) = merge_patch (aval cur) (den p) /\ nwf (merge_n fuel false cur p).
Proof. exact merge_n_spec. Qed.
Print Assumptions C02_merge_core.

(* a new object value is stored with its own null members dropped (pruneNulls) *)
Theorem C02_new_value_pruned : forall t,
  tnodup t = true -> aval (prune_t t) = merge_patch ONull (den t) /\ nwf (prune_t t).
Proof. exact prune_t_spec. Qed.
Print Assumptions C02_new_value_pruned.

(* any non-object patch replaces the document wholesale: the reference has no array case *)
Theorem C02_nonobject_patch_replaces : forall t p, (forall ms, p <> OObj ms) -> merge_patch t p = p.
Proof. exact merge_patch_nonobj. Qed.
Print Assumptions C02_nonobject_patch_replaces.

(* a non-object document is treated as an empty object *)
Theorem C02_nonobject_document : forall t t' p,
  members_of t = members_of t' -> merge_patch t p = merge_patch t' p.
Proof. exact merge_patch_target_irrelevant. Qed.
Print Assumptions C02_nonobject_document.

(* the reference on one member name: absent in the patch -> kept, null -> deleted, otherwise merged *)
Theorem C02_member : forall t pms k,
  NoDup (map fst pms) ->
  aget k (members_of (merge_patch t (OObj pms))) = merge_lookup (aget k pms) (aget k (members_of t)).
Proof. intros. rewrite merge_patch_obj. simpl. now apply merge_members_lookup. Qed.
Print Assumptions C02_member.

(* the output BYTES: for every pair of well-formed texts (non-null document, no duplicate names) the
   bytes MergePatch returns are one well-formed JSON text (the independent reader Text.parse reads
   it, the scanner accepts it) whose value is exactly RFC 7396's MergePatch(document, patch).
   No hypothesis on nesting: the result is never nested deeper than the deeper of the two inputs. *)
Theorem C02_merge_output_bytes : forall doc patch td tp,
  parse doc = Some td -> parse patch = Some tp -> td <> TNull -> tnodup td = true -> tnodup tp = true ->
  exists out t', api_merge false doc patch = MOut out /\ parse out = Some t' /\
                 den t' = merge_patch (den td) (den tp) /\ valid_gen out = true.
Proof. exact api_merge_output. Qed.
Print Assumptions C02_merge_output_bytes.

(* ... and without any hypothesis on the inputs (duplicate names included): whatever MergePatch or
   MergeMergePatches returns is a well-formed JSON text *)
Theorem C02_merge_output_wellformed : forall mm doc patch out,
  api_merge mm doc patch = MOut out -> exists t', parse out = Some t'.
Proof. exact api_merge_output_general. Qed.
Print Assumptions C02_merge_output_wellformed.

Example C02_nonvacuous :
  api_merge false (B "{""a"":{""x"":1,""y"":[1,{""q"":null}]},""k"":""s"",""n"":1e400}")
                  (B " {""a"":{""x"":null,""z"":{""u"":null,""w"":[null]}},""n"":null,""m"":{""d"":null}} ")
  = MOut (B "{""a"":{""y"":[1,{""q"":null}],""z"":{""w"":[null]}},""k"":""s"",""m"":{}}") /\
  api_merge false (B "[1]") (B " 2 ") = MOut (B " 2 ").
Proof. vm_compute. split; reflexivity. Qed.

(* ---- the main theorems applied: every hypothesis of C02_merge_refines_rfc and C02_merge_output_bytes
   discharged on the document and patch of C02_nonvacuous (nulls at depth 1 and 2, a null inside an array,
   a new object member that is pruned, a number outside float range); the patch is an object, so the theorem
   yields its second branch ---- *)
Definition C02_ex_doc := B "{""a"":{""x"":1,""y"":[1,{""q"":null}]},""k"":""s"",""n"":1e400}".
Definition C02_ex_patch := B " {""a"":{""x"":null,""z"":{""u"":null,""w"":[null]}},""n"":null,""m"":{""d"":null}} ".
Definition C02_ex_td : tjson := match parse C02_ex_doc with Some t => t | None => TNull end.
Definition C02_ex_tp : tjson := match parse C02_ex_patch with Some t => t | None => TNull end.

Example C02_main_theorem_applies :
  (exists n, api_merge false C02_ex_doc C02_ex_patch = MOut (marshal_node n) /\ nwf n /\
             aval n = merge_patch (den C02_ex_td) (den C02_ex_tp)) /\
  (exists out t', api_merge false C02_ex_doc C02_ex_patch = MOut out /\ parse out = Some t' /\
                  den t' = merge_patch (den C02_ex_td) (den C02_ex_tp) /\ valid_gen out = true).
Proof.
  assert (Pd : parse C02_ex_doc = Some C02_ex_td) by (vm_compute; reflexivity).
  assert (Pp : parse C02_ex_patch = Some C02_ex_tp) by (vm_compute; reflexivity).
  assert (NN : C02_ex_td <> TNull) by (vm_compute; discriminate).
  assert (Nd : tnodup C02_ex_td = true) by (vm_compute; reflexivity).
  assert (Np : tnodup C02_ex_tp = true) by (vm_compute; reflexivity).
  split.
  - destruct (C02_merge_refines_rfc C02_ex_doc C02_ex_patch C02_ex_td C02_ex_tp Pd Pp NN Nd Np) as [[S _] | [_ H]].
    + vm_compute in S. discriminate S.
    + exact H.
  - exact (C02_merge_output_bytes C02_ex_doc C02_ex_patch C02_ex_td C02_ex_tp Pd Pp NN Nd Np).
Qed.
Print Assumptions C02_main_theorem_applies.
