(* C05 — member order and literals of untouched data are preserved (v5).
   The refinement theorems of C01 and C02 are EQUALITIES of ordered, literal-exact values (ojson:
   members as an ordered list, numbers by their literal text), against a reference whose order
   behaviour is the one the property describes.  So order and literals are part of what is proved. *)
From JP Require Import Bytes Json Text Strings Den Pointer Rfc6902 Rfc7396 ImplV5 ImplMerge Domain JsonFacts DecodeFacts Abs ImplFacts RefFacts Depth ApplySim ImplMergeFacts MergeOrder.
From Coq Require Import Permutation.

(* Apply: the output encodes exactly the ordered reference result (same theorem as C01, read for
   its order/literal content: aval n = j is syntactic equality of ordered trees).  copies_fit: no
   copy the reference run reaches has a source nested deeper than deepCopy accepts (see C01) *)
Theorem C05_apply_ordered : forall o indent p doc t,
  plain_opts o -> parse doc = Some t -> root_container t = true -> tnodup t = true ->
  Forall op_dom p ->
  copies_fit (dia o) (den t) (map den_op p) = true ->
  match rfc_apply (dia o) (den t) (map den_op p) with
  | Done j => exists n, api_apply o indent p doc = ROut (output o indent (render (o_esc o) n)) /\ aval n = j /\ ngood n
  | Failed i cz => exists e, api_apply o indent p doc = RErr (Some i) e /\ cause_rel cz e
  end.
Proof. exact api_apply_sim. Qed.
Print Assumptions C05_apply_ordered.

(* what the reference does to member order — the behaviour the property lists *)
(* add of a new member appends it *)
Theorem C05_add_new_appends : forall k (v : ojson) ms, ~ In k (map fst ms) -> aset k v ms = ms ++ [(k, v)].
Proof. intros. now apply aset_notin. Qed.
Print Assumptions C05_add_new_appends.

(* add on an existing member and replace keep the member's position (and every other member) *)
Theorem C05_replace_keeps_position : forall k (v : ojson) ms,
  In k (map fst ms) -> map fst (aset k v ms) = map fst ms.
Proof. intros k v ms H. rewrite keys_aset. apply amem_In in H. now rewrite H. Qed.
Print Assumptions C05_replace_keeps_position.

(* every other member keeps its value, literal included *)
Theorem C05_other_members_untouched : forall k k' (v : ojson) ms,
  bseq k' k = false -> aget k' (aset k v ms) = aget k' ms /\ aget k' (adel k ms) = aget k' ms.
Proof. intros. split; [now apply aget_aset_other | now apply aget_adel_other]. Qed.
Print Assumptions C05_other_members_untouched.

(* remove deletes in place: the survivors keep their relative order *)
Theorem C05_remove_in_place : forall k (ms : list (bytes * ojson)),
  NoDup (map fst ms) -> map fst (adel k ms) = filter (fun k' => negb (bseq k k')) (map fst ms).
Proof.
  intros k ms _. induction ms as [|[k' v] ms IH]; simpl; auto.
  destruct (bseq k k'); simpl; auto. now rewrite IH.
Qed.
Print Assumptions C05_remove_in_place.

(* the empty patch returns the document: same members in the same order, same literals *)
Theorem C05_empty_patch : forall o indent doc t,
  plain_opts o -> parse doc = Some t -> root_container t = true -> tnodup t = true ->
  exists n, api_apply o indent [] doc = ROut (output o indent (render (o_esc o) n)) /\ aval n = den t /\ ngood n.
Proof.
  intros o indent doc t PO P RC T.
  exact (api_apply_sim o indent [] doc t PO P RC T (Forall_nil _) eq_refl).
Qed.
Print Assumptions C05_empty_patch.

(* MergePatch: surviving members in document order ahead of the new ones, literals untouched —
   the result IS merge_patch's ordered result (for the patch-order iteration of the model; the
   correspondence accepts any order of the NEW members, which Go's map iteration leaves open) *)
Theorem C05_merge_ordered : forall fuel p cur,
  (tsize p < fuel)%nat -> tnodup p = true -> nwf cur ->
  aval (merge_n fuel false cur p) = merge_patch (aval cur) (den p) /\ nwf (merge_n fuel false cur p).
Proof. exact merge_n_spec. Qed.
Print Assumptions C05_merge_ordered.

(* Go iterates over the patch's members in map (random) order; the model in list order.  The order
   does not matter for the value: permuting the members of a merge patch, at any level, gives a
   jeq-equal result (MergeOrder.v), so comparing outputs as values is sound; the ordered statement
   above is about the members that survive, whose order does not depend on the iteration *)
Theorem C05_merge_order_irrelevant : forall d ms ms',
  Permutation ms ms' -> NoDup (map fst ms) -> Forall (fun kv => onodup (snd kv) = true) ms -> onodup d = true ->
  jeq (merge_patch d (OObj ms)) (merge_patch d (OObj ms')) = true.
Proof. exact merge_patch_perm. Qed.
Print Assumptions C05_merge_order_irrelevant.

Theorem C05_merge_respects_value_equality : forall p p' d d',
  onodup p = true -> onodup p' = true -> onodup d = true -> onodup d' = true ->
  jeq p p' = true -> jeq d d' = true -> jeq (merge_patch d p) (merge_patch d' p') = true.
Proof. intros p p' d d'. exact (merge_patch_jeq_congr p p' d d'). Qed.
Print Assumptions C05_merge_respects_value_equality.

Example C05_nonvacuous :
  match api_decode (B "[{""op"":""add"",""path"":""/n"",""value"":2},{""op"":""replace"",""path"":""/b"",""value"":-0},{""op"":""remove"",""path"":""/c""},{""op"":""add"",""path"":""/a"",""value"":1e400}]") with
  | Some p => api_apply (mkOpts true 0 false false true [] None) [] p (B "{""z"":12345678901234567890123,""b"":1.0,""c"":0,""a"":1.50}")
              = ROut (B "{""z"":12345678901234567890123,""b"":-0,""a"":1e400,""n"":2}")
  | None => False
  end.
Proof. vm_compute. reflexivity. Qed.

(* ---- the main theorem applied: every hypothesis of C05_apply_ordered discharged on the document and patch
   of C05_nonvacuous (add of a new member, replace, remove, add onto an existing member; number literals that
   no float holds).  The conclusion is an EQUALITY of ordered values: z, b, a keep their positions and z its
   literal, c is gone, the new member n is last. ---- *)
From JP Require PointerDomain.
Definition C05_ex_doc := B "{""z"":12345678901234567890123,""b"":1.0,""c"":0,""a"":1.50}".
Definition C05_ex_patch := B "[{""op"":""add"",""path"":""/n"",""value"":2},{""op"":""replace"",""path"":""/b"",""value"":-0},{""op"":""remove"",""path"":""/c""},{""op"":""add"",""path"":""/a"",""value"":1e400}]".
Definition C05_ex_o := mkOpts true 0 false false true [] None.
Definition C05_ex_t : tjson := match parse C05_ex_doc with Some t => t | None => TNull end.
Definition C05_ex_p : list operation := match api_decode C05_ex_patch with Some p => p | None => [] end.
Definition C05_ex_result : ojson :=
  OObj [(B "z", ONum (B "12345678901234567890123")); (B "b", ONum (B "-0")); (B "a", ONum (B "1e400")); (B "n", ONum (B "2"))].

Example C05_main_theorem_applies :
  exists n, api_apply C05_ex_o [] C05_ex_p C05_ex_doc = ROut (output C05_ex_o [] (render (o_esc C05_ex_o) n)) /\
            aval n = C05_ex_result /\ ngood n.
Proof.
  pose proof (C05_apply_ordered C05_ex_o [] C05_ex_p C05_ex_doc C05_ex_t) as H.
  assert (R : rfc_apply (dia C05_ex_o) (den C05_ex_t) (map den_op C05_ex_p) = Done C05_ex_result) by (vm_compute; reflexivity).
  rewrite R in H. apply H.
  - repeat split.
  - vm_compute; reflexivity.
  - reflexivity.
  - vm_compute; reflexivity.
  - apply (PointerDomain.decoded_in_domain_op_dom C05_ex_patch); vm_compute; reflexivity.
  - vm_compute; reflexivity.
Qed.
Print Assumptions C05_main_theorem_applies.
