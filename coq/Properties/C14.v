(* C14 — EnsurePathExistsOnAdd (v5 model). *)
From JP Require Import Bytes Json Text Strings Den Pointer Rfc6902 ImplV5 Domain ImplFacts RefFacts ApplyFacts ApplySim.

(* an add that succeeds without the option gives the same result with it: when every parent of
   the path exists, ensurePathExists creates nothing and the add is the reference's add *)
Theorem C14_agrees_with_plain_add : forall o st op r c j',
  s_root st = RCon c -> cgood c -> o_ensure o = true ->
  op_str op (B "path") = Ok (x2f :: r) -> Forall tok_dom (map decode_token (split_slash r)) -> val_good op ->
  at_parent (dia o) (ptoks r) (cval c) (add_leaf (dia o) (ref_value op)) = Rfc6902.Ok j' ->
  exists st', op_add o st op = Ok st' /\ sval st' = j' /\ sgood st'.
Proof. exact ensure_agrees. Qed.
Print Assumptions C14_agrees_with_plain_add.

(* walking existing parents changes no value (it only parses them) *)
Theorem C14_existing_parents_untouched : forall o parts c,
  cgood c -> Forall tok_dom (map decode_token parts) ->
  (exists p, descend (dia o) (map decode_token (removelast parts)) (cval c) = Some p /\ is_container p = true) ->
  exists c', ensure o parts c = (None, c') /\ cval c' = cval c /\ cgood c'.
Proof. exact ensure_existing. Qed.
Print Assumptions C14_existing_parents_untouched.

(* the option is consulted by add only: every other operation is the same function of the state *)
Theorem C14_errors_are_plain : forall o parts c e c', ensure o parts c = (Some e, c') -> plain_err e = true.
Proof. exact ensure_err. Qed.
Print Assumptions C14_errors_are_plain.

(* creation: missing parents are created — an array when the next token is an index or "-",
   an object otherwise — padded with nulls up to the index, tokens decoded; what existed stays *)
Example C14_nonvacuous :
  match api_decode (B "[{""op"":""add"",""path"":""/a~1b/2/c/-"",""value"":1},{""op"":""add"",""path"":""/x/y"",""value"":2},{""op"":""add"",""path"":""/k/0"",""value"":3}]") with
  | Some p => api_apply (mkOpts true 0 false true true [] None) [] p (B "{""k"":[9],""x"":{""z"":0}}")
              = ROut (B "{""k"":[3,9],""x"":{""z"":0,""y"":2},""a/b"":[null,null,{""c"":[1]}]}")
  | None => False
  end.
Proof. vm_compute. reflexivity. Qed.
