(* C14 — EnsurePathExistsOnAdd (v5 model). *)
From JP Require Import Bytes Json Text Strings Den Pointer Rfc6902 ImplV5 Domain ImplFacts RefFacts ApplyFacts ApplySim AllowEnsureFacts.

(* an add that succeeds without the option gives the same result with it: when every parent of
   the path exists, ensurePathExists creates nothing and the add is the reference's add *)
Theorem C14_agrees_with_plain_add : forall o st op r c j',
  s_root st = RCon c -> cgood c -> o_ensure o = true ->
  op_str op (B "path") = Ok (x2f :: r) -> Forall tok_dom (map decode_token (split_slash r)) -> val_good op ->
  at_parent (dia o) (ptoks r) (cval c) (add_leaf (dia o) (ref_value op)) = Rfc6902.Ok j' ->
  exists st', op_add o st op = Ok st' /\ sval st' = j' /\ sgood st'.
Proof. exact ensure_agrees. Qed.
Print Assumptions C14_agrees_with_plain_add.

(* walking existing parents changes no value (it only parses them) *)
Theorem C14_existing_parents_untouched : forall o parts c,
  cgood c -> Forall tok_dom (map decode_token parts) ->
  (exists p, descend (dia o) (map decode_token (removelast parts)) (cval c) = Some p /\ is_container p = true) ->
  exists c', ensure o parts c = (None, c') /\ cval c' = cval c /\ cgood c'.
Proof. exact ensure_existing. Qed.
Print Assumptions C14_existing_parents_untouched.

(* the option is consulted by add only: every other operation is the same function of the state *)
Theorem C14_errors_are_plain : forall o parts c e c', ensure o parts c = (Some e, c') -> plain_err e = true.
Proof. exact ensure_err. Qed.
Print Assumptions C14_errors_are_plain.

(* ensurePathExists builds exactly ens (the value-level creation function of AllowEnsureFacts.v: walk
   the existing containers; at the first missing token pad the array if it is one, create an array
   when the NEXT token is an index or "-" and an object otherwise, padded with nulls up to that index)
   for every path whose decoded tokens are member names or canonical non-negative indices *)
Theorem C14_ensure_is_ens : forall o parts c j1,
  cgood c -> Forall ctok (map decode_token parts) ->
  ens (dia o) (map decode_token parts) (cval c) = Some j1 ->
  exists c1, ensure o parts c = (None, c1) /\ cval c1 = j1 /\ cgood c1.
Proof. exact ensure_sim. Qed.
Print Assumptions C14_ensure_is_ens.

(* the add with the option on is the reference's add on the document ens built *)
Theorem C14_add_after_ens : forall o st op r c j1,
  s_root st = RCon c -> cgood c -> o_ensure o = true ->
  op_str op (B "path") = Ok (x2f :: r) -> Forall ctok (map decode_token (split_slash r)) -> val_good op ->
  ens (dia o) (ptoks r) (cval c) = Some j1 ->
  match at_parent (dia o) (ptoks r) j1 (add_leaf (dia o) (ref_value op)) with
  | Rfc6902.Ok j' => exists st', op_add o st op = Ok st' /\ sval st' = j' /\ sgood st' /\ s_acc st' = s_acc st
  | Rfc6902.Fail cz => exists e, op_add o st op = Err e /\ cause_rel cz e
  end.
Proof. exact ensure_add_sim. Qed.
Print Assumptions C14_add_after_ens.

(* the creation clauses in closed form: the parents ps exist and lead to the container p, the
   token t is missing there (growable: p is an object, or an array and t an index not below its
   length), rest are the tokens after t.  The add succeeds and the document is the old one in which
   p has grown by t holding chain rest v: created containers hold nothing but the path and the padding *)
Theorem C14_creates : forall o st op r c ps t rest p,
  s_root st = RCon c -> cgood c -> o_ensure o = true ->
  op_str op (B "path") = Ok (x2f :: r) -> Forall ctok (map decode_token (split_slash r)) -> val_good op ->
  map decode_token (split_slash r) = ps ++ t :: rest ->
  descend (dia o) ps (cval c) = Some p -> growable (dia o) p t -> rest <> [] -> Forall nodash (t :: removelast rest) ->
  exists st', op_add o st op = Ok st' /\
              sval st' = rebuild (dia o) ps (cval c) (grow p t (chain rest (ref_value op))) /\
              sgood st' /\ s_acc st' = s_acc st.
Proof. exact ensure_creates. Qed.
Print Assumptions C14_creates.

(* (a) the single missing last parent of an object path *)
Theorem C14_creates_last_parent : forall o st op r c ps t k ms,
  s_root st = RCon c -> cgood c -> o_ensure o = true ->
  op_str op (B "path") = Ok (x2f :: r) -> Forall ctok (map decode_token (split_slash r)) -> val_good op ->
  map decode_token (split_slash r) = ps ++ [t; k] ->
  descend (dia o) ps (cval c) = Some (OObj ms) -> aget t ms = None -> is_name t -> is_name k ->
  exists st', op_add o st op = Ok st' /\
              sval st' = rebuild (dia o) ps (cval c) (OObj (ms ++ [(t, OObj [(k, ref_value op)])])) /\
              sgood st' /\ s_acc st' = s_acc st.
Proof. exact ensure_creates_last_parent. Qed.
Print Assumptions C14_creates_last_parent.

(* (b) a chain of several missing object parents *)
Theorem C14_creates_object_chain : forall o st op r c ps t rest ms,
  s_root st = RCon c -> cgood c -> o_ensure o = true ->
  op_str op (B "path") = Ok (x2f :: r) -> Forall ctok (map decode_token (split_slash r)) -> val_good op ->
  map decode_token (split_slash r) = ps ++ t :: rest ->
  descend (dia o) ps (cval c) = Some (OObj ms) -> aget t ms = None -> rest <> [] -> Forall is_name (t :: rest) ->
  exists st', op_add o st op = Ok st' /\
              sval st' = rebuild (dia o) ps (cval c) (OObj (ms ++ [(t, obj_chain rest (ref_value op))])) /\
              sgood st' /\ s_acc st' = s_acc st.
Proof. exact ensure_creates_objects. Qed.
Print Assumptions C14_creates_object_chain.

(* (c) arrays: created when the next token is an index (padded with nulls up to it) or "-";
   an existing array that is too short is padded up to the index of the missing parent *)
Theorem C14_creates_array : forall o st op r c ps t i n rest ms,
  s_root st = RCon c -> cgood c -> o_ensure o = true ->
  op_str op (B "path") = Ok (x2f :: r) -> Forall ctok (map decode_token (split_slash r)) -> val_good op ->
  map decode_token (split_slash r) = ps ++ t :: i :: rest ->
  descend (dia o) ps (cval c) = Some (OObj ms) -> aget t ms = None -> nodash t ->
  canonical_nat i = Some n -> Forall nodash (removelast (i :: rest)) ->
  exists st', op_add o st op = Ok st' /\
              sval st' = rebuild (dia o) ps (cval c)
                           (OObj (ms ++ [(t, OArr (repeat ONull (Z.to_nat n) ++ [chain rest (ref_value op)]))])) /\
              sgood st' /\ s_acc st' = s_acc st.
Proof. exact ensure_creates_array. Qed.
Print Assumptions C14_creates_array.

Theorem C14_creates_array_dash : forall o st op r c ps t ms,
  s_root st = RCon c -> cgood c -> o_ensure o = true ->
  op_str op (B "path") = Ok (x2f :: r) -> Forall ctok (map decode_token (split_slash r)) -> val_good op ->
  map decode_token (split_slash r) = ps ++ [t; [x2d]] ->
  descend (dia o) ps (cval c) = Some (OObj ms) -> aget t ms = None -> nodash t ->
  exists st', op_add o st op = Ok st' /\
              sval st' = rebuild (dia o) ps (cval c) (OObj (ms ++ [(t, OArr [ref_value op])])) /\
              sgood st' /\ s_acc st' = s_acc st.
Proof. exact ensure_creates_array_dash. Qed.
Print Assumptions C14_creates_array_dash.

Theorem C14_pads_array : forall o st op r c ps t n rest l,
  s_root st = RCon c -> cgood c -> o_ensure o = true ->
  op_str op (B "path") = Ok (x2f :: r) -> Forall ctok (map decode_token (split_slash r)) -> val_good op ->
  map decode_token (split_slash r) = ps ++ t :: rest ->
  descend (dia o) ps (cval c) = Some (OArr l) -> canonical_nat t = Some n -> (Z.of_nat (length l) <= n)%Z ->
  rest <> [] -> Forall nodash (removelast rest) ->
  exists st', op_add o st op = Ok st' /\
              sval st' = rebuild (dia o) ps (cval c)
                           (OArr (l ++ repeat ONull (Z.to_nat n - length l) ++ [chain rest (ref_value op)])) /\
              sgood st' /\ s_acc st' = s_acc st.
Proof. exact ensure_pads_array. Qed.
Print Assumptions C14_pads_array.

(* afterwards the added value is found at the path (last token a member name or an index; for "-"
   it is the last element of the array) *)
Theorem C14_found : forall o st op r c j1 st',
  s_root st = RCon c -> cgood c -> o_ensure o = true ->
  op_str op (B "path") = Ok (x2f :: r) -> Forall ctok (map decode_token (split_slash r)) -> val_good op ->
  ens (dia o) (ptoks r) (cval c) = Some j1 -> nodash (path_key r) ->
  op_add o st op = Ok st' ->
  get_at (dia o) (ptoks r) (sval st') = Rfc6902.Ok (ref_value op).
Proof. exact ensure_add_found. Qed.
Print Assumptions C14_found.

(* every location that existed before and is not on the path keeps its value (an add that had to
   create at least one parent; when all parents exist it is the plain add, C14_agrees_with_plain_add) *)
Theorem C14_frame : forall o st op r c j1 st',
  s_root st = RCon c -> cgood c -> o_ensure o = true ->
  op_str op (B "path") = Ok (x2f :: r) -> Forall ctok (map decode_token (split_slash r)) -> val_good op ->
  ens (dia o) (ptoks r) (cval c) = Some j1 ->
  Forall nodash (map decode_token (path_parts r)) ->
  descend (dia o) (map decode_token (path_parts r)) (cval c) = None ->
  op_add o st op = Ok st' ->
  forall q x, Forall nonneg q -> get_at (dia o) q (sval st) = Rfc6902.Ok x -> ~ is_prefix q (ptoks r) ->
              get_at (dia o) q (sval st') = Rfc6902.Ok x.
Proof. exact ensure_add_frame. Qed.
Print Assumptions C14_frame.

(* creation: missing parents are created — an array when the next token is an index or "-",
   an object otherwise — padded with nulls up to the index, tokens decoded; what existed stays *)
Example C14_nonvacuous :
  match api_decode (B "[{""op"":""add"",""path"":""/a~1b/2/c/-"",""value"":1},{""op"":""add"",""path"":""/x/y"",""value"":2},{""op"":""add"",""path"":""/k/0"",""value"":3}]") with
  | Some p => api_apply (mkOpts true 0 false true true [] None) [] p (B "{""k"":[9],""x"":{""z"":0}}")
              = ROut (B "{""k"":[3,9],""x"":{""z"":0,""y"":2},""a/b"":[null,null,{""c"":[1]}]}")
  | None => False
  end.
Proof. vm_compute. reflexivity. Qed.

(* ---- the main theorems applied: every hypothesis of C14_add_after_ens, C14_found and C14_frame discharged
   on the loaded document {"k":[9],"x":{"z":0}} and the add of {"v":1} at /a~1b/2/c/1, none of whose parents
   exists, with EnsurePathExistsOnAdd on (and, to show that the other options are free, the remove option on
   and a copy-size limit).  ens creates the array a/b padded with two nulls, the object at 2, the array c
   padded with one null; the theorems yield: the add succeeds with exactly that document, the value is found
   at the path, and the old location /k/0 still holds 9. ---- *)
From JP Require Abs StrInv PointerDomain.
Import PointerDomain.
Import Abs.
Definition C14_ex_doc := B "{""k"":[9],""x"":{""z"":0}}".
Definition C14_ex_patch := B "[{""op"":""add"",""path"":""/a~1b/2/c/1"",""value"":{""v"":1}}]".
Definition C14_ex_o := mkOpts false 7 true true false [] None.
Definition C14_ex_t : tjson := Eval vm_compute in match parse C14_ex_doc with Some t => t | None => TNull end.
Definition C14_ex_op : operation := Eval vm_compute in match api_decode C14_ex_patch with Some [op] => op | _ => [] end.
Definition C14_ex_c : con := Eval vm_compute in match load_doc C14_ex_o C14_ex_t with Ok (RCon c) => c | _ => KAry NNil [] end.
Definition C14_ex_r := B "a~1b/2/c/1".
Definition C14_ex_j1 : ojson :=
  Eval vm_compute in match ens (dia C14_ex_o) (ptoks C14_ex_r) (den C14_ex_t) with Some j => j | None => ONull end.
Definition C14_ex_result : ojson :=
  den (TObj [(B "k", TArr [TNum (B "9")]); (B "x", TObj [(B "z", TNum (B "0"))]);
             (B "a/b", TArr [TNull; TNull; TObj [(B "c", TArr [TNull; TObj [(B "v", TNum (B "1"))]])]])]).

Example C14_main_theorem_applies :
  exists st', op_add C14_ex_o (mkState (RCon C14_ex_c) 0) C14_ex_op = Ok st' /\
    sval st' = C14_ex_result /\ sgood st' /\ s_acc st' = 0%Z /\
    get_at (dia C14_ex_o) [B "a/b"; B "2"; B "c"; B "1"] (sval st') = Rfc6902.Ok (den (TObj [(B "v", TNum (B "1"))])) /\
    get_at (dia C14_ex_o) [B "k"; B "0"] (sval st') = Rfc6902.Ok (ONum (B "9")).
Proof.
  assert (P : parse C14_ex_doc = Some C14_ex_t) by (vm_compute; reflexivity).
  assert (G : cgood C14_ex_c /\ cval C14_ex_c = den C14_ex_t).
  { destruct (load_doc_good C14_ex_o C14_ex_doc C14_ex_t P eq_refl eq_refl) as [c [L [G V]]].
    vm_compute in L. injection L as <-. split; assumption. }
  destruct G as [G V].
  assert (VG : val_good C14_ex_op).
  { assert (Dp : Forall op_dom [C14_ex_op])
      by (apply (PointerDomain.decoded_in_domain_op_dom C14_ex_patch); vm_compute; reflexivity).
    inversion Dp as [|? ? D _]. exact (proj1 D). }
  assert (CT : Forall ctok (map decode_token (split_slash C14_ex_r))).
  { assert (ctok_of : forall t, token_dom t = true -> forallb (fun c => bn c <? 128) (decode_token t) = true ->
                                canonical_neg (decode_token t) = None -> ctok (decode_token t)).
    { intros t A B0 C. split; [apply PointerDomain.token_dom_iff; split; [exact A | apply StrInv.utf8_ascii; exact B0] | exact C]. }
    change (split_slash C14_ex_r) with [B "a~1b"; B "2"; B "c"; B "1"]. cbn [map].
    repeat (apply Forall_cons; [apply ctok_of; vm_compute; reflexivity|]). apply Forall_nil. }
  assert (EN : ens (dia C14_ex_o) (ptoks C14_ex_r) (cval C14_ex_c) = Some C14_ex_j1) by (rewrite V; vm_compute; reflexivity).
  pose proof (C14_add_after_ens C14_ex_o (mkState (RCon C14_ex_c) 0) C14_ex_op C14_ex_r C14_ex_c C14_ex_j1
                eq_refl G eq_refl eq_refl CT VG EN) as H.
  assert (R : at_parent (dia C14_ex_o) (ptoks C14_ex_r) C14_ex_j1 (add_leaf (dia C14_ex_o) (ref_value C14_ex_op))
              = Rfc6902.Ok C14_ex_result) by (vm_compute; reflexivity).
  rewrite R in H. destruct H as [st' [H1 [H2 [H3 H4]]]]. exists st'.
  split; [exact H1|]. split; [exact H2|]. split; [exact H3|]. split; [exact H4|]. split.
  - assert (ND : nodash (path_key C14_ex_r)) by (vm_compute; discriminate).
    exact (C14_found C14_ex_o (mkState (RCon C14_ex_c) 0) C14_ex_op C14_ex_r C14_ex_c C14_ex_j1 st'
             eq_refl G eq_refl eq_refl CT VG EN ND H1).
  - apply (C14_frame C14_ex_o (mkState (RCon C14_ex_c) 0) C14_ex_op C14_ex_r C14_ex_c C14_ex_j1 st'
             eq_refl G eq_refl eq_refl CT VG EN).
    + change (path_parts C14_ex_r) with [B "a~1b"; B "2"; B "c"]. cbn [map].
      repeat (apply Forall_cons; [vm_compute; discriminate|]). apply Forall_nil.
    + rewrite V. vm_compute. reflexivity.
    + exact H1.
    + repeat (apply Forall_cons; [vm_compute; reflexivity|]). apply Forall_nil.
    + unfold sval. cbn [s_root]. rewrite V. vm_compute. reflexivity.
    + intros [s Hs]. vm_compute in Hs. discriminate Hs.
Qed.
Print Assumptions C14_main_theorem_applies.

(* ---- whole patches with the option on (EnsureSim.v): "followed by arbitrary further operations".
   The reference rfc_ens_step creates the missing parents (ens) before an add and is rfc_step otherwise;
   Apply of the model simulates it for every patch in the domain, with the first failing operation and its
   cause class.  DOMAIN: ensure_opts (option on, AllowMissingPathOnRemove off, no copy limit), the C01 token
   domain, the tokens of add paths names or canonical non-negative indices (ctok), and no null on the
   existing part of an add path (ens_run_fits) — the property excludes null and scalar values on the path,
   and the hypothesis is needed: C14_null_parent_depends_on_representation. ---- *)
From JP Require Import Rfc6902 Domain ApplySim.
From JP Require EnsureSim.

Theorem C14_whole_patch : forall o indent p doc t,
  EnsureSim.ensure_opts o -> parse doc = Some t -> root_container t = true -> tnodup t = true ->
  Forall EnsureSim.ens_op_dom p ->
  EnsureSim.ens_run_fits (dia o) (den t) (map den_op p) = true ->
  match EnsureSim.rfc_ens_apply (dia o) (den t) (map den_op p) with
  | Done j => exists n, api_apply o indent p doc = ROut (output o indent (render (o_esc o) n)) /\ aval n = j /\ ngood n
  | Failed i cz => exists e, api_apply o indent p doc = RErr (Some i) e /\ cause_rel cz e
  end.
Proof. exact EnsureSim.api_apply_ens_sim. Qed.
Print Assumptions C14_whole_patch.

(* "an add that succeeds without the option gives the same result with it", for whole patches *)
Theorem C14_agrees_when_parents_exist : forall d doc p doc',
  rfc_apply d doc p = Done doc' -> EnsureSim.rfc_ens_apply d doc p = Done doc'.
Proof. exact EnsureSim.ens_agrees_when_parents_exist. Qed.
Print Assumptions C14_agrees_when_parents_exist.

Theorem C14_apply_agrees_when_parents_exist : forall o indent p doc t j,
  EnsureSim.ensure_opts o -> parse doc = Some t -> root_container t = true -> tnodup t = true ->
  Forall EnsureSim.ens_op_dom p ->
  copies_fit (dia o) (den t) (map den_op p) = true ->
  rfc_apply (dia o) (den t) (map den_op p) = Done j ->
  exists n, api_apply o indent p doc = ROut (output o indent (render (o_esc o) n)) /\ aval n = j /\ ngood n.
Proof. exact EnsureSim.api_apply_ens_agrees. Qed.
Print Assumptions C14_apply_agrees_when_parents_exist.

(* the option is consulted by add only *)
Theorem C14_option_only_read_by_add : forall o b st op,
  op_kind op <> KAdd -> step (EnsureSim.set_ensure o b) st op = step o st op.
Proof. exact EnsureSim.step_ensure_irrelevant. Qed.
Print Assumptions C14_option_only_read_by_add.

Definition C14_null_parent_depends_on_representation := EnsureSim.null_parent_depends_on_representation.
Definition C14_whole_patch_applies := EnsureSim.ens_main_theorem_applies.
Check C14_null_parent_depends_on_representation.
