(* C10 — safe for concurrent use, including a shared Patch.
   Model: any number of threads, each running any program of calls; a step lets any thread take
   ANY scratch object from the pool (or a fresh one), run its next call on it atomically with
   respect to that object, and put it back with arbitrary contents.  Proved: in every reachable
   state every thread holds exactly the results its calls return when run alone (no bound on
   threads, program length or interleaving).  Inputs (documents, the shared Patch) are immutable
   values of the model.  The ownership discipline this rests on is evaluated on the facts extracted
   from the current source (FactsGen.v, regenerated on every run).
   Partial (DESIGN section 11): whether an execution of the Go code contains a data race is a fact
   about the runtime's memory accesses; it is observed under the race detector on every run, not
   proved. *)
From Coq Require Import String.
From JP Require Import Bytes Json Text ImplV5 Pool Cli.
From JP.gen Require Import FactsGen.

Theorem C10_schedule_independent : forall leaves progs s,
  reachable leaves (mkSched [] (map (fun p => mkThread p []) progs)) s ->
  Forall2 thread_ok progs (threads s).
Proof. exact schedule_independent. Qed.
Print Assumptions C10_schedule_independent.

Theorem C10_results : forall leaves progs s,
  reachable leaves (mkSched [] (map (fun p => mkThread p []) progs)) s ->
  Forall (fun th => todo th = []) (threads s) ->
  map done (threads s) = map (map solo) progs.
Proof. exact schedule_results. Qed.
Print Assumptions C10_results.

(* the same call on a shared Patch and shared documents, from any thread, on any scratch object *)
Theorem C10_shared_inputs : forall r1 r2 c, run_call r1 c = run_call r2 c.
Proof. intros. now rewrite !call_residue_independent. Qed.
Print Assumptions C10_shared_inputs.

Example C10_facts_ok : discipline_ok = true.
Proof. vm_compute. reflexivity. Qed.

(* non-vacuity: a two-thread schedule in which the second thread reuses the object the first one
   dirtied *)
Example C10_nonvacuous :
  let c := CApply Cli.default_opts [] (B "[{""op"":""test"",""path"":"""",""value"":null}]") (B "null") in
  let leaves := fun (r : list bytes) (_ : call) => B "dirty" :: r in
  let s0 := mkSched [] [mkThread [c] []; mkThread [c] []] in
  exists s1 s2, sstep leaves s0 s1 /\ sstep leaves s1 s2 /\
    pool s2 = [[B "dirty"; B "dirty"]] /\ map done (threads s2) = [[solo c]; [solo c]].
Proof.
  intros c leaves s0.
  eexists. eexists. split; [|split].
  - apply (SStep leaves [] [mkThread [c] []; mkThread [c] []] 0 (mkThread [c] []) c [] [] true 0); reflexivity.
  - cbn. apply (SStep leaves _ _ 1 (mkThread [c] []) c [] [B "dirty"] false 0); reflexivity.
  - vm_compute. split; reflexivity.
Qed.
