(* C20 — the json-patch command.  The model of the command (Cli.v, compared with the built binary on
   every run) is the fold of the library's Apply over the patch files. *)
From JP Require Import Bytes Json Text ImplV5 Cli.

(* exit 0 with a document exactly when every file is readable and decodes and every patch applies
   in turn; the document written is the result of applying them one after another *)
Theorem C20_success_iff : forall files stdin out,
  cli_run files stdin = Some out <->
  exists patches, decode_all files = Some patches /\ fold_apply patches stdin = Some out.
Proof.
  intros files stdin out. unfold cli_run. destruct (decode_all files) as [ps|].
  - split; [intro H; eauto | intros [ps' [E H]]; inversion E; subst; exact H].
  - split; [discriminate | intros [ps' [E _]]; discriminate].
Qed.
Print Assumptions C20_success_iff.

(* the fold, one patch at a time: the output of each Apply is the input of the next *)
Theorem C20_fold_step : forall p rest doc,
  fold_apply (p :: rest) doc =
  match api_apply default_opts [] p doc with ROut out => fold_apply rest out | _ => None end.
Proof. reflexivity. Qed.
Print Assumptions C20_fold_step.

(* zero patch files: standard input is written back verbatim *)
Theorem C20_no_patches : forall stdin, cli_run [] stdin = Some stdin.
Proof. reflexivity. Qed.
Print Assumptions C20_no_patches.

(* an unreadable or undecodable patch file anywhere on the command line: no document, whatever
   the other files are (all files are read before anything is applied) *)
Theorem C20_bad_file_no_output : forall pre f post stdin,
  (f = PUnreadable \/ exists b, f = PFile b /\ api_decode b = None) ->
  cli_run (pre ++ f :: post) stdin = None.
Proof.
  intros pre f post stdin H. unfold cli_run.
  assert (E : decode_all (pre ++ f :: post) = None).
  { induction pre as [|g pre IH]; simpl.
    - destruct H as [-> | [b [-> D]]]; auto. now rewrite D.
    - destruct g; auto. destruct (api_decode content); auto. now rewrite IH. }
  now rewrite E.
Qed.
Print Assumptions C20_bad_file_no_output.

(* a patch that fails to apply: no document (no partial output) *)
Theorem C20_failed_apply_no_output : forall pre p post doc mid,
  fold_apply pre doc = Some mid ->
  (forall out, api_apply default_opts [] p mid <> ROut out) ->
  fold_apply (pre ++ p :: post) doc = None.
Proof.
  induction pre as [|q pre IH]; intros p post doc mid H F; simpl in *.
  - inversion H; subst. destruct (api_apply default_opts [] p mid) eqn:E; auto. exfalso. eapply F; eauto.
  - destruct (api_apply default_opts [] q doc); try discriminate. eapply IH; eauto.
Qed.
Print Assumptions C20_failed_apply_no_output.

Example C20_nonvacuous :
  cli_run [PFile (B "[{""op"":""add"",""path"":""/b"",""value"":1}]"); PFile (B "[{""op"":""move"",""from"":""/b"",""path"":""/c""}]")]
          (B "{""a"":0}") = Some (B "{""a"":0,""c"":1}") /\
  cli_run [PFile (B "[{""op"":""add"",""path"":""/b"",""value"":1}]"); PFile (B "[{""op"":""test"",""path"":""/b"",""value"":2}]")]
          (B "{""a"":0}") = None.
Proof. vm_compute. split; reflexivity. Qed.
