(* C06 — Equal decides structural equality (v5).
   DOMAIN: every theorem below about texts needs tnodup: the texts have no repeated member name in any
   object (C06_equal_spec asks it of whatever the two texts parse to; C06_node_equal asks nwf of the
   nodes, which contains it).  With a repeated name Equal follows Go-map semantics: decoding into a
   map keeps the LAST value of the name, so Equal compares the deduplicated values; jeq on den (an
   association list with the repetition still in it) does not express that, and reflexivity,
   symmetry and transitivity are not proved for such texts.  There the correspondence judges Equal
   on every run against jeq of the DEDUPLICATED values (last occurrence wins).
   C06_malformed_false and C06_null_only_null need no such hypothesis. *)
From JP Require Import Bytes Json Text Strings Den ImplV5 JsonFacts Abs EqualFacts ParseFacts.

(* the comparison of two nodes in ANY parse state (raw, half parsed, fully parsed) is structural
   equality of the values they denote *)
Theorem C06_node_equal : forall n o,
  nwf n -> nlit n -> nwf o -> nlit o -> node_equal n o = jeq (aval n) (aval o).
Proof. exact node_equal_spec. Qed.
Print Assumptions C06_node_equal.

(* Equal(a, b) on byte strings: true exactly when both are well-formed and denote the same value
   (members without duplicate names) *)
Theorem C06_equal_spec : forall a b,
  (forall ta, parse a = Some ta -> tnodup ta = true) ->
  (forall tb, parse b = Some tb -> tnodup tb = true) ->
  (api_equal a b = true <->
   exists ta tb, parse a = Some ta /\ parse b = Some tb /\ jeq (den ta) (den tb) = true).
Proof.
  intros a b Na Nb. unfold api_equal.
  destruct (parse a) as [ta|] eqn:Pa; [|split; [discriminate | intros [? [? [H _]]]; discriminate]].
  destruct (parse b) as [tb|] eqn:Pb; [|split; [discriminate | intros [? [? [_ [H _]]]]; discriminate]].
  rewrite node_equal_spec.
  - simpl. split.
    + intro H. exists ta, tb. auto.
    + intros [ta' [tb' [E1 [E2 H]]]]. inversion E1; inversion E2; subst. exact H.
  - apply nwf_raw. auto.
  - exact (parse_tlit a ta Pa).
  - apply nwf_raw. auto.
  - exact (parse_tlit b tb Pb).
Qed.
Print Assumptions C06_equal_spec.

(* false for malformed input *)
Theorem C06_malformed_false : forall a b, parse a = None \/ parse b = None -> api_equal a b = false.
Proof.
  intros a b [H|H]; unfold api_equal; rewrite H; auto. destruct (parse a); auto.
Qed.
Print Assumptions C06_malformed_false.

(* consequently: reflexive on well-formed texts, symmetric, transitive *)
Theorem C06_reflexive : forall a ta, parse a = Some ta -> tnodup ta = true -> api_equal a a = true.
Proof.
  intros a ta P N. unfold api_equal. rewrite P.
  rewrite node_equal_spec; try (apply nwf_raw; auto); try exact (parse_tlit a ta P).
  simpl. apply jeq_refl. exact N.
Qed.
Print Assumptions C06_reflexive.

Theorem C06_symmetric : forall a b ta tb,
  parse a = Some ta -> parse b = Some tb -> tnodup ta = true -> tnodup tb = true ->
  api_equal a b = api_equal b a.
Proof.
  intros a b ta tb Pa Pb Na Nb. unfold api_equal. rewrite Pa, Pb.
  rewrite !node_equal_spec; try (apply nwf_raw; auto); try exact (parse_tlit a ta Pa); try exact (parse_tlit b tb Pb).
  simpl. apply Bool.eq_true_iff_eq. split; apply jeq_sym; auto.
Qed.
Print Assumptions C06_symmetric.

Theorem C06_transitive : forall a b c ta tb tc,
  parse a = Some ta -> parse b = Some tb -> parse c = Some tc ->
  tnodup ta = true -> tnodup tb = true -> tnodup tc = true ->
  api_equal a b = true -> api_equal b c = true -> api_equal a c = true.
Proof.
  intros a b c ta tb tc Pa Pb Pc Na Nb Nc. unfold api_equal. rewrite Pa, Pb, Pc.
  rewrite !node_equal_spec; try (apply nwf_raw; auto);
    try exact (parse_tlit a ta Pa); try exact (parse_tlit b tb Pb); try exact (parse_tlit c tc Pc).
  simpl. apply jeq_trans; auto.
Qed.
Print Assumptions C06_transitive.

(* null is equal only to null, at every position (jeq compares constructors) *)
Theorem C06_null_only_null : forall x, jeq ONull x = true <-> x = ONull.
Proof. intro x. destruct x; simpl; split; intro H; try discriminate; auto. Qed.
Print Assumptions C06_null_only_null.

Example C06_nonvacuous :
  api_equal (B " {""a"":[null,{""x"":""é"",""y"":1.0}],""b"":null} ") (B "{""b"":null,""a"":[null,{""y"":1.0,""x"":""é""}]}") = true /\
  api_equal (B "{""a"":null}") (B "{}") = false /\ api_equal (B "[null]") (B "[]") = false /\
  api_equal (B "{""a"":1}") (B "{""a"":1}x") = false.
Proof. vm_compute. repeat split; reflexivity. Qed.
