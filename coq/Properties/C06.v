(* C06 — Equal decides structural equality (v5).
   The theorems come in two groups.  (1) For texts without repeated member names (tnodup) Equal is
   jeq of the denoted values (C06_equal_spec, C06_reflexive, C06_symmetric, C06_transitive).
   (2) For ALL texts (EqualDup.v): with a repeated name Equal follows Go-map semantics — decoding into
   a map keeps the LAST value of the name — so Equal is jeq of the DEDUPLICATED values
   (C06_equal_spec_all), and it is reflexive on every well-formed text, symmetric and transitive on
   all byte strings (C06_reflexive_all, C06_symmetric_all, C06_transitive_all); dedup is the identity
   on values without repeated names (C06_dedup_id), so group (1) is the special case.  The
   correspondence judges Equal on every run against jeq of the deduplicated values (the same dedup).
   C06_malformed_false and C06_null_only_null need no hypothesis. *)
From JP Require Import Bytes Json Text Strings Den ImplV5 JsonFacts Abs EqualFacts ParseFacts.
From JP Require EqualDup.

(* the comparison of two nodes in ANY parse state (raw, half parsed, fully parsed) is structural
   equality of the values they denote *)
Theorem C06_node_equal : forall n o,
  nwf n -> nlit n -> nwf o -> nlit o -> node_equal n o = jeq (aval n) (aval o).
Proof. exact node_equal_spec. Qed.
Print Assumptions C06_node_equal.

(* Equal(a, b) on byte strings: true exactly when both are well-formed and denote the same value
   (members without duplicate names) *)
Theorem C06_equal_spec : forall a b,
  (forall ta, parse a = Some ta -> tnodup ta = true) ->
  (forall tb, parse b = Some tb -> tnodup tb = true) ->
  (api_equal a b = true <->
   exists ta tb, parse a = Some ta /\ parse b = Some tb /\ jeq (den ta) (den tb) = true).
Proof.
  intros a b Na Nb. unfold api_equal.
  destruct (parse a) as [ta|] eqn:Pa; [|split; [discriminate | intros [? [? [H _]]]; discriminate]].
  destruct (parse b) as [tb|] eqn:Pb; [|split; [discriminate | intros [? [? [_ [H _]]]]; discriminate]].
  rewrite node_equal_spec.
  - simpl. split.
    + intro H. exists ta, tb. auto.
    + intros [ta' [tb' [E1 [E2 H]]]]. inversion E1; inversion E2; subst. exact H.
  - apply nwf_raw. auto.
  - exact (parse_tlit a ta Pa).
  - apply nwf_raw. auto.
  - exact (parse_tlit b tb Pb).
Qed.
Print Assumptions C06_equal_spec.

(* false for malformed input *)
Theorem C06_malformed_false : forall a b, parse a = None \/ parse b = None -> api_equal a b = false.
Proof.
  intros a b [H|H]; unfold api_equal; rewrite H; auto. destruct (parse a); auto.
Qed.
Print Assumptions C06_malformed_false.

(* consequently: reflexive on well-formed texts, symmetric, transitive *)
Theorem C06_reflexive : forall a ta, parse a = Some ta -> tnodup ta = true -> api_equal a a = true.
Proof.
  intros a ta P N. unfold api_equal. rewrite P.
  rewrite node_equal_spec; try (apply nwf_raw; auto); try exact (parse_tlit a ta P).
  simpl. apply jeq_refl. exact N.
Qed.
Print Assumptions C06_reflexive.

Theorem C06_symmetric : forall a b ta tb,
  parse a = Some ta -> parse b = Some tb -> tnodup ta = true -> tnodup tb = true ->
  api_equal a b = api_equal b a.
Proof.
  intros a b ta tb Pa Pb Na Nb. unfold api_equal. rewrite Pa, Pb.
  rewrite !node_equal_spec; try (apply nwf_raw; auto); try exact (parse_tlit a ta Pa); try exact (parse_tlit b tb Pb).
  simpl. apply Bool.eq_true_iff_eq. split; apply jeq_sym; auto.
Qed.
Print Assumptions C06_symmetric.

Theorem C06_transitive : forall a b c ta tb tc,
  parse a = Some ta -> parse b = Some tb -> parse c = Some tc ->
  tnodup ta = true -> tnodup tb = true -> tnodup tc = true ->
  api_equal a b = true -> api_equal b c = true -> api_equal a c = true.
Proof.
  intros a b c ta tb tc Pa Pb Pc Na Nb Nc. unfold api_equal. rewrite Pa, Pb, Pc.
  rewrite !node_equal_spec; try (apply nwf_raw; auto);
    try exact (parse_tlit a ta Pa); try exact (parse_tlit b tb Pb); try exact (parse_tlit c tc Pc).
  simpl. apply jeq_trans; auto.
Qed.
Print Assumptions C06_transitive.

(* null is equal only to null, at every position (jeq compares constructors) *)
Theorem C06_null_only_null : forall x, jeq ONull x = true <-> x = ONull.
Proof. intro x. destruct x; simpl; split; intro H; try discriminate; auto. Qed.
Print Assumptions C06_null_only_null.

Example C06_nonvacuous :
  api_equal (B " {""a"":[null,{""x"":""é"",""y"":1.0}],""b"":null} ") (B "{""b"":null,""a"":[null,{""y"":1.0,""x"":""é""}]}") = true /\
  api_equal (B "{""a"":null}") (B "{}") = false /\ api_equal (B "[null]") (B "[]") = false /\
  api_equal (B "{""a"":1}") (B "{""a"":1}x") = false.
Proof. vm_compute. repeat split; reflexivity. Qed.

(* ---- all texts, repeated member names included (Go-map semantics: the last value of a name) ---- *)
Theorem C06_equal_all : forall a b ta tb,
  parse a = Some ta -> parse b = Some tb ->
  api_equal a b = jeq (EqualDup.dedup (den ta)) (EqualDup.dedup (den tb)).
Proof. exact EqualDup.api_equal_dedup. Qed.
Print Assumptions C06_equal_all.

Theorem C06_equal_spec_all : forall a b,
  api_equal a b = true <->
  exists ta tb, parse a = Some ta /\ parse b = Some tb /\
                jeq (EqualDup.dedup (den ta)) (EqualDup.dedup (den tb)) = true.
Proof. exact EqualDup.equal_spec_dedup. Qed.
Print Assumptions C06_equal_spec_all.

Theorem C06_dedup_id : forall j, onodup j = true -> EqualDup.dedup j = j.
Proof. exact EqualDup.dedup_id. Qed.
Print Assumptions C06_dedup_id.

Theorem C06_dedup_is_a_map : forall j, onodup (EqualDup.dedup j) = true.
Proof. exact EqualDup.dedup_onodup. Qed.
Print Assumptions C06_dedup_is_a_map.

Theorem C06_reflexive_all : forall a ta, parse a = Some ta -> api_equal a a = true.
Proof. exact EqualDup.equal_reflexive_all. Qed.
Print Assumptions C06_reflexive_all.

Theorem C06_symmetric_all : forall a b, api_equal a b = api_equal b a.
Proof. exact EqualDup.equal_symmetric_all. Qed.
Print Assumptions C06_symmetric_all.

Theorem C06_transitive_all : forall a b c, api_equal a b = true -> api_equal b c = true -> api_equal a c = true.
Proof. exact EqualDup.equal_transitive_all. Qed.
Print Assumptions C06_transitive_all.

(* the node-level statement in ANY parse state, without the no-repetition demand on raw parts *)
Theorem C06_node_equal_all : forall n o,
  EqualDup.nwfd n -> nlit n -> EqualDup.nwfd o -> nlit o ->
  node_equal n o = jeq (EqualDup.dedup (aval n)) (EqualDup.dedup (aval o)).
Proof. exact EqualDup.node_equal_dspec. Qed.
Print Assumptions C06_node_equal_all.

Example C06_repeated_names :
  api_equal (B "{""a"":1,""a"":2}") (B "{""a"":2}") = true /\
  api_equal (B "{""a"":1,""a"":2}") (B "{""a"":1}") = false /\
  api_equal (B "{""a"":1,""a"":null}") (B "{}") = false.
Proof. vm_compute. repeat split; reflexivity. Qed.
