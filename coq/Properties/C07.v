(* C07 — MergeMergePatches composes.  Only the property theorems live here, each closed by a lemma
   of MergeFacts.v / ImplMergeFacts.v, with Print Assumptions beneath. *)
From JP Require Import Bytes Json Text Strings Den ImplV5 ImplMerge Rfc7396 JsonFacts MergeFacts Abs ImplMergeFacts.
From JP Require Import Scan OutputFacts.

(* The composition law at the level of RFC 7396 values, for every document and every pair of
   compatible patches (no bound on size or nesting; "no duplicate member names" is the property's
   own domain). *)
Theorem C07_compose_law : forall d p1 p2,
  onodup d = true -> onodup p1 = true -> onodup p2 = true -> compatible p1 p2 = true ->
  jeq (merge_patch d (mm p1 p2)) (merge_patch (merge_patch d p1) p2) = true.
Proof. intros d p1 p2. exact (compose_law p2 d p1). Qed.
Print Assumptions C07_compose_law.

(* MergeMergePatches itself (the model of merge.go in mergeMerge mode): for an object P1 and any
   compatible P2 the result encodes a node whose value is exactly mm P1 P2 — the combined patch of
   the law above; a scalar or null P2 is returned verbatim *)
Theorem C07_mergemerge_refines_mm : forall p1 p2 ms1 t2,
  parse p1 = Some (TObj ms1) -> parse p2 = Some t2 -> tnodup (TObj ms1) = true -> tnodup t2 = true ->
  compatible (den (TObj ms1)) (den t2) = true ->
  (scalar_text t2 = true /\ api_merge true p1 p2 = MOut p2) \/
  (scalar_text t2 = false /\ exists n, api_merge true p1 p2 = MOut (marshal_node n) /\ nwf n /\
                                       aval n = mm (den (TObj ms1)) (den t2)).
Proof. exact api_mergemerge_spec. Qed.
Print Assumptions C07_mergemerge_refines_mm.

(* the output BYTES of MergeMergePatches: one well-formed JSON text (read by the independent reader,
   accepted by the scanner) whose value is exactly the combined patch mm P1 P2 of the law above *)
Theorem C07_mergemerge_output_bytes : forall p1 p2 ms1 t2,
  parse p1 = Some (TObj ms1) -> parse p2 = Some t2 -> tnodup (TObj ms1) = true -> tnodup t2 = true ->
  compatible (den (TObj ms1)) (den t2) = true ->
  exists out t', api_merge true p1 p2 = MOut out /\ parse out = Some t' /\
                 den t' = mm (den (TObj ms1)) (den t2) /\ valid_gen out = true.
Proof. exact api_mergemerge_output. Qed.
Print Assumptions C07_mergemerge_output_bytes.

(* deletions of both patches survive; a later value overrides an earlier one *)
Theorem C07_combined_member : forall ms1 ms2 k,
  NoDup (map fst ms2) ->
  aget k (members_of (mm (OObj ms1) (OObj ms2))) = mm_lookup (aget k ms2) (aget k ms1).
Proof. intros. rewrite mm_obj. simpl. now apply mm_members_lookup. Qed.
Print Assumptions C07_combined_member.

Theorem C07_deletion_of_p2_survives : forall ms1 ms2 k,
  NoDup (map fst ms2) -> aget k ms2 = Some ONull ->
  aget k (members_of (mm (OObj ms1) (OObj ms2))) = Some ONull.
Proof. intros ms1 ms2 k N H. rewrite C07_combined_member, H by auto. reflexivity. Qed.
Print Assumptions C07_deletion_of_p2_survives.

Theorem C07_deletion_of_p1_survives : forall ms1 ms2 k,
  NoDup (map fst ms2) -> aget k ms1 = Some ONull -> aget k ms2 = None ->
  aget k (members_of (mm (OObj ms1) (OObj ms2))) = Some ONull.
Proof. intros ms1 ms2 k N H1 H2. rewrite C07_combined_member, H1, H2 by auto. reflexivity. Qed.
Print Assumptions C07_deletion_of_p1_survives.

(* if P2 is not an object the combined patch is P2 *)
Theorem C07_nonobject_p2 : forall p1 p2, (forall ms, p2 <> OObj ms) -> mm p1 p2 = p2.
Proof. exact mm_nonobj2. Qed.
Print Assumptions C07_nonobject_p2.

(* the side condition is needed: without it the law is false *)
Theorem C07_needs_compatibility :
  exists d p1 p2, onodup d = true /\ onodup p1 = true /\ onodup p2 = true /\ compatible p1 p2 = false /\
    jeq (merge_patch d (mm p1 p2)) (merge_patch (merge_patch d p1) p2) = false.
Proof.
  exists (OObj [(B "a", OObj [(B "x", ONum (B "1"))])]), (OObj [(B "a", ONull)]),
         (OObj [(B "a", OObj [(B "y", ONum (B "2"))])]).
  vm_compute. repeat split; reflexivity.
Qed.

(* non-vacuity: a compatible triple with nulls at depth 2, a type change and an array value *)
Example C07_nonvacuous :
  let d := OObj [(B "a", OObj [(B "x", ONum (B "1")); (B "y", ONum (B "2"))]); (B "k", OStr (B "s"))] in
  let p1 := OObj [(B "a", OObj [(B "x", ONull); (B "z", OArr [ONull])]); (B "n", ONum (B "0"))] in
  let p2 := OObj [(B "a", OObj [(B "y", ONull); (B "z", OStr (B "t"))]); (B "k", ONull); (B "n", OStr (B "u")); (B "m", OObj [(B "q", ONull)])] in
  compatible p1 p2 = true /\ onodup d && onodup p1 && onodup p2 = true /\
  merge_patch (merge_patch d p1) p2 = OObj [(B "a", OObj [(B "z", OStr (B "t"))]); (B "n", OStr (B "u")); (B "m", OObj [])] /\
  mm p1 p2 = OObj [(B "a", OObj [(B "x", ONull); (B "z", OStr (B "t")); (B "y", ONull)]); (B "n", OStr (B "u")); (B "k", ONull); (B "m", OObj [(B "q", ONull)])].
Proof. vm_compute. repeat split; reflexivity. Qed.

(* ---- the main theorems applied: every hypothesis of C07_mergemerge_refines_mm, C07_mergemerge_output_bytes
   and C07_compose_law discharged on the texts of the compatible pair of C07_nonvacuous and a document ---- *)
Definition C07_ex_p1 := B "{""a"":{""x"":null,""z"":[null]},""n"":0}".
Definition C07_ex_p2 := B "{""a"":{""y"":null,""z"":""t""},""k"":null,""n"":""u"",""m"":{""q"":null}}".
Definition C07_ex_doc := B "{""a"":{""x"":1,""y"":2},""k"":""s""}".
Definition C07_ex_ms1 : list (bytes * tjson) := match parse C07_ex_p1 with Some (TObj ms) => ms | _ => [] end.
Definition C07_ex_t2 : tjson := match parse C07_ex_p2 with Some t => t | None => TNull end.
Definition C07_ex_td : tjson := match parse C07_ex_doc with Some t => t | None => TNull end.

Example C07_main_theorem_applies :
  (exists n, api_merge true C07_ex_p1 C07_ex_p2 = MOut (marshal_node n) /\ nwf n /\
             aval n = mm (den (TObj C07_ex_ms1)) (den C07_ex_t2)) /\
  (exists out t', api_merge true C07_ex_p1 C07_ex_p2 = MOut out /\ parse out = Some t' /\
                  den t' = mm (den (TObj C07_ex_ms1)) (den C07_ex_t2) /\ valid_gen out = true) /\
  jeq (merge_patch (den C07_ex_td) (mm (den (TObj C07_ex_ms1)) (den C07_ex_t2)))
      (merge_patch (merge_patch (den C07_ex_td) (den (TObj C07_ex_ms1))) (den C07_ex_t2)) = true.
Proof.
  assert (P1 : parse C07_ex_p1 = Some (TObj C07_ex_ms1)) by (vm_compute; reflexivity).
  assert (P2 : parse C07_ex_p2 = Some C07_ex_t2) by (vm_compute; reflexivity).
  assert (N1 : tnodup (TObj C07_ex_ms1) = true) by (vm_compute; reflexivity).
  assert (N2 : tnodup C07_ex_t2 = true) by (vm_compute; reflexivity).
  assert (Nd : onodup (den C07_ex_td) = true) by (vm_compute; reflexivity).
  assert (C : compatible (den (TObj C07_ex_ms1)) (den C07_ex_t2) = true) by (vm_compute; reflexivity).
  split; [|split].
  - destruct (C07_mergemerge_refines_mm C07_ex_p1 C07_ex_p2 C07_ex_ms1 C07_ex_t2 P1 P2 N1 N2 C) as [[S _] | [_ H]].
    + vm_compute in S. discriminate S.
    + exact H.
  - exact (C07_mergemerge_output_bytes C07_ex_p1 C07_ex_p2 C07_ex_ms1 C07_ex_t2 P1 P2 N1 N2 C).
  - exact (C07_compose_law (den C07_ex_td) (den (TObj C07_ex_ms1)) (den C07_ex_t2) Nd N1 N2 C).
Qed.
Print Assumptions C07_main_theorem_applies.
