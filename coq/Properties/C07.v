(* C07 — MergeMergePatches composes.  Only the property theorems live here, each closed by a lemma
   of MergeFacts.v / ImplMergeFacts.v, with Print Assumptions beneath. *)
From JP Require Import Bytes Json Text Strings Den ImplV5 ImplMerge Rfc7396 JsonFacts MergeFacts Abs ImplMergeFacts.
From JP Require Import Scan OutputFacts.

(* The composition law at the level of RFC 7396 values, for every document and every pair of
   compatible patches (no bound on size or nesting; "no duplicate member names" is the property's
   own domain). *)
Theorem C07_compose_law : forall d p1 p2,
  onodup d = true -> onodup p1 = true -> onodup p2 = true -> compatible p1 p2 = true ->
  jeq (merge_patch d (mm p1 p2)) (merge_patch (merge_patch d p1) p2) = true.
Proof. intros d p1 p2. exact (compose_law p2 d p1). Qed.
Print Assumptions C07_compose_law.

(* MergeMergePatches itself (the model of merge.go in mergeMerge mode): for an object P1 and any
   compatible P2 the result encodes a node whose value is exactly mm P1 P2 — the combined patch of
   the law above; a scalar or null P2 is returned verbatim *)
Theorem C07_mergemerge_refines_mm : forall p1 p2 ms1 t2,
  parse p1 = Some (TObj ms1) -> parse p2 = Some t2 -> tnodup (TObj ms1) = true -> tnodup t2 = true ->
  compatible (den (TObj ms1)) (den t2) = true ->
  (scalar_text t2 = true /\ api_merge true p1 p2 = MOut p2) \/
  (scalar_text t2 = false /\ exists n, api_merge true p1 p2 = MOut (marshal_node n) /\ nwf n /\
                                       aval n = mm (den (TObj ms1)) (den t2)).
Proof. exact api_mergemerge_spec. Qed.
Print Assumptions C07_mergemerge_refines_mm.

(* the output BYTES of MergeMergePatches: one well-formed JSON text (read by the independent reader,
   accepted by the scanner) whose value is exactly the combined patch mm P1 P2 of the law above *)
Theorem C07_mergemerge_output_bytes : forall p1 p2 ms1 t2,
  parse p1 = Some (TObj ms1) -> parse p2 = Some t2 -> tnodup (TObj ms1) = true -> tnodup t2 = true ->
  compatible (den (TObj ms1)) (den t2) = true ->
  exists out t', api_merge true p1 p2 = MOut out /\ parse out = Some t' /\
                 den t' = mm (den (TObj ms1)) (den t2) /\ valid_gen out = true.
Proof. exact api_mergemerge_output. Qed.
Print Assumptions C07_mergemerge_output_bytes.

(* deletions of both patches survive; a later value overrides an earlier one *)
Theorem C07_combined_member : forall ms1 ms2 k,
  NoDup (map fst ms2) ->
  aget k (members_of (mm (OObj ms1) (OObj ms2))) = mm_lookup (aget k ms2) (aget k ms1).
Proof. intros. rewrite mm_obj. simpl. now apply mm_members_lookup. Qed.
Print Assumptions C07_combined_member.

Theorem C07_deletion_of_p2_survives : forall ms1 ms2 k,
  NoDup (map fst ms2) -> aget k ms2 = Some ONull ->
  aget k (members_of (mm (OObj ms1) (OObj ms2))) = Some ONull.
Proof. intros ms1 ms2 k N H. rewrite C07_combined_member, H by auto. reflexivity. Qed.
Print Assumptions C07_deletion_of_p2_survives.

Theorem C07_deletion_of_p1_survives : forall ms1 ms2 k,
  NoDup (map fst ms2) -> aget k ms1 = Some ONull -> aget k ms2 = None ->
  aget k (members_of (mm (OObj ms1) (OObj ms2))) = Some ONull.
Proof. intros ms1 ms2 k N H1 H2. rewrite C07_combined_member, H1, H2 by auto. reflexivity. Qed.
Print Assumptions C07_deletion_of_p1_survives.

(* if P2 is not an object the combined patch is P2 *)
Theorem C07_nonobject_p2 : forall p1 p2, (forall ms, p2 <> OObj ms) -> mm p1 p2 = p2.
Proof. exact mm_nonobj2. Qed.
Print Assumptions C07_nonobject_p2.

(* the side condition is needed: without it the law is false *)
Theorem C07_needs_compatibility :
  exists d p1 p2, onodup d = true /\ onodup p1 = true /\ onodup p2 = true /\ compatible p1 p2 = false /\
    jeq (merge_patch d (mm p1 p2)) (merge_patch (merge_patch d p1) p2) = false.
Proof.
  exists (OObj [(B "a", OObj [(B "x", ONum (B "1"))])]), (OObj [(B "a", ONull)]),
         (OObj [(B "a", OObj [(B "y", ONum (B "2"))])]).
  vm_compute. repeat split; reflexivity.
Qed.

(* non-vacuity: a compatible triple with nulls at depth 2, a type change and an array value *)
Example C07_nonvacuous :
  let d := OObj [(B "a", OObj [(B "x", ONum (B "1")); (B "y", ONum (B "2"))]); (B "k", OStr (B "s"))] in
  let p1 := OObj [(B "a", OObj [(B "x", ONull); (B "z", OArr [ONull])]); (B "n", ONum (B "0"))] in
  let p2 := OObj [(B "a", OObj [(B "y", ONull); (B "z", OStr (B "t"))]); (B "k", ONull); (B "n", OStr (B "u")); (B "m", OObj [(B "q", ONull)])] in
  compatible p1 p2 = true /\ onodup d && onodup p1 && onodup p2 = true /\
  merge_patch (merge_patch d p1) p2 = OObj [(B "a", OObj [(B "z", OStr (B "t"))]); (B "n", OStr (B "u")); (B "m", OObj [])] /\
  mm p1 p2 = OObj [(B "a", OObj [(B "x", ONull); (B "z", OStr (B "t")); (B "y", ONull)]); (B "n", OStr (B "u")); (B "k", ONull); (B "m", OObj [(B "q", ONull)])].
Proof. vm_compute. repeat split; reflexivity. Qed.
