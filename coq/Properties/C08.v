(* C08 — a failing Apply returns nothing and says why (v5). *)
From JP Require Import Bytes Json Text Strings Den Pointer Rfc6902 ImplV5 Domain ApplyFacts ImplFacts Depth ApplySim.

(* operations after the first failing one have no effect on the outcome: the result is the first
   failing operation's error, at its index, whatever follows *)
Theorem C08_first_failure : forall o p1 op p2 st st' e,
  apply_from o 0 st p1 = AOk st' -> step o st' op = Err e ->
  apply_from o 0 st (p1 ++ op :: p2) = AErr (length p1) e.
Proof. intros. now apply (first_failure o p1 op p2 st st' e 0). Qed.
Print Assumptions C08_first_failure.

(* a failing patch returns no document: the byte-level result of the model is an error value that
   carries no bytes, at the index of the first failing operation *)
Theorem C08_error_no_document : forall o indent p1 op p2 doc r st' e,
  load_doc o doc = Ok r -> apply_from o 0 (mkState r 0) p1 = AOk st' -> step o st' op = Err e ->
  apply_tree o indent (p1 ++ op :: p2) doc = RErr (Some (length p1)) e.
Proof.
  intros o indent p1 op p2 doc r st' e L A S. unfold apply_tree. rewrite L.
  now rewrite (C08_first_failure o p1 op p2 _ st' e A S).
Qed.
Print Assumptions C08_error_no_document.

(* errors.Is(err, ErrTestFailed) only when the first failing operation is a test *)
Theorem C08_test_failed_only_by_test : forall o st op,
  step o st op = Err ETestFailed -> op_kind op = KTest.
Proof. exact test_failed_only_by_test. Qed.
Print Assumptions C08_test_failed_only_by_test.

(* *AccumulatedCopySizeError only when it is a copy that pushed the total over a positive limit *)
Theorem C08_copy_limit_only_by_copy : forall o st op l a,
  step o st op = Err (ECopyLimit l a) ->
  op_kind op = KCopy /\ (0 < o_limit o)%Z /\ l = o_limit o /\ (o_limit o < a)%Z.
Proof. exact step_copy_limit. Qed.
Print Assumptions C08_copy_limit_only_by_copy.

(* the cause, against the reference: in the stated domain Apply fails at the reference's first
   failing operation, and the error class corresponds to the reference's cause of failure.
   copies_fit: no copy the reference run reaches has a source nested deeper than deepCopy accepts
   (otherwise the patch fails at that copy, with deepCopy's error: C01_copy_too_deep_rejects_patch) *)
Theorem C08_cause : forall o indent p doc t i cz,
  plain_opts o -> parse doc = Some t -> root_container t = true -> tnodup t = true ->
  Forall op_dom p -> copies_fit (dia o) (den t) (map den_op p) = true ->
  rfc_apply (dia o) (den t) (map den_op p) = Failed i cz ->
  exists e, api_apply o indent p doc = RErr (Some i) e /\
    (e = ETestFailed <-> cz = FTest) /\
    (cz = FMissingMember \/ cz = FUnreachable -> e = EMissing) /\
    is_copy_limit e = false.
Proof.
  intros o indent p doc t i cz PO P RC T D F R.
  pose proof (api_apply_sim o indent p doc t PO P RC T D F) as S. rewrite R in S.
  destruct S as [e [S1 S2]]. exists e. split; [exact S1|].
  split; [apply cause_rel_test_iff; exact S2|]. split; [apply cause_rel_missing; exact S2 | eapply cause_rel_not_limit; eauto].
Qed.
Print Assumptions C08_cause.

(* a patch whose operations all succeed never returns an error from the loop *)
Theorem C08_all_succeed : forall o p st,
  (forall st1 op, In op p -> exists st2, step o st1 op = Ok st2) ->
  exists st', apply_from o 0 st p = AOk st'.
Proof. intros. now apply all_succeed. Qed.
Print Assumptions C08_all_succeed.

(* non-vacuity: {"a":[1]}: test /a/0 1, remove /b (absent member: missing), add /c 2 *)
Example C08_nonvacuous :
  match api_decode (B "[{""op"":""test"",""path"":""/a/0"",""value"":1},{""op"":""remove"",""path"":""/b""},{""op"":""add"",""path"":""/c"",""value"":2}]") with
  | Some p => api_apply (mkOpts true 0 false false true [] None) [] p (B "{""a"":[1]}") = RErr (Some 1%nat) EMissing
  | None => False
  end.
Proof. vm_compute. reflexivity. Qed.
