(* C08 — a failing Apply returns nothing and says why (v5). *)
From JP Require Import Bytes Json Text Strings Den Pointer Rfc6902 ImplV5 Domain ApplyFacts ImplFacts Depth ApplySim.
From JP Require Import Abs RefFacts AllowEnsureFacts CauseFacts.

(* operations after the first failing one have no effect on the outcome: the result is the first
   failing operation's error, at its index, whatever follows *)
Theorem C08_first_failure : forall o p1 op p2 st st' e,
  apply_from o 0 st p1 = AOk st' -> step o st' op = Err e ->
  apply_from o 0 st (p1 ++ op :: p2) = AErr (length p1) e.
Proof. intros. now apply (first_failure o p1 op p2 st st' e 0). Qed.
Print Assumptions C08_first_failure.

(* a failing patch returns no document: the byte-level result of the model is an error value that
   carries no bytes, at the index of the first failing operation *)
Theorem C08_error_no_document : forall o indent p1 op p2 doc r st' e,
  load_doc o doc = Ok r -> apply_from o 0 (mkState r 0) p1 = AOk st' -> step o st' op = Err e ->
  apply_tree o indent (p1 ++ op :: p2) doc = RErr (Some (length p1)) e.
Proof.
  intros o indent p1 op p2 doc r st' e L A S. unfold apply_tree. rewrite L.
  now rewrite (C08_first_failure o p1 op p2 _ st' e A S).
Qed.
Print Assumptions C08_error_no_document.

(* errors.Is(err, ErrTestFailed) only when the first failing operation is a test *)
Theorem C08_test_failed_only_by_test : forall o st op,
  step o st op = Err ETestFailed -> op_kind op = KTest.
Proof. exact test_failed_only_by_test. Qed.
Print Assumptions C08_test_failed_only_by_test.

(* *AccumulatedCopySizeError only when it is a copy that pushed the total over a positive limit *)
Theorem C08_copy_limit_only_by_copy : forall o st op l a,
  step o st op = Err (ECopyLimit l a) ->
  op_kind op = KCopy /\ (0 < o_limit o)%Z /\ l = o_limit o /\ (o_limit o < a)%Z.
Proof. exact step_copy_limit. Qed.
Print Assumptions C08_copy_limit_only_by_copy.

(* the cause, against the reference: in the stated domain Apply fails at the reference's first
   failing operation, and the error class corresponds to the reference's cause of failure.
   copies_fit: no copy the reference run reaches has a source nested deeper than deepCopy accepts
   (otherwise the patch fails at that copy, with deepCopy's error: C01_copy_too_deep_rejects_patch) *)
Theorem C08_cause : forall o indent p doc t i cz,
  plain_opts o -> parse doc = Some t -> root_container t = true -> tnodup t = true ->
  Forall op_dom p -> copies_fit (dia o) (den t) (map den_op p) = true ->
  rfc_apply (dia o) (den t) (map den_op p) = Failed i cz ->
  exists e, api_apply o indent p doc = RErr (Some i) e /\
    (e = ETestFailed <-> cz = FTest) /\
    (cz = FMissingMember \/ cz = FUnreachable -> e = EMissing) /\
    is_copy_limit e = false.
Proof.
  intros o indent p doc t i cz PO P RC T D F R.
  pose proof (api_apply_sim o indent p doc t PO P RC T D F) as S. rewrite R in S.
  destruct S as [e [S1 S2]]. exists e. split; [exact S1|].
  split; [apply cause_rel_test_iff; exact S2|]. split; [apply cause_rel_missing; exact S2 | eapply cause_rel_not_limit; eauto].
Qed.
Print Assumptions C08_cause.

(* a patch whose operations all succeed never returns an error from the loop.
   An earlier statement of this clause (the lemma ApplyFacts.all_succeed) asked every operation to
   succeed on EVERY state: a hypothesis the state with the null root refutes for every operation with
   a non-empty path, so that statement held of almost no patch.  It is replaced by
   - C08_all_succeed below: the operations succeed on the states THE RUN REACHES (model alone, every
     option setting, no domain);
   - C08_done_limit further down: in the domain of the simulation the reference (Rfc6902.rfc_apply)
     running the patch to the end means Apply returns a document, or the copy-size limit error;
   - C08_done_no_error after it: with no positive copy-size limit, a document. *)
Theorem C08_all_succeed : forall o p i st,
  (forall p1 op p2 st1, p = p1 ++ op :: p2 -> apply_from o i st p1 = AOk st1 -> exists st2, step o st1 op = Ok st2) ->
  exists st', apply_from o i st p = AOk st'.
Proof.
  intros o p. induction p as [|q p IH]; intros i st H; [cbn [apply_from]; eauto|].
  destruct (H [] q p st eq_refl eq_refl) as [st2 E]. cbn [apply_from]. rewrite E. apply IH.
  intros p1 op p2 st1 Hp A. apply (H (q :: p1) op p2 st1); [rewrite Hp; reflexivity|].
  cbn [apply_from]. rewrite E. exact A.
Qed.
Print Assumptions C08_all_succeed.

(* ==== the cause/class statements WITH the options (CauseFacts.v) ==== *)

(* the limit error, on the model alone, every option setting, no domain: Apply returns it exactly when
   the first failing operation is a copy that reaches deepCopy (copy_probe) with a size that pushes
   the running total over a positive limit (copy_over); it carries that limit and that total *)
Theorem C08_limit_error_iff : forall o p i st k l a,
  apply_from o i st p = AErr k (ECopyLimit l a) <->
  exists p1 op p2 st1, p = p1 ++ op :: p2 /\ k = (i + length p1)%nat /\ apply_from o i st p1 = AOk st1 /\
                       copy_over o st1 op = Some a /\ l = o_limit o.
Proof. exact apply_limit_iff. Qed.
Print Assumptions C08_limit_error_iff.

(* the limit is consulted at one point only: an operation under limit l is the limit error when
   copy_over says so, and otherwise exactly the operation under limit 0; a successful copy adds
   deepCopy's size to the running total, every other operation leaves it *)
Theorem C08_step_split : forall o st op,
  step o st op =
  match copy_over o st op with
  | Some total => Err (ECopyLimit (o_limit o) total)
  | None => step (set_limit o 0) st op
  end.
Proof. exact step_split. Qed.
Print Assumptions C08_step_split.

Theorem C08_step_acc : forall o st op st',
  step o st op = Ok st' ->
  match op_kind op with
  | KCopy => exists sz, copy_probe o st op = Some sz /\ s_acc st' = (s_acc st + sz)%Z
  | _ => s_acc st' = s_acc st
  end.
Proof. exact step_acc. Qed.
Print Assumptions C08_step_acc.

(* when a copy of the stated domain trips the limit, against the reference: exactly when the
   reference resolves the source and reaches the destination parent (copy_reaches), and the running
   total plus deepCopy's size of a node denoting the source value exceeds a positive limit (over) *)
Theorem C08_copy_over_ref : forall o st op,
  sgood st -> op_dom op -> op_kind op = KCopy -> copy_fits (dia o) (sval st) (den_op op) = true ->
  match copy_reaches (dia o) (sval st) op with
  | Some j => exists v, aval v = j /\ ngood v /\ copy_probe o st op = Some (snd (deep_copy o v)) /\
                copy_over o st op = if over o st (snd (deep_copy o v))
                                    then Some (s_acc st + snd (deep_copy o v))%Z else None
  | None => copy_over o st op = None
  end.
Proof. exact copy_over_ref. Qed.
Print Assumptions C08_copy_over_ref.

(* one operation under any copy-size limit (the two other options off): the limit error at a copy
   the reference performs or rejects for its destination index only; otherwise as the reference *)
Theorem C08_step_limit : forall o st op,
  sgood st -> lim_opts o -> op_dom op ->
  copy_fits (dia o) (sval st) (den_op op) = true ->
  match copy_over o st op with
  | Some total =>
      step o st op = Err (ECopyLimit (o_limit o) total) /\ op_kind op = KCopy /\
      (0 < o_limit o)%Z /\ (o_limit o < total)%Z /\
      (exists j v, copy_reaches (dia o) (sval st) op = Some j /\ aval v = j /\ ngood v /\
                   total = (s_acc st + snd (deep_copy o v))%Z) /\
      ((exists j', rfc_step (dia o) (sval st) (den_op op) = Rfc6902.Ok j') \/
       rfc_step (dia o) (sval st) (den_op op) = Rfc6902.Fail FIndex)
  | None =>
      match rfc_step (dia o) (sval st) (den_op op) with
      | Rfc6902.Ok j' => exists st', step o st op = Ok st' /\ sval st' = j' /\ sgood st'
      | Rfc6902.Fail cz => exists e, step o st op = Err e /\ cause_rel cz e
      end
  end.
Proof. exact step_sim_limit. Qed.
Print Assumptions C08_step_limit.

(* whole patches under any limit: the model run agrees with the reference run, or is stopped by the
   limit at a copy before which every operation agreed with the reference (limit_stop) *)
Theorem C08_apply_limit : forall o, lim_opts o -> forall p i st,
  sgood st -> Forall op_dom p ->
  copies_fit (dia o) (sval st) (map den_op p) = true ->
  match rfc_apply_from (dia o) i (sval st) (map den_op p) with
  | Done doc => (exists st', apply_from o i st p = AOk st' /\ sval st' = doc /\ sgood st') \/ limit_stop o i st p
  | Failed j cz => (exists e, apply_from o i st p = AErr j e /\ cause_rel cz e) \/ limit_stop o i st p
  end.
Proof. exact apply_sim_limit. Qed.
Print Assumptions C08_apply_limit.

(* C08_cause with any copy-size limit: the reference fails at operation k with cause cz; Apply fails
   there with the corresponding class, or was stopped by the limit at a copy at or before k (at k
   only when the reference rejects that copy for its destination index) *)
Theorem C08_cause_limit : forall o indent p doc t,
  lim_opts o -> parse doc = Some t -> root_container t = true -> tnodup t = true ->
  Forall op_dom p -> copies_fit (dia o) (den t) (map den_op p) = true ->
  forall k cz, rfc_apply (dia o) (den t) (map den_op p) = Failed k cz ->
  (exists e, api_apply o indent p doc = RErr (Some k) e /\ cause_rel cz e /\
             (e = ETestFailed <-> cz = FTest) /\
             (cz = FMissingMember \/ cz = FUnreachable -> e = EMissing) /\
             is_copy_limit e = false) \/
  (exists k' total op, (k' <= k)%nat /\ (k' = k -> cz = FIndex) /\
             (0 < o_limit o)%Z /\ (o_limit o < total)%Z /\
             nth_error p k' = Some op /\ op_kind op = KCopy /\
             api_apply o indent p doc = RErr (Some k') (ECopyLimit (o_limit o) total)).
Proof. exact api_cause_limit. Qed.
Print Assumptions C08_cause_limit.

(* a patch the reference runs to the end returns no error except the limit error *)
Theorem C08_done_limit : forall o indent p doc t,
  lim_opts o -> parse doc = Some t -> root_container t = true -> tnodup t = true ->
  Forall op_dom p -> copies_fit (dia o) (den t) (map den_op p) = true ->
  forall j, rfc_apply (dia o) (den t) (map den_op p) = Done j ->
  (exists n, api_apply o indent p doc = ROut (output o indent (render (o_esc o) n)) /\ aval n = j /\ ngood n) \/
  (exists k' total op, (0 < o_limit o)%Z /\ (o_limit o < total)%Z /\
             nth_error p k' = Some op /\ op_kind op = KCopy /\
             api_apply o indent p doc = RErr (Some k') (ECopyLimit (o_limit o) total)).
Proof. exact api_done_limit. Qed.
Print Assumptions C08_done_limit.

(* hence, with no positive copy-size limit: a patch the reference runs to the end (every operation
   succeeds on the document the preceding ones produced) returns a document and no error *)
Theorem C08_done_no_error : forall o indent p doc t,
  lim_opts o -> (o_limit o <= 0)%Z -> parse doc = Some t -> root_container t = true -> tnodup t = true ->
  Forall op_dom p -> copies_fit (dia o) (den t) (map den_op p) = true ->
  forall j, rfc_apply (dia o) (den t) (map den_op p) = Done j ->
  exists n, api_apply o indent p doc = ROut (output o indent (render (o_esc o) n)) /\ aval n = j /\ ngood n.
Proof.
  intros o indent p doc t LO L P RC T D F j R.
  destruct (api_done_limit o indent p doc t LO P RC T D F j R) as [H | [k' [total [op [H _]]]]]; [exact H|].
  exfalso. apply (Z.lt_irrefl 0). apply (Z.lt_le_trans _ _ _ H L).
Qed.
Print Assumptions C08_done_no_error.

(* the three classes, read off the error of a failing Apply (any limit):
   (a) ErrTestFailed exactly when the first failing operation is a test and the reference fails
       there because the comparison came out unequal;
   (b) the limit error exactly when the patch was stopped by the limit (limit_stop);
   (c) the reference fails at that operation for an absent member or an unreachable parent:
       ErrMissing *)
Theorem C08_error_classes_limit : forall o indent p doc t,
  lim_opts o -> parse doc = Some t -> root_container t = true -> tnodup t = true ->
  Forall op_dom p -> copies_fit (dia o) (den t) (map den_op p) = true ->
  forall k e, api_apply o indent p doc = RErr (Some k) e ->
  (e = ETestFailed <->
     (exists op, nth_error p k = Some op /\ op_kind op = KTest) /\
     rfc_apply (dia o) (den t) (map den_op p) = Failed k FTest) /\
  (is_copy_limit e = true <-> limit_stop o 0 (init_state o t) p) /\
  (forall cz, rfc_apply (dia o) (den t) (map den_op p) = Failed k cz ->
              cz = FMissingMember \/ cz = FUnreachable -> e = EMissing).
Proof. exact api_error_classes. Qed.
Print Assumptions C08_error_classes_limit.

(* AllowMissingPathOnRemove on (limit 0): the causes are those of the patch without the skipped
   removes: its reference run fails at the same operation, and the classes correspond *)
Theorem C08_allow_classes : forall o p i st k1 e,
  allow_opts o -> sgood st -> Forall op_dom p ->
  copies_fit (dia o) (sval st) (map den_op (strip (dia o) (sval st) p)) = true ->
  apply_from o i st p = AErr k1 e ->
  exists k cz,
    rfc_apply_from (dia o) i (sval st) (map den_op (strip (dia o) (sval st) p)) = Failed k cz /\
    cause_rel cz e /\
    nth_error p (k1 - i) = nth_error (strip (dia o) (sval st) p) (k - i) /\
    (e = ETestFailed <-> cz = FTest) /\
    (cz = FMissingMember \/ cz = FUnreachable -> e = EMissing) /\
    is_copy_limit e = false.
Proof. exact allow_classes. Qed.
Print Assumptions C08_allow_classes.

(* EnsurePathExistsOnAdd off, AllowMissingPathOnRemove on or off, any limit, on bytes: the classes
   against the reference run of the patch without the removes the option forgives (stripb; the
   patch itself when the option is off: stripb_false) *)
Theorem C08_classes_ensure_off : forall o indent p doc t k1 e,
  o_ensure o = false -> parse doc = Some t -> root_container t = true -> tnodup t = true ->
  Forall op_dom p ->
  copies_fit (dia o) (den t) (map den_op (stripb (o_allow o) (dia o) (den t) p)) = true ->
  api_apply o indent p doc = RErr (Some k1) e ->
  let p' := stripb (o_allow o) (dia o) (den t) p in
  let ref := rfc_apply (dia o) (den t) (map den_op p') in
  (e = ETestFailed <-> exists k, ref = Failed k FTest /\ nth_error p k1 = nth_error p' k) /\
  (is_copy_limit e = true <-> limit_stop_s o 0 0 (init_state o t) p) /\
  (forall k cz, ref = Failed k cz -> cz = FMissingMember \/ cz = FUnreachable ->
     (e = EMissing /\ nth_error p k1 = nth_error p' k) \/ is_copy_limit e = true) /\
  ((exists k cz, ref = Failed k cz /\ cause_rel cz e /\ nth_error p k1 = nth_error p' k) \/
   is_copy_limit e = true).
Proof. exact api_noensure_classes. Qed.
Print Assumptions C08_classes_ensure_off.

(* EnsurePathExistsOnAdd on.  Where the missing parents can be created (ens succeeds) the add is the
   reference's add on the document with the parents created, and its error class is that add's *)
Theorem C08_ensure_add_classes : forall o st op r c j1 cz,
  s_root st = RCon c -> cgood c -> o_ensure o = true ->
  op_str op (B "path") = Ok (x2f :: r) -> Forall ctok (map decode_token (split_slash r)) -> val_good op ->
  ens (dia o) (ptoks r) (cval c) = Some j1 ->
  at_parent (dia o) (ptoks r) j1 (add_leaf (dia o) (ref_value op)) = Rfc6902.Fail cz ->
  exists e, op_add o st op = Err e /\ cause_rel cz e /\ plain_err e = true.
Proof. exact ensure_add_classes. Qed.
Print Assumptions C08_ensure_add_classes.

(* an add whose path passes, before its last token, through an existing member that is neither a
   container nor null (the reference: FUnreachable): ErrMissing with the option, as without it.
   (Before fix 584e880 of the library this returned ErrInvalid: the ErrMissing clause was false under
   EnsurePathExistsOnAdd; found by this proof.) *)
Theorem C08_ensure_through_scalar : forall o st op r c ps t rest x,
  s_root st = RCon c -> cgood c -> o_ensure o = true ->
  op_str op (B "path") = Ok (x2f :: r) -> Forall tok_dom (map decode_token (split_slash r)) ->
  ptoks r = ps ++ t :: rest -> rest <> [] ->
  descend (dia o) (ps ++ [t]) (cval c) = Some x -> is_container x = false -> x <> ONull ->
  op_add o st op = Err EMissing /\
  at_parent (dia o) (ptoks r) (cval c) (add_leaf (dia o) (ref_value op)) = Rfc6902.Fail FUnreachable.
Proof. exact ensure_through_scalar. Qed.
Print Assumptions C08_ensure_through_scalar.

(* with the option on, ensurePathExists never fails on a path of the C14 domain and leaves a good
   document c1 (the one ens describes whenever ens succeeds); the add is the reference's add on it *)
Theorem C08_ensure_add_general : forall o st op r c,
  s_root st = RCon c -> cgood c -> o_ensure o = true ->
  op_str op (B "path") = Ok (x2f :: r) -> Forall ctok (map decode_token (split_slash r)) -> val_good op ->
  exists c1, ensure_path o c (x2f :: r) = (None, c1) /\ cgood c1 /\
    (forall j1, ens (dia o) (ptoks r) (cval c) = Some j1 -> cval c1 = j1) /\
    match at_parent (dia o) (ptoks r) (cval c1) (add_leaf (dia o) (ref_value op)) with
    | Rfc6902.Ok j' => exists st', op_add o st op = Ok st' /\ sval st' = j' /\ sgood st' /\ s_acc st' = s_acc st
    | Rfc6902.Fail cz => exists e, op_add o st op = Err e /\ cause_rel cz e
    end.
Proof. exact ensure_add_general. Qed.
Print Assumptions C08_ensure_add_general.

(* hence the classes an add can report with the option on: ErrMissing, or an index error for its
   last token; never ErrInvalid *)
Theorem C08_ensure_add_errs : forall o st op r c e,
  s_root st = RCon c -> cgood c -> o_ensure o = true ->
  op_str op (B "path") = Ok (x2f :: r) -> Forall ctok (map decode_token (split_slash r)) -> val_good op ->
  op_add o st op = Err e -> e = EMissing \/ e = EInvalidIndex \/ e = EAtoi.
Proof. exact ensure_add_errs. Qed.
Print Assumptions C08_ensure_add_errs.

(* the ErrMissing clause under EnsurePathExistsOnAdd: the reference's add, on the document with the
   missing parents created (ens) or on the document itself when an existing scalar is on the way,
   fails for an unreachable parent or an absent member: ErrMissing *)
Theorem C08_ensure_add_missing : forall o st op r c doc1 cz,
  s_root st = RCon c -> cgood c -> o_ensure o = true ->
  op_str op (B "path") = Ok (x2f :: r) -> Forall ctok (map decode_token (split_slash r)) -> val_good op ->
  (ens (dia o) (ptoks r) (cval c) = Some doc1 \/
   (doc1 = cval c /\ exists ps t rest x, ptoks r = ps ++ t :: rest /\ rest <> [] /\
       descend (dia o) (ps ++ [t]) (cval c) = Some x /\ is_container x = false /\ x <> ONull)) ->
  at_parent (dia o) (ptoks r) doc1 (add_leaf (dia o) (ref_value op)) = Rfc6902.Fail cz ->
  cz = FMissingMember \/ cz = FUnreachable ->
  op_add o st op = Err EMissing.
Proof. exact ensure_add_missing. Qed.
Print Assumptions C08_ensure_add_missing.

(* the formerly wrong input: {"a":1}, [{"op":"add","path":"/a/b","value":1}], option on: ErrMissing *)
Example C08_ensure_repaired :
  match api_decode (B "[{""op"":""add"",""path"":""/a/b"",""value"":1}]"), parse (B "{""a"":1}") with
  | Some p, Some t =>
      api_apply (mkOpts false 0 false true false [] None) [] p (B "{""a"":1}") = RErr (Some 0%nat) EMissing /\
      api_apply (mkOpts false 0 false false false [] None) [] p (B "{""a"":1}") = RErr (Some 0%nat) EMissing /\
      rfc_apply (mkDialect false) (den t) (map den_op p) = Failed 0 FUnreachable
  | _, _ => False
  end.
Proof. vm_compute. repeat split; reflexivity. Qed.

(* non-vacuity of the limit clauses: {"a":[1],"b":"xxxxxxxxxx"}, test /a/0 1, copy /b -> /c (12 bytes),
   remove /zz: limit 3 stops at the copy; limit 12 lets it pass and the remove is reported missing *)
Example C08_limit_nonvacuous :
  match api_decode (B "[{""op"":""test"",""path"":""/a/0"",""value"":1},{""op"":""copy"",""from"":""/b"",""path"":""/c""},{""op"":""remove"",""path"":""/zz""}]") with
  | Some p =>
      api_apply (mkOpts false 3 false false false [] None) [] p (B "{""a"":[1],""b"":""xxxxxxxxxx""}") = RErr (Some 1%nat) (ECopyLimit 3 12) /\
      api_apply (mkOpts false 12 false false false [] None) [] p (B "{""a"":[1],""b"":""xxxxxxxxxx""}") = RErr (Some 2%nat) EMissing
  | None => False
  end.
Proof. vm_compute. split; reflexivity. Qed.

(* non-vacuity: {"a":[1]}: test /a/0 1, remove /b (absent member: missing), add /c 2 *)
Example C08_nonvacuous :
  match api_decode (B "[{""op"":""test"",""path"":""/a/0"",""value"":1},{""op"":""remove"",""path"":""/b""},{""op"":""add"",""path"":""/c"",""value"":2}]") with
  | Some p => api_apply (mkOpts true 0 false false true [] None) [] p (B "{""a"":[1]}") = RErr (Some 1%nat) EMissing
  | None => False
  end.
Proof. vm_compute. reflexivity. Qed.

(* ---- the main theorem applied: every hypothesis of C08_cause_limit discharged on the document and patch of
   C08_limit_nonvacuous, under two copy-size limits, so that BOTH branches of its conclusion occur: the
   reference fails at operation 2 (remove of an absent member); with limit 12 the copy (12 bytes) passes and
   Apply reports ErrMissing at 2; with limit 3 Apply is stopped by the limit at the copy, operation 1.
   And C08_done_no_error on the patch without its failing last operation. ---- *)
From JP Require PointerDomain.
Definition C08_ex_doc := B "{""a"":[1],""b"":""xxxxxxxxxx""}".
Definition C08_ex_patch := B "[{""op"":""test"",""path"":""/a/0"",""value"":1},{""op"":""copy"",""from"":""/b"",""path"":""/c""},{""op"":""remove"",""path"":""/zz""}]".
Definition C08_ex_patch2 := B "[{""op"":""test"",""path"":""/a/0"",""value"":1},{""op"":""copy"",""from"":""/b"",""path"":""/c""}]".
Definition C08_ex_t : tjson := match parse C08_ex_doc with Some t => t | None => TNull end.
Definition C08_ex_p : list operation := match api_decode C08_ex_patch with Some p => p | None => [] end.
Definition C08_ex_p2 : list operation := match api_decode C08_ex_patch2 with Some p => p | None => [] end.
Definition C08_ex_o (l : Z) := mkOpts false l false false false [] None.

Example C08_main_theorem_applies :
  (exists e, api_apply (C08_ex_o 12) [] C08_ex_p C08_ex_doc = RErr (Some 2%nat) e /\ cause_rel FMissingMember e /\
             e = EMissing /\ is_copy_limit e = false) /\
  (exists k' total op, (k' < 2)%nat /\ (3 < total)%Z /\ nth_error C08_ex_p k' = Some op /\ op_kind op = KCopy /\
             api_apply (C08_ex_o 3) [] C08_ex_p C08_ex_doc = RErr (Some k') (ECopyLimit 3 total)) /\
  (exists n, api_apply (C08_ex_o 0) [] C08_ex_p2 C08_ex_doc = ROut (output (C08_ex_o 0) [] (render false n)) /\
             aval n = OObj [(B "a", OArr [ONum (B "1")]); (B "b", OStr (B "xxxxxxxxxx")); (B "c", OStr (B "xxxxxxxxxx"))] /\
             ngood n).
Proof.
  assert (P : parse C08_ex_doc = Some C08_ex_t) by (vm_compute; reflexivity).
  assert (RC : root_container C08_ex_t = true) by reflexivity.
  assert (T : tnodup C08_ex_t = true) by (vm_compute; reflexivity).
  assert (D : Forall op_dom C08_ex_p)
    by (apply (PointerDomain.decoded_in_domain_op_dom C08_ex_patch); vm_compute; reflexivity).
  assert (D2 : Forall op_dom C08_ex_p2)
    by (apply (PointerDomain.decoded_in_domain_op_dom C08_ex_patch2); vm_compute; reflexivity).
  assert (LO : forall l, lim_opts (C08_ex_o l)) by (intro l; split; reflexivity).
  assert (F : forall l, copies_fit (dia (C08_ex_o l)) (den C08_ex_t) (map den_op C08_ex_p) = true)
    by (intro l; vm_compute; reflexivity).
  assert (R : forall l, rfc_apply (dia (C08_ex_o l)) (den C08_ex_t) (map den_op C08_ex_p) = Failed 2 FMissingMember)
    by (intro l; vm_compute; reflexivity).
  split; [|split].
  - destruct (C08_cause_limit (C08_ex_o 12) [] C08_ex_p C08_ex_doc C08_ex_t (LO _) P RC T D (F _) 2%nat FMissingMember (R _))
      as [[e [H1 [H2 [_ [H4 H5]]]]] | [k' [total [op [_ [_ [_ [_ [_ [_ H]]]]]]]]]].
    + exists e. split; [exact H1|]. split; [exact H2|]. split; [apply H4; left; reflexivity | exact H5].
    + exfalso. vm_compute in H. discriminate H.
  - destruct (C08_cause_limit (C08_ex_o 3) [] C08_ex_p C08_ex_doc C08_ex_t (LO _) P RC T D (F _) 2%nat FMissingMember (R _))
      as [[e [H1 _]] | [k' [total [op [H1 [H2 [_ [H4 [H5 [H6 H7]]]]]]]]]].
    + exfalso. vm_compute in H1. discriminate H1.
    + exists k', total, op. split.
      * destruct (Nat.eq_dec k' 2) as [E|E]; [apply H2 in E; discriminate E|].
        apply Nat.le_neq. split; assumption.
      * split; [exact H4|]. split; [exact H5|]. split; [exact H6 | exact H7].
  - apply (C08_done_no_error (C08_ex_o 0) [] C08_ex_p2 C08_ex_doc C08_ex_t (LO _)).
    + vm_compute. discriminate.
    + exact P.
    + exact RC.
    + exact T.
    + exact D2.
    + vm_compute; reflexivity.
    + vm_compute; reflexivity.
Qed.
Print Assumptions C08_main_theorem_applies.

(* ---- "all option combinations": EnsurePathExistsOnAdd on, together with AllowMissingPathOnRemove on or off
   and ANY copy limit (EnsureSim.v).  The reference rfc_opt_step creates missing parents before an add, skips
   a remove of an absent target when the allow option is on, and is rfc_step otherwise.  Outcome of Apply: the
   reference's document, or the reference's first failure with its cause class, or the copy-limit error at a
   copy not later than that. ---- *)
From JP Require EnsureSim.

Theorem C08_all_options_whole_patch : forall o indent p doc t,
  o_ensure o = true -> parse doc = Some t -> root_container t = true -> tnodup t = true ->
  Forall EnsureSim.ens_op_dom p ->
  EnsureSim.opt_run_fits (o_allow o) (dia o) (den t) p = true ->
  match EnsureSim.rfc_opt_apply_from (o_allow o) (dia o) 0 (den t) p with
  | Done j => (exists n, api_apply o indent p doc = ROut (output o indent (render (o_esc o) n)) /\ aval n = j /\ ngood n) \/
              (exists k total, api_apply o indent p doc = RErr (Some k) (ECopyLimit (o_limit o) total) /\
                               (0 < o_limit o)%Z /\ (o_limit o < total)%Z)
  | Failed i cz => (exists e, api_apply o indent p doc = RErr (Some i) e /\ cause_rel cz e) \/
                   (exists k total, api_apply o indent p doc = RErr (Some k) (ECopyLimit (o_limit o) total) /\
                                    (k <= i)%nat /\ (0 < o_limit o)%Z /\ (o_limit o < total)%Z)
  end.
Proof. exact EnsureSim.api_apply_opt_sim. Qed.
Print Assumptions C08_all_options_whole_patch.

Theorem C08_all_options_cause : forall o indent p doc t i cz,
  o_ensure o = true -> parse doc = Some t -> root_container t = true -> tnodup t = true ->
  Forall EnsureSim.ens_op_dom p -> EnsureSim.opt_run_fits (o_allow o) (dia o) (den t) p = true ->
  EnsureSim.rfc_opt_apply_from (o_allow o) (dia o) 0 (den t) p = Failed i cz ->
  exists k e, api_apply o indent p doc = RErr (Some k) e /\ (k <= i)%nat /\
    (is_copy_limit e = false ->
       k = i /\ (e = ETestFailed <-> cz = FTest) /\ (cz = FMissingMember \/ cz = FUnreachable -> e = EMissing)) /\
    (is_copy_limit e = true -> (0 < o_limit o)%Z).
Proof. exact EnsureSim.opt_cause. Qed.
Print Assumptions C08_all_options_cause.

Definition C08_all_options_applies := EnsureSim.opt_cause_applies.
Check C08_all_options_applies.
