(* C11 — DecodePatch accepts exactly well-formed RFC 6902 patch documents (v5).
   Only the property theorems live here; each is closed by a lemma proved in place from the
   facts files, with Print Assumptions beneath. *)
From JP Require Import Bytes Json Text Strings Den ImplV5 DecodeFacts.

(* The property's sentence as a declarative predicate on the parsed text.  member name ms is the
   LAST member whose decoded name is name (Go map semantics for repeated names). *)
Definition member (name : bytes) (ms : list (bytes * tjson)) : option tjson := lookup_last name ms None.

Definition is_string (o : option tjson) : Prop := exists b, o = Some (TStr b).

Definition op_name (ms : list (bytes * tjson)) (s : bytes) : Prop :=
  exists b, member (B "op") ms = Some (TStr b) /\ unquote b = s.

Definition wf_operation (ms : list (bytes * tjson)) : Prop :=
  is_string (member (B "path") ms) /\
  (   ((op_name ms (B "add") \/ op_name ms (B "replace")) /\ member (B "value") ms <> None)
   \/ ((op_name ms (B "move") \/ op_name ms (B "copy")) /\ is_string (member (B "from") ms))
   \/ op_name ms (B "remove") \/ op_name ms (B "test")).

Definition wf_patch (t : tjson) : Prop :=
  exists els, t = TArr els /\ Forall (fun e => exists ms, e = TObj ms /\ wf_operation ms) els.

Lemma op_str_ok name ms s :
  op_str (operation_of ms) name = Ok s <-> exists b, lookup_last name ms None = Some (TStr b) /\ unquote b = s.
Proof.
  unfold op_str. rewrite operation_of_spec.
  destruct (lookup_last name ms None) as [v|]; simpl.
  - destruct v; simpl; split; intro H; try discriminate;
      try (destruct H as [b [H1 H2]]; discriminate).
    + inversion H; subst. eexists; split; eauto.
    + destruct H as [b [H1 H2]]. inversion H1; subst. reflexivity.
  - split; [discriminate | intros [b [H _]]; discriminate].
Qed.

Lemma op_str_is_string name ms :
  (exists s, op_str (operation_of ms) name = Ok s) <-> is_string (lookup_last name ms None).
Proof.
  split.
  - intros [s H]. apply op_str_ok in H as [b [H _]]. now exists b.
  - intros [b H]. exists (unquote b). apply op_str_ok. eauto.
Qed.

Lemma amem_value ms : amem (B "value") (operation_of ms) = true <-> member (B "value") ms <> None.
Proof.
  unfold amem, member. rewrite operation_of_spec.
  destruct (lookup_last (B "value") ms None); simpl; split; intro H; congruence.
Qed.

Ltac kind_cases s :=
  destruct (bseq s (B "add")) eqn:Ea; [apply bseq_eq in Ea|];
  [|destruct (bseq s (B "remove")) eqn:Er; [apply bseq_eq in Er|];
    [|destruct (bseq s (B "replace")) eqn:Ep; [apply bseq_eq in Ep|];
      [|destruct (bseq s (B "move")) eqn:Em; [apply bseq_eq in Em|];
        [|destruct (bseq s (B "copy")) eqn:Ec; [apply bseq_eq in Ec|];
          [|destruct (bseq s (B "test")) eqn:Et; [apply bseq_eq in Et|]]]]]].

Lemma validate_iff ms : validate_operation (operation_of ms) = true <-> wf_operation ms.
Proof.
  unfold validate_operation, wf_operation, op_kind, op_name, member.
  split.
  - intro H. apply andb_prop in H as [Hk Hp].
    assert (P : is_string (lookup_last (B "path") ms None)).
    { apply op_str_is_string. destruct (op_str (operation_of ms) (B "path")); try discriminate. eauto. }
    split; [exact P|]. clear Hp P.
    destruct (op_str (operation_of ms) (B "op")) as [s| |] eqn:E; try discriminate.
    apply op_str_ok in E.
    kind_cases s; subst; try discriminate.
    + left. split; [left; exact E | now apply amem_value].
    + right; right; left; exact E.
    + left. split; [right; exact E | now apply amem_value].
    + right; left. split; [left; exact E|]. apply op_str_is_string.
      destruct (op_str (operation_of ms) (B "from")); try discriminate; eauto.
    + right; left. split; [right; exact E|]. apply op_str_is_string.
      destruct (op_str (operation_of ms) (B "from")); try discriminate; eauto.
    + right; right; right; exact E.
  - intros [P K]. apply andb_true_intro. split.
    + assert (W : forall s, (exists b, lookup_last (B "op") ms None = Some (TStr b) /\ unquote b = s) ->
                            op_str (operation_of ms) (B "op") = Ok s) by (intros s W; now apply op_str_ok).
      assert (Fr : is_string (lookup_last (B "from") ms None) ->
                   match op_str (operation_of ms) (B "from") with Ok _ => true | _ => false end = true).
      { intro Hf. apply op_str_is_string in Hf as [s Hf]. now rewrite Hf. }
      destruct K as [[[K|K] Hv] | [[[K|K] Hf] | [K|K]]]; rewrite (W _ K); simpl;
        try reflexivity; try (now apply amem_value); try (now apply Fr).
    + apply op_str_is_string in P as [s P]. now rewrite P.
Qed.

Lemma decode_patch_t_iff t :
  t <> TNull -> ((exists p, decode_patch_t t = Some p) <-> wf_patch t).
Proof.
  intro NN. unfold decode_patch_t, wf_patch. destruct t; try congruence;
    try (split; [intros [p H]; discriminate | intros [els [H _]]; discriminate]).
  split.
  - intros [p H].
    destruct (forallb _ l) eqn:F1; try discriminate.
    destruct (forallb validate_operation _) eqn:F2; try discriminate.
    exists l. split; auto.
    rewrite forallb_forall in F1. rewrite forallb_forall in F2.
    apply Forall_forall. intros e He.
    specialize (F1 e He).
    assert (V : validate_operation (match e with TObj ms => operation_of ms | _ => [] end) = true).
    { apply F2. apply in_map_iff. exists e; split; auto. }
    destruct e; try discriminate.
    exists ms. split; auto. now apply validate_iff.
  - intros [els [E H]]. inversion E; subst els. clear E.
    assert (F1 : forallb (fun e => match e with TObj _ | TNull => true | _ => false end) l = true).
    { apply forallb_forall. intros e He. rewrite Forall_forall in H. destruct (H e He) as [ms [-> _]]. reflexivity. }
    rewrite F1.
    assert (F2 : forallb validate_operation (map (fun e => match e with TObj ms => operation_of ms | _ => [] end) l) = true).
    { apply forallb_forall. intros op Hop. apply in_map_iff in Hop as [e [<- He]].
      rewrite Forall_forall in H. destruct (H e He) as [ms [-> W]]. now apply validate_iff. }
    rewrite F2. eauto.
Qed.

(* ---- the property ---- *)

(* DecodePatch returns a Patch exactly when the input is a well-formed JSON text (parse is the
   independent RFC 8259 reader) denoting a well-formed patch; the text null is excluded as stated *)
Theorem C11_accept_iff : forall bs,
  parse bs <> Some TNull ->
  ((exists p, api_decode bs = Some p) <-> exists t, parse bs = Some t /\ wf_patch t).
Proof.
  intros bs NN. unfold api_decode. destruct (parse bs) as [t|].
  - assert (t <> TNull) by congruence.
    rewrite (decode_patch_t_iff t H). split.
    + intro W. exists t. auto.
    + intros [t' [E W]]. inversion E. now subst.
  - split; [intros [p H]; discriminate | intros [t [H _]]; discriminate].
Qed.
Print Assumptions C11_accept_iff.

(* rejection returns no patch: api_decode is an option, None carries nothing *)
Theorem C11_reject_no_patch : forall bs,
  parse bs <> Some TNull -> ~ (exists t, parse bs = Some t /\ wf_patch t) -> api_decode bs = None.
Proof.
  intros bs NN H. destruct (api_decode bs) eqn:E; auto.
  exfalso. apply H. apply C11_accept_iff; eauto.
Qed.
Print Assumptions C11_reject_no_patch.

(* accessors: for the i-th accepted operation, Kind/Path/From are the decoded members and the
   value is the value member (last occurrence), a null member being present-as-null *)
Theorem C11_accessors : forall ms name s,
  op_str (operation_of ms) name = Ok s <-> exists b, member name ms = Some (TStr b) /\ unquote b = s.
Proof. intros ms name s. exact (op_str_ok name ms s). Qed.
Print Assumptions C11_accessors.

Theorem C11_value_member : forall ms,
  aget (B "value") (operation_of ms) = option_map nullify (member (B "value") ms).
Proof. intro ms. apply operation_of_spec. Qed.
Print Assumptions C11_value_member.

Theorem C11_order : forall els ops,
  decode_patch_t (TArr els) = Some ops ->
  ops = map (fun e => match e with TObj ms => operation_of ms | _ => [] end) els.
Proof.
  intros els ops H. unfold decode_patch_t in H.
  destruct (forallb _ els); try discriminate.
  destruct (forallb validate_operation _); try discriminate. now inversion H.
Qed.
Print Assumptions C11_order.

(* non-vacuity: a concrete two-operation patch with a repeated member, a null value and an
   unknown extra member is accepted, and its accessors are as stated *)
Example C11_nonvacuous :
  option_map (fun ops => (map op_kind ops, map (fun o => op_str o (B "from")) ops))
    (api_decode (B "[{""op"":""add"",""path"":""/a"",""value"":null,""x"":1},{""path"":""/b"",""op"":""copy"",""from"":""/a"",""from"":""/c""}]"))
  = Some ([KAdd; KCopy], [Err EMissing; Ok (B "/c")]).
Proof. vm_compute. reflexivity. Qed.

(* ---- the accessors decode op / path / from with unquoteBytes: as re-translated from decode.go on every run it is
   the model's unquote on every string body the scanner accepts (UnquoteTie.v) ---- *)
From JP Require Import Strings Codec.
From JP Require UnquoteTie.
From JP.gen Require UnquoteGen.
Theorem C11_go_string_decoder_is_unquote : forall body, sbody body ->
  UnquoteGen.unquote_full_gen ([x22] ++ body ++ [x22]) = UnquoteGen.UOk (unquote body).
Proof. exact UnquoteTie.unquote_full_gen_is_unquote. Qed.
Print Assumptions C11_go_string_decoder_is_unquote.
