(* C15 — outputs are well-formed; escaping and indentation never change the value.
   The escape tables safeSet/htmlSafeSet are RE-TRANSLATED from tables.go on every run
   (gen/TablesGen.v); the theorems below are re-checked against them.
   Proved (on the model of the string codec, Strings.v, and of compact's escaping, Text.html_escape):
   EscapeHTML only changes the spelling — what every string and member name denotes is unchanged —
   and with EscapeHTML on no < > & U+2028 U+2029 is written raw.
   Open obligations (compared on every run): well-formedness of whole outputs (parse ∘ print),
   ApplyIndent = Indent ∘ Apply through the scanner loop, byte-identity under passing tests. *)
From JP Require Import Bytes Json Text Strings Den ImplV5 Codec.
From JP.gen Require Import TablesGen.

(* escaping a string body never changes the string it denotes *)
Theorem C15_escape_keeps_string : forall b, sbody b -> unquote (html_escape b) = unquote b.
Proof. intros b S. apply (unquote_html_escape (length b)); auto. Qed.
Print Assumptions C15_escape_keeps_string.

(* ... nor the value of a whole text: every string and member name, at every depth *)
Theorem C15_escape_keeps_value : forall t, tsb t -> den (escape_tree true t) = den t.
Proof. exact escape_tree_den. Qed.
Print Assumptions C15_escape_keeps_value.

(* with EscapeHTML on, none of < > & U+2028 U+2029 is left raw in an escaped body, whatever the
   body was (no validity assumption) *)
Theorem C15_escape_on_nothing_raw : forall b, has_raw (html_escape b) = false.
Proof. intro b. apply (html_escape_no_raw (length b)); auto. Qed.
Print Assumptions C15_escape_on_nothing_raw.

(* member names and strings written by the encoder: decoding what it wrote gives the string back,
   with EscapeHTML on or off (valid UTF-8) *)
Theorem C15_encoded_string_decodes_back : forall esc s, utf8 s -> unquote (quote esc s) = s.
Proof. exact unquote_quote. Qed.
Print Assumptions C15_encoded_string_decodes_back.

(* the switch changes nothing but the spelling *)
Theorem C15_switch_only_spelling : forall b, sbody b ->
  unquote (quote true (unquote b)) = unquote (quote false (unquote b)).
Proof. exact escape_switch_same_value. Qed.
Print Assumptions C15_switch_only_spelling.

(* decoded strings are valid UTF-8 (invalid input bytes and lone surrogates become U+FFFD) *)
Theorem C15_decoded_is_utf8 : forall b, sbody b -> utf8 (unquote b).
Proof. intros b S. apply (unquote_utf8 (length b)); auto. Qed.
Print Assumptions C15_decoded_is_utf8.

(* the regenerated tables: everything HTML-safe is safe; the three HTML characters are not HTML-safe *)
Theorem C15_tables : forall c, tbl htmlSafeSet c = true ->
  tbl safeSet c = true /\ c <> x3c /\ c <> x3e /\ c <> x26.
Proof. intros c H. destruct c; vm_compute in H; try discriminate; repeat split; try reflexivity; discriminate. Qed.
Print Assumptions C15_tables.

Example C15_nonvacuous :
  match api_decode (B "[{""op"":""add"",""path"":""/k<"",""value"":""a&b""}]") with
  | Some p =>
      match api_apply (mkOpts true 0 false false true [] None) [] p (B "{""x>"":""<""}"),
            api_apply (mkOpts true 0 false false false [] None) [] p (B "{""x>"":""<""}") with
      | ROut on, ROut off =>
          off = B "{""x>"":""<"",""k<"":""a&b""}" /\ has_raw on = false /\ has_raw off = true /\
          option_map den (parse on) = option_map den (parse off) /\ parse on <> None
      | _, _ => False
      end
  | None => False
  end.
Proof. vm_compute. repeat split; try reflexivity; discriminate. Qed.
