(* C15 — outputs are well-formed; escaping and indentation never change the value.
   The escape tables safeSet/htmlSafeSet are RE-TRANSLATED from tables.go on every run
   (gen/TablesGen.v); the theorems below are re-checked against them.
   Proved (on the model of the string codec, Strings.v, and of compact's escaping, Text.html_escape):
   EscapeHTML only changes the spelling — what every string and member name denotes is unchanged —
   and with EscapeHTML on no < > & U+2028 U+2029 is written raw.
   Proved on the output BYTES (OutputFacts.v): every successful result of Apply / ApplyIndent (v5) for
   EVERY parsed document, EVERY decoded patch and every options record is a tree of tokens the
   independent reader accepts; if the result is nested no deeper than the reader's limit (the one
   hypothesis: a decoded copy can nest the result deeper, C15_nesting_hypothesis_needed; it holds
   for the empty patch) the bytes are one well-formed JSON text, read back as the value of that
   tree, accepted by the scanner, and ApplyIndent's bytes are exactly Indent of Apply's bytes.  In
   the domain of the simulation (C01) the value read back IS the RFC 6902 result and the nesting
   hypothesis is one on that result.  MergePatch, MergeMergePatches and CreateMergePatch: every
   successful result is a well-formed JSON text, no hypothesis at all (their results are never
   nested deeper than their inputs).
   Open obligations (compared on every run): byte-identity under passing tests. *)
From JP Require Import Bytes Json Text Strings Den Pointer Rfc6902 ImplV5 Domain ImplFacts RefFacts Codec ApplySim.
From JP Require Import ImplMerge Scan PrintParse OutputFacts.
From JP.gen Require Import TablesGen.

(* escaping a string body never changes the string it denotes *)
Theorem C15_escape_keeps_string : forall b, sbody b -> unquote (html_escape b) = unquote b.
Proof. intros b S. apply (unquote_html_escape (length b)); auto. Qed.
Print Assumptions C15_escape_keeps_string.

(* ... nor the value of a whole text: every string and member name, at every depth *)
Theorem C15_escape_keeps_value : forall t, tsb t -> den (escape_tree true t) = den t.
Proof. exact escape_tree_den. Qed.
Print Assumptions C15_escape_keeps_value.

(* with EscapeHTML on, none of < > & U+2028 U+2029 is left raw in an escaped body, whatever the
   body was (no validity assumption) *)
Theorem C15_escape_on_nothing_raw : forall b, has_raw (html_escape b) = false.
Proof. intro b. apply (html_escape_no_raw (length b)); auto. Qed.
Print Assumptions C15_escape_on_nothing_raw.

(* member names and strings written by the encoder: decoding what it wrote gives the string back,
   with EscapeHTML on or off (valid UTF-8) *)
Theorem C15_encoded_string_decodes_back : forall esc s, utf8 s -> unquote (quote esc s) = s.
Proof. exact unquote_quote. Qed.
Print Assumptions C15_encoded_string_decodes_back.

(* the switch changes nothing but the spelling *)
Theorem C15_switch_only_spelling : forall b, sbody b ->
  unquote (quote true (unquote b)) = unquote (quote false (unquote b)).
Proof. exact escape_switch_same_value. Qed.
Print Assumptions C15_switch_only_spelling.

(* decoded strings are valid UTF-8 (invalid input bytes and lone surrogates become U+FFFD) *)
Theorem C15_decoded_is_utf8 : forall b, sbody b -> utf8 (unquote b).
Proof. intros b S. apply (unquote_utf8 (length b)); auto. Qed.
Print Assumptions C15_decoded_is_utf8.

(* the regenerated tables: everything HTML-safe is safe; the three HTML characters are not HTML-safe *)
Theorem C15_tables : forall c, tbl htmlSafeSet c = true ->
  tbl safeSet c = true /\ c <> x3c /\ c <> x3e /\ c <> x26.
Proof. intros c H. destruct c; vm_compute in H; try discriminate; repeat split; try reflexivity; discriminate. Qed.
Print Assumptions C15_tables.

(* ---- the output bytes of Apply / ApplyIndent ---- *)
(* EVERY parsed document, EVERY patch whose values are made of tokens the reader accepts (every
   decoded patch: C15_decoded_patch_values), every options record, every indent.  tr is the tree
   Apply encodes (OutputFacts.result_tree); the result bytes are its compact or indented text; it is
   made of well-formed string bodies and complete number literals (tok) and is an object, an array or
   null; if it is nested within the reader's limit: with a white-space indent (or none) the bytes
   are read back as tr with its strings escaped as EscapeHTML says, the scanner accepts them, the
   value read is the value of tr; and for a non-empty indent the bytes are exactly Indent (the loop
   over the translated scanner) of the bytes Apply returns *)
Theorem C15_apply_output_wellformed : forall o indent p doc t out,
  parse doc = Some t -> Forall op_tok p -> api_apply o indent p doc = ROut out ->
  exists tr, result_tree o p t = Some tr /\ out = output o indent tr /\ tok tr /\ root_shape tr /\
    ((Text.tdepth tr <= max_depth)%N ->
       (wsb indent = true ->
          parse out = Some (escape_tree (o_esc o) tr) /\ valid_gen out = true /\
          exists t', parse out = Some t' /\ den t' = den tr) /\
       (indent <> [] -> exists out0, api_apply o [] p doc = ROut out0 /\ indent_go indent out0 = Some out)).
Proof. exact api_apply_output_general. Qed.
Print Assumptions C15_apply_output_wellformed.

Theorem C15_decoded_patch_values : forall bs p, api_decode bs = Some p -> Forall op_tok p.
Proof. exact api_decode_tok. Qed.
Print Assumptions C15_decoded_patch_values.

Theorem C15_apply_output_decoded : forall o indent patch p doc t out,
  api_decode patch = Some p -> parse doc = Some t -> wsb indent = true ->
  api_apply o indent p doc = ROut out ->
  exists tr, result_tree o p t = Some tr /\ out = output o indent tr /\
    ((Text.tdepth tr <= max_depth)%N -> valid_gen out = true /\ exists t', parse out = Some t' /\ den t' = den tr).
Proof. exact api_apply_output_decoded. Qed.
Print Assumptions C15_apply_output_decoded.

(* the empty patch: no hypothesis on the nesting *)
Theorem C15_apply_output_empty_patch : forall o indent doc t out,
  parse doc = Some t -> wsb indent = true -> api_apply o indent [] doc = ROut out ->
  valid_gen out = true /\ exists t', parse out = Some t'.
Proof. exact api_apply_output_nil. Qed.
Print Assumptions C15_apply_output_empty_patch.

(* in the domain of the simulation (C01): the bytes are a JSON text whose value IS the RFC 6902 result,
   provided that result is nested within the reader's limit; ApplyIndent = Indent of Apply *)
Theorem C15_apply_output_is_rfc_result : forall o indent p doc t,
  plain_opts o -> parse doc = Some t -> root_container t = true -> tnodup t = true ->
  Forall op_dom p -> Forall op_tok p ->
  copies_fit (dia o) (den t) (map den_op p) = true ->
  wsb indent = true ->
  match rfc_apply (dia o) (den t) (map den_op p) with
  | Done j =>
      (odepth j <= max_depth)%N ->
      exists out t', api_apply o indent p doc = ROut out /\ parse out = Some t' /\ den t' = j /\ valid_gen out = true /\
        (indent <> [] -> exists out0, api_apply o [] p doc = ROut out0 /\ indent_go indent out0 = Some out)
  | Failed i cz => exists e, api_apply o indent p doc = RErr (Some i) e /\ cause_rel cz e
  end.
Proof. exact api_apply_output_sim. Qed.
Print Assumptions C15_apply_output_is_rfc_result.

(* the invariant behind it, for arbitrary operations, paths and options: the raw messages stored in
   the document stay made of tokens the reader accepts *)
Theorem C15_engine_keeps_tokens : forall o p i st st',
  stok st -> Forall op_tok p -> apply_from o i st p = AOk st' -> ntok (root_node (s_root st')).
Proof. exact apply_from_ntok. Qed.
Print Assumptions C15_engine_keeps_tokens.

(* member names are written as bodies the reader accepts whatever bytes they hold *)
Theorem C15_any_name_is_written_wellformed : forall esc s, body_ok (quote esc s).
Proof. exact body_ok_quote. Qed.
Print Assumptions C15_any_name_is_written_wellformed.

(* the nesting hypothesis is needed: a document nested 10000 deep and a decoded copy *)
Theorem C15_nesting_hypothesis_needed :
  match api_decode (B "[{""op"":""copy"",""from"":""/a"",""path"":""/b/-""}]") with
  | Some p =>
      match api_apply (ex_opts true) [] p ex_deep_doc with
      | ROut out => parse out = None /\ parse ex_deep_doc <> None
      | _ => False
      end
  | None => False
  end.
Proof. exact ex_result_too_deep. Qed.
Print Assumptions C15_nesting_hypothesis_needed.

(* the empty document is the one input for which Apply's result is not a JSON text *)
Theorem C15_empty_document : forall o indent p, api_apply o indent p [] = ROut [] /\ parse [] = None.
Proof. exact api_apply_empty_doc. Qed.
Print Assumptions C15_empty_document.

(* ---- MergePatch, MergeMergePatches, CreateMergePatch: every successful result is a JSON text ---- *)
Theorem C15_merge_output_wellformed : forall mm doc patch out,
  api_merge mm doc patch = MOut out -> valid_gen out = true.
Proof. exact api_merge_output_valid. Qed.
Print Assumptions C15_merge_output_wellformed.

Theorem C15_create_output_wellformed : forall a b out,
  api_create a b = MOut out -> exists t', parse out = Some t' /\ valid_gen out = true.
Proof. exact api_create_output_general. Qed.
Print Assumptions C15_create_output_wellformed.

Example C15_nonvacuous :
  match api_decode (B "[{""op"":""add"",""path"":""/k<"",""value"":""a&b""}]") with
  | Some p =>
      match api_apply (mkOpts true 0 false false true [] None) [] p (B "{""x>"":""<""}"),
            api_apply (mkOpts true 0 false false false [] None) [] p (B "{""x>"":""<""}") with
      | ROut on, ROut off =>
          off = B "{""x>"":""<"",""k<"":""a&b""}" /\ has_raw on = false /\ has_raw off = true /\
          option_map den (parse on) = option_map den (parse off) /\ parse on <> None
      | _, _ => False
      end
  | None => False
  end.
Proof. vm_compute. repeat split; try reflexivity; discriminate. Qed.

(* ---- the main theorems applied: every hypothesis of C15_apply_output_wellformed (with its nesting
   hypothesis and a non-empty white-space indent) and of C15_apply_output_is_rfc_result discharged on the
   document and patch of C15_nonvacuous (names and values with < > &), EscapeHTML on, indent of two spaces:
   the bytes ApplyIndent returns are read back as the escaped result tree, the scanner accepts them, their
   value is the RFC 6902 result, and they are Indent of the bytes Apply returns. ---- *)
From JP Require PointerDomain.
Definition C15_ex_doc := B "{""x>"":""<""}".
Definition C15_ex_patch := B "[{""op"":""add"",""path"":""/k<"",""value"":""a&b""}]".
Definition C15_ex_o := mkOpts true 0 false false true [] None.
Definition C15_ex_ind := B "  ".
Definition C15_ex_t : tjson := Eval vm_compute in match parse C15_ex_doc with Some t => t | None => TNull end.
Definition C15_ex_p : list operation := Eval vm_compute in match api_decode C15_ex_patch with Some p => p | None => [] end.
Definition C15_ex_out : bytes :=
  Eval vm_compute in match api_apply C15_ex_o C15_ex_ind C15_ex_p C15_ex_doc with ROut out => out | _ => [] end.
Definition C15_ex_result : ojson := OObj [(B "x>", OStr (B "<")); (B "k<", OStr (B "a&b"))].

Example C15_main_theorem_applies :
  (exists tr, result_tree C15_ex_o C15_ex_p C15_ex_t = Some tr /\ C15_ex_out = output C15_ex_o C15_ex_ind tr /\
     tok tr /\ root_shape tr /\
     parse C15_ex_out = Some (escape_tree true tr) /\ valid_gen C15_ex_out = true /\
     (exists t', parse C15_ex_out = Some t' /\ den t' = den tr) /\
     (exists out0, api_apply C15_ex_o [] C15_ex_p C15_ex_doc = ROut out0 /\ indent_go C15_ex_ind out0 = Some C15_ex_out)) /\
  (exists out t', api_apply C15_ex_o C15_ex_ind C15_ex_p C15_ex_doc = ROut out /\ parse out = Some t' /\
     den t' = C15_ex_result /\ valid_gen out = true).
Proof.
  assert (P : parse C15_ex_doc = Some C15_ex_t) by (vm_compute; reflexivity).
  assert (E : api_decode C15_ex_patch = Some C15_ex_p) by (vm_compute; reflexivity).
  assert (A : api_apply C15_ex_o C15_ex_ind C15_ex_p C15_ex_doc = ROut C15_ex_out) by (vm_compute; reflexivity).
  assert (OT : Forall op_tok C15_ex_p) by exact (C15_decoded_patch_values _ _ E).
  split.
  - destruct (C15_apply_output_wellformed C15_ex_o C15_ex_ind C15_ex_p C15_ex_doc C15_ex_t C15_ex_out P OT A)
      as [tr [R [O [T [Sh G]]]]].
    assert (D : (Text.tdepth tr <= max_depth)%N).
    { vm_compute in R. injection R as <-. vm_compute. discriminate. }
    destruct (G D) as [G1 G2]. destruct (G1 eq_refl) as [P1 [V X]].
    exists tr. split; [exact R|]. split; [exact O|]. split; [exact T|]. split; [exact Sh|].
    split; [exact P1|]. split; [exact V|]. split; [exact X|]. apply G2. discriminate.
  - pose proof (C15_apply_output_is_rfc_result C15_ex_o C15_ex_ind C15_ex_p C15_ex_doc C15_ex_t) as H.
    assert (R : rfc_apply (dia C15_ex_o) (den C15_ex_t) (map den_op C15_ex_p) = Done C15_ex_result) by (vm_compute; reflexivity).
    rewrite R in H.
    destruct H as [out [t' [H1 [H2 [H3 [H4 _]]]]]].
    + repeat split.
    + exact P.
    + reflexivity.
    + vm_compute; reflexivity.
    + apply (PointerDomain.decoded_in_domain_op_dom C15_ex_patch); [exact E | vm_compute; reflexivity | vm_compute; reflexivity].
    + exact OT.
    + vm_compute; reflexivity.
    + reflexivity.
    + vm_compute. discriminate.
    + exists out, t'. split; [exact H1|]. split; [exact H2|]. split; [exact H3 | exact H4].
Qed.
Print Assumptions C15_main_theorem_applies.

(* ---- "test operations that pass leave the output bytes identical to those of the same patch without
   them" (TestTransparent.v).  DOMAIN: the simulation domain of C01 plus the clause's own quantifier —
   the document and the values stored by the non-test operations are spelled as the encoder spells them
   (canonical_spelling); test values may be spelled in any way.  The hypothesis is needed:
   C15_test_respells_member_names. ---- *)
From JP Require TestTransparent.

(* in that domain the bytes Apply returns are a function of the RFC 6902 result alone *)
Theorem C15_output_is_canonical_encoding_of_rfc_result : forall o indent p doc t,
  plain_opts o -> parse doc = Some t -> root_container t = true -> tnodup t = true ->
  Forall op_dom p ->
  copies_fit (dia o) (den t) (map den_op p) = true ->
  canonical_spelling (o_esc o) t = true ->
  Forall (TestTransparent.stored_canon (o_esc o)) p ->
  match rfc_apply (dia o) (den t) (map den_op p) with
  | Done j => api_apply o indent p doc = ROut (output o indent (TestTransparent.cenc (o_esc o) j))
  | Failed i cz => exists e, api_apply o indent p doc = RErr (Some i) e /\ cause_rel cz e
  end.
Proof. exact TestTransparent.api_apply_canonical_bytes. Qed.
Print Assumptions C15_output_is_canonical_encoding_of_rfc_result.

Theorem C15_passing_tests_transparent : forall o indent p doc t out,
  plain_opts o -> parse doc = Some t -> root_container t = true -> tnodup t = true ->
  Forall op_dom p ->
  copies_fit (dia o) (den t) (map den_op p) = true ->
  canonical_spelling (o_esc o) t = true ->
  Forall (TestTransparent.stored_canon (o_esc o)) p ->
  api_apply o indent p doc = ROut out ->
  api_apply o indent (filter TestTransparent.not_test p) doc = ROut out.
Proof. exact TestTransparent.passing_tests_transparent. Qed.
Print Assumptions C15_passing_tests_transparent.

(* the same on the boolean domain the harness evaluates, for a decoded patch *)
Theorem C15_passing_tests_transparent_decoded : forall o indent patch p doc t out,
  plain_opts o ->
  api_decode patch = Some p -> in_domain_C01 p = true -> forallb PointerDomain.op_small p = true ->
  parse doc = Some t -> root_container t = true -> tnodup t = true ->
  copies_fit (dia o) (den t) (map den_op p) = true ->
  canonical_spelling (o_esc o) t = true -> forallb (TestTransparent.stored_canonb (o_esc o)) p = true ->
  api_apply o indent p doc = ROut out ->
  api_apply o indent (filter TestTransparent.not_test p) doc = ROut out.
Proof. exact TestTransparent.passing_tests_transparent_decoded. Qed.
Print Assumptions C15_passing_tests_transparent_decoded.

(* conversely, adding tests to a patch that succeeds can only make it fail: never other bytes *)
Theorem C15_tests_only_pass_or_fail : forall o indent p doc t out,
  plain_opts o -> parse doc = Some t -> root_container t = true -> tnodup t = true ->
  Forall op_dom p ->
  copies_fit (dia o) (den t) (map den_op p) = true ->
  canonical_spelling (o_esc o) t = true ->
  Forall (TestTransparent.stored_canon (o_esc o)) p ->
  api_apply o indent (filter TestTransparent.not_test p) doc = ROut out ->
  api_apply o indent p doc = ROut out \/ exists i e, api_apply o indent p doc = RErr (Some i) e.
Proof. exact TestTransparent.tests_only_pass_or_fail. Qed.
Print Assumptions C15_tests_only_pass_or_fail.

(* the spelling hypothesis is needed: a passing test below a member whose NAME is spelled with an escape
   the encoder would not use makes the decoder re-spell that name *)
Example C15_test_respells_member_names :
  match api_decode TestTransparent.ex1_patch, parse TestTransparent.ex1_doc with
  | Some p, Some t =>
      api_apply (TestTransparent.tt_opts false) [] p TestTransparent.ex1_doc = ROut (B "{""a"":{""/"":1}}") /\
      api_apply (TestTransparent.tt_opts false) [] (filter TestTransparent.not_test p) TestTransparent.ex1_doc
        = ROut (B "{""a"":{""\/"":1}}") /\
      canonical_spelling false t = false
  | _, _ => False
  end.
Proof. vm_compute. repeat split; reflexivity. Qed.

(* ---- "in valid UTF-8 (given UTF-8 input)" (Utf8Out.v).  utf8_text is Codec.utf8: the byte string is a
   concatenation of well-formed UTF-8 sequences as Go's utf8.Valid / DecodeRune understand it.  Every
   options record; no domain restriction on paths or operations. ---- *)
From JP Require Utf8Out.

(* the encoder writes UTF-8 whatever the Go string holds (ill-formed bytes become the U+FFFD escape) *)
Theorem C15_encoder_writes_utf8 : forall esc s, Utf8Out.utf8_text (quote esc s).
Proof. exact Utf8Out.utf8_quote. Qed.
Print Assumptions C15_encoder_writes_utf8.

Theorem C15_apply_output_utf8 : forall o indent p doc out,
  Utf8Out.utf8_text doc -> Forall Utf8Out.op_utf8 p -> Utf8Out.utf8_text indent ->
  api_apply o indent p doc = ROut out -> Utf8Out.utf8_text out.
Proof. exact Utf8Out.api_apply_utf8. Qed.
Print Assumptions C15_apply_output_utf8.

(* document and patch given as UTF-8 texts, the indent made of white space *)
Theorem C15_apply_output_utf8_decoded : forall o indent patch p doc out,
  Utf8Out.utf8_text doc -> Utf8Out.utf8_text patch -> api_decode patch = Some p -> wsb indent = true ->
  api_apply o indent p doc = ROut out -> Utf8Out.utf8_text out.
Proof. exact Utf8Out.api_apply_utf8_decoded. Qed.
Print Assumptions C15_apply_output_utf8_decoded.

Theorem C15_merge_output_utf8 : forall mm doc patch out,
  Utf8Out.utf8_text doc -> Utf8Out.utf8_text patch -> api_merge mm doc patch = MOut out -> Utf8Out.utf8_text out.
Proof. exact Utf8Out.api_merge_utf8. Qed.
Print Assumptions C15_merge_output_utf8.

(* CreateMergePatch: every string and name of the result is written by the encoder — no input hypothesis *)
Theorem C15_create_output_utf8 : forall a b out, api_create a b = MOut out -> Utf8Out.utf8_text out.
Proof. exact Utf8Out.api_create_utf8. Qed.
Print Assumptions C15_create_output_utf8.

(* the input hypothesis is needed: an ill-formed byte inside a document string passes through verbatim *)
Example C15_utf8_input_needed :
  parse Utf8Out.ex_bad_doc <> None /\ ~ Utf8Out.utf8_text Utf8Out.ex_bad_doc /\
  match api_apply (ex_opts true) [] [] Utf8Out.ex_bad_doc with
  | ROut out => out = Utf8Out.ex_bad_doc /\ ~ Utf8Out.utf8_text out
  | _ => False
  end.
Proof. exact Utf8Out.ex_utf8_input_needed. Qed.

(* ---- the string encoder itself: encodeState.string (and its twin stringBytes, checked to be the same
   function) RE-TRANSLATED from v5/internal/json/encode.go on every run (tools/goquote2v -> gen/QuoteGen.v:
   the loop as a step function with a range guard on every index and slice expression, the tables of
   gen/TablesGen.v) and proved equal to the model's quote for EVERY byte string (QuoteTie.v); the loop
   never runs out of fuel and never indexes out of range.  utf8.DecodeRune is modelled (Utf8Rune.v). ---- *)
From JP Require QuoteTie.
From JP.gen Require QuoteGen.

Theorem C15_go_string_encoder_is_quote : forall esc s,
  QuoteGen.quote_full_gen esc s = [x22] ++ quote esc s ++ [x22].
Proof. exact QuoteTie.quote_full_gen_is_quote. Qed.
Print Assumptions C15_go_string_encoder_is_quote.

Theorem C15_go_string_encoder_appends : forall esc s out0,
  QuoteGen.quote_run esc s out0 = QuoteGen.QOk (out0 ++ [x22] ++ quote esc s ++ [x22]).
Proof. exact QuoteTie.quote_run_is_quote. Qed.
Print Assumptions C15_go_string_encoder_appends.

Theorem C15_go_string_encoder_total : forall esc s out0,
  QuoteGen.quote_run esc s out0 <> QuoteGen.QFuel /\ QuoteGen.quote_run esc s out0 <> QuoteGen.QPanic.
Proof. exact QuoteTie.quote_run_total. Qed.
Print Assumptions C15_go_string_encoder_total.

(* ---- ApplyIndent's re-indentation: Indent of indent.go as re-translated on every run is the model's indent_go ---- *)
From JP Require IndentTie.
From JP.gen Require IndentGen.
Theorem C15_go_indent_is_model : forall indent bs, IndentGen.indent_gen [] indent bs = Scan.indent_go indent bs.
Proof. exact IndentTie.indent_gen_is_model. Qed.
Print Assumptions C15_go_indent_is_model.

(* ---- the string decoder, re-translated from decode.go on every run, is the model's unquote on every accepted
   body and never panics (UnquoteTie.v; see Properties/C17.v) ---- *)
From JP Require UnquoteTie.
From JP.gen Require UnquoteGen.
Theorem C15_go_string_decoder_is_unquote : forall body, sbody body ->
  UnquoteGen.unquote_full_gen ([x22] ++ body ++ [x22]) = UnquoteGen.UOk (unquote body).
Proof. exact UnquoteTie.unquote_full_gen_is_unquote. Qed.
Print Assumptions C15_go_string_decoder_is_unquote.
