(* C01 — RFC 6902 application computes the RFC result (v5).
   The model of patch.go (ImplV5: lazily parsed nodes, ordered key lists + member maps, in-place
   index arithmetic, the pointer walk of findObject, the six operations) is proved to refine the
   reference semantics Rfc6902.rfc_apply, for ALL documents and ALL operation sequences in the
   property's stated domain, with SupportNegativeIndices on or off.  The model is tied to the Go
   code by the correspondence run (see evidence). *)
From JP Require Import Bytes Json Text Strings Den Pointer Rfc6902 ImplV5 Domain JsonFacts Abs EqualFacts ImplFacts RefFacts ApplyFacts Codec StrInv Depth ApplySim PointerDomain.
From JP Require IndexTie.
From JP.gen Require IndexGen.

(* Apply on bytes.  Hypotheses = the property's domain: root object/array without duplicate names
   (tnodup), operations in op_dom (pointers "" or /tok/.../tok with non-empty tokens whose numeric
   spellings are canonical and which are valid UTF-8; "" not the target of remove/copy/move; root
   not replaced by null; patch values without duplicate names and with string bodies the scanner
   accepts), plain options (the three behavioural options are C12, C13, C14).  The two string
   conditions hold of EVERY decoded patch (C01_decoded_strings below): pointers are decoded strings,
   values are parsed texts.  Patches that contain a copy are covered like all others: the codec
   round trip of deepCopy is proved (StrInv.codec_thm) from the string invariant carried by ngood.
   copies_fit (Depth.v): no copy operation that the reference run reaches has a source value nested
   deeper than 10000 levels (Text.max_depth, the decoder's limit): deepCopy refuses such a value
   (fix dc05ac4; before it, the copy was stored raw and a later lazy parse panicked).  The condition
   follows the reference run; it holds for every patch without copy (copies_fit_no_copy_ops) and
   whenever the documents the run passes through are themselves at most 10000 deep
   (Depth.copy_fits_shallow).  What happens when it fails: C01_copy_too_deep_is_an_error below.
   Conclusion: Apply succeeds exactly when the reference does; then the output encodes a node
   whose value IS the reference result (so, a fortiori, structurally equal); a failure is reported
   at the same operation index. *)
Theorem C01_apply_refines_rfc : forall o indent p doc t,
  plain_opts o -> parse doc = Some t -> root_container t = true -> tnodup t = true ->
  Forall op_dom p ->
  copies_fit (dia o) (den t) (map den_op p) = true ->
  match rfc_apply (dia o) (den t) (map den_op p) with
  | Done j => exists n, api_apply o indent p doc = ROut (output o indent (render (o_esc o) n)) /\ aval n = j /\ ngood n
  | Failed i cz => exists e, api_apply o indent p doc = RErr (Some i) e /\ cause_rel cz e
  end.
Proof. exact api_apply_sim. Qed.
Print Assumptions C01_apply_refines_rfc.

(* the string conditions of op_dom are theorems for decoded patches: every text stored in a decoded
   operation has scanner-accepted string bodies (so path and from, being decoded strings, are valid
   UTF-8, and so is every reference token: splitting at '/' and undoing ~0 ~1 keep validity) *)
Theorem C01_decoded_strings : forall bs p, api_decode bs = Some p ->
  Forall (fun op => op_tsb op /\
                    (forall k s, op_str op k = Ok s -> utf8 s) /\
                    (forall k r, op_str op k = Ok (x2f :: r) -> Forall utf8 (map decode_token (split_slash r)))) p.
Proof.
  intros bs p H. apply api_decode_tsb in H. rewrite Forall_forall in *. intros op Hin. specialize (H op Hin).
  split; [exact H|]. split.
  - intros k s E. eapply op_tsb_str; eauto.
  - intros k r E. apply utf8_pointer_tokens. eapply op_tsb_str; eauto.
Qed.
Print Assumptions C01_decoded_strings.

(* the same theorem with the domain stated by the boolean predicates the harness evaluates on the
   decoded patch (Domain.in_domain_C01, plus op_small: canonical numbers fit 64 bits) *)
Theorem C01_apply_refines_rfc_decoded : forall o indent patch p doc t,
  plain_opts o ->
  api_decode patch = Some p -> in_domain_C01 p = true -> forallb op_small p = true ->
  parse doc = Some t -> root_container t = true -> tnodup t = true ->
  copies_fit (dia o) (den t) (map den_op p) = true ->
  match rfc_apply (dia o) (den t) (map den_op p) with
  | Done j => exists n, api_apply o indent p doc = ROut (output o indent (render (o_esc o) n)) /\ aval n = j /\ ngood n
  | Failed i cz => exists e, api_apply o indent p doc = RErr (Some i) e /\ cause_rel cz e
  end.
Proof. exact C01_on_boolean_domain. Qed.
Print Assumptions C01_apply_refines_rfc_decoded.

(* one operation on any reachable state, whatever lazy parsing earlier operations left behind *)
Theorem C01_step_refines_rfc : forall o st op,
  sgood st -> plain_opts o -> op_dom op ->
  copy_fits (dia o) (sval st) (den_op op) = true ->
  match rfc_step (dia o) (sval st) (den_op op) with
  | Rfc6902.Ok j' => exists st', step o st op = Ok st' /\ sval st' = j' /\ sgood st'
  | Rfc6902.Fail cz => exists e, step o st op = Err e /\ cause_rel cz e
  end.
Proof. exact step_sim. Qed.
Print Assumptions C01_step_refines_rfc.

(* the complementary case: the operation is a copy whose source resolves (in the reference) to a
   value nested deeper than the decoder's limit.  The library then reports deepCopy's error — for
   every option setting (the depth check precedes the size limit) — unless the destination parent
   is unreachable, which copy() checks first and the reference reports too.  Never a success,
   never a panic. *)
Theorem C01_copy_too_deep_is_an_error : forall o st op,
  sgood st -> op_dom op ->
  copy_fits (dia o) (sval st) (den_op op) = false ->
  step o st op = Err EInvalid \/
  (step o st op = Err EMissing /\ rfc_step (dia o) (sval st) (den_op op) = Rfc6902.Fail FUnreachable).
Proof. exact step_copy_too_deep. Qed.
Print Assumptions C01_copy_too_deep_is_an_error.

(* the same for whole patches on bytes: the patch is rejected, at the copy that does not fit *)
Theorem C01_copy_too_deep_rejects_patch : forall o indent p doc t,
  plain_opts o -> parse doc = Some t -> root_container t = true -> tnodup t = true ->
  Forall op_dom p ->
  copies_fit (dia o) (den t) (map den_op p) = false ->
  match rfc_apply (dia o) (den t) (map den_op p) with
  | Done _ => exists j, api_apply o indent p doc = RErr (Some j) EInvalid
  | Failed k cz => exists j e, api_apply o indent p doc = RErr (Some j) e /\ (e = EInvalid \/ (j = k /\ cause_rel cz e))
  end.
Proof. exact api_apply_copy_too_deep. Qed.
Print Assumptions C01_copy_too_deep_rejects_patch.

(* the check the model makes (on the re-encoded text) is a check of the VALUE copied: copy_fits and
   copies_fit speak about exactly what deepCopy measures *)
Theorem C01_depth_check_is_value_depth : forall o v,
  nwf v -> copy_too_deep o v = (max_depth <? odepth (aval v))%N.
Proof. exact copy_too_deep_val. Qed.
Print Assumptions C01_depth_check_is_value_depth.

(* sufficient conditions for the side condition *)
Theorem C01_no_copy_fits : forall d p doc,
  Forall (fun op => op_kind op <> KCopy) p -> copies_fit d doc (map den_op p) = true.
Proof. exact copies_fit_no_copy_ops. Qed.
Print Assumptions C01_no_copy_fits.

Theorem C01_shallow_document_fits : forall d doc o, (odepth doc <= max_depth)%N -> copy_fits d doc o = true.
Proof. exact copy_fits_shallow. Qed.
Print Assumptions C01_shallow_document_fits.

(* the pointer walk: findObject reaches exactly the container the reference descends to, and lazy
   parsing along the way never changes the document's value *)
Theorem C01_walk : forall o parts c,
  cgood c -> Forall tok_dom (map decode_token parts) ->
  match descend (dia o) (map decode_token parts) (cval c) with
  | Some p =>
      if is_container p then
        exists cp (back : con -> con), cval cp = p /\ cgood cp /\
          (forall A (f : con -> A * con), walk o parts c f = (Some (fst (f cp)), back (snd (f cp)))) /\
          (forall cp', cgood cp' ->
             cval (back cp') = rebuild (dia o) (map decode_token parts) (cval c) (cval cp') /\ cgood (back cp'))
      else exists c', (forall A (f : con -> A * con), walk o parts c f = (None, c')) /\ cval c' = cval c /\ cgood c'
  | None => exists c', (forall A (f : con -> A * con), walk o parts c f = (None, c')) /\ cval c' = cval c /\ cgood c'
  end.
Proof. exact walk_spec. Qed.
Print Assumptions C01_walk.

(* the index arithmetic of partialArray for every length and every canonical token *)
Theorem C01_get_index : forall o (l : list node) t,
  tok_small t -> tok_canonical t ->
  match idx_existing (dia o) (Rfc6902.zlen l) t with
  | Some i => resolve_idx_get o (ImplV5.zlen l) t = Ok i /\ (i < length l)%nat
  | None => exists e, resolve_idx_get o (ImplV5.zlen l) t = Err e /\ (e = EInvalidIndex \/ e = EAtoi)
  end.
Proof. intros. now apply resolve_idx_get_ref. Qed.
Print Assumptions C01_get_index.

Theorem C01_add_index : forall o (ns : list node) t v,
  tok_small t -> add_tok t ->
  match idx_insert (dia o) (Rfc6902.zlen ns) t with
  | Some i => ary_add o ns t v = Ok (insert_at i v ns) /\ (i <= length ns)%nat
  | None => exists e, ary_add o ns t v = Err e /\ (e = EInvalidIndex \/ e = EAtoi)
  end.
Proof. exact ary_add_ref. Qed.
Print Assumptions C01_add_index.

Theorem C01_remove_index : forall o (ns : list node) t,
  o_allow o = false -> tok_small t -> tok_canonical t ->
  match idx_existing (dia o) (Rfc6902.zlen ns) t with
  | Some i => ary_remove o ns t = Ok (remove_at i ns) /\ (i < length ns)%nat
  | None => exists e, ary_remove o ns t = Err e /\ (e = EInvalidIndex \/ e = EAtoi)
  end.
Proof. exact ary_remove_ref. Qed.
Print Assumptions C01_remove_index.

(* a passing test is decided by structural equality of the values, in any parse state; an absent
   member compares as null; a stored null is null *)
Theorem C01_test_is_structural_equality : forall v ov, ngood v -> ngood ov ->
  jeq (aval v) (aval ov) = if is_null v then is_null ov else if is_null ov then false else node_equal v ov.
Proof. exact test_value_rel. Qed.
Print Assumptions C01_test_is_structural_equality.

(* non-vacuity: all six operations, a negative index, "-", "~1", null round trip *)
(* The index arithmetic of partialArray.get/set/add/remove is RE-TRANSLATED from /repo/v5/patch.go on
   every run (tools/goidx2v -> gen/IndexGen.v: Go int arithmetic with 64-bit wrap-around, every slice
   expression with its bounds test, the slice operations as an effect list) and proved equal to the
   model's functions for every token, option setting and array shorter than 2^63 (IndexTie.v). *)
Theorem C01_array_get_is_the_code : forall o self ns key,
  (ImplV5.zlen ns <= int64_max)%Z ->
  con_get o (KAry self ns) key = IndexTie.res_node self ns (IndexGen.idx_get_gen (o_neg o) (o_allow o) (ImplV5.zlen ns) (atoi key) (bseq key)).
Proof. exact IndexTie.con_get_tie. Qed.
Print Assumptions C01_array_get_is_the_code.

Theorem C01_array_set_is_the_code : forall o ns key v,
  (ImplV5.zlen ns <= int64_max)%Z ->
  ary_set o ns key v = IndexTie.res_nodes ns v (IndexGen.idx_set_gen (o_neg o) (o_allow o) (ImplV5.zlen ns) (atoi key) (bseq key)).
Proof. exact IndexTie.ary_set_tie. Qed.
Print Assumptions C01_array_set_is_the_code.

Theorem C01_array_add_is_the_code : forall o ns key v,
  (ImplV5.zlen ns < int64_max)%Z ->
  ary_add o ns key v = IndexTie.res_nodes ns v (IndexGen.idx_add_gen (o_neg o) (o_allow o) (ImplV5.zlen ns) (atoi key) (bseq key)).
Proof. exact IndexTie.ary_add_tie. Qed.
Print Assumptions C01_array_add_is_the_code.

Theorem C01_array_remove_is_the_code : forall o ns key,
  (ImplV5.zlen ns <= int64_max)%Z ->
  ary_remove o ns key = IndexTie.res_nodes ns NNil (IndexGen.idx_remove_gen (o_neg o) (o_allow o) (ImplV5.zlen ns) (atoi key) (bseq key)).
Proof. exact IndexTie.ary_remove_tie. Qed.
Print Assumptions C01_array_remove_is_the_code.

Example C01_nonvacuous :
  match api_decode (B "[{""op"":""add"",""path"":""/a/-"",""value"":null},{""op"":""test"",""path"":""/a/-1"",""value"":null},{""op"":""copy"",""from"":""/a"",""path"":""/x~1y""},{""op"":""move"",""from"":""/a/0"",""path"":""/a/1""},{""op"":""replace"",""path"":""/x~1y/0"",""value"":{""k"":1.0}},{""op"":""remove"",""path"":""/b""},{""op"":""test"",""path"":""/a"",""value"":[2,1,null]}]") with
  | Some p => api_apply (mkOpts true 0 false false true [] None) [] p (B "{""a"":[1,2],""b"":0}")
              = ROut (B "{""a"":[2,1,null],""x/y"":[{""k"":1.0},2,null]}")
  | None => False
  end.
Proof. vm_compute. reflexivity. Qed.

(* the hypotheses are satisfiable for that very patch (copy included): it is in op_dom *)
Example C01_nonvacuous_dom :
  match api_decode (B "[{""op"":""add"",""path"":""/a/-"",""value"":null},{""op"":""test"",""path"":""/a/-1"",""value"":null},{""op"":""copy"",""from"":""/a"",""path"":""/x~1y""},{""op"":""move"",""from"":""/a/0"",""path"":""/a/1""},{""op"":""replace"",""path"":""/x~1y/0"",""value"":{""k"":1.0}},{""op"":""remove"",""path"":""/b""},{""op"":""test"",""path"":""/a"",""value"":[2,1,null]}]") with
  | Some p => Forall op_dom p /\ has_copy p
  | None => False
  end.
Proof.
  destruct (api_decode _) as [p|] eqn:E; [|vm_compute in E; discriminate E].
  split.
  - eapply decoded_in_domain_op_dom; [exact E | |];
      (pose proof E as E'; vm_compute in E'; inversion E'; subst p; vm_compute; reflexivity).
  - vm_compute in E. inversion E; subst p. eexists. split; [right; right; left; reflexivity | vm_compute; reflexivity].
Qed.

(* ... and its copy fits: the side condition copies_fit holds on that patch and document *)
Example C01_nonvacuous_copies_fit :
  match api_decode (B "[{""op"":""add"",""path"":""/a/-"",""value"":null},{""op"":""test"",""path"":""/a/-1"",""value"":null},{""op"":""copy"",""from"":""/a"",""path"":""/x~1y""},{""op"":""move"",""from"":""/a/0"",""path"":""/a/1""},{""op"":""replace"",""path"":""/x~1y/0"",""value"":{""k"":1.0}},{""op"":""remove"",""path"":""/b""},{""op"":""test"",""path"":""/a"",""value"":[2,1,null]}]"),
        parse (B "{""a"":[1,2],""b"":0}") with
  | Some p, Some t => copies_fit (dia (mkOpts true 0 false false true [] None)) (den t) (map den_op p) = true
  | _, _ => False
  end.
Proof. vm_compute. reflexivity. Qed.

(* the complementary case fires: a state whose member a holds a value nested 10001 deep (such a value
   cannot be parsed in one piece; it arises from adds into a deep document); copying it is refused *)
Fixpoint nest (n : nat) : tjson := match n with O => TNull | S k => TArr [nest k] end.

Example C01_copy_too_deep_fires :
  match api_decode (B "[{""op"":""copy"",""from"":""/a"",""path"":""/b""}]") with
  | Some [op] =>
      let o := mkOpts false 0 false false true [] None in
      let st := mkState (RCon (KDoc NNil [B "a"] [(B "a", NRaw (nest (N.to_nat 10001)))])) 0 in
      copy_fits (dia o) (sval st) (den_op op) = false /\ step o st op = Err EInvalid /\
      (* one level less: it fits and the copy is made *)
      let st' := mkState (RCon (KDoc NNil [B "a"] [(B "a", NRaw (nest (N.to_nat 10000)))])) 0 in
      copy_fits (dia o) (sval st') (den_op op) = true /\
      match step o st' op with Ok _ => True | _ => False end
  | _ => False
  end.
Proof. vm_compute. repeat split; reflexivity. Qed.

(* ---- the main theorem applied: every hypothesis of C01_apply_refines_rfc discharged on the document and the
   seven-operation patch (all six kinds, a copy, "-", a negative index, an escaped token) of C01_nonvacuous;
   the reference run is Done, and the theorem yields the success branch ---- *)
Definition C01_ex_doc := B "{""a"":[1,2],""b"":0}".
Definition C01_ex_patch := B "[{""op"":""add"",""path"":""/a/-"",""value"":null},{""op"":""test"",""path"":""/a/-1"",""value"":null},{""op"":""copy"",""from"":""/a"",""path"":""/x~1y""},{""op"":""move"",""from"":""/a/0"",""path"":""/a/1""},{""op"":""replace"",""path"":""/x~1y/0"",""value"":{""k"":1.0}},{""op"":""remove"",""path"":""/b""},{""op"":""test"",""path"":""/a"",""value"":[2,1,null]}]".
Definition C01_ex_o := mkOpts true 0 false false true [] None.
Definition C01_ex_t : tjson := match parse C01_ex_doc with Some t => t | None => TNull end.
Definition C01_ex_p : list operation := match api_decode C01_ex_patch with Some p => p | None => [] end.
Definition C01_ex_result : ojson :=
  den (TObj [(B "a", TArr [TNum (B "2"); TNum (B "1"); TNull]); (B "x/y", TArr [TObj [(B "k", TNum (B "1.0"))]; TNum (B "2"); TNull])]).

Example C01_main_theorem_applies :
  exists n, api_apply C01_ex_o [] C01_ex_p C01_ex_doc = ROut (output C01_ex_o [] (render (o_esc C01_ex_o) n)) /\
            aval n = C01_ex_result /\ ngood n.
Proof.
  pose proof (C01_apply_refines_rfc C01_ex_o [] C01_ex_p C01_ex_doc C01_ex_t) as H.
  assert (R : rfc_apply (dia C01_ex_o) (den C01_ex_t) (map den_op C01_ex_p) = Done C01_ex_result) by (vm_compute; reflexivity).
  rewrite R in H. apply H.
  - repeat split.
  - vm_compute; reflexivity.
  - reflexivity.
  - vm_compute; reflexivity.
  - apply (decoded_in_domain_op_dom C01_ex_patch); vm_compute; reflexivity.
  - vm_compute; reflexivity.
Qed.
Print Assumptions C01_main_theorem_applies.
