(* C01 — RFC 6902 application computes the RFC result (v5).
   Proved so far: the container level of the refinement — for EVERY array length and every
   canonical index token (non-negative, negative, "-"), with SupportNegativeIndices on or off, the
   index arithmetic of partialArray.get/add/remove/set is the reference's list operation, and
   fails exactly when the reference fails.  The lift through the pointer walk to whole patches is
   stated in ApplySim.v (see open obligations in the evidence). *)
From JP Require Import Bytes Json Pointer Rfc6902 ImplV5 ImplFacts.

Theorem C01_get_index : forall o (l : list node) t,
  tok_small t -> tok_canonical t ->
  match idx_existing (dia o) (Rfc6902.zlen l) t with
  | Some i => resolve_idx_get o (ImplV5.zlen l) t = Ok i /\ (i < length l)%nat
  | None => exists e, resolve_idx_get o (ImplV5.zlen l) t = Err e /\ (e = EInvalidIndex \/ e = EAtoi)
  end.
Proof. intros. now apply resolve_idx_get_ref. Qed.
Print Assumptions C01_get_index.

Theorem C01_add_index : forall o (ns : list node) t v,
  tok_small t -> add_tok t ->
  match idx_insert (dia o) (Rfc6902.zlen ns) t with
  | Some i => ary_add o ns t v = Ok (insert_at i v ns) /\ (i <= length ns)%nat
  | None => exists e, ary_add o ns t v = Err e /\ (e = EInvalidIndex \/ e = EAtoi)
  end.
Proof. exact ary_add_ref. Qed.
Print Assumptions C01_add_index.

Theorem C01_remove_index : forall o (ns : list node) t,
  o_allow o = false -> tok_small t -> tok_canonical t ->
  match idx_existing (dia o) (Rfc6902.zlen ns) t with
  | Some i => ary_remove o ns t = Ok (remove_at i ns) /\ (i < length ns)%nat
  | None => exists e, ary_remove o ns t = Err e /\ (e = EInvalidIndex \/ e = EAtoi)
  end.
Proof. exact ary_remove_ref. Qed.
Print Assumptions C01_remove_index.

Theorem C01_replace_index : forall o (ns : list node) t v i,
  resolve_idx_get o (ImplV5.zlen ns) t = Ok i -> ary_set o ns t v = Ok (set_at i v ns).
Proof. exact ary_set_after_get. Qed.
Print Assumptions C01_replace_index.

(* non-vacuity: all six operations, a negative index, "-", "~1", null round trip *)
Example C01_nonvacuous :
  match api_decode (B "[{""op"":""add"",""path"":""/a/-"",""value"":null},{""op"":""test"",""path"":""/a/-1"",""value"":null},{""op"":""copy"",""from"":""/a"",""path"":""/x~1y""},{""op"":""move"",""from"":""/a/0"",""path"":""/a/1""},{""op"":""replace"",""path"":""/x~1y/0"",""value"":{""k"":1.0}},{""op"":""remove"",""path"":""/b""},{""op"":""test"",""path"":""/a"",""value"":[2,1,null]}]") with
  | Some p => api_apply (mkOpts true 0 false false true None) [] p (B "{""a"":[1,2],""b"":0}")
              = ROut (B "{""a"":[2,1,null],""x/y"":[{""k"":1.0},2,null]}")
  | None => False
  end.
Proof. vm_compute. reflexivity. Qed.
