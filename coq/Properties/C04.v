(* C04 — no exported entry point panics or hangs.
   The model has an explicit Panic outcome for every Go construct of the patch engines that can panic
   (nil dereference, slice index/bounds, nil-map write, decoder on invalid text).  What is proved:
   - v5 Apply / ApplyIndent / ApplyWithOptions is TOTAL (Totality.v): for every options record, every
     indent, every document byte string and every operation list whose add / replace operations aimed
     at the whole document carry a value member (op_ok) the outcome is never RPanic
     (C04_apply_never_panics); every DecodePatch output satisfies op_ok, so DecodePatch followed by
     Apply never panics on any two byte strings (C04_decode_then_apply_never_panics); op_ok is exactly
     the panic condition of a single operation (C04_unvalidated_add_panics: a hand-assembled Patch
     without it does panic, which is outside the property's quantifier);
   - legacy Apply / ApplyIndent is TOTAL with no hypothesis at all (TotalityV4.v): every setting of the
     package variables, every indent, document and operation list (C04_legacy_apply_never_panics,
     C04_legacy_apply_total, C04_legacy_step_never_panics, C04_legacy_apply_from_never_panics,
     C04_legacy_decode_then_apply_never_panics); this proof found the panic repaired by fix 1a7093a;
   - the older, narrower statements are kept: the index arithmetic never reaches the panicking slice
     expressions, set after get never panics, Apply in the domain of C01 yields a document or an error.
   Hangs: every modelled algorithm is a total Gallina function (structural recursion; explicit fuel in
   the reader, merge and equal, chosen from the input size), so the model cannot diverge.
   NOT a theorem: the entry points and helpers whose model type has no panic outcome (DecodePatch,
   Equal, MergePatch, MergeMergePatches, CreateMergePatch; load_doc, marshal_root, print, deep_copy
   inside Apply): that the Go code does not panic there rests on the correspondence (every generated
   input of every stream is executed under recover() with a crash replay, and under a watchdog). *)
From JP Require Import Bytes Json Text Strings Den Pointer Rfc6902 ImplV5 Domain ImplFacts ApplyFacts Depth ApplySim.

(* partialArray.add: the copy(ary[0:idx], ...) that could panic for a negative index is unreachable,
   for every length, every key and both settings *)
Theorem C04_array_add_never_panics : forall o ns key v, ary_add o ns key v <> Panic.
Proof. exact ary_add_never_panics. Qed.
Print Assumptions C04_array_add_never_panics.

(* partialArray.set indexes d.nodes[idx] unchecked: it cannot panic after the get that replace
   performs first *)
Theorem C04_set_after_get_never_panics : forall o (ns : list node) t v i,
  resolve_idx_get o (ImplV5.zlen ns) t = Ok i -> ary_set o ns t v <> Panic.
Proof. intros o ns t v i H. rewrite (ary_set_after_get o ns t v i H). discriminate. Qed.
Print Assumptions C04_set_after_get_never_panics.

(* Apply in the stated domain of C01 never panics: whether every copy fits the nesting limit of
   deepCopy (then Apply refines the reference) or not (then the copy is refused with an error) *)
Theorem C04_apply_in_domain_never_panics : forall o indent p doc t,
  plain_opts o -> parse doc = Some t -> root_container t = true -> tnodup t = true ->
  Forall op_dom p -> api_apply o indent p doc <> RPanic.
Proof.
  intros o indent p doc t PO P RC T D.
  destruct (copies_fit (dia o) (den t) (map den_op p)) eqn:F.
  - pose proof (api_apply_sim o indent p doc t PO P RC T D F) as S.
    destruct (rfc_apply (dia o) (den t) (map den_op p)).
    + destruct S as [n [S _]]. rewrite S. discriminate.
    + destruct S as [e [S _]]. rewrite S. discriminate.
  - pose proof (api_apply_copy_too_deep o indent p doc t PO P RC T D F) as S.
    destruct (rfc_apply (dia o) (den t) (map den_op p)).
    + destruct S as [j S]. rewrite S. discriminate.
    + destruct S as [j [e [S _]]]. rewrite S. discriminate.
Qed.
Print Assumptions C04_apply_in_domain_never_panics.

(* ill-formed documents are rejected before anything is decoded *)
Theorem C04_malformed_document_is_an_error : forall o indent p doc,
  doc <> [] -> parse doc = None -> api_apply o indent p doc = RErr None EInvalid.
Proof. intros o indent p doc NE P. unfold api_apply. destruct doc; [congruence|]. now rewrite P. Qed.
Print Assumptions C04_malformed_document_is_an_error.

(* the termination of every modelled algorithm is by construction: the model consists of total
   Gallina functions (structural recursion; explicit fuel in the reader, merge and equal, chosen
   from the input size) *)
Example C04_nonvacuous :
  match api_decode (B "[{""op"":""test"",""path"":""/a"",""value"":[null]},{""op"":""replace"",""path"":"""",""value"":null},{""op"":""add"",""path"":""/0"",""value"":1}]") with
  | Some p => api_apply (mkOpts true 0 false false true [] None) [] p (B "{""a"":[null]}") = RErr (Some 2%nat) EMissing
  | None => False
  end.
Proof. vm_compute. reflexivity. Qed.

(* ---- totality of Apply over ALL inputs (Totality.v) ----
   Every options record (any o_neg, o_limit, o_allow, o_ensure, o_esc, o_stale, o_nullsz), every
   indent, every document byte string, every operation list with arbitrary op names, path/from
   bytes (empty tokens, non-canonical or huge indices, "-") and missing members, provided only
   that an add / replace aimed at the whole document (path "") has a value member (op_ok).
   DecodePatch guarantees op_ok; a hand-assembled operation without it does panic
   (C04_unvalidated_add_panics), so the hypothesis cannot be dropped. *)
From JP Require Import Totality.

Theorem C04_apply_never_panics : forall o indent p doc,
  forallb op_ok p = true -> api_apply o indent p doc <> RPanic.
Proof. exact api_apply_never_panics. Qed.
Print Assumptions C04_apply_never_panics.

(* DecodePatch followed by Apply / ApplyIndent / ApplyWithOptions: all byte strings on both sides *)
Theorem C04_decode_then_apply_never_panics : forall o indent patch doc p,
  api_decode patch = Some p -> api_apply o indent p doc <> RPanic.
Proof. exact decode_apply_never_panics. Qed.
Print Assumptions C04_decode_then_apply_never_panics.

(* op_ok is exactly the panic condition of a single operation, in every state *)
Theorem C04_unvalidated_add_panics : forall o st op, op_ok op = false -> step o st op = Panic.
Proof. exact op_not_ok_panics. Qed.
Print Assumptions C04_unvalidated_add_panics.

Example C04_apply_nonvacuous :
  (* duplicate names in the document, the same member removed until it is gone, then once more *)
  match api_decode (B "[{""op"":""remove"",""path"":""/a""},{""op"":""remove"",""path"":""/a""}]") with
  | Some p => api_apply (mkOpts true 0 false false true [] None) [] p (B "{""a"":1,""a"":2}") = RErr (Some 1%nat) EMissing
  | None => False
  end
  /\ api_apply (mkOpts false 0 false false true [] None) []
       [[(B "op", Some (TStr (B "add"))); (B "path", Some (TStr []))]] (B "{}") = RPanic.
Proof. vm_compute. split; reflexivity. Qed.

(* ---- the legacy root package (TotalityV4.v, model ImplV4.v) ----
   Unconditional: the legacy DecodePatch validates nothing, so no hypothesis on the patch is made.
   For every setting of the package variables SupportNegativeIndices / AccumulatedCopySizeLimit,
   every indent, every document byte string and every operation list (arbitrary op names, path /
   from bytes, missing or null members) Apply / ApplyIndent yield an output or an error.
   History: the proof attempt found that the decoded patch  [{"op":"replace","path":""}]  panicked
   on every document that loads (nil *lazyNode dereferenced in Patch.replace); confirmed in Go and
   repaired (fix 1a7093a: ErrMissing).  C04_legacy_nonvacuous records those inputs. *)
From JP Require Import ImplV4 TotalityV4.

Theorem C04_legacy_apply_never_panics : forall g indent p doc, api_apply4 g indent p doc <> Panic4.
Proof. exact api_apply4_never_panics. Qed.
Print Assumptions C04_legacy_apply_never_panics.

(* one legacy operation, in every state; the operation loop from every index and state *)
Theorem C04_legacy_step_never_panics : forall g st op, step4 g st op <> Panic.
Proof. exact step4_never_panics. Qed.
Print Assumptions C04_legacy_step_never_panics.

Theorem C04_legacy_apply_from_never_panics : forall g p i st, fst (apply4_from g i st p) <> Panic.
Proof. exact apply4_from_never_panics. Qed.
Print Assumptions C04_legacy_apply_from_never_panics.

(* the outcome is always an output or an error *)
Theorem C04_legacy_apply_total : forall g indent p doc,
  (exists out, api_apply4 g indent p doc = Out4 out) \/ (exists i e, api_apply4 g indent p doc = Err4 i e).
Proof. exact api_apply4_total. Qed.
Print Assumptions C04_legacy_apply_total.

(* DecodePatch followed by Apply / ApplyIndent: all byte strings on both sides *)
Theorem C04_legacy_decode_then_apply_never_panics : forall g indent patch doc p,
  api_decode4 patch = Some p -> api_apply4 g indent p doc <> Panic4.
Proof. exact decode4_apply4_never_panics. Qed.
Print Assumptions C04_legacy_decode_then_apply_never_panics.

(* a replace of the whole document without value member: ErrMissing, in every state *)
Theorem C04_legacy_replace_root_without_value : forall g st op,
  op_kind op = KReplace -> op_str op (B "path") = Ok [] -> aget (B "value") op = None ->
  step4 g st op = Err EMissing.
Proof. exact replace_root_without_value. Qed.
Print Assumptions C04_legacy_replace_root_without_value.

Example C04_legacy_nonvacuous :
  (* the formerly panicking inputs, with the default package variables and with others; the v5
     DecodePatch rejects the patch text *)
  match api_decode4 (B "[{""op"":""replace"",""path"":""""}]") with
  | Some p => api_apply4 (mkOpts4 true 0 None) [] p (B "{}") = Err4 (Some 0%nat) EMissing
              /\ api_apply4 (mkOpts4 true 0 None) [] p (B "[]") = Err4 (Some 0%nat) EMissing
              /\ api_apply4 (mkOpts4 true 0 None) [] p (B "null") = Err4 (Some 0%nat) EMissing
              /\ api_apply4 (mkOpts4 false 7 None) (B "  ") p (B "{""a"":[1,2]}") = Err4 (Some 0%nat) EMissing
  | None => False
  end
  /\ api_decode (B "[{""op"":""replace"",""path"":""""}]") = None
  (* other unvalidated operations: error or output *)
  /\ match api_decode4 (B "[{""op"":""add"",""path"":""""},{""op"":""replace"",""path"":""""}]") with
     | Some p => api_apply4 (mkOpts4 true 0 None) [] p (B "[]") = Err4 (Some 0%nat) EMissing
     | None => False
     end
  /\ match api_decode4 (B "[{""op"":""replace"",""path"":""/a""},{""op"":""copy"",""path"":""/b""}]") with
     | Some p => api_apply4 (mkOpts4 true 0 None) [] p (B "{""a"":1}") = Err4 (Some 1%nat) EMissing
     | None => False
     end
  (* the unchecked partialArray.set on its own would panic: replace reaches it only after a get *)
  /\ con4_set (mkOpts4 false 0 None) (DAry []) (B "0") NNil = Panic.
Proof. vm_compute. repeat split; reflexivity. Qed.

(* ---- CreateMergePatch: the Go algorithm modelled statement by statement (CreateImpl.v) has explicit panic
   outcomes — the default: branch of getDiff's type switch and a failed type assertion.  None of them is
   reachable: on decoded JSON the type test before each assertion fixes the constructor, and no value has a
   type outside the switch.  (api_create_go returns None for a panic.) ---- *)
From JP Require Import Rfc7396 ImplMerge.
From JP Require CreateImpl.

Theorem C04_getDiff_never_panics : forall am bm,
  CreateImpl.get_diff_go (OObj am) (OObj bm) <> CreateImpl.GoPanic.
Proof. exact CreateImpl.get_diff_go_no_panic. Qed.
Print Assumptions C04_getDiff_never_panics.

Theorem C04_create_never_panics : forall a b,
  (forall ta, parse a = Some ta -> tnodup ta = true) ->
  (forall tb, parse b = Some tb -> tnodup tb = true) ->
  CreateImpl.api_create_go a b = Some (api_create a b).
Proof. exact CreateImpl.api_create_go_eq. Qed.
Print Assumptions C04_create_never_panics.

(* the legacy index methods as re-translated from the root patch.go: get, add and remove never reach a
   panicking index or slice expression (arrays shorter than 2^63); set does exactly for idx >= len, and
   replace asks get first (C18_replace_never_reaches_it) *)
From JP Require IndexTie4.
From JP.gen Require IndexGen4.
Theorem C04_legacy_go_add_never_panics : forall neg len a keyeq,
  (0 <= len < int64_max)%Z -> IndexTie4.atoi_ok4 a -> IndexGen4.idx4_add_gen neg len a keyeq <> IndexGen4.GPanic4.
Proof. exact IndexTie4.add4_gen_never_panics. Qed.
Print Assumptions C04_legacy_go_add_never_panics.

Theorem C04_legacy_go_remove_never_panics : forall neg len a keyeq,
  (0 <= len <= int64_max)%Z -> IndexTie4.atoi_ok4 a -> IndexGen4.idx4_remove_gen neg len a keyeq <> IndexGen4.GPanic4.
Proof. exact IndexTie4.remove4_gen_never_panics. Qed.
Print Assumptions C04_legacy_go_remove_never_panics.

Theorem C04_legacy_go_get_never_panics : forall neg len a keyeq,
  (0 <= len <= int64_max)%Z -> IndexTie4.atoi_ok4 a -> IndexGen4.idx4_get_gen neg len a keyeq <> IndexGen4.GPanic4.
Proof. exact IndexTie4.get4_gen_never_panics. Qed.
Print Assumptions C04_legacy_go_get_never_panics.

(* ---- the string decoder unquoteBytes (every member name and string the library decodes) as re-translated from
   decode.go on every run: no index, slice or EncodeRune write out of range, for EVERY byte string (UnquoteTie.v) ---- *)
From JP Require UnquoteTie.
From JP.gen Require UnquoteGen.
Theorem C04_go_string_decoder_never_panics : forall s,
  UnquoteGen.unquote_full_gen s <> UnquoteGen.UPanic /\ UnquoteGen.unquote_full_gen s <> UnquoteGen.UFuel.
Proof. exact UnquoteTie.unquote_full_gen_no_panic. Qed.
Print Assumptions C04_go_string_decoder_never_panics.
