(* C04 — no exported entry point panics or hangs.
   The model has an explicit Panic outcome for every Go construct that can panic (nil dereference,
   slice index/bounds, nil-map write, decoder on invalid text).  Proved so far: the index arithmetic
   never reaches the panicking slice expressions; in the stated domain of C01 Apply never panics
   (its outcome is a document or an error); set after get never panics.  Totality of the model over
   ALL byte strings (including malformed and out-of-domain pointers) is an open obligation: it is
   covered on every run by executing every generated input of every stream under recover(). *)
From JP Require Import Bytes Json Text Strings Den Pointer Rfc6902 ImplV5 Domain ImplFacts ApplyFacts ApplySim.

(* partialArray.add: the copy(ary[0:idx], ...) that could panic for a negative index is unreachable,
   for every length, every key and both settings *)
Theorem C04_array_add_never_panics : forall o ns key v, ary_add o ns key v <> Panic.
Proof. exact ary_add_never_panics. Qed.
Print Assumptions C04_array_add_never_panics.

(* partialArray.set indexes d.nodes[idx] unchecked: it cannot panic after the get that replace
   performs first *)
Theorem C04_set_after_get_never_panics : forall o (ns : list node) t v i,
  resolve_idx_get o (ImplV5.zlen ns) t = Ok i -> ary_set o ns t v <> Panic.
Proof. intros o ns t v i H. rewrite (ary_set_after_get o ns t v i H). discriminate. Qed.
Print Assumptions C04_set_after_get_never_panics.

(* Apply in the stated domain of C01 never panics *)
Theorem C04_apply_in_domain_never_panics : forall o indent p doc t,
  (has_copy p -> codec_ok) -> plain_opts o -> parse doc = Some t -> root_container t = true -> tnodup t = true ->
  Forall op_dom p -> api_apply o indent p doc <> RPanic.
Proof.
  intros o indent p doc t CO PO P RC T D.
  pose proof (api_apply_sim o indent p doc t CO PO P RC T D) as S.
  destruct (rfc_apply (dia o) (den t) (map den_op p)).
  - destruct S as [n [S _]]. rewrite S. discriminate.
  - destruct S as [e [S _]]. rewrite S. discriminate.
Qed.
Print Assumptions C04_apply_in_domain_never_panics.

(* ill-formed documents are rejected before anything is decoded *)
Theorem C04_malformed_document_is_an_error : forall o indent p doc,
  doc <> [] -> parse doc = None -> api_apply o indent p doc = RErr None EInvalid.
Proof. intros o indent p doc NE P. unfold api_apply. destruct doc; [congruence|]. now rewrite P. Qed.
Print Assumptions C04_malformed_document_is_an_error.

(* the termination of every modelled algorithm is by construction: the model consists of total
   Gallina functions (structural recursion; explicit fuel in the reader, merge and equal, chosen
   from the input size) *)
Example C04_nonvacuous :
  match api_decode (B "[{""op"":""test"",""path"":""/a"",""value"":[null]},{""op"":""replace"",""path"":"""",""value"":null},{""op"":""add"",""path"":""/0"",""value"":1}]") with
  | Some p => api_apply (mkOpts true 0 false false true [] None) [] p (B "{""a"":[null]}") = RErr (Some 2%nat) EMissing
  | None => False
  end.
Proof. vm_compute. reflexivity. Qed.
