(* C03 — CreateMergePatch: a minimal patch that reproduces the target.  The theorems are about the
   difference function `diff` (Rfc7396.v), which the correspondence ties to CreateMergePatch's
   output on every run. *)
From JP Require Import Bytes Json Rfc7396 JsonFacts MergeFacts.
From JP Require Import Text Strings Den ImplMerge Codec CreateFacts.

(* applying the difference of A and B to A per RFC 7396 gives B, whenever B has no null member *)
Theorem C03_roundtrip : forall a b,
  onodup a = true -> onodup b = true -> no_null_member b = true -> is_obj a = true -> is_obj b = true ->
  jeq (merge_patch a (diff a b)) b = true.
Proof. intros a b. exact (diff_roundtrip b a). Qed.
Print Assumptions C03_roundtrip.

(* the patch is {} exactly when A and B are equal *)
Theorem C03_empty_iff_equal : forall a b,
  onodup a = true -> onodup b = true -> is_obj a = true -> is_obj b = true ->
  (diff a b = OObj [] <-> jeq a b = true).
Proof. intros a b. exact (diff_empty_iff b a). Qed.
Print Assumptions C03_empty_iff_equal.

(* every member the patch mentions differs between A and B at that path; removed members appear
   as null; every other value is B's own value, verbatim (number literals included), or the
   difference of two objects (to which this theorem applies again) *)
Theorem C03_minimal : forall ams bms k v,
  NoDup (map fst ams) -> NoDup (map fst bms) ->
  Forall (fun kv => onodup (snd kv) = true) ams -> Forall (fun kv => onodup (snd kv) = true) bms ->
  aget k (members_of (diff (OObj ams) (OObj bms))) = Some v ->
  ~ lookup_rel (fun x y => jeq x y = true) (aget k ams) (aget k bms) /\
  (   (aget k bms = None /\ v = ONull /\ aget k ams <> None)
   \/ (aget k bms = Some v)
   \/ (exists av bv, aget k ams = Some av /\ aget k bms = Some bv /\ is_obj av = true /\ is_obj bv = true /\
                     v = diff av bv)).
Proof. exact diff_mentions. Qed.
Print Assumptions C03_minimal.

(* a member of A that B lacks is removed by a null *)
Theorem C03_removed_is_null : forall ams bms k av,
  NoDup (map fst bms) -> aget k ams = Some av -> aget k bms = None ->
  aget k (members_of (diff (OObj ams) (OObj bms))) = Some ONull.
Proof.
  intros ams bms k av N Ha Hb. rewrite diff_obj. simpl. rewrite diff_patch_lookup, Hb, Ha by auto. reflexivity.
Qed.
Print Assumptions C03_removed_is_null.

(* a fresh or re-typed member carries B's value unchanged *)
Theorem C03_value_verbatim : forall ams bms k bv,
  NoDup (map fst bms) -> aget k bms = Some bv -> aget k ams = None ->
  aget k (members_of (diff (OObj ams) (OObj bms))) = Some bv.
Proof.
  intros ams bms k bv N Hb Ha. rewrite diff_obj. simpl. rewrite diff_patch_lookup, Hb, Ha by auto. reflexivity.
Qed.
Print Assumptions C03_value_verbatim.

Example C03_nonvacuous :
  let a := OObj [(B "a", OObj [(B "x", ONum (B "1.0")); (B "y", ONum (B "2"))]); (B "k", OStr (B "s")); (B "n", ONum (B "1e400"))] in
  let b := OObj [(B "n", ONum (B "1e400")); (B "a", OObj [(B "x", ONum (B "1")); (B "w", OArr [ONum (B "12345678901234567890123")])])] in
  onodup a && onodup b && no_null_member b && is_obj a && is_obj b = true /\
  diff a b = OObj [(B "a", OObj [(B "x", ONum (B "1")); (B "w", OArr [ONum (B "12345678901234567890123")]); (B "y", ONull)]); (B "k", ONull)] /\
  jeq (merge_patch a (diff a b)) b = true.
Proof. vm_compute. repeat split; reflexivity. Qed.

(* ---- the model of CreateMergePatch (ImplMerge.api_create) itself ----
   tsb t: every string body of the tree is one the scanner accepts (Codec.v); tnodup t: no duplicate
   member names after decoding. *)

(* on two objects the model prints the sorted, HTML-escaped encoding of the reference difference *)
Theorem C03_model_is_diff : forall a b ams bms,
  parse a = Some (TObj ams) -> parse b = Some (TObj bms) ->
  api_create a b = MOut (print true (encode_sorted (diff (den (TObj ams)) (den (TObj bms))))).
Proof. exact api_create_obj. Qed.
Print Assumptions C03_model_is_diff.

(* that encoding decodes back to the value it encodes, members reordered *)
Theorem C03_encoding_roundtrip : forall j, onodup j = true -> outf8 j ->
  onodup (den (encode_sorted j)) = true /\ jeq (den (encode_sorted j)) j = true.
Proof. exact encode_sorted_den. Qed.
Print Assumptions C03_encoding_roundtrip.

Theorem C03_encoding_wellformed : forall j, outf8 j -> tsb (encode_sorted j).
Proof. exact encode_sorted_tsb. Qed.
Print Assumptions C03_encoding_wellformed.

Theorem C03_decoded_is_utf8 : forall t, tsb t -> outf8 (den t).
Proof. exact tsb_outf8. Qed.
Print Assumptions C03_decoded_is_utf8.

(* end to end on two objects: the output tree P is well formed, decodes to the reference difference,
   applying it to A per RFC 7396 gives B (when B has no null member), and it is {} exactly when
   A and B are equal *)
Theorem C03_model_correct : forall a b ams bms,
  parse a = Some (TObj ams) -> parse b = Some (TObj bms) ->
  tnodup (TObj ams) = true -> tnodup (TObj bms) = true -> tsb (TObj ams) -> tsb (TObj bms) ->
  exists p,
    api_create a b = MOut (print true p) /\
    p = encode_sorted (diff (den (TObj ams)) (den (TObj bms))) /\
    tsb p /\ tnodup p = true /\
    jeq (den p) (diff (den (TObj ams)) (den (TObj bms))) = true /\
    (no_null_member (den (TObj bms)) = true -> jeq (merge_patch (den (TObj ams)) (den p)) (den (TObj bms)) = true) /\
    (p = TObj [] <-> jeq (den (TObj ams)) (den (TObj bms)) = true).
Proof. exact api_create_correct. Qed.
Print Assumptions C03_model_correct.

(* two arrays of objects of equal length: element by element *)
Theorem C03_model_arrays : forall a b la lb,
  parse a = Some (TArr la) -> parse b = Some (TArr lb) -> length la = length lb ->
  Forall (fun x => is_obj (den x) = true /\ tnodup x = true /\ tsb x) la ->
  Forall (fun x => is_obj (den x) = true /\ tnodup x = true /\ tsb x) lb ->
  exists ps,
    api_create a b = MOut (print true (TArr ps)) /\
    Forall2 (fun p xy =>
               p = encode_sorted (diff (den (fst xy)) (den (snd xy))) /\
               tsb p /\ tnodup p = true /\
               (no_null_member (den (snd xy)) = true ->
                jeq (merge_patch (den (fst xy)) (den p)) (den (snd xy)) = true) /\
               (p = TObj [] <-> jeq (den (fst xy)) (den (snd xy)) = true))
            ps (combine la lb).
Proof. exact api_create_arr_correct. Qed.
Print Assumptions C03_model_arrays.

(* what the array case computes in general (create_elems: element-wise create_object, as far as both
   lists go; as_obj reads null as the empty object) *)
Theorem C03_model_arrays_exact : forall a b la lb,
  parse a = Some (TArr la) -> parse b = Some (TArr lb) ->
  api_create a b =
  if (length la =? length lb)%nat then
    match create_elems la lb with
    | Some ps => MOut (print true (TArr ps))
    | None => MErr MBadDoc
    end
  else MErr MBadDoc.
Proof. exact api_create_arr. Qed.
Print Assumptions C03_model_arrays_exact.

(* every member of the output tree (looked up by decoded name): a null for a member of A that B
   lacks, or the encoding of B's own value, or the output for two nested objects; and that member
   differs between A and B *)
Theorem C03_output_mentions : forall ams bms,
  tnodup (TObj ams) = true -> tnodup (TObj bms) = true -> tsb (TObj ams) -> tsb (TObj bms) ->
  forall pms k v,
  encode_sorted (diff (den (TObj ams)) (den (TObj bms))) = TObj pms -> tget k pms = Some v ->
  ~ lookup_rel (fun x y => jeq x y = true) (aget k (members_of (den (TObj ams)))) (aget k (members_of (den (TObj bms)))) /\
  (   (aget k (members_of (den (TObj bms))) = None /\ v = TNull /\ aget k (members_of (den (TObj ams))) <> None)
   \/ (exists bv, aget k (members_of (den (TObj bms))) = Some bv /\ v = encode_sorted bv)
   \/ (exists av bv, aget k (members_of (den (TObj ams))) = Some av /\ aget k (members_of (den (TObj bms))) = Some bv /\
                     is_obj av = true /\ is_obj bv = true /\ v = encode_sorted (diff av bv))).
Proof. exact create_output_mentions. Qed.
Print Assumptions C03_output_mentions.

Theorem C03_output_removed_is_null : forall ams bms,
  tnodup (TObj ams) = true -> tnodup (TObj bms) = true -> tsb (TObj ams) -> tsb (TObj bms) ->
  forall pms k,
  encode_sorted (diff (den (TObj ams)) (den (TObj bms))) = TObj pms ->
  aget k (members_of (den (TObj ams))) <> None -> aget k (members_of (den (TObj bms))) = None ->
  tget k pms = Some TNull.
Proof. exact create_output_removed. Qed.
Print Assumptions C03_output_removed_is_null.

(* number literals are carried over unchanged *)
Theorem C03_output_number_verbatim : forall ams bms,
  tnodup (TObj ams) = true -> tnodup (TObj bms) = true -> tsb (TObj ams) -> tsb (TObj bms) ->
  forall pms k lit,
  encode_sorted (diff (den (TObj ams)) (den (TObj bms))) = TObj pms ->
  aget k (members_of (den (TObj bms))) = Some (ONum lit) -> aget k (members_of (den (TObj ams))) <> Some (ONum lit) ->
  tget k pms = Some (TNum lit).
Proof. exact create_output_number_verbatim. Qed.
Print Assumptions C03_output_number_verbatim.

(* at any depth: every number literal in the output tree is a number literal of B *)
Theorem C03_output_numbers_from_B : forall a b lit,
  In lit (tnums (encode_sorted (diff a b))) -> In lit (onums b).
Proof. exact create_output_numbers. Qed.
Print Assumptions C03_output_numbers_from_B.

(* merge_patch respects structural equality of patches (used to transport the round trip) *)
Theorem C03_merge_respects_jeq : forall p p' d,
  onodup d = true -> onodup p = true -> onodup p' = true -> jeq p p' = true ->
  jeq (merge_patch d p) (merge_patch d p') = true.
Proof. exact merge_patch_jeq_patch. Qed.
Print Assumptions C03_merge_respects_jeq.

(* a null root is read as the empty object *)
Theorem C03_null_root_is_empty_object : forall a b ta tb oa ob,
  parse a = Some ta -> parse b = Some tb -> as_obj ta = Some oa -> as_obj tb = Some ob ->
  api_create a b = MOut (print true (encode_sorted (diff oa ob))).
Proof. exact api_create_objlike. Qed.
Print Assumptions C03_null_root_is_empty_object.

(* rejections *)
Theorem C03_rejects_unparsable : forall a b, parse a = None \/ parse b = None -> api_create a b = MErr MBadDoc.
Proof. exact api_create_unparsable. Qed.
Print Assumptions C03_rejects_unparsable.

Theorem C03_rejects_array_with_nonarray : forall a b ta tb,
  parse a = Some ta -> parse b = Some tb -> is_tarr ta <> is_tarr tb -> api_create a b = MErr MBadTypes.
Proof. exact api_create_mixed. Qed.
Print Assumptions C03_rejects_array_with_nonarray.

Theorem C03_rejects_nonobject : forall a b ta tb,
  parse a = Some ta -> parse b = Some tb -> is_tarr ta = false -> is_tarr tb = false ->
  as_obj ta = None \/ as_obj tb = None -> api_create a b = MErr MBadDoc.
Proof. exact api_create_nonobject. Qed.
Print Assumptions C03_rejects_nonobject.

Theorem C03_rejects_unequal_lengths : forall a b la lb,
  parse a = Some (TArr la) -> parse b = Some (TArr lb) -> length la <> length lb ->
  api_create a b = MErr MBadDoc.
Proof. exact api_create_arr_length. Qed.
Print Assumptions C03_rejects_unequal_lengths.

Theorem C03_rejects_nonobject_element : forall a b la lb i x y,
  parse a = Some (TArr la) -> parse b = Some (TArr lb) ->
  nth_error la i = Some x -> nth_error lb i = Some y -> as_obj x = None \/ as_obj y = None ->
  api_create a b = MErr MBadDoc.
Proof. exact api_create_arr_bad_elem. Qed.
Print Assumptions C03_rejects_nonobject_element.

Example C03_model_nonvacuous :
  let a := B "{""a"":{""x"":1.0,""y"":2},""k"":""s<"",""n"":1e400}" in
  let b := B "{""n"":1e400,""a"":{""x"":1,""w"":[12345678901234567890123]},""z"":""<>""}" in
  api_create a b = MOut (B "{""a"":{""w"":[12345678901234567890123],""x"":1,""y"":null},""k"":null,""z"":""\u003c\u003e""}") /\
  api_create (B "[{""a"":1},null]") (B "[{""a"":2},{""b"":null}]") = MOut (B "[{""a"":2},{""b"":null}]") /\
  api_create (B "[{""a"":1}]") (B "{}") = MErr MBadTypes /\
  api_create (B "3") (B "{}") = MErr MBadDoc /\
  api_create (B "[{},{}]") (B "[{}]") = MErr MBadDoc.
Proof. vm_compute. repeat split; reflexivity. Qed.

From JP Require StrInv.
(* ---- the main theorems applied: every hypothesis of C03_model_correct discharged on two object texts
   (escapes in a string, a number outside float range, a removed member, an unchanged nested object, an array
   that grows; the target has no null member), and C03_roundtrip / C03_empty_iff_equal on the values they
   denote.  tsb (the scanner accepts every string body) is a theorem for parsed texts (StrInv.parse_tsb). ---- *)
Definition C03_ex_a := B "{""a"":{""x"":1.0,""y"":2,""e"":{}},""k"":""s\n<"",""n"":1e400,""arr"":[1,{""q"":null}],""same"":{""z"":[1.0]}}".
Definition C03_ex_b := B "{""n"":1e400,""a"":{""x"":1,""w"":[12345678901234567890123],""e"":{}},""z"":""<>\/"",""arr"":[1,{""q"":3},2],""same"":{""z"":[1.0]}}".
Definition C03_ex_ams : list (bytes * tjson) := match parse C03_ex_a with Some (TObj ms) => ms | _ => [] end.
Definition C03_ex_bms : list (bytes * tjson) := match parse C03_ex_b with Some (TObj ms) => ms | _ => [] end.

Example C03_main_theorem_applies :
  (exists p, api_create C03_ex_a C03_ex_b = MOut (print true p) /\
             p = encode_sorted (diff (den (TObj C03_ex_ams)) (den (TObj C03_ex_bms))) /\
             tsb p /\ tnodup p = true /\
             jeq (merge_patch (den (TObj C03_ex_ams)) (den p)) (den (TObj C03_ex_bms)) = true /\
             p <> TObj []) /\
  jeq (merge_patch (den (TObj C03_ex_ams)) (diff (den (TObj C03_ex_ams)) (den (TObj C03_ex_bms)))) (den (TObj C03_ex_bms)) = true.
Proof.
  assert (Pa : parse C03_ex_a = Some (TObj C03_ex_ams)) by (vm_compute; reflexivity).
  assert (Pb : parse C03_ex_b = Some (TObj C03_ex_bms)) by (vm_compute; reflexivity).
  assert (Na : tnodup (TObj C03_ex_ams) = true) by (vm_compute; reflexivity).
  assert (Nb : tnodup (TObj C03_ex_bms) = true) by (vm_compute; reflexivity).
  assert (Nn : no_null_member (den (TObj C03_ex_bms)) = true) by (vm_compute; reflexivity).
  assert (Ne : jeq (den (TObj C03_ex_ams)) (den (TObj C03_ex_bms)) = false) by (vm_compute; reflexivity).
  split.
  - destruct (C03_model_correct C03_ex_a C03_ex_b C03_ex_ams C03_ex_bms Pa Pb Na Nb (StrInv.parse_tsb _ _ Pa) (StrInv.parse_tsb _ _ Pb))
      as [p [H1 [H2 [H3 [H4 [_ [H6 H7]]]]]]].
    exists p. split; [exact H1|]. split; [exact H2|]. split; [exact H3|]. split; [exact H4|]. split; [exact (H6 Nn)|].
    intro E. apply H7 in E. rewrite Ne in E. discriminate E.
  - apply C03_roundtrip; [exact Na | exact Nb | exact Nn | reflexivity | reflexivity].
Qed.
Print Assumptions C03_main_theorem_applies.

(* ---- the Go algorithm itself (CreateImpl.v): matchesValue / matchesArray / getDiff modelled statement by
   statement over Go maps (an OObj whose names are distinct; iteration order = list order) ---- *)
From JP Require CreateImpl.

(* matchesValue is structural equality (Go ranges over its second argument: no hypothesis this way round) *)
Theorem C03_go_matchesValue_swap : forall b a, CreateImpl.matches_value_go a b = jeq b a.
Proof. exact CreateImpl.matches_value_go_swap. Qed.
Print Assumptions C03_go_matchesValue_swap.

Theorem C03_go_matchesValue : forall a b,
  onodup a = true -> onodup b = true -> CreateImpl.matches_value_go a b = jeq a b.
Proof. exact CreateImpl.matches_value_go_jeq. Qed.
Print Assumptions C03_go_matchesValue.

(* getDiff computes exactly the reference difference, member order included *)
Theorem C03_go_getDiff_is_diff : forall am bm,
  onodup (OObj am) = true -> onodup (OObj bm) = true ->
  CreateImpl.get_diff_go (OObj am) (OObj bm) = CreateImpl.GoMap (members_of (diff (OObj am) (OObj bm))).
Proof. exact CreateImpl.get_diff_go_diff. Qed.
Print Assumptions C03_go_getDiff_is_diff.

(* ... and for any iteration order of the Go maps, at any depth, the same value *)
Theorem C03_go_getDiff_any_order : forall a a' b b',
  MergeOrder.operm a a' -> MergeOrder.operm b b' -> onodup a = true -> onodup b = true ->
  is_obj a = true -> is_obj b = true ->
  exists ms, CreateImpl.get_diff_go a' b' = CreateImpl.GoMap ms /\ onodup (OObj ms) = true /\
             jeq (diff a b) (OObj ms) = true.
Proof. exact CreateImpl.get_diff_go_any_order. Qed.
Print Assumptions C03_go_getDiff_any_order.

(* the panic branches of getDiff (default: of the type switch, failed type assertions) are dead on decoded JSON *)
Theorem C03_go_getDiff_never_panics : forall am bm,
  CreateImpl.get_diff_go (OObj am) (OObj bm) <> CreateImpl.GoPanic.
Proof. exact CreateImpl.get_diff_go_no_panic. Qed.
Print Assumptions C03_go_getDiff_never_panics.

(* CreateMergePatch built from the Go-shaped functions is the model all theorems above are about *)
Theorem C03_go_model_is_model : forall a b,
  (forall ta, parse a = Some ta -> tnodup ta = true) ->
  (forall tb, parse b = Some tb -> tnodup tb = true) ->
  CreateImpl.api_create_go a b = Some (api_create a b).
Proof. exact CreateImpl.api_create_go_eq. Qed.
Print Assumptions C03_go_model_is_model.
