(* C03 — CreateMergePatch: a minimal patch that reproduces the target.  The theorems are about the
   difference function `diff` (Rfc7396.v), which the correspondence ties to CreateMergePatch's
   output on every run. *)
From JP Require Import Bytes Json Rfc7396 JsonFacts MergeFacts.

(* applying the difference of A and B to A per RFC 7396 gives B, whenever B has no null member *)
Theorem C03_roundtrip : forall a b,
  onodup a = true -> onodup b = true -> no_null_member b = true -> is_obj a = true -> is_obj b = true ->
  jeq (merge_patch a (diff a b)) b = true.
Proof. intros a b. exact (diff_roundtrip b a). Qed.
Print Assumptions C03_roundtrip.

(* the patch is {} exactly when A and B are equal *)
Theorem C03_empty_iff_equal : forall a b,
  onodup a = true -> onodup b = true -> is_obj a = true -> is_obj b = true ->
  (diff a b = OObj [] <-> jeq a b = true).
Proof. intros a b. exact (diff_empty_iff b a). Qed.
Print Assumptions C03_empty_iff_equal.

(* every member the patch mentions differs between A and B at that path; removed members appear
   as null; every other value is B's own value, verbatim (number literals included), or the
   difference of two objects (to which this theorem applies again) *)
Theorem C03_minimal : forall ams bms k v,
  NoDup (map fst ams) -> NoDup (map fst bms) ->
  Forall (fun kv => onodup (snd kv) = true) ams -> Forall (fun kv => onodup (snd kv) = true) bms ->
  aget k (members_of (diff (OObj ams) (OObj bms))) = Some v ->
  ~ lookup_rel (fun x y => jeq x y = true) (aget k ams) (aget k bms) /\
  (   (aget k bms = None /\ v = ONull /\ aget k ams <> None)
   \/ (aget k bms = Some v)
   \/ (exists av bv, aget k ams = Some av /\ aget k bms = Some bv /\ is_obj av = true /\ is_obj bv = true /\
                     v = diff av bv)).
Proof. exact diff_mentions. Qed.
Print Assumptions C03_minimal.

(* a member of A that B lacks is removed by a null *)
Theorem C03_removed_is_null : forall ams bms k av,
  NoDup (map fst bms) -> aget k ams = Some av -> aget k bms = None ->
  aget k (members_of (diff (OObj ams) (OObj bms))) = Some ONull.
Proof.
  intros ams bms k av N Ha Hb. rewrite diff_obj. simpl. rewrite diff_patch_lookup, Hb, Ha by auto. reflexivity.
Qed.
Print Assumptions C03_removed_is_null.

(* a fresh or re-typed member carries B's value unchanged *)
Theorem C03_value_verbatim : forall ams bms k bv,
  NoDup (map fst bms) -> aget k bms = Some bv -> aget k ams = None ->
  aget k (members_of (diff (OObj ams) (OObj bms))) = Some bv.
Proof.
  intros ams bms k bv N Hb Ha. rewrite diff_obj. simpl. rewrite diff_patch_lookup, Hb, Ha by auto. reflexivity.
Qed.
Print Assumptions C03_value_verbatim.

Example C03_nonvacuous :
  let a := OObj [(B "a", OObj [(B "x", ONum (B "1.0")); (B "y", ONum (B "2"))]); (B "k", OStr (B "s")); (B "n", ONum (B "1e400"))] in
  let b := OObj [(B "n", ONum (B "1e400")); (B "a", OObj [(B "x", ONum (B "1")); (B "w", OArr [ONum (B "12345678901234567890123")])])] in
  onodup a && onodup b && no_null_member b && is_obj a && is_obj b = true /\
  diff a b = OObj [(B "a", OObj [(B "x", ONum (B "1")); (B "w", OArr [ONum (B "12345678901234567890123")]); (B "y", ONull)]); (B "k", ONull)] /\
  jeq (merge_patch a (diff a b)) b = true.
Proof. vm_compute. repeat split; reflexivity. Qed.
