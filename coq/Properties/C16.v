(* C16 — exactly RFC 8259 JSON is accepted, everywhere.
   (1) The scanner is RE-TRANSLATED from scanner.go on every run (gen/ScannerGen.v) and proved equal
       to the reference automaton ScannerRef.ref_step for every state, stack and byte, together with
       the end-of-input rule.  Any behavioural change of scanner.go breaks C16_scanner_is_reference.
   (2) Every public entry point of the model rejects a text that the independent RFC 8259 reader
       (Text.parse) rejects, and accepts every well-formed one of the right shape.
   (3) checkValid over the translated scanner accepts a byte string if and only if the reader
       Text.parse (recursive descent over the RFC 8259 grammar, nesting limit 10000) reads it:
       ScannerCorrect.v (loop = run of the automaton), ScannerGrammar.v (tokens), ScannerParse.v
       (values/elements/members by induction on the reader's fuel), for every byte string. *)
From JP Require Import Bytes Json Text Strings Den ImplV5 ImplMerge Scan ScannerRef ScannerTie ScannerCorrect ScannerGrammar ScannerParse ScanFacts ApplySim Domain.
From JP.gen Require Import ScannerGen.

Theorem C16_scanner_is_reference : forall s c, step_fn (step s) s c = ref_step s c.
Proof. exact gen_eq_ref. Qed.
Print Assumptions C16_scanner_is_reference.

Theorem C16_eof_is_reference : forall s,
  negb (snd (scanner_eof s) =? scanError)%Z = ref_accepts_at_eof s.
Proof. exact eof_eq_ref. Qed.
Print Assumptions C16_eof_is_reference.

(* Valid(bs) of the translated scanner <-> bs is an RFC 8259 text (as read by Text.parse) *)
Theorem C16_valid_iff_grammar : forall bs, valid_gen bs = true <-> exists t, parse bs = Some t.
Proof. exact valid_gen_iff_parse. Qed.
Print Assumptions C16_valid_iff_grammar.

(* Compact and Indent (loop models of indent.go over the translated scanner) accept exactly what Valid accepts *)
Theorem C16_compact_accepts_iff_valid : forall esc bs, (exists out, compact_go esc bs = Some out) <-> valid_gen bs = true.
Proof. exact compact_accepts_iff_valid. Qed.
Print Assumptions C16_compact_accepts_iff_valid.

Theorem C16_indent_accepts_iff_valid : forall ind bs, (exists out, indent_go ind bs = Some out) <-> valid_gen bs = true.
Proof. exact indent_accepts_iff_valid. Qed.
Print Assumptions C16_indent_accepts_iff_valid.

(* the nesting limit of the translated scanner is the one the property names *)
Theorem C16_nesting_limit : maxNestingDepth = 10000%Z /\ Text.max_depth = 10000%N.
Proof. split; reflexivity. Qed.
Print Assumptions C16_nesting_limit.

(* ill-formed input is rejected by every entry point (Equal with false) *)
Theorem C16_apply_rejects : forall o indent p doc, doc <> [] -> parse doc = None -> api_apply o indent p doc = RErr None EInvalid.
Proof. intros o indent p doc NE P. unfold api_apply. destruct doc; [congruence|]. now rewrite P. Qed.
Print Assumptions C16_apply_rejects.

Theorem C16_decode_rejects : forall bs, parse bs = None -> api_decode bs = None.
Proof. intros bs P. unfold api_decode. now rewrite P. Qed.
Print Assumptions C16_decode_rejects.

Theorem C16_equal_rejects : forall a b, parse a = None \/ parse b = None -> api_equal a b = false.
Proof. intros a b [H|H]; unfold api_equal; rewrite H; auto. destruct (parse a); auto. Qed.
Print Assumptions C16_equal_rejects.

Theorem C16_merge_rejects : forall mm doc patch,
  parse doc = None \/ parse patch = None -> exists e, api_merge mm doc patch = MErr e.
Proof.
  intros mm doc patch [H|H]; unfold api_merge; rewrite H; eauto. destruct (parse doc); eauto.
Qed.
Print Assumptions C16_merge_rejects.

Theorem C16_create_rejects : forall a b, parse a = None \/ parse b = None -> exists e, api_create a b = MErr e.
Proof. intros a b [H|H]; unfold api_create; rewrite H; eauto. destruct (parse a); eauto. Qed.
Print Assumptions C16_create_rejects.

(* a well-formed object/array document is accepted (here with the empty patch) *)
Theorem C16_apply_accepts : forall o indent doc t,
  plain_opts o -> parse doc = Some t -> root_container t = true -> tnodup t = true ->
  exists out, api_apply o indent [] doc = ROut out.
Proof.
  intros o indent doc t PO P RC T.
  destruct (api_apply_sim o indent [] doc t PO P RC T (Forall_nil _) eq_refl) as [n [H _]]. eauto.
Qed.
Print Assumptions C16_apply_accepts.

(* leading and trailing whitespace are accepted by the reader and by the translated scanner *)
Example C16_nonvacuous :
  parse (B " [1 , {""a"" : null} ]  ") <> None /\ valid_gen (B " [1 , {""a"" : null} ]  ") = true /\
  parse (B "[1,]") = None /\ valid_gen (B "[1,]") = false /\
  parse (B "-01") = None /\ valid_gen (B "-01") = false /\
  parse (B "[1] x") = None /\ valid_gen (B "[1] x") = false /\
  parse (B """\u12g4""") = None /\ valid_gen (B """\u12g4""") = false.
Proof. vm_compute. repeat split; try reflexivity; discriminate. Qed.

(* ---- Compact and Indent as re-translated from indent.go on every run are the model's compact_go / indent_go
   (IndentTie.v), whose acceptance is that of Valid (above) ---- *)
From JP Require IndentTie.
From JP.gen Require IndentGen.
Theorem C16_go_compact_is_model : forall esc bs, IndentGen.compact_gen esc bs = Scan.compact_go esc bs.
Proof. exact IndentTie.compact_gen_is_model. Qed.
Print Assumptions C16_go_compact_is_model.
Theorem C16_go_indent_is_model : forall indent bs, IndentGen.indent_gen [] indent bs = Scan.indent_go indent bs.
Proof. exact IndentTie.indent_gen_is_model. Qed.
Print Assumptions C16_go_indent_is_model.
