(* C09 — calls are pure; history does not matter.
   What carries over from one call to the next in the Go code is the state of the recycled
   decoder/encoder/scanner objects.  The one piece of it that a later call can RECEIVE is the
   decoder's lastKeys (returned for a non-object text and stored as the key list of a null
   document): in the model it is the `stale` payload of KDocNil, taken from an arbitrary residue.
   Proved: no result ever depends on it — for every call, every residue and every finite history.
   The discipline the rest relies on (no package variable written, pooled objects released by
   defer and never used after release or leaked, no store through []byte/Operation/Patch
   parameters, no goroutines) is evaluated by the kernel on the facts extracted from the current
   source by tools/gofacts (FactsGen.v is regenerated on every run).
   Partial (DESIGN section 11): that the Go code never writes into caller-owned memory is observed
   by the correspondence (byte snapshots of every input around every call), not proved. *)
From Coq Require Import String.
From JP Require Import Bytes Json Text ImplV5 Pool Cli.
From JP.gen Require Import FactsGen.

Theorem C09_apply_residue_independent : forall o s1 s2 indent p doc,
  api_apply (set_stale o s1) indent p doc = api_apply (set_stale o s2) indent p doc.
Proof. exact apply_residue_independent. Qed.
Print Assumptions C09_apply_residue_independent.

(* one step of the patch loop never reads the stale key list, in any state *)
Theorem C09_step_ignores_residue : forall o st op,
  step (set_stale o []) (erase_st st) op = map_res erase_st (step o st op).
Proof. exact step_erase. Qed.
Print Assumptions C09_step_ignores_residue.

Theorem C09_call_independent : forall residue c, run_call residue c = solo c.
Proof. exact call_residue_independent. Qed.
Print Assumptions C09_call_independent.

(* every finite history, whatever each call leaves behind in the scratch object: each call
   returns what it returns when run alone; hence repeating and reordering calls changes nothing *)
Theorem C09_history_independent : forall leaves h residue,
  run_history leaves residue h = map solo h.
Proof. exact history_independent. Qed.
Print Assumptions C09_history_independent.

(* the discipline holds of the source as it is now *)
Example C09_facts_ok : discipline_ok = true.
Proof. vm_compute. reflexivity. Qed.

Example C09_nonvacuous :
  let c1 := CApply Cli.default_opts [] (B "[{""op"":""test"",""path"":"""",""value"":null}]") (B "null") in
  let c2 := CApply Cli.default_opts [] (B "[{""op"":""add"",""path"":""/a"",""value"":1}]") (B "{""b"":2}") in
  run_history (fun r _ => B "stale" :: r) [B "k1"; B "k2"] [c1; c2; c1; CEqual (B "[1]") (B " [1] ")] =
  [OApply (Some (RErr (Some 0%nat) ETestFailed)); OApply (Some (ROut (B "{""b"":2,""a"":1}")));
   OApply (Some (RErr (Some 0%nat) ETestFailed)); OBool true].
Proof. vm_compute. reflexivity. Qed.
