(* C17 — the embedded codec is faithful and order-aware.
   Proved on the model of the codec's string layer (Strings.v: unquoteBytes, encodeState.string)
   over the escape tables re-translated from tables.go on every run: decode after encode is the
   identity on valid UTF-8; encode-decode of a decoded string gives the same string (strings keep
   their code points); HTML escaping changes spelling only; decoding yields valid UTF-8; the key
   list is the member names in document order.
   Compared only, not proved (stated as such, DESIGN section 6/11): agreement with the standard
   library's encoding/json on reflection-driven encoding/decoding (struct tags, omitempty,
   embedding, streams), and Compact/Indent through the scanner loop. *)
From JP Require Import Bytes Json Text Strings Den ImplV5 Codec Scan ScanFacts.

Theorem C17_decode_encode_string : forall esc s, utf8 s -> unquote (quote esc s) = s.
Proof. exact unquote_quote. Qed.
Print Assumptions C17_decode_encode_string.

Theorem C17_strings_keep_code_points : forall esc b, sbody b -> unquote (quote esc (unquote b)) = unquote b.
Proof. exact unquote_quote_unquote. Qed.
Print Assumptions C17_strings_keep_code_points.

Theorem C17_escape_switch_changes_nothing_else : forall b, sbody b ->
  unquote (quote true (unquote b)) = unquote (quote false (unquote b)).
Proof. exact escape_switch_same_value. Qed.
Print Assumptions C17_escape_switch_changes_nothing_else.

Theorem C17_htmlescape_keeps_value : forall t, tsb t -> den (escape_tree true t) = den t.
Proof. exact escape_tree_den. Qed.
Print Assumptions C17_htmlescape_keeps_value.

Theorem C17_decoded_strings_are_utf8 : forall b, sbody b -> utf8 (unquote b).
Proof. intros b S. apply (unquote_utf8 (length b)); auto. Qed.
Print Assumptions C17_decoded_strings_are_utf8.

Theorem C17_keys_in_document_order : forall ms, fst (doc_of ms) = map (fun kv => unquote (fst kv)) ms.
Proof. exact keys_in_document_order. Qed.
Print Assumptions C17_keys_in_document_order.

(* numbers keep their literal: the value of a number is its literal text, untouched by den *)
Theorem C17_numbers_keep_literal : forall lit, den (TNum lit) = ONum lit.
Proof. reflexivity. Qed.
Print Assumptions C17_numbers_keep_literal.

(* every code point survives: encoding any scalar value below U+110000 that is not a surrogate
   gives valid UTF-8 *)
Theorem C17_encode_rune_valid : forall v rest,
  (v < 1114112)%N -> is_surrogate v = false -> utf8 rest -> utf8 (encode_rune v ++ rest).
Proof. exact encode_rune_utf8. Qed.
Print Assumptions C17_encode_rune_valid.

(* a body with a two-byte character, a four-byte character, a lone surrogate escape, an escape
   and an HTML character *)
(* Compact (with either escape setting) of the loop model over the scanner translated from
   scanner.go is the compact print of the text's parse tree — it changes only insignificant white
   space and, with escaping, the spelling of < > & U+2028 U+2029 — and fails exactly on ill-formed
   text; both escape settings print the same tree *)
Theorem C17_compact_is_print : forall esc bs,
  compact_go esc bs = match parse bs with Some t => Some (print esc t) | None => None end.
Proof. exact compact_go_spec. Qed.
Print Assumptions C17_compact_is_print.

(* Indent of a well-formed text is the indented print of its parse tree followed by the white space
   that followed the value (Go's Indent keeps trailing white space: see indent_keeps_trailing_space) *)
Theorem C17_indent_is_pp : forall ind bs t, parse bs = Some t ->
  exists rest, suffix rest bs /\ skip_ws rest = [] /\ indent_go ind bs = Some (pp false ind 0 t ++ rest).
Proof. exact indent_go_parse. Qed.
Print Assumptions C17_indent_is_pp.

Theorem C17_indent_is_pp_exact : forall ind bs t, parse bs = Some t -> ends_ws bs = false ->
  indent_go ind bs = Some (pp false ind 0 t).
Proof. exact indent_go_pp_exact. Qed.
Print Assumptions C17_indent_is_pp_exact.

Theorem C17_indent_rejects_illformed : forall ind bs, parse bs = None -> indent_go ind bs = None.
Proof. exact indent_go_none. Qed.
Print Assumptions C17_indent_rejects_illformed.

(* ---- wiring of OutputFacts.v / PrintParse.v: what Compact / Indent write is a JSON text with the value of
   the input, and decoding then encoding a well-formed text reproduces its tree / value ---- *)
From JP Require Import PrintParse OutputFacts.

Theorem C17_compact_output_value : forall esc bs out, compact_go esc bs = Some out ->
  exists t, parse bs = Some t /\ parse out = Some (escape_tree esc t) /\ den (escape_tree esc t) = den t /\
            valid_gen out = true.
Proof. exact compact_output_value. Qed.
Print Assumptions C17_compact_output_value.

Theorem C17_indent_output_value : forall ind bs out, wsb ind = true -> indent_go ind bs = Some out ->
  exists t, parse bs = Some t /\ parse out = Some t /\ valid_gen out = true.
Proof. exact indent_output_value. Qed.
Print Assumptions C17_indent_output_value.

(* decode then encode then decode: the same tree (no escaping) / the same value (HTML escaping) *)
Theorem C17_decode_encode_decode : forall bs t, parse bs = Some t -> parse (print false t) = Some t.
Proof. exact parse_print_parse. Qed.
Print Assumptions C17_decode_encode_decode.

Theorem C17_decode_encode_decode_esc : forall bs t, parse bs = Some t ->
  exists t', parse (print true t) = Some t' /\ den t' = den t.
Proof. exact parse_print_parse_esc. Qed.
Print Assumptions C17_decode_encode_decode_esc.

Example C17_nonvacuous :
  let b := [x61; xc3; xa9; xf0; x9f; x98; x80; x5c; x75; x64; x38; x30; x30; x78; x5c; x6e; x3c] in
  unquote b = [x61; xc3; xa9; xf0; x9f; x98; x80; xef; xbf; xbd; x78; x0a; x3c] /\
  quote false (unquote b) = [x61; xc3; xa9; xf0; x9f; x98; x80; xef; xbf; xbd; x78; x5c; x6e; x3c] /\
  quote true (unquote b) = [x61; xc3; xa9; xf0; x9f; x98; x80; xef; xbf; xbd; x78; x5c; x6e; x5c; x75; x30; x30; x33; x63] /\
  unquote (quote true (unquote b)) = unquote b.
Proof. vm_compute. repeat split; reflexivity. Qed.

(* ---- the fork's string encoder, re-translated from encode.go on every run, is the model's quote
   (QuoteTie.v; see Properties/C15.v) ---- *)
From JP Require QuoteTie.
From JP.gen Require QuoteGen.
Theorem C17_go_string_encoder_is_quote : forall esc s,
  QuoteGen.quote_full_gen esc s = [x22] ++ quote esc s ++ [x22].
Proof. exact QuoteTie.quote_full_gen_is_quote. Qed.
Print Assumptions C17_go_string_encoder_is_quote.

(* ---- Compact and Indent themselves: compact / newline / Indent of v5/internal/json/indent.go RE-TRANSLATED on
   every run (tools/goindent2v -> gen/IndentGen.v: the range loops as structural recursion over the bytes, a
   range guard on every index and slice expression, the scanner calls as the translated step_fn of
   gen/ScannerGen.v) and proved equal to the model's compact_go / indent_go for EVERY byte string, every
   buffer content and every pooled scanner; the guards never fail (IndentTie.v).  With C17_compact /
   C17_indent above (what compact_go / indent_go compute) this ties the statements to the source. ---- *)
From JP Require Scan IndentTie.
From JP.gen Require IndentGen.

Theorem C17_go_compact_is_model : forall esc bs, IndentGen.compact_gen esc bs = Scan.compact_go esc bs.
Proof. exact IndentTie.compact_gen_is_model. Qed.
Print Assumptions C17_go_compact_is_model.

Theorem C17_go_indent_is_model : forall indent bs, IndentGen.indent_gen [] indent bs = Scan.indent_go indent bs.
Proof. exact IndentTie.indent_gen_is_model. Qed.
Print Assumptions C17_go_indent_is_model.

Theorem C17_go_compact_appends : forall pooled esc src out0,
  IndentGen.compact_run pooled src esc out0 =
  match Scan.compact_go esc src with Some o => IndentGen.ROk (out0 ++ o) | None => IndentGen.RErr out0 end.
Proof. exact IndentTie.compact_run_is_model. Qed.
Print Assumptions C17_go_compact_appends.

Theorem C17_go_indent_appends : forall pooled ind src out0,
  IndentGen.indent_run pooled src [] ind out0 =
  match Scan.indent_go ind src with Some o => IndentGen.ROk (out0 ++ o) | None => IndentGen.RErr out0 end.
Proof. exact IndentTie.indent_run_is_model. Qed.
Print Assumptions C17_go_indent_appends.

(* ---- the string decoder itself: unquoteBytes and getu4 of v5/internal/json/decode.go RE-TRANSLATED on every run
   (tools/gounquote2v -> gen/UnquoteGen.v: the output buffer as a byte list of the allocated length with the write
   index, a range guard on every index, slice and EncodeRune write, bytes with uint8 wrap-around) and proved
   (UnquoteTie.v): on every body the scanner accepts it returns the model's unquote; on EVERY byte string it
   neither indexes out of range nor runs out of fuel.  utf8.DecodeRune / EncodeRune and the utf16 functions
   are modelled (Utf8Rune.v, Utf16Rune.v). ---- *)
From JP Require UnquoteTie.
From JP.gen Require UnquoteGen.

Theorem C17_go_string_decoder_is_unquote : forall body, sbody body ->
  UnquoteGen.unquote_full_gen ([x22] ++ body ++ [x22]) = UnquoteGen.UOk (unquote body).
Proof. exact UnquoteTie.unquote_full_gen_is_unquote. Qed.
Print Assumptions C17_go_string_decoder_is_unquote.

Theorem C17_go_string_decoder_never_panics : forall s,
  UnquoteGen.unquote_full_gen s <> UnquoteGen.UPanic /\ UnquoteGen.unquote_full_gen s <> UnquoteGen.UFuel.
Proof. exact UnquoteTie.unquote_full_gen_no_panic. Qed.
Print Assumptions C17_go_string_decoder_never_panics.
