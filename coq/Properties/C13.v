(* C13 — AllowMissingPathOnRemove (v5 model). *)
From JP Require Import Bytes Json Text Strings Den Pointer Rfc6902 ImplV5 Domain ImplFacts RefFacts ApplyFacts Depth ApplySim AllowEnsureFacts.

(* all other operations behave exactly as without the option: the step function of every
   operation that is not a remove is the same function with the option on or off
   (for move: when the last reference token of from is not empty — an empty token is outside the
   stated domain) *)
Theorem C13_other_operations_unaffected : forall o b st op,
  op_kind op <> KRemove ->
  (forall from, op_str op (B "from") = Ok from -> leaf_key from <> []) ->
  step (set_allow o b) st op = step o st op.
Proof. exact step_allow_irrelevant. Qed.
Print Assumptions C13_other_operations_unaffected.

(* removes of existing targets behave exactly as without the option: whenever an operation
   (a remove in particular) succeeds with the option off, it gives the same state with it on *)
Theorem C13_existing_targets_unaffected : forall o st op st',
  step (set_allow o false) st op = Ok st' -> step (set_allow o true) st op = Ok st'.
Proof. exact remove_existing_allow. Qed.
Print Assumptions C13_existing_targets_unaffected.

(* the option never turns a remove into an error that the plain remove does not raise, and never
   produces the copy-limit or test-failed error *)
Theorem C13_no_new_error_kinds : forall o st op e,
  op_kind op = KRemove -> step o st op = Err e -> plain_err e = true.
Proof. intros o st op e K H. unfold step in H. rewrite K in H. eapply op_remove_nocl; eauto. Qed.
Print Assumptions C13_no_new_error_kinds.

(* the skip case, one remove (path "/tok/.../tok", tokens in the domain of C01): against the
   reference's remove on the document value.  The reference removes: so does the model.  The
   reference fails because the member is absent, an ancestor is absent or no container, or the
   index (an index of the dialect) is out of range: the operation succeeds, the document value and
   the accumulated copy size are unchanged.  NOT forgiven: a last token on an array that is no index
   of the dialect (a name, or a negative number while SupportNegativeIndices is off) *)
Theorem C13_skip_one_remove : forall o st op r c,
  s_root st = RCon c -> cgood c -> o_allow o = true ->
  op_str op (B "path") = Ok (x2f :: r) -> Forall tok_dom (map decode_token (split_slash r)) ->
  match at_parent (dia o) (ptoks r) (cval c) (remove_leaf (dia o)) with
  | Rfc6902.Ok j' => exists st', op_remove o st op = Ok st' /\ sval st' = j' /\ sgood st' /\ s_acc st' = s_acc st
  | Rfc6902.Fail cz =>
      if skip_cause (dia o) (path_key r) cz
      then exists st', op_remove o st op = Ok st' /\ sval st' = sval st /\ sgood st' /\ s_acc st' = s_acc st
      else cz = FIndex /\ exists e, op_remove o st op = Err e /\ (e = EInvalidIndex \/ e = EAtoi)
  end.
Proof. exact op_remove_allow_sim. Qed.
Print Assumptions C13_skip_one_remove.

(* a document that was replaced by null: every remove is skipped *)
Theorem C13_skip_on_null_root : forall o st op path,
  s_root st = RNull -> o_allow o = true -> op_str op (B "path") = Ok path -> op_remove o st op = Ok st.
Proof. exact remove_on_null_root_skipped. Qed.
Print Assumptions C13_skip_on_null_root.

(* whole patches (option on, EnsurePathExistsOnAdd off, no copy-size limit, operations in the
   domain of C01): the outcome equals that of applying, with the option off, the patch with exactly
   the skipped removes deleted (strip follows the reference run and deletes the removes whose
   target does not resolve at that moment): both succeed with the same document value, or both fail
   at the same operation for the same reference cause.
   copies_fit (see C01: no copy the reference run reaches has a source nested deeper than deepCopy
   accepts) is stated on the reference run of the STRIPPED patch: a skipped remove leaves the
   document value unchanged, so both runs of the library meet every copy at the document value at
   which that reference run meets it *)
Theorem C13_equals_stripped_patch : forall o p i st,
  allow_opts o -> sgood st -> Forall op_dom p ->
  let p' := strip (dia o) (sval st) p in
  copies_fit (dia o) (sval st) (map den_op p') = true ->
  match apply_from (set_allow o false) i st p' with
  | AOk st2 => exists st1, apply_from o i st p = AOk st1 /\ sval st1 = sval st2 /\ sgood st1 /\ sgood st2
  | AErr k e2 => exists k1 e1 cz, apply_from o i st p = AErr k1 e1 /\ cause_rel cz e1 /\ cause_rel cz e2 /\
                   (i <= k1)%nat /\ (i <= k)%nat /\ nth_error p (k1 - i) = nth_error p' (k - i)
  | APanic _ => False
  end.
Proof. exact allow_equals_stripped. Qed.
Print Assumptions C13_equals_stripped_patch.

(* the same against the reference: the run with the option on IS the reference run of the stripped patch *)
Theorem C13_reference_of_stripped_patch : forall o, allow_opts o -> forall p i i' st,
  sgood st -> Forall op_dom p ->
  copies_fit (dia o) (sval st) (map den_op (strip (dia o) (sval st) p)) = true ->
  match rfc_apply_from (dia o) i' (sval st) (map den_op (strip (dia o) (sval st) p)) with
  | Done doc => exists st', apply_from o i st p = AOk st' /\ sval st' = doc /\ sgood st'
  | Failed k cz => exists k1 e, apply_from o i st p = AErr k1 e /\ cause_rel cz e /\
                     (i <= k1)%nat /\ (i' <= k)%nat /\
                     nth_error p (k1 - i) = nth_error (strip (dia o) (sval st) p) (k - i')
  end.
Proof. exact allow_strip_ref. Qed.
Print Assumptions C13_reference_of_stripped_patch.

(* non-vacuity: absent member, out-of-range index and absent ancestor are skipped; the existing
   target is removed; the add in between is applied *)
Example C13_nonvacuous :
  match api_decode (B "[{""op"":""remove"",""path"":""/x""},{""op"":""remove"",""path"":""/a/7""},{""op"":""add"",""path"":""/b"",""value"":1},{""op"":""remove"",""path"":""/q/r/s""},{""op"":""remove"",""path"":""/a/0""}]") with
  | Some p =>
      api_apply (mkOpts true 0 true false true [] None) [] p (B "{""a"":[1,2]}") = ROut (B "{""a"":[2],""b"":1}") /\
      api_apply (mkOpts true 0 false false true [] None) [] p (B "{""a"":[1,2]}") = RErr (Some 0%nat) EMissing
  | None => False
  end.
Proof. vm_compute. split; reflexivity. Qed.

(* ---- the main theorems applied: every hypothesis of C13_reference_of_stripped_patch and
   C13_equals_stripped_patch discharged on the loaded document {"a":[1,2],"s":3} and a seven-operation patch:
   removes of an absent member, of an out-of-range index, through an absent ancestor and through a scalar
   (all four skipped: strip deletes them), a copy, a remove of an existing element, and a test that fails.
   The reference run of the stripped patch fails at ITS operation 2 (the test) with cause FTest; the theorem
   yields: the run with the option on fails with the corresponding error at the operation of the full patch
   that is the stripped patch's operation 2. ---- *)
From JP Require PointerDomain Abs.
Import Abs.
Definition C13_ex_doc := B "{""a"":[1,2],""s"":3}".
Definition C13_ex_patch := B "[{""op"":""remove"",""path"":""/x""},{""op"":""remove"",""path"":""/a/7""},{""op"":""copy"",""from"":""/a"",""path"":""/b""},{""op"":""remove"",""path"":""/q/r/s""},{""op"":""remove"",""path"":""/s/t""},{""op"":""remove"",""path"":""/a/0""},{""op"":""test"",""path"":""/b"",""value"":[1]}]".
Definition C13_ex_o := mkOpts true 0 true false false [] None.
Definition C13_ex_t : tjson := Eval vm_compute in match parse C13_ex_doc with Some t => t | None => TNull end.
Definition C13_ex_p : list operation := Eval vm_compute in match api_decode C13_ex_patch with Some p => p | None => [] end.
Definition C13_ex_c : con := Eval vm_compute in match load_doc C13_ex_o C13_ex_t with Ok (RCon c) => c | _ => KAry NNil [] end.
Definition C13_ex_st := mkState (RCon C13_ex_c) 0.
Definition C13_ex_stripped : list operation := Eval vm_compute in strip (dia C13_ex_o) (den C13_ex_t) C13_ex_p.

Example C13_main_theorem_applies :
  length C13_ex_p = 7%nat /\ length C13_ex_stripped = 3%nat /\
  (exists k1 e, apply_from C13_ex_o 0 C13_ex_st C13_ex_p = AErr k1 e /\ cause_rel FTest e /\
                nth_error C13_ex_p k1 = nth_error C13_ex_stripped 2) /\
  (exists k e2, apply_from (set_allow C13_ex_o false) 0 C13_ex_st C13_ex_stripped = AErr k e2 /\
     exists k1 e1 cz, apply_from C13_ex_o 0 C13_ex_st C13_ex_p = AErr k1 e1 /\ cause_rel cz e1 /\ cause_rel cz e2 /\
                      nth_error C13_ex_p k1 = nth_error C13_ex_stripped k).
Proof.
  assert (P : parse C13_ex_doc = Some C13_ex_t) by (vm_compute; reflexivity).
  assert (G : cgood C13_ex_c /\ cval C13_ex_c = den C13_ex_t).
  { destruct (load_doc_good C13_ex_o C13_ex_doc C13_ex_t P eq_refl eq_refl) as [c [L [G V]]].
    vm_compute in L. injection L as <-. split; assumption. }
  assert (SG : sgood C13_ex_st) by (exists C13_ex_c; split; [reflexivity | exact (proj1 G)]).
  assert (SV : sval C13_ex_st = den C13_ex_t) by exact (proj2 G).
  assert (D : Forall op_dom C13_ex_p)
    by (apply (PointerDomain.decoded_in_domain_op_dom C13_ex_patch); vm_compute; reflexivity).
  assert (AO : allow_opts C13_ex_o) by (split; [reflexivity | split; reflexivity]).
  assert (CF : copies_fit (dia C13_ex_o) (sval C13_ex_st) (map den_op (strip (dia C13_ex_o) (sval C13_ex_st) C13_ex_p)) = true)
    by (rewrite SV; vm_compute; reflexivity).
  split; [vm_compute; reflexivity|]. split; [vm_compute; reflexivity|]. split.
  - pose proof (C13_reference_of_stripped_patch C13_ex_o AO C13_ex_p 0%nat 0%nat C13_ex_st SG D CF) as H.
    rewrite SV in H. change (strip (dia C13_ex_o) (den C13_ex_t) C13_ex_p) with C13_ex_stripped in H.
    assert (R : rfc_apply_from (dia C13_ex_o) 0 (den C13_ex_t) (map den_op C13_ex_stripped) = Failed 2 FTest)
      by (vm_compute; reflexivity).
    rewrite R in H. destruct H as [k1 [e [H1 [H2 [_ [_ H5]]]]]].
    exists k1, e. split; [exact H1|]. split; [exact H2|]. rewrite !Nat.sub_0_r in H5. exact H5.
  - pose proof (C13_equals_stripped_patch C13_ex_o C13_ex_p 0%nat C13_ex_st AO SG D CF) as H.
    cbv zeta in H. rewrite SV in H. change (strip (dia C13_ex_o) (den C13_ex_t) C13_ex_p) with C13_ex_stripped in H.
    destruct (apply_from (set_allow C13_ex_o false) 0 C13_ex_st C13_ex_stripped) as [st2|k e2|k] eqn:A;
      [vm_compute in A; discriminate A | | destruct H].
    exists k, e2. split; [reflexivity|].
    destruct H as [k1 [e1 [cz [H1 [H2 [H3 [_ [_ H6]]]]]]]].
    exists k1, e1, cz. split; [exact H1|]. split; [exact H2|]. split; [exact H3|]. rewrite !Nat.sub_0_r in H6. exact H6.
Qed.
Print Assumptions C13_main_theorem_applies.
