(* C13 — AllowMissingPathOnRemove (v5 model). *)
From JP Require Import Bytes Json Text Strings Den Pointer Rfc6902 ImplV5 Domain ImplFacts RefFacts ApplyFacts Depth ApplySim AllowEnsureFacts.

(* all other operations behave exactly as without the option: the step function of every
   operation that is not a remove is the same function with the option on or off
   (for move: when the last reference token of from is not empty — an empty token is outside the
   stated domain) *)
Theorem C13_other_operations_unaffected : forall o b st op,
  op_kind op <> KRemove ->
  (forall from, op_str op (B "from") = Ok from -> leaf_key from <> []) ->
  step (set_allow o b) st op = step o st op.
Proof. exact step_allow_irrelevant. Qed.
Print Assumptions C13_other_operations_unaffected.

(* removes of existing targets behave exactly as without the option: whenever an operation
   (a remove in particular) succeeds with the option off, it gives the same state with it on *)
Theorem C13_existing_targets_unaffected : forall o st op st',
  step (set_allow o false) st op = Ok st' -> step (set_allow o true) st op = Ok st'.
Proof. exact remove_existing_allow. Qed.
Print Assumptions C13_existing_targets_unaffected.

(* the option never turns a remove into an error that the plain remove does not raise, and never
   produces the copy-limit or test-failed error *)
Theorem C13_no_new_error_kinds : forall o st op e,
  op_kind op = KRemove -> step o st op = Err e -> plain_err e = true.
Proof. intros o st op e K H. unfold step in H. rewrite K in H. eapply op_remove_nocl; eauto. Qed.
Print Assumptions C13_no_new_error_kinds.

(* the skip case, one remove (path "/tok/.../tok", tokens in the domain of C01): against the
   reference's remove on the document value.  The reference removes: so does the model.  The
   reference fails because the member is absent, an ancestor is absent or no container, or the
   index (an index of the dialect) is out of range: the operation succeeds, the document value and
   the accumulated copy size are unchanged.  NOT forgiven: a last token on an array that is no index
   of the dialect (a name, or a negative number while SupportNegativeIndices is off) *)
Theorem C13_skip_one_remove : forall o st op r c,
  s_root st = RCon c -> cgood c -> o_allow o = true ->
  op_str op (B "path") = Ok (x2f :: r) -> Forall tok_dom (map decode_token (split_slash r)) ->
  match at_parent (dia o) (ptoks r) (cval c) (remove_leaf (dia o)) with
  | Rfc6902.Ok j' => exists st', op_remove o st op = Ok st' /\ sval st' = j' /\ sgood st' /\ s_acc st' = s_acc st
  | Rfc6902.Fail cz =>
      if skip_cause (dia o) (path_key r) cz
      then exists st', op_remove o st op = Ok st' /\ sval st' = sval st /\ sgood st' /\ s_acc st' = s_acc st
      else cz = FIndex /\ exists e, op_remove o st op = Err e /\ (e = EInvalidIndex \/ e = EAtoi)
  end.
Proof. exact op_remove_allow_sim. Qed.
Print Assumptions C13_skip_one_remove.

(* a document that was replaced by null: every remove is skipped *)
Theorem C13_skip_on_null_root : forall o st op path,
  s_root st = RNull -> o_allow o = true -> op_str op (B "path") = Ok path -> op_remove o st op = Ok st.
Proof. exact remove_on_null_root_skipped. Qed.
Print Assumptions C13_skip_on_null_root.

(* whole patches (option on, EnsurePathExistsOnAdd off, no copy-size limit, operations in the
   domain of C01): the outcome equals that of applying, with the option off, the patch with exactly
   the skipped removes deleted (strip follows the reference run and deletes the removes whose
   target does not resolve at that moment): both succeed with the same document value, or both fail
   at the same operation for the same reference cause.
   copies_fit (see C01: no copy the reference run reaches has a source nested deeper than deepCopy
   accepts) is stated on the reference run of the STRIPPED patch: a skipped remove leaves the
   document value unchanged, so both runs of the library meet every copy at the document value at
   which that reference run meets it *)
Theorem C13_equals_stripped_patch : forall o p i st,
  allow_opts o -> sgood st -> Forall op_dom p ->
  let p' := strip (dia o) (sval st) p in
  copies_fit (dia o) (sval st) (map den_op p') = true ->
  match apply_from (set_allow o false) i st p' with
  | AOk st2 => exists st1, apply_from o i st p = AOk st1 /\ sval st1 = sval st2 /\ sgood st1 /\ sgood st2
  | AErr k e2 => exists k1 e1 cz, apply_from o i st p = AErr k1 e1 /\ cause_rel cz e1 /\ cause_rel cz e2 /\
                   (i <= k1)%nat /\ (i <= k)%nat /\ nth_error p (k1 - i) = nth_error p' (k - i)
  | APanic _ => False
  end.
Proof. exact allow_equals_stripped. Qed.
Print Assumptions C13_equals_stripped_patch.

(* the same against the reference: the run with the option on IS the reference run of the stripped patch *)
Theorem C13_reference_of_stripped_patch : forall o, allow_opts o -> forall p i i' st,
  sgood st -> Forall op_dom p ->
  copies_fit (dia o) (sval st) (map den_op (strip (dia o) (sval st) p)) = true ->
  match rfc_apply_from (dia o) i' (sval st) (map den_op (strip (dia o) (sval st) p)) with
  | Done doc => exists st', apply_from o i st p = AOk st' /\ sval st' = doc /\ sgood st'
  | Failed k cz => exists k1 e, apply_from o i st p = AErr k1 e /\ cause_rel cz e /\
                     (i <= k1)%nat /\ (i' <= k)%nat /\
                     nth_error p (k1 - i) = nth_error (strip (dia o) (sval st) p) (k - i')
  end.
Proof. exact allow_strip_ref. Qed.
Print Assumptions C13_reference_of_stripped_patch.

(* non-vacuity: absent member, out-of-range index and absent ancestor are skipped; the existing
   target is removed; the add in between is applied *)
Example C13_nonvacuous :
  match api_decode (B "[{""op"":""remove"",""path"":""/x""},{""op"":""remove"",""path"":""/a/7""},{""op"":""add"",""path"":""/b"",""value"":1},{""op"":""remove"",""path"":""/q/r/s""},{""op"":""remove"",""path"":""/a/0""}]") with
  | Some p =>
      api_apply (mkOpts true 0 true false true [] None) [] p (B "{""a"":[1,2]}") = ROut (B "{""a"":[2],""b"":1}") /\
      api_apply (mkOpts true 0 false false true [] None) [] p (B "{""a"":[1,2]}") = RErr (Some 0%nat) EMissing
  | None => False
  end.
Proof. vm_compute. split; reflexivity. Qed.
