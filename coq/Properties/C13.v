(* C13 — AllowMissingPathOnRemove (v5 model). *)
From JP Require Import Bytes Json Text ImplV5 ApplyFacts.

(* all other operations behave exactly as without the option: the step function of every
   operation that is not a remove is the same function with the option on or off
   (for move: when the last reference token of from is not empty — an empty token is outside the
   stated domain) *)
Theorem C13_other_operations_unaffected : forall o b st op,
  op_kind op <> KRemove ->
  (forall from, op_str op (B "from") = Ok from -> leaf_key from <> []) ->
  step (set_allow o b) st op = step o st op.
Proof. exact step_allow_irrelevant. Qed.
Print Assumptions C13_other_operations_unaffected.

(* removes of existing targets behave exactly as without the option: whenever an operation
   (a remove in particular) succeeds with the option off, it gives the same state with it on *)
Theorem C13_existing_targets_unaffected : forall o st op st',
  step (set_allow o false) st op = Ok st' -> step (set_allow o true) st op = Ok st'.
Proof. exact remove_existing_allow. Qed.
Print Assumptions C13_existing_targets_unaffected.

(* the option never turns a remove into an error that the plain remove does not raise, and never
   produces the copy-limit or test-failed error *)
Theorem C13_no_new_error_kinds : forall o st op e,
  op_kind op = KRemove -> step o st op = Err e -> plain_err e = true.
Proof. intros o st op e K H. unfold step in H. rewrite K in H. eapply op_remove_nocl; eauto. Qed.
Print Assumptions C13_no_new_error_kinds.

(* non-vacuity: absent member, out-of-range index and absent ancestor are skipped; the existing
   target is removed; the add in between is applied *)
Example C13_nonvacuous :
  match api_decode (B "[{""op"":""remove"",""path"":""/x""},{""op"":""remove"",""path"":""/a/7""},{""op"":""add"",""path"":""/b"",""value"":1},{""op"":""remove"",""path"":""/q/r/s""},{""op"":""remove"",""path"":""/a/0""}]") with
  | Some p =>
      api_apply (mkOpts true 0 true false true [] None) [] p (B "{""a"":[1,2]}") = ROut (B "{""a"":[2],""b"":1}") /\
      api_apply (mkOpts true 0 false false true [] None) [] p (B "{""a"":[1,2]}") = RErr (Some 0%nat) EMissing
  | None => False
  end.
Proof. vm_compute. split; reflexivity. Qed.
