(* C12 — the accumulated copy-size limit (v5 model; the legacy package shares the logic, tied by
   the correspondence). *)
From JP Require Import Bytes Json Text ImplV5 ApplyFacts.

(* the limit error is raised only by a copy, only under a positive limit, and only when the running
   total (this copy included) exceeds it: "never while the total is within it" *)
Theorem C12_error_only_when_exceeded : forall o p st j l a,
  apply_from o 0 st p = AErr j (ECopyLimit l a) ->
  exists op, nth_error p j = Some op /\ op_kind op = KCopy /\
             (0 < o_limit o)%Z /\ l = o_limit o /\ (o_limit o < a)%Z.
Proof.
  intros o p st j l a H. apply apply_limit_error in H as [op [N [_ R]]].
  rewrite Nat.sub_0_r in N. eauto.
Qed.
Print Assumptions C12_error_only_when_exceeded.

(* a limit of 0 disables the check *)
Theorem C12_zero_disables : forall o p st j l a,
  o_limit o = 0%Z -> apply_from o 0 st p <> AErr j (ECopyLimit l a).
Proof. intros. now apply limit_zero_never. Qed.
Print Assumptions C12_zero_disables.

(* operations other than copy never count towards the total *)
Theorem C12_others_do_not_count : forall o st op st',
  op_kind op <> KCopy -> step o st op = Ok st' -> s_acc st' = s_acc st.
Proof. exact step_acc_noncopy. Qed.
Print Assumptions C12_others_do_not_count.

(* "as soon as": a patch that runs to the end under a positive limit kept the total within it at
   every step, so the first copy that exceeds the limit is the one that stops the patch *)
Theorem C12_total_within_limit : forall o p st st',
  apply_from o 0 st p = AOk st' -> (0 < o_limit o)%Z -> (s_acc st <= o_limit o)%Z -> (s_acc st' <= o_limit o)%Z.
Proof. intros o p st st'. apply total_within_limit. Qed.
Print Assumptions C12_total_within_limit.

(* a patch stopped by the limit returns no document *)
Theorem C12_no_document : forall o indent p doc r j l a,
  load_doc o doc = Ok r -> apply_from o 0 (mkState r 0) p = AErr j (ECopyLimit l a) ->
  apply_tree o indent p doc = RErr (Some j) (ECopyLimit l a).
Proof. intros o indent p doc r j l a L A. unfold apply_tree. now rewrite L, A. Qed.
Print Assumptions C12_no_document.

(* non-vacuity: {"a":"<x>"} copied twice; the value is spelled "<x>" (15 bytes) with
   EscapeHTML on and "<x>" (5 bytes) with it off; limits just below and at the total *)
Example C12_nonvacuous :
  match api_decode (B "[{""op"":""copy"",""from"":""/a"",""path"":""/b""},{""op"":""copy"",""from"":""/a"",""path"":""/c""}]") with
  | Some p =>
      api_apply (mkOpts true 29 false false true [] None) [] p (B "{""a"":""<x>""}") = RErr (Some 1%nat) (ECopyLimit 29 30) /\
      (exists out, api_apply (mkOpts true 30 false false true [] None) [] p (B "{""a"":""<x>""}") = ROut out) /\
      api_apply (mkOpts true 9 false false false [] None) [] p (B "{""a"":""<x>""}") = RErr (Some 1%nat) (ECopyLimit 9 10) /\
      (exists out, api_apply (mkOpts true 10 false false false [] None) [] p (B "{""a"":""<x>""}") = ROut out)
  | None => False
  end.
Proof. vm_compute. repeat split; try reflexivity; eexists; reflexivity. Qed.
