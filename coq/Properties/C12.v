(* C12 — the accumulated copy-size limit: the v5 model first, then (V4LimitFacts.v) the same statements
   about the model of the legacy package, whose limit is the package variable. *)
From JP Require Import Bytes Json Text ImplV5 ApplyFacts.

(* the limit error is raised only by a copy, only under a positive limit, and only when the running
   total (this copy included) exceeds it: "never while the total is within it" *)
Theorem C12_error_only_when_exceeded : forall o p st j l a,
  apply_from o 0 st p = AErr j (ECopyLimit l a) ->
  exists op, nth_error p j = Some op /\ op_kind op = KCopy /\
             (0 < o_limit o)%Z /\ l = o_limit o /\ (o_limit o < a)%Z.
Proof.
  intros o p st j l a H. apply apply_limit_error in H as [op [N [_ R]]].
  rewrite Nat.sub_0_r in N. eauto.
Qed.
Print Assumptions C12_error_only_when_exceeded.

(* a limit of 0 disables the check *)
Theorem C12_zero_disables : forall o p st j l a,
  o_limit o = 0%Z -> apply_from o 0 st p <> AErr j (ECopyLimit l a).
Proof. intros. now apply limit_zero_never. Qed.
Print Assumptions C12_zero_disables.

(* operations other than copy never count towards the total *)
Theorem C12_others_do_not_count : forall o st op st',
  op_kind op <> KCopy -> step o st op = Ok st' -> s_acc st' = s_acc st.
Proof. exact step_acc_noncopy. Qed.
Print Assumptions C12_others_do_not_count.

(* "as soon as": a patch that runs to the end under a positive limit kept the total within it at
   every step, so the first copy that exceeds the limit is the one that stops the patch *)
Theorem C12_total_within_limit : forall o p st st',
  apply_from o 0 st p = AOk st' -> (0 < o_limit o)%Z -> (s_acc st <= o_limit o)%Z -> (s_acc st' <= o_limit o)%Z.
Proof. intros o p st st'. apply total_within_limit. Qed.
Print Assumptions C12_total_within_limit.

(* a patch stopped by the limit returns no document *)
Theorem C12_no_document : forall o indent p doc r j l a,
  load_doc o doc = Ok r -> apply_from o 0 (mkState r 0) p = AErr j (ECopyLimit l a) ->
  apply_tree o indent p doc = RErr (Some j) (ECopyLimit l a).
Proof. intros o indent p doc r j l a L A. unfold apply_tree. now rewrite L, A. Qed.
Print Assumptions C12_no_document.

(* ---- the size counted is the length of the value's spelling in the output (SizeFacts.v) ---- *)
From JP Require Import Strings Scan PrintParse Totality CauseFacts SizeFacts.

(* escaping an escaped tree again changes nothing: the raw node a copy stores is printed, with the
   same escape setting, exactly as its source value *)
Theorem C12_copy_spelled_as_source : forall o v,
  print (o_esc o) (render (o_esc o) (fst (deep_copy o v))) = print (o_esc o) (render (o_esc o) v).
Proof. exact deep_copy_spelling. Qed.
Print Assumptions C12_copy_spelled_as_source.

(* the size counted for a value that is not a null is the length of the spelling of the stored copy *)
Theorem C12_counted_size_is_spelling_length : forall o v,
  is_null v = false ->
  snd (deep_copy o v) = zlen (print (o_esc o) (render (o_esc o) (fst (deep_copy o v)))).
Proof. exact deep_copy_counts_spelling. Qed.
Print Assumptions C12_counted_size_is_spelling_length.

(* a copied null: as the code counts (o_nullsz = None) 0 for a nil node and 4 for a stored raw null;
   with a fixed setting z every null counts z; in the accepted settings it counts 0 or 4 and is
   spelled null *)
Theorem C12_null_as_code : forall o v,
  o_nullsz o = None -> is_null v = true ->
  snd (deep_copy o v) = match v with NNil => 0%Z | _ => 4%Z end.
Proof. exact deep_copy_null_code. Qed.
Print Assumptions C12_null_as_code.

Theorem C12_null_fixed : forall o v z,
  o_nullsz o = Some z -> is_null v = true -> snd (deep_copy o v) = z.
Proof. exact deep_copy_null_fixed. Qed.
Print Assumptions C12_null_fixed.

Theorem C12_null_0_or_4 : forall o v,
  (o_nullsz o = None \/ o_nullsz o = Some 0%Z \/ o_nullsz o = Some 4%Z) -> is_null v = true ->
  (snd (deep_copy o v) = 0%Z \/ snd (deep_copy o v) = 4%Z) /\
  print (o_esc o) (render (o_esc o) (fst (deep_copy o v))) = B "null" /\ is_null (fst (deep_copy o v)) = true.
Proof. exact deep_copy_null_0_or_4. Qed.
Print Assumptions C12_null_0_or_4.

(* the compact text of a tree contains the compact text of every node in it as a contiguous
   substring (infix s t: t = pre ++ s ++ post): the spelling of a copy in the output is well defined *)
Theorem C12_descendant_is_substring : forall esc cp root,
  subnode cp root -> infix (print esc (render esc cp)) (print esc (render esc root)).
Proof. exact subnode_output. Qed.
Print Assumptions C12_descendant_is_substring.

(* one successful copy (stinv: the invariant of every reachable state, Totality.v; inner_nonempty: no
   reference token of the destination before the last is empty): the node stored is in the new tree,
   spelled as the source, a contiguous part of the compact text of the new tree, and what was added
   to the total is the length of that spelling *)
Theorem C12_copy_step_spelling : forall o st op st' path,
  stinv st -> op_str op (B "path") = Ok path -> inner_nonempty path ->
  op_copy o st op = Ok st' ->
  exists v cp sz,
    deep_copy o v = (cp, sz) /\ s_acc st' = (s_acc st + sz)%Z /\
    print (o_esc o) (render (o_esc o) cp) = print (o_esc o) (render (o_esc o) v) /\
    subnode cp (root_node (s_root st')) /\
    infix (print (o_esc o) (render (o_esc o) cp)) (print (o_esc o) (render (o_esc o) (root_node (s_root st')))) /\
    (is_null v = false -> sz = zlen (print (o_esc o) (render (o_esc o) cp))).
Proof. exact copy_step_spelling. Qed.
Print Assumptions C12_copy_step_spelling.

(* the copy at position length p1 of a patch that runs to the end *)
Theorem C12_copy_in_patch_output : forall o p1 op p2 st0 stf path,
  stinv st0 -> forallb op_ok p1 = true -> op_kind op = KCopy ->
  op_str op (B "path") = Ok path -> inner_nonempty path ->
  apply_from o 0 st0 (p1 ++ op :: p2) = AOk stf ->
  exists st1 st2 v cp sz,
    apply_from o 0 st0 p1 = AOk st1 /\ step o st1 op = Ok st2 /\
    apply_from o (S (length p1)) st2 p2 = AOk stf /\
    deep_copy o v = (cp, sz) /\ s_acc st2 = (s_acc st1 + sz)%Z /\
    print (o_esc o) (render (o_esc o) cp) = print (o_esc o) (render (o_esc o) v) /\
    (is_null v = false -> sz = zlen (print (o_esc o) (render (o_esc o) cp))) /\
    subnode cp (root_node (s_root st2)) /\
    (forall t, subnode cp (root_node (s_root stf)) -> marshal_root o (s_root stf) = Ok t ->
               infix (print (o_esc o) (render (o_esc o) cp)) (output o [] t)).
Proof. exact copy_in_patch_output. Qed.
Print Assumptions C12_copy_in_patch_output.

(* the copy is the last operation: the bytes returned contain its spelling *)
Theorem C12_copy_last_output : forall o st op st' path t,
  stinv st -> op_kind op = KCopy -> op_str op (B "path") = Ok path -> inner_nonempty path ->
  step o st op = Ok st' -> marshal_root o (s_root st') = Ok t ->
  exists v cp sz,
    deep_copy o v = (cp, sz) /\ s_acc st' = (s_acc st + sz)%Z /\
    infix (print (o_esc o) (render (o_esc o) cp)) (output o [] t) /\
    print (o_esc o) (render (o_esc o) cp) = print (o_esc o) (render (o_esc o) v) /\
    (is_null v = false -> sz = zlen (print (o_esc o) (render (o_esc o) cp))).
Proof. exact copy_last_output. Qed.
Print Assumptions C12_copy_last_output.

(* indented output: the codec's Compact of it is the compact text *)
Theorem C12_compact_of_indented : forall esc ind t,
  wsb ind = true -> twf t -> compact_go esc (pp esc ind 0 t) = Some (print esc t).
Proof. exact compact_of_indented. Qed.
Print Assumptions C12_compact_of_indented.

(* inner_nonempty cannot be dropped: a copy to //b is counted but what it adds is not kept *)
Theorem C12_empty_token_counts_but_is_lost :
  match api_decode (B "[{""op"":""copy"",""from"":""/a"",""path"":""//b""}]") with
  | Some p =>
      api_apply (mkOpts true 4 false false false [] None) [] p (B "{""a"":""<x>""}") = RErr (Some 0%nat) (ECopyLimit 4 5) /\
      api_apply (mkOpts true 0 false false false [] None) [] p (B "{""a"":""<x>""}") = ROut (B "{""a"":""<x>""}")
  | None => False
  end.
Proof. exact copy_empty_token_counts_but_is_lost. Qed.
Print Assumptions C12_empty_token_counts_but_is_lost.

(* non-vacuity of the step theorem: {"a":"<x>","c":{}}, copy /a to /c/b with EscapeHTML on: the
   hypotheses hold, 15 is added, and the node stored is a proper descendant of the new root whose
   spelling has 15 bytes and is the escaped spelling of the source *)
Example C12_spelling_nonvacuous :
  let o := mkOpts true 0 false false true [] None in
  let op : operation := [(B "op", Some (TStr (B "copy"))); (B "from", Some (TStr (B "/a"))); (B "path", Some (TStr (B "/c/b")))] in
  let d := TObj [(B "a", TStr (B "<x>")); (B "c", TObj [])] in
  exists r st', load_doc o d = Ok r /\ stinv (mkState r 0) /\
    op_str op (B "path") = Ok (B "/c/b") /\ inner_nonempty (B "/c/b") /\
    op_copy o (mkState r 0) op = Ok st' /\ s_acc st' = 15%Z /\
    exists cp, subnode cp (root_node (s_root st')) /\ cp <> root_node (s_root st') /\
               zlen (print true (render true cp)) = 15%Z /\
               print true (render true cp) = print true (TStr (B "<x>")).
Proof.
  cbv zeta. eexists. eexists. split; [vm_compute; reflexivity|].
  split; [apply (load_doc_inv (mkOpts true 0 false false true [] None) (TObj [(B "a", TStr (B "<x>")); (B "c", TObj [])])); vm_compute; reflexivity|].
  split; [vm_compute; reflexivity|].
  split. { vm_compute. repeat constructor. discriminate. }
  split; [vm_compute; reflexivity|]. split; [reflexivity|].
  eexists. split.
  - cbn [s_root root_node node_of_con].
    eapply subnode_step; [exists (B "c"); split; [right; left; reflexivity | vm_compute; reflexivity]|].
    eapply subnode_step; [exists (B "b"); split; [left; reflexivity | vm_compute; reflexivity]|].
    apply subnode_refl.
  - split; [discriminate|]. split; vm_compute; reflexivity.
Qed.

(* non-vacuity: {"a":"<x>"} copied twice; the value is spelled "<x>" (15 bytes) with
   EscapeHTML on and "<x>" (5 bytes) with it off; limits just below and at the total *)
Example C12_nonvacuous :
  match api_decode (B "[{""op"":""copy"",""from"":""/a"",""path"":""/b""},{""op"":""copy"",""from"":""/a"",""path"":""/c""}]") with
  | Some p =>
      api_apply (mkOpts true 29 false false true [] None) [] p (B "{""a"":""<x>""}") = RErr (Some 1%nat) (ECopyLimit 29 30) /\
      (exists out, api_apply (mkOpts true 30 false false true [] None) [] p (B "{""a"":""<x>""}") = ROut out) /\
      api_apply (mkOpts true 9 false false false [] None) [] p (B "{""a"":""<x>""}") = RErr (Some 1%nat) (ECopyLimit 9 10) /\
      (exists out, api_apply (mkOpts true 10 false false false [] None) [] p (B "{""a"":""<x>""}") = ROut out)
  | None => False
  end.
Proof. vm_compute. repeat split; try reflexivity; eexists; reflexivity. Qed.

(* ---- the main theorems applied, on the document and two-copy patch of C12_nonvacuous (EscapeHTML on: each
   copy counts 15 bytes): C12_error_only_when_exceeded and C12_no_document under limit 29 (the run stops at
   the second copy with total 30), C12_total_within_limit under limit 30 (the run ends, total within it),
   C12_zero_disables under limit 0 ---- *)
Definition C12_ex_doc := B "{""a"":""<x>""}".
Definition C12_ex_patch := B "[{""op"":""copy"",""from"":""/a"",""path"":""/b""},{""op"":""copy"",""from"":""/a"",""path"":""/c""}]".
Definition C12_ex_p : list operation := match api_decode C12_ex_patch with Some p => p | None => [] end.
Definition C12_ex_o (l : Z) := mkOpts true l false false true [] None.
Definition C12_ex_r : root := match parse C12_ex_doc with
                              | Some t => match load_doc (C12_ex_o 0) t with Ok r => r | _ => RNull end
                              | None => RNull end.
Definition C12_ex_t : tjson := match parse C12_ex_doc with Some t => t | None => TNull end.

Example C12_main_theorem_applies :
  (exists op, nth_error C12_ex_p 1 = Some op /\ op_kind op = KCopy /\ (0 < 29)%Z /\ (29 < 30)%Z) /\
  apply_tree (C12_ex_o 29) [] C12_ex_p C12_ex_t = RErr (Some 1%nat) (ECopyLimit 29 30) /\
  (exists st', apply_from (C12_ex_o 30) 0 (mkState C12_ex_r 0) C12_ex_p = AOk st' /\ (s_acc st' <= 30)%Z) /\
  (forall j l a, apply_from (C12_ex_o 0) 0 (mkState C12_ex_r 0) C12_ex_p <> AErr j (ECopyLimit l a)).
Proof.
  assert (E : apply_from (C12_ex_o 29) 0 (mkState C12_ex_r 0) C12_ex_p = AErr 1 (ECopyLimit 29 30)) by (vm_compute; reflexivity).
  split; [|split; [|split]].
  - destruct (C12_error_only_when_exceeded (C12_ex_o 29) C12_ex_p (mkState C12_ex_r 0) 1%nat 29%Z 30%Z E)
      as [op [H1 [H2 [H3 [_ H5]]]]].
    exists op. split; [exact H1|]. split; [exact H2|]. split; [exact H3 | exact H5].
  - apply (C12_no_document (C12_ex_o 29) [] C12_ex_p C12_ex_t C12_ex_r); [vm_compute; reflexivity | exact E].
  - destruct (apply_from (C12_ex_o 30) 0 (mkState C12_ex_r 0) C12_ex_p) as [st'| |] eqn:A;
      [|vm_compute in A; discriminate A|vm_compute in A; discriminate A].
    exists st'. split; [reflexivity|].
    apply (C12_total_within_limit (C12_ex_o 30) C12_ex_p (mkState C12_ex_r 0) st' A); [reflexivity | vm_compute; discriminate].
  - intros j l a. apply C12_zero_disables. reflexivity.
Qed.
Print Assumptions C12_main_theorem_applies.

(* ---- the legacy package (ImplV4.v: g_limit is the package variable AccumulatedCopySizeLimit).  No domain
   hypothesis: every operation list, state and setting. ---- *)
From JP Require Import ImplV4.
From JP Require V4LimitFacts.

Theorem C12_legacy_error_iff : forall g p i st k l a,
  apply4_from g i st p = (Err (ECopyLimit l a), k) <->
  exists p1 op p2 st1 v,
    p = p1 ++ op :: p2 /\ k = (i + length p1)%nat /\ apply4_from g i st p1 = (Ok st1, k) /\
    op_kind op = KCopy /\ V4LimitFacts.copy_src4 g st1 op = Some v /\
    (0 < g_limit g)%Z /\ l = g_limit g /\
    a = (acc4 st1 + snd (deep_copy4 g v))%Z /\ (g_limit g < a)%Z.
Proof. exact V4LimitFacts.v4_limit_error_iff. Qed.
Print Assumptions C12_legacy_error_iff.

Theorem C12_legacy_zero_disables : forall g p i st k l a,
  (g_limit g <= 0)%Z -> apply4_from g i st p <> (Err (ECopyLimit l a), k).
Proof. exact V4LimitFacts.v4_zero_disables. Qed.
Print Assumptions C12_legacy_zero_disables.

Theorem C12_legacy_others_do_not_count : forall g st op st',
  op_kind op <> KCopy -> step4 g st op = Ok st' -> acc4 st' = acc4 st.
Proof. exact V4LimitFacts.v4_others_do_not_count. Qed.
Print Assumptions C12_legacy_others_do_not_count.

Theorem C12_legacy_total_is_sum : forall g p i st st' j,
  apply4_from g i st p = (Ok st', j) -> acc4 st' = (acc4 st + V4LimitFacts.sizes4 g st p)%Z.
Proof. exact V4LimitFacts.v4_total_is_sum. Qed.
Print Assumptions C12_legacy_total_is_sum.

Theorem C12_legacy_total_within_limit : forall g p i st st' j,
  apply4_from g i st p = (Ok st', j) -> (0 < g_limit g)%Z -> (acc4 st <= g_limit g)%Z -> (acc4 st' <= g_limit g)%Z.
Proof. exact V4LimitFacts.v4_total_within_limit. Qed.
Print Assumptions C12_legacy_total_within_limit.

(* the size counted is the length of the copy as deepCopy spells it (HTML escaping always on, members of a
   decoded object sorted); a nil source counts 0 although it is written with the four bytes null
   (V4LimitFacts.v4_nil_counts_zero_spelled_with_four_bytes) — the property allows 0 or 4 for a copied null *)
Theorem C12_legacy_counted_size_is_spelling_length : forall g v, v <> NNil ->
  snd (deep_copy4 g v) = zlen (marshal4 v) /\
  snd (deep_copy4 g v) = zlen (marshal4 (fst (deep_copy4 g v))).
Proof. exact V4LimitFacts.v4_counted_size_is_spelling_length. Qed.
Print Assumptions C12_legacy_counted_size_is_spelling_length.

(* stopped by the limit, Apply returns the error and no document — and that is the only way it returns it *)
Theorem C12_legacy_no_document : forall g indent p doc j l a,
  api_apply4 g indent p doc = Err4 j (ECopyLimit l a) <->
  exists t c k, doc <> [] /\ parse doc = Some t /\ V4OutputFacts.start4 t = Some c /\ j = Some k /\
                apply4_from g 0 (mkState4 c 0) p = (Err (ECopyLimit l a), k).
Proof. exact V4LimitFacts.v4_limit_stops_with_no_document. Qed.
Print Assumptions C12_legacy_no_document.

(* the spelling counted is the spelling in the output (compact output, the copy being the last operation) *)
Theorem C12_legacy_copy_in_output : forall g p1 op doc t c out,
  parse doc = Some t -> V4OutputFacts.start4 t = Some c -> op_kind op = KCopy ->
  api_apply4 g [] (p1 ++ [op]) doc = Out4 out ->
  exists st1 st2 v cp sz,
    apply4_from g 0 (mkState4 c 0) p1 = (Ok st1, length p1) /\ step4 g st1 op = Ok st2 /\
    V4LimitFacts.copy_src4 g st1 op = Some v /\ deep_copy4 g v = (cp, sz) /\ acc4 st2 = (acc4 st1 + sz)%Z /\
    marshal4 cp = marshal4 v /\ (v <> NNil -> sz = zlen (marshal4 cp)) /\
    SizeFacts.infix (marshal4 cp) out.
Proof. exact V4LimitFacts.v4_copy_last_output. Qed.
Print Assumptions C12_legacy_copy_in_output.

(* non-vacuity: {"a":"<x>"} with two copies of /a (15 bytes each, HTML-escaped): limits 20 and 29 stop at
   the second copy with total 30, limit 14 at the first, limits 30, 0 and -5 return the document *)
Definition C12_legacy_nonvacuous := V4LimitFacts.v4_nonvacuous.
Definition C12_legacy_main_theorems_apply := V4LimitFacts.v4_main_theorems_apply.
Check C12_legacy_nonvacuous.
