(* C18 — legacy root package: RFC 6902 application (v4 API).
   The legacy model (ImplV4.v) shares the array index arithmetic with the v5 model (the two Go
   files have the same partialArray code); the theorems below instantiate the arithmetic theorems
   for the legacy container operations, for every array length and canonical token and both
   settings of the SupportNegativeIndices package variable.  The whole-patch refinement against
   Rfc6902.rfc_apply (up to member order) is compared on every run against the staged package;
   its proof (the legacy counterpart of ApplySim.v) is an open obligation. *)
From JP Require Import Bytes Json Text Strings Den Pointer Rfc6902 ImplV5 ImplV4 ImplFacts.

Theorem C18_get_index : forall g (ns : list node) t,
  tok_small t -> tok_canonical t ->
  match idx_existing (mkDialect (g_neg g)) (Rfc6902.zlen ns) t with
  | Some i => con4_get g (DAry ns) t = Ok (nth i ns NNil) /\ (i < length ns)%nat
  | None => exists e, con4_get g (DAry ns) t = Err e /\ (e = EInvalidIndex \/ e = EAtoi)
  end.
Proof.
  intros g ns t S C. pose proof (resolve_idx_get_ref (o5 g) ns t S C) as R. cbn [con4_get].
  change (dia (o5 g)) with (mkDialect (g_neg g)) in R.
  destruct (idx_existing (mkDialect (g_neg g)) (Rfc6902.zlen ns) t).
  - destruct R as [R L]. rewrite R. auto.
  - destruct R as [e [R Re]]. rewrite R. eauto.
Qed.
Print Assumptions C18_get_index.

Theorem C18_add_index : forall g (ns : list node) t v,
  tok_small t -> add_tok t ->
  match idx_insert (mkDialect (g_neg g)) (Rfc6902.zlen ns) t with
  | Some i => con4_add g (DAry ns) t v = Ok (DAry (insert_at i v ns)) /\ (i <= length ns)%nat
  | None => exists e, con4_add g (DAry ns) t v = Err e /\ (e = EInvalidIndex \/ e = EAtoi)
  end.
Proof.
  intros g ns t v S C. pose proof (ary_add_ref (o5 g) ns t v S C) as R. cbn [con4_add].
  change (dia (o5 g)) with (mkDialect (g_neg g)) in R.
  destruct (idx_insert (mkDialect (g_neg g)) (Rfc6902.zlen ns) t).
  - destruct R as [R L]. rewrite R. auto.
  - destruct R as [e [R Re]]. rewrite R. eauto.
Qed.
Print Assumptions C18_add_index.

Theorem C18_remove_index : forall g (ns : list node) t,
  tok_small t -> tok_canonical t ->
  match idx_existing (mkDialect (g_neg g)) (Rfc6902.zlen ns) t with
  | Some i => con4_remove g (DAry ns) t = Ok (DAry (remove_at i ns)) /\ (i < length ns)%nat
  | None => exists e, con4_remove g (DAry ns) t = Err e /\ (e = EInvalidIndex \/ e = EAtoi)
  end.
Proof.
  intros g ns t S C. pose proof (ary_remove_ref (o5 g) ns t eq_refl S C) as R. cbn [con4_remove].
  change (dia (o5 g)) with (mkDialect (g_neg g)) in R.
  destruct (idx_existing (mkDialect (g_neg g)) (Rfc6902.zlen ns) t).
  - destruct R as [R L]. rewrite R. auto.
  - destruct R as [e [R Re]]. rewrite R. eauto.
Qed.
Print Assumptions C18_remove_index.

(* the array add can never reach the panicking slice expression *)
Theorem C18_array_add_never_panics : forall g ns key v, con4_add g (DAry ns) key v <> Panic.
Proof.
  intros g ns key v. cbn [con4_add]. pose proof (ary_add_never_panics (o5 g) ns key v) as H.
  destruct (ary_add (o5 g) ns key v); congruence.
Qed.
Print Assumptions C18_array_add_never_panics.

(* operations after the first failing one have no effect: the loop stops at the first error *)
Theorem C18_first_failure : forall g p1 op p2 st i st' j e,
  apply4_from g i st p1 = (Ok st', j) -> step4 g st' op = Err e ->
  apply4_from g i st (p1 ++ op :: p2) = (Err e, j).
Proof.
  intros g p1 op p2. induction p1 as [|q p1 IH]; intros st i st' j e H S.
  - cbn [app apply4_from] in *. inversion H; subst. now rewrite S.
  - cbn [app apply4_from] in *. destruct (step4 g st q) eqn:E.
    + eapply IH; eauto.
    + inversion H.
    + inversion H.
Qed.
Print Assumptions C18_first_failure.

Example C18_nonvacuous :
  match api_decode4 (B "[{""op"":""add"",""path"":""/a/-"",""value"":3},{""op"":""copy"",""from"":""/a"",""path"":""/b""},{""op"":""remove"",""path"":""/a/-3""},{""op"":""test"",""path"":""/b"",""value"":[1,2,3]}]") with
  | Some p => api_apply4 (mkOpts4 true 0 None) [] p (B "{""z"":1.50,""a"":[1,2]}") = Out4 (B "{""a"":[2,3],""b"":[1,2,3],""z"":1.50}")
  | None => False
  end.
Proof. vm_compute. reflexivity. Qed.
