(* C18 — legacy root package: RFC 6902 application (v4 API).
   The legacy model (ImplV4.v) shares the array index arithmetic with the v5 model (the two Go
   files have the same partialArray code); the theorems below instantiate the arithmetic theorems
   for the legacy container operations, for every array length and canonical token and both
   settings of the SupportNegativeIndices package variable.  The whole-patch refinement against
   Rfc6902.rfc_apply (up to member order) is proved in V4ApplySim.v (the legacy counterpart of
   ApplySim.v) and restated in the second half of this file.
   DOMAIN RESTRICTION of the byte-level simulation theorems (C18_apply_refines_rfc and those after it,
   C18_step, C18_apply_patch through sgood4 / op_dom4): EVERY string of the document (tplain) and of
   every operation value (raw4, in val_good4) is spelled escape-free: no backslash, valid UTF-8, and
   none of the characters the legacy encoder rewrites (less-than, greater-than, ampersand, U+2028,
   U+2029).  The legacy test operation and deepCopy compare and re-encode SPELLINGS, so outside this
   set the legacy result can differ from RFC 6902's (C19_Equal_compares_spellings shows it for Equal).
   This is NARROWER than the property's wording, which only sets aside "strings compared by test
   operations": here all strings are restricted, also those no test touches.  The index theorems of
   the first half, C18_first_failure, the totality statements of C04 and the output theorems
   C18_step_keeps_tokens / C18_output_general carry no such restriction.
   FURTHER HYPOTHESES of the simulation (since the model tells the four null-like nodes of the package
   apart, ImplV4.v / V4NullWalk.v): (1) a test operation below the root carries a value member
   (has_value4, inside op_dom4); (2) no copy is handed the operation value null (copy_clean4 for a
   step, the boolean no_null_copy4 for a run; C18_null_copy_deviation shows the package succeeding
   where RFC 6902 fails when this is violated; every patch without copy satisfies it). *)
From JP Require Import Bytes Json Text Strings Den Pointer Rfc6902 ImplV5 ImplV4 ImplFacts.

Theorem C18_get_index : forall g (ns : list node) t,
  tok_small t -> tok_canonical t ->
  match idx_existing (mkDialect (g_neg g)) (Rfc6902.zlen ns) t with
  | Some i => con4_get g (DAry ns) t = Ok (nth i ns NNil) /\ (i < length ns)%nat
  | None => exists e, con4_get g (DAry ns) t = Err e /\ (e = EInvalidIndex \/ e = EAtoi)
  end.
Proof.
  intros g ns t S C. pose proof (resolve_idx_get_ref (o5 g) ns t S C) as R. cbn [con4_get].
  change (dia (o5 g)) with (mkDialect (g_neg g)) in R.
  destruct (idx_existing (mkDialect (g_neg g)) (Rfc6902.zlen ns) t).
  - destruct R as [R L]. rewrite R. auto.
  - destruct R as [e [R Re]]. rewrite R. eauto.
Qed.
Print Assumptions C18_get_index.

Theorem C18_add_index : forall g (ns : list node) t v,
  tok_small t -> add_tok t ->
  match idx_insert (mkDialect (g_neg g)) (Rfc6902.zlen ns) t with
  | Some i => con4_add g (DAry ns) t v = Ok (DAry (insert_at i v ns)) /\ (i <= length ns)%nat
  | None => exists e, con4_add g (DAry ns) t v = Err e /\ (e = EInvalidIndex \/ e = EAtoi)
  end.
Proof.
  intros g ns t v S C. pose proof (ary_add_ref (o5 g) ns t v S C) as R. cbn [con4_add].
  change (dia (o5 g)) with (mkDialect (g_neg g)) in R.
  destruct (idx_insert (mkDialect (g_neg g)) (Rfc6902.zlen ns) t).
  - destruct R as [R L]. rewrite R. auto.
  - destruct R as [e [R Re]]. rewrite R. eauto.
Qed.
Print Assumptions C18_add_index.

Theorem C18_remove_index : forall g (ns : list node) t,
  tok_small t -> tok_canonical t ->
  match idx_existing (mkDialect (g_neg g)) (Rfc6902.zlen ns) t with
  | Some i => con4_remove g (DAry ns) t = Ok (DAry (remove_at i ns)) /\ (i < length ns)%nat
  | None => exists e, con4_remove g (DAry ns) t = Err e /\ (e = EInvalidIndex \/ e = EAtoi)
  end.
Proof.
  intros g ns t S C. pose proof (ary_remove_ref (o5 g) ns t eq_refl S C) as R. cbn [con4_remove].
  change (dia (o5 g)) with (mkDialect (g_neg g)) in R.
  destruct (idx_existing (mkDialect (g_neg g)) (Rfc6902.zlen ns) t).
  - destruct R as [R L]. rewrite R. auto.
  - destruct R as [e [R Re]]. rewrite R. eauto.
Qed.
Print Assumptions C18_remove_index.

(* the array add can never reach the panicking slice expression *)
Theorem C18_array_add_never_panics : forall g ns key v, con4_add g (DAry ns) key v <> Panic.
Proof.
  intros g ns key v. cbn [con4_add]. pose proof (ary_add_never_panics (o5 g) ns key v) as H.
  destruct (ary_add (o5 g) ns key v); congruence.
Qed.
Print Assumptions C18_array_add_never_panics.

(* operations after the first failing one have no effect: the loop stops at the first error *)
Theorem C18_first_failure : forall g p1 op p2 st i st' j e,
  apply4_from g i st p1 = (Ok st', j) -> step4 g st' op = Err e ->
  apply4_from g i st (p1 ++ op :: p2) = (Err e, j).
Proof.
  intros g p1 op p2. induction p1 as [|q p1 IH]; intros st i st' j e H S.
  - cbn [app apply4_from] in *. inversion H; subst. now rewrite S.
  - cbn [app apply4_from] in *. destruct (step4 g st q) eqn:E.
    + eapply IH; eauto.
    + inversion H.
    + inversion H.
Qed.
Print Assumptions C18_first_failure.

(* ---- the simulation against RFC 6902 (V4ApplySim.v) ---- *)
From JP Require Import Domain JsonFacts Abs EqualFacts RefFacts ApplyFacts ApplySim Codec V4ApplySim.

(* the pointer walk of the legacy findObject reaches exactly the container the reference descends
   to; lazy parsing on the way never changes the value (aval4: members in map order) *)
Theorem C18_walk : forall g parts c,
  cgood4 c -> Forall tok_dom4 (map decode_token parts) ->
  match descend (d4 g) (map decode_token parts) (cval4 c) with
  | Some p =>
      if is_container p then
        exists cp (back : con4 -> con4), cval4 cp = p /\ cgood4 cp /\
          (forall A (f : con4 -> A * con4), walk4 g parts c f = (Some (fst (f cp)), back (snd (f cp)))) /\
          (forall cp', cgood4 cp' ->
             cval4 (back cp') = rebuild (d4 g) (map decode_token parts) (cval4 c) (cval4 cp') /\ cgood4 (back cp'))
      else exists c', (forall A (f : con4 -> A * con4), walk4 g parts c f = (None, c')) /\ cval4 c' = cval4 c /\ cgood4 c'
  | None => exists c', (forall A (f : con4 -> A * con4), walk4 g parts c f = (None, c')) /\ cval4 c' = cval4 c /\ cgood4 c'
  end.
Proof. exact walk4_spec. Qed.
Print Assumptions C18_walk.

(* get never fails on an object: an absent member reads as the nil node *)
Theorem C18_get : forall g c key,
  cgood4 c -> tok_dom4 key ->
  match child_at (d4 g) (cval4 c) key with
  | Some j => exists v, con4_get g c key = Ok v /\ aval4 v = j /\ ngood4 v
  | None => match c with
            | DAry _ => exists e, con4_get g c key = Err e /\ (e = EInvalidIndex \/ e = EAtoi)
            | _ => con4_get g c key = Ok NNil
            end
  end.
Proof. exact con4_get_sim. Qed.
Print Assumptions C18_get.

(* the legacy Equal (strings compared by spelling) decides structural equality on plain spellings *)
Theorem C18_equal_is_structural : forall n o, ngood4 n -> ngood4 o -> node_equal4 n o = jeq (aval4 n) (aval4 o).
Proof. exact node_equal4_spec. Qed.
Print Assumptions C18_equal_is_structural.

(* deepCopy: the marshalled text (members sorted, HTML-escaped) is a well-formed raw message and
   denotes the same value up to member order: copy yields an independent duplicate *)
Theorem C18_copy_duplicates : forall v, ngood4 v ->
  rawok (enc4 v) /\ jeq (den (enc4 v)) (aval4 v) = true /\ (null4 v = false -> enc4 v <> TNull).
Proof. exact enc4_codec. Qed.
Print Assumptions C18_copy_duplicates.

(* one operation (all kinds but copy): the legacy step computes the reference step with the two
   documented deviations (rfc4_step) EXACTLY, member order included; same error class otherwise.
   op_dom4 asks a test below the root for a value member (RFC 6902 requires one): without it the
   package compares the nil POINTER and fails on a member holding the operation value null *)
Theorem C18_step_exact : forall g st op,
  sgood4 st -> op_dom4 op -> op_kind op <> KCopy ->
  match rfc4_step (d4 g) (sval4 st) (den_op op) with
  | Rfc6902.Ok j' => exists st', step4 g st op = Ok st' /\ sval4 st' = j' /\ sgood4 st' /\ acc4 st' = acc4 st
  | Rfc6902.Fail cz => exists e, step4 g st op = Err e /\ cause_rel cz e
  end.
Proof. exact step4_sim_nocopy. Qed.
Print Assumptions C18_step_exact.

(* one operation of any kind (copy included), up to member order.  A copy must not be handed the
   operation value null (copy_clean4: the node deepCopy receives is not raw_nil4, i.e. not a null that
   an earlier add / replace of the patch wrote): the package stores the raw TEXT null for it, and a
   later path through that member is walked like an empty object (C18_null_copy_deviation below) *)
Theorem C18_step : forall g st op doc,
  g_limit g = 0%Z -> sgood4 st -> veq (sval4 st) doc -> op_dom4 op ->
  (op_kind op = KCopy -> copy_clean4 g st op) ->
  match rfc4_step (d4 g) doc (den_op op) with
  | Rfc6902.Ok j' => exists st', step4 g st op = Ok st' /\ veq (sval4 st') j' /\ sgood4 st'
  | Rfc6902.Fail cz => exists e, step4 g st op = Err e /\ cause_rel cz e
  end.
Proof. exact step4_sim. Qed.
Print Assumptions C18_step.

(* where the deviating reference IS the RFC reference: everywhere except an absent object member
   reported for a replace or a copy *)
Theorem C18_deviation_only_absent_member : forall d doc o,
  (rfc_step d doc o = Rfc6902.Fail FMissingMember -> rkind o <> OpReplace /\ rkind o <> OpCopy) ->
  rfc4_step d doc o = rfc_step d doc o.
Proof. exact rfc4_step_agree. Qed.
Print Assumptions C18_deviation_only_absent_member.

(* the deviations themselves *)
Theorem C18_replace_absent_adds : forall g st op r ms,
  sgood4 st -> op_kind op = KReplace ->
  op_str op (B "path") = Ok (x2f :: r) -> Forall tok_dom4 (map decode_token (split_slash r)) -> val_good4 op ->
  descend (d4 g) (map decode_token (path_parts r)) (sval4 st) = Some (OObj ms) -> aget (path_key r) ms = None ->
  rfc_step (d4 g) (sval4 st) (den_op op) = Rfc6902.Fail FMissingMember /\
  exists st', step4 g st op = Ok st' /\ sgood4 st' /\
    sval4 st' = rebuild (d4 g) (map decode_token (path_parts r)) (sval4 st) (OObj (ms ++ [(path_key r, ref_value op)])).
Proof. exact step4_replace_absent_adds. Qed.
Print Assumptions C18_replace_absent_adds.

Theorem C18_copy_absent_copies_null : forall g st op rf r ms,
  sgood4 st -> op_kind op = KCopy -> g_limit g = 0%Z ->
  op_str op (B "from") = Ok (x2f :: rf) -> Forall tok_dom4 (map decode_token (split_slash rf)) ->
  op_str op (B "path") = Ok (x2f :: r) -> Forall tok_dom4 (map decode_token (split_slash r)) ->
  descend (d4 g) (map decode_token (path_parts rf)) (sval4 st) = Some (OObj ms) -> aget (path_key rf) ms = None ->
  get_at (d4 g) (ptoks rf) (sval4 st) = Rfc6902.Fail FMissingMember /\
  match at_parent (d4 g) (ptoks r) (sval4 st) (add_leaf (d4 g) ONull) with
  | Rfc6902.Ok j' => exists st', step4 g st op = Ok st' /\ sval4 st' = j' /\ sgood4 st'
  | Rfc6902.Fail cz => exists e, step4 g st op = Err e /\ cause_rel cz e
  end.
Proof. exact step4_copy_absent_copies_null. Qed.
Print Assumptions C18_copy_absent_copies_null.

(* a test of an absent member compares null (the reference's dialect says the same) *)
Theorem C18_test_absent : forall g st op r ms,
  sgood4 st -> op_kind op = KTest ->
  op_str op (B "path") = Ok (x2f :: r) -> Forall tok_dom4 (map decode_token (split_slash r)) -> val_good4 op ->
  descend (d4 g) (map decode_token (path_parts r)) (sval4 st) = Some (OObj ms) -> aget (path_key r) ms = None ->
  if onull (ref_value op)
  then exists st', step4 g st op = Ok st' /\ sval4 st' = sval4 st /\ sgood4 st'
  else step4 g st op = Err ETestFailed.
Proof. exact step4_test_absent. Qed.
Print Assumptions C18_test_absent.

(* ---- the THIRD deviation, found by the correspondence harness and observed on the package
   (V4NullWalk.v): it is NOT covered by the simulation but excluded by hypothesis (copy_clean4 for one
   copy, no_null_copy4 for a run: a boolean that evaluates the model).  The value null of an add /
   replace is a node with a nil raw message (raw_nil4); deepCopy stores for it the raw TEXT null
   (raw_null4), which is outside the invariant: findObject enters it (intoDoc unmarshals null into the
   nil map) where RFC 6902 says the path does not exist.  Nulls of the document, nulls inside composite
   values and absent members are nil nodes and ARE covered. ---- *)
Theorem C18_null_copy_outside_invariant : forall g, fst (deep_copy4 g raw_nil4) = raw_null4 /\ ~ ngood4 raw_null4.
Proof. exact deep_copy4_raw_nil. Qed.
Print Assumptions C18_null_copy_outside_invariant.

(* a patch without copy satisfies the hypothesis in every state; so does a copy of an absent member *)
Theorem C18_no_copy_is_clean : forall g p, Forall (fun op => op_kind op <> KCopy) p -> forall st, no_null_copy4 g st p = true.
Proof. exact no_copy_no_null_copy4. Qed.
Print Assumptions C18_no_copy_is_clean.

Theorem C18_copy_of_absent_is_clean : forall g st op rf r,
  sgood4 st ->
  op_str op (B "from") = Ok (x2f :: rf) -> Forall tok_dom4 (map decode_token (split_slash rf)) ->
  op_str op (B "path") = Ok (x2f :: r) -> Forall tok_dom4 (map decode_token (split_slash r)) ->
  get_at (d4 g) (ptoks rf) (sval4 st) = Rfc6902.Fail FMissingMember -> copy_clean4 g st op.
Proof. exact copy_clean4_absent. Qed.
Print Assumptions C18_copy_of_absent_is_clean.

(* the deviation itself: add null, copy it, test below the copy.  The reference stops at operation 2
   (the path goes through null), the package succeeds; the hypothesis no_null_copy4 is false here and
   no_deviation (the first two deviations) does not see it *)
Definition C18_dv_doc := B "{""b"":1}".
Definition C18_dv_patch := B "[{""op"":""add"",""path"":""/b"",""value"":null},{""op"":""copy"",""from"":""/b"",""path"":""/n""},{""op"":""test"",""path"":""/n/x"",""value"":null}]".
Definition C18_dv_t : tjson := match parse C18_dv_doc with Some t => t | None => TNull end.
Definition C18_dv_p : list operation := match api_decode4 C18_dv_patch with Some p => p | None => [] end.
Example C18_null_copy_deviation :
  rfc_apply (d4 (mkOpts4 true 0 None)) (den C18_dv_t) (map den_op C18_dv_p) = Failed 2 FUnreachable /\
  api_apply4 (mkOpts4 true 0 None) [] C18_dv_p C18_dv_doc = Out4 (B "{""b"":null,""n"":null}") /\
  no_deviation (d4 (mkOpts4 true 0 None)) (den C18_dv_t) (map den_op C18_dv_p) = true /\
  (forall c, api_start4 C18_dv_t = Some c -> no_null_copy4 (mkOpts4 true 0 None) (mkState4 c 0) C18_dv_p = false).
Proof.
  split; [vm_compute; reflexivity|]. split; [vm_compute; reflexivity|]. split; [vm_compute; reflexivity|].
  intros c Hc. vm_compute in Hc. inversion Hc; subst c. vm_compute. reflexivity.
Qed.

(* the reference does not depend on member order: related documents give related results and the
   same failure causes *)
Theorem C18_reference_respects_order : forall d a b o, rop_ok o -> veq a b -> req (rfc4_step d a o) (rfc4_step d b o).
Proof. exact rfc4_step_veq. Qed.
Print Assumptions C18_reference_respects_order.

(* whole patches, all six operations, on states: for a patch that avoids the deviations the loop
   ends exactly as RFC 6902 says: success with the RFC document up to member order and the index
   past the last operation, or the first failing operation's index with the corresponding error *)
Theorem C18_apply_patch : forall g p i st doc,
  g_limit g = 0%Z -> sgood4 st -> veq (sval4 st) doc -> Forall op_dom4 p ->
  no_deviation (d4 g) doc (map den_op p) = true -> no_null_copy4 g st p = true ->
  match rfc_apply_from (d4 g) i doc (map den_op p) with
  | Done doc' => exists st', apply4_from g i st p = (Ok st', (i + length p)%nat) /\ veq (sval4 st') doc' /\ sgood4 st'
  | Failed j cz => exists e, apply4_from g i st p = (Err e, j) /\ cause_rel cz e
  end.
Proof. exact apply4_rfc. Qed.
Print Assumptions C18_apply_patch.

(* Apply on bytes.  Domain: root object/array without duplicate names, strings plain (no escapes,
   no < > &), names as the scanner accepts them (tkeys; implied by Codec.tsb); operations in
   op_dom4; the patch avoids the deviations (true of every patch RFC 6902 evaluates successfully,
   C18_applicable_no_deviation); no copy-size limit *)
Theorem C18_apply_refines_rfc : forall g indent p doc t,
  g_limit g = 0%Z ->
  parse doc = Some t -> root_container t = true -> tnodup t = true -> tplain t -> tkeys t ->
  Forall op_dom4 p -> no_deviation (d4 g) (den t) (map den_op p) = true ->
  (forall c, api_start4 t = Some c -> no_null_copy4 g (mkState4 c 0) p = true) ->
  match rfc_apply (d4 g) (den t) (map den_op p) with
  | Done j => exists n, api_apply4 g indent p doc = Out4 (output4 indent (render4 n)) /\ veq (aval4 n) j /\ ngood4 n
  | Failed i cz => exists e, api_apply4 g indent p doc = Err4 (Some i) e /\ cause_rel cz e
  end.
Proof. exact api_apply4_sim. Qed.
Print Assumptions C18_apply_refines_rfc.

(* the hypothesis on the run follows from a boolean on the bytes that is part of the model file
   (ImplV4.api_no_null_copy4) *)
Theorem C18_clean_run_from_bytes : forall g p doc t,
  parse doc = Some t -> root_container t = true -> api_no_null_copy4 g p doc = true ->
  forall c, api_start4 t = Some c -> no_null_copy4 g (mkState4 c 0) p = true.
Proof. exact api_no_null_copy4_start. Qed.
Print Assumptions C18_clean_run_from_bytes.

(* without copy the result is the RFC document exactly (member order as RFC 6902 in Rfc6902.v) *)
Theorem C18_apply_refines_rfc_exact : forall g indent p doc t,
  parse doc = Some t -> root_container t = true -> tnodup t = true -> tplain t -> tkeys t ->
  Forall op_dom4 p -> no_copy p -> no_deviation (d4 g) (den t) (map den_op p) = true ->
  match rfc_apply (d4 g) (den t) (map den_op p) with
  | Done j => exists n, api_apply4 g indent p doc = Out4 (output4 indent (render4 n)) /\ aval4 n = j /\ ngood4 n
  | Failed i cz => exists e, api_apply4 g indent p doc = Err4 (Some i) e /\ cause_rel cz e
  end.
Proof. exact api_apply4_sim_nocopy. Qed.
Print Assumptions C18_apply_refines_rfc_exact.

(* every patch the reference evaluates successfully avoids the deviations; so does every patch
   whose first failure is not an absent member *)
Theorem C18_applicable_no_deviation : forall d p i doc j,
  rfc_apply_from d i doc p = Done j -> no_deviation d doc p = true.
Proof. exact done_no_deviation. Qed.
Print Assumptions C18_applicable_no_deviation.

Theorem C18_failed_no_deviation : forall d p i doc j cz,
  rfc_apply_from d i doc p = Failed j cz -> cz <> FMissingMember -> no_deviation d doc p = true.
Proof. exact failed_no_deviation. Qed.
Print Assumptions C18_failed_no_deviation.

(* names the scanner accepts satisfy the name condition *)
Theorem C18_names_ok : forall t, tsb t -> tkeys t.
Proof. exact tsb_tkeys. Qed.
Print Assumptions C18_names_ok.

(* non-vacuity of the simulation theorem: a document and a patch with all six operations, a
   negative index, "-", a test of an absent member, a copy of a parsed object: every hypothesis of
   C18_apply_refines_rfc holds, and its conclusion is the success branch *)
Definition C18_exdoc := B "{""a"":{""y"":1,""x"":""hi""},""b"":[1,2]}".
Definition C18_expatch := B "[{""op"":""add"",""path"":""/b/-"",""value"":{""k"":null}},{""op"":""copy"",""from"":""/a"",""path"":""/c""},{""op"":""test"",""path"":""/c"",""value"":{""x"":""hi"",""y"":1}},{""op"":""replace"",""path"":""/b/0"",""value"":7},{""op"":""move"",""from"":""/a/y"",""path"":""/z""},{""op"":""remove"",""path"":""/b/-1""},{""op"":""test"",""path"":""/q"",""value"":null}]".
Definition C18_ext : tjson := match parse C18_exdoc with Some t => t | None => TNull end.
Definition C18_exp : list operation := match api_decode4 C18_expatch with Some p => p | None => [] end.

Ltac utf8_ascii := repeat (first [apply U_nil | apply U_ascii; [reflexivity|]]).

Lemma tok_dom4_name t : t <> [] -> atoi t = None -> canonical_nat t = None -> canonical_neg t = None -> utf8 t -> tok_dom4 t.
Proof.
  intros NE A C1 C2 U. split; [|exact U]. split; [exact NE|]. split.
  - split; intros n H; congruence.
  - split; [intros z H; congruence | exact U].
Qed.

Ltac tok_name := apply tok_dom4_name; [discriminate | reflexivity | reflexivity | reflexivity | utf8_ascii].
Ltac tok_num :=
  split; [|utf8_ascii]; split; [discriminate|]; split;
  [ split; intros n H; vm_compute in H; inversion H; subst; vm_compute; discriminate
  | split; [intros z _; first [left; eexists; reflexivity | right; eexists; reflexivity] | utf8_ascii] ].
Ltac tok_any := first [tok_name | tok_num].
Ltac toks_ok :=
  match goal with |- Forall _ ?l => let l' := eval vm_compute in l in change l with l' end;
  repeat (first [apply Forall_nil | apply Forall_cons; [tok_any|]]).
Ltac ptr_ok_tac := eexists; split; [reflexivity | toks_ok].
Ltac raw4_tac :=
  split; [discriminate|]; split; [reflexivity|]; split; [reflexivity|]; split;
  [ vm_compute; repeat split | vm_compute; repeat split; utf8_ascii ].
Ltac val_good_tac :=
  match goal with |- val_good4 ?op =>
    let v := eval vm_compute in (aget (B "value") op) in
    change (val_good4 op) with (match v with Some (Some t) => raw4 t | _ => True end) end;
  cbv iota beta; first [exact I | raw4_tac].

Lemma C18_ex_dom : Forall op_dom4 C18_exp.
Proof.
  match goal with |- Forall _ ?l => let l' := eval vm_compute in l in change l with l' end.
  repeat (first [apply Forall_nil | apply Forall_cons]).
  all: (split; [val_good_tac|]).
  all: match goal with |- exists path, op_str ?op _ = Ok path /\ _ =>
         let p := eval vm_compute in (op_str op (B "path")) in
         match p with Ok ?pp => exists pp end;
         let k := eval vm_compute in (op_kind op) in
         (split; [vm_compute; reflexivity | change (op_kind op) with k; cbv iota beta])
       end.
  - ptr_ok_tac.
  - split; [ptr_ok_tac|]. eexists. split; [vm_compute; reflexivity | ptr_ok_tac].
  - left. split; [ptr_ok_tac | vm_compute; discriminate].
  - left. ptr_ok_tac.
  - split; [ptr_ok_tac|]. eexists. split; [vm_compute; reflexivity | ptr_ok_tac].
  - ptr_ok_tac.
  - left. split; [ptr_ok_tac | vm_compute; discriminate].
Qed.

(* the run of the example hands no operation value null to deepCopy *)
Lemma C18_ex_clean : forall c, api_start4 C18_ext = Some c -> no_null_copy4 (mkOpts4 true 0 None) (mkState4 c 0) C18_exp = true.
Proof. intros c Hc. vm_compute in Hc. inversion Hc; subst c. vm_compute. reflexivity. Qed.

Example C18_sim_nonvacuous :
  exists n, api_apply4 (mkOpts4 true 0 None) [] C18_exp C18_exdoc = Out4 (output4 [] (render4 n)) /\
            veq (aval4 n) (den (match parse (B "{""a"":{""x"":""hi""},""b"":[7,2],""c"":{""y"":1,""x"":""hi""},""z"":1}") with Some t => t | None => TNull end)) /\
            ngood4 n.
Proof.
  pose proof (C18_apply_refines_rfc (mkOpts4 true 0 None) [] C18_exp C18_exdoc C18_ext) as H.
  assert (R : rfc_apply (d4 (mkOpts4 true 0 None)) (den C18_ext) (map den_op C18_exp) =
              Done (den (match parse (B "{""a"":{""x"":""hi""},""b"":[7,2],""c"":{""y"":1,""x"":""hi""},""z"":1}") with Some t => t | None => TNull end)))
    by (vm_compute; reflexivity).
  rewrite R in H. apply H.
  - reflexivity.
  - vm_compute; reflexivity.
  - reflexivity.
  - vm_compute; reflexivity.
  - vm_compute; repeat split.
  - vm_compute; repeat split; utf8_ascii.
  - exact C18_ex_dom.
  - vm_compute; reflexivity.
  - exact C18_ex_clean.
Qed.
Print Assumptions C18_sim_nonvacuous.

(* ---- byte-level output (V4OutputFacts.v): the bytes the legacy Apply / ApplyIndent return ---- *)
From JP Require Import Scan PrintParse OutputFacts V4OutputFacts.

(* the invariant: every raw message held by the legacy state is made of tokens the reader accepts;
   kept by every operation, for ARBITRARY operations, paths and package variables *)
Theorem C18_step_keeps_tokens : forall g st op st',
  stok4 st -> op_tok op -> step4 g st op = Ok st' -> stok4 st'.
Proof. exact step4_ntok. Qed.
Print Assumptions C18_step_keeps_tokens.

Theorem C18_decoded_patch_tokens : forall bs p, api_decode4 bs = Some p -> Forall op_tok p.
Proof. exact api_decode4_tok. Qed.
Print Assumptions C18_decoded_patch_tokens.

(* every parsed document, every patch whose values are tokens (every decoded patch), every setting of
   the package variables, every indent: the output is output4 of the result tree, which is made of
   tokens; if it nests at most max_depth deep and the indent is white space, the bytes are a JSON
   text that reads back as (the HTML-escaped spelling of) that tree, with the same value; and
   ApplyIndent's output is Indent of Apply's *)
Theorem C18_output_general : forall g indent p doc t out,
  parse doc = Some t -> Forall op_tok p -> api_apply4 g indent p doc = Out4 out ->
  exists tr, result4_tree g p t = Some tr /\ out = output4 indent tr /\ tok tr /\ root_shape tr /\
    ((Text.tdepth tr <= max_depth)%N ->
       (wsb indent = true ->
          parse out = Some (escape_tree true tr) /\ valid_gen out = true /\
          exists t', parse out = Some t' /\ den t' = den tr) /\
       (indent <> [] -> exists out0, api_apply4 g [] p doc = Out4 out0 /\ indent_go indent out0 = Some out)).
Proof. exact api_apply4_output_general. Qed.
Print Assumptions C18_output_general.

(* the tree written for a good node nests as deep as the value it denotes; values equal up to member
   order nest equally deep *)
Theorem C18_render_depth : forall n, ngood4 n -> Text.tdepth (render4 n) = odepth (aval4 n).
Proof. exact render4_depth. Qed.
Print Assumptions C18_render_depth.

Theorem C18_depth_respects_order : forall a b, veq a b -> odepth a = odepth b.
Proof. exact veq_depth. Qed.
Print Assumptions C18_depth_respects_order.

(* in the domain of C18_apply_refines_rfc, for patches whose values are tokens and a white-space
   indent: if the RFC 6902 result nests at most max_depth deep, the bytes returned are a JSON text
   that parses to a value without duplicate names equal, up to member order, to the RFC 6902 result *)
Theorem C18_apply_output_bytes : forall g indent p doc t,
  g_limit g = 0%Z ->
  parse doc = Some t -> root_container t = true -> tnodup t = true -> tplain t -> tkeys t ->
  Forall op_dom4 p -> Forall op_tok p -> no_deviation (d4 g) (den t) (map den_op p) = true ->
  (forall c, api_start4 t = Some c -> no_null_copy4 g (mkState4 c 0) p = true) ->
  wsb indent = true ->
  match rfc_apply (d4 g) (den t) (map den_op p) with
  | Done j =>
      (odepth j <= max_depth)%N ->
      exists out t', api_apply4 g indent p doc = Out4 out /\ parse out = Some t' /\
                     jeq (den t') j = true /\ onodup (den t') = true /\ valid_gen out = true /\
        (indent <> [] -> exists out0, api_apply4 g [] p doc = Out4 out0 /\ indent_go indent out0 = Some out)
  | Failed i cz => exists e, api_apply4 g indent p doc = Err4 (Some i) e /\ cause_rel cz e
  end.
Proof. exact api_apply4_output_bytes. Qed.
Print Assumptions C18_apply_output_bytes.

Theorem C18_apply_output_rfc : forall g indent p doc t j,
  g_limit g = 0%Z ->
  parse doc = Some t -> root_container t = true -> tnodup t = true -> tplain t -> tkeys t ->
  Forall op_dom4 p -> Forall op_tok p -> no_deviation (d4 g) (den t) (map den_op p) = true ->
  (forall c, api_start4 t = Some c -> no_null_copy4 g (mkState4 c 0) p = true) ->
  wsb indent = true ->
  rfc_apply (d4 g) (den t) (map den_op p) = Done j -> (odepth j <= max_depth)%N ->
  exists out t', api_apply4 g indent p doc = Out4 out /\ parse out = Some t' /\ veq (den t') j /\ valid_gen out = true.
Proof. exact api_apply4_output_rfc. Qed.
Print Assumptions C18_apply_output_rfc.

(* non-vacuity: the document and patch of C18_sim_nonvacuous, indented with two spaces *)
Example C18_output_nonvacuous :
  exists out t', api_apply4 (mkOpts4 true 0 None) (B "  ") C18_exp C18_exdoc = Out4 out /\ parse out = Some t' /\
    veq (den t') (den (match parse (B "{""a"":{""x"":""hi""},""b"":[7,2],""c"":{""y"":1,""x"":""hi""},""z"":1}") with Some t => t | None => TNull end)) /\
    valid_gen out = true.
Proof.
  apply (C18_apply_output_rfc (mkOpts4 true 0 None) (B "  ") C18_exp C18_exdoc C18_ext).
  - reflexivity.
  - vm_compute; reflexivity.
  - reflexivity.
  - vm_compute; reflexivity.
  - vm_compute; repeat split.
  - vm_compute; repeat split; utf8_ascii.
  - exact C18_ex_dom.
  - apply (api_decode4_tok C18_expatch). vm_compute. reflexivity.
  - vm_compute; reflexivity.
  - exact C18_ex_clean.
  - reflexivity.
  - vm_compute; reflexivity.
  - vm_compute. intro H; discriminate H.
Qed.
Print Assumptions C18_output_nonvacuous.

Example C18_nonvacuous :
  match api_decode4 (B "[{""op"":""add"",""path"":""/a/-"",""value"":3},{""op"":""copy"",""from"":""/a"",""path"":""/b""},{""op"":""remove"",""path"":""/a/-3""},{""op"":""test"",""path"":""/b"",""value"":[1,2,3]}]") with
  | Some p => api_apply4 (mkOpts4 true 0 None) [] p (B "{""z"":1.50,""a"":[1,2]}") = Out4 (B "{""a"":[2,3],""b"":[1,2,3],""z"":1.50}")
  | None => False
  end.
Proof. vm_compute. reflexivity. Qed.

(* ---- the main theorems applied.  C18_sim_nonvacuous above applies C18_apply_refines_rfc and
   C18_output_nonvacuous applies C18_apply_output_rfc; here every hypothesis of C18_apply_output_bytes (the
   strongest byte-level statement: value equal up to member order AND no repeated name in what is read back)
   is discharged on the same document and seven-operation patch (all six kinds, a negative index, "-", a
   test of an absent member, a copy of a parsed object), indent of two spaces; the reference run is Done,
   its result nests 3 deep. ---- *)
Definition C18_ex_result : ojson :=
  den (match parse (B "{""a"":{""x"":""hi""},""b"":[7,2],""c"":{""y"":1,""x"":""hi""},""z"":1}") with Some t => t | None => TNull end).

Example C18_main_theorem_applies :
  exists out t', api_apply4 (mkOpts4 true 0 None) (B "  ") C18_exp C18_exdoc = Out4 out /\ parse out = Some t' /\
                 jeq (den t') C18_ex_result = true /\ onodup (den t') = true /\ valid_gen out = true /\
    exists out0, api_apply4 (mkOpts4 true 0 None) [] C18_exp C18_exdoc = Out4 out0 /\ indent_go (B "  ") out0 = Some out.
Proof.
  pose proof (C18_apply_output_bytes (mkOpts4 true 0 None) (B "  ") C18_exp C18_exdoc C18_ext) as H.
  assert (R : rfc_apply (d4 (mkOpts4 true 0 None)) (den C18_ext) (map den_op C18_exp) = Done C18_ex_result)
    by (vm_compute; reflexivity).
  rewrite R in H.
  destruct H as [out [t' [H1 [H2 [H3 [H4 [H5 H6]]]]]]].
  - reflexivity.
  - vm_compute; reflexivity.
  - reflexivity.
  - vm_compute; reflexivity.
  - vm_compute; repeat split.
  - vm_compute; repeat split; utf8_ascii.
  - exact C18_ex_dom.
  - apply (C18_decoded_patch_tokens C18_expatch). vm_compute. reflexivity.
  - vm_compute; reflexivity.
  - exact C18_ex_clean.
  - reflexivity.
  - vm_compute. discriminate.
  - exists out, t'. split; [exact H1|]. split; [exact H2|]. split; [exact H3|]. split; [exact H4|]. split; [exact H5|].
    apply H6. discriminate.
Qed.
Print Assumptions C18_main_theorem_applies.

(* ---- the index arithmetic of the legacy partialArray.get/set/add/remove RE-TRANSLATED from the root
   patch.go on every run (tools/goidx4v -> gen/IndexGen4.v: Go int arithmetic with 64-bit wrap-around, a
   bounds test before every index and slice expression) and proved equal to the model (IndexTie4.v) for
   every token, both settings of SupportNegativeIndices and every array shorter than 2^63 ---- *)
From JP Require IndexTie4.
From JP.gen Require IndexGen4.

Theorem C18_go_get_is_model : forall g ns key,
  (zlen ns <= int64_max)%Z ->
  con4_get g (DAry ns) key =
  IndexTie4.res_node4 ns (IndexGen4.idx4_get_gen (g_neg g) (zlen ns) (atoi key) (bseq key)).
Proof. exact IndexTie4.con4_get_tie. Qed.
Print Assumptions C18_go_get_is_model.

Theorem C18_go_set_is_model : forall g ns key v,
  (zlen ns <= int64_max)%Z ->
  con4_set g (DAry ns) key v =
  IndexTie4.res_con4 ns v (IndexGen4.idx4_set_gen (g_neg g) (zlen ns) (atoi key) (bseq key)).
Proof. exact IndexTie4.con4_set_tie. Qed.
Print Assumptions C18_go_set_is_model.

Theorem C18_go_add_is_model : forall g ns key v,
  (zlen ns < int64_max)%Z ->
  con4_add g (DAry ns) key v =
  IndexTie4.res_con4 ns v (IndexGen4.idx4_add_gen (g_neg g) (zlen ns) (atoi key) (bseq key)).
Proof. exact IndexTie4.con4_add_tie. Qed.
Print Assumptions C18_go_add_is_model.

Theorem C18_go_remove_is_model : forall g ns key,
  (zlen ns <= int64_max)%Z ->
  con4_remove g (DAry ns) key =
  IndexTie4.res_con4 ns NNil (IndexGen4.idx4_remove_gen (g_neg g) (zlen ns) (atoi key) (bseq key)).
Proof. exact IndexTie4.con4_remove_tie. Qed.
Print Assumptions C18_go_remove_is_model.

(* the legacy set indexes out of range exactly for idx >= len — and replace, its only caller, asks get first *)
Theorem C18_set_panics_iff : forall g ns key v,
  con4_set g (DAry ns) key v = Panic <-> exists idx, atoi key = Some idx /\ (zlen ns <= idx)%Z.
Proof. exact IndexTie4.con4_set_panic_iff. Qed.
Print Assumptions C18_set_panics_iff.

Theorem C18_replace_never_reaches_it : forall g v c key, fst (IndexTie4.replace4_body g v c key) <> Panic.
Proof. exact IndexTie4.replace4_body_never_panics. Qed.
Print Assumptions C18_replace_never_reaches_it.

Theorem C18_replace_is_that_body : forall g st op b r,
  op_kind op = KReplace -> op_str op (B "path") = Ok (b :: r) ->
  step4 g st op =
  lift4 (find4 g (r4 st) (b :: r)
           (IndexTie4.replace4_body g (match op_value4 op with Some v => v | None => NNil end))) st
        (fun _ c2 => Ok (mkState4 c2 (acc4 st))).
Proof. exact IndexTie4.step4_replace_is_body. Qed.
Print Assumptions C18_replace_is_that_body.

(* ---- outputs are valid UTF-8 given UTF-8 input (Utf8Out.v), legacy Apply / ApplyIndent ---- *)
From JP Require Utf8Out.
Theorem C18_apply_output_utf8 : forall g indent p doc out,
  Utf8Out.utf8_text doc -> Forall Utf8Out.op_utf8 p -> Utf8Out.utf8_text indent ->
  api_apply4 g indent p doc = Out4 out -> Utf8Out.utf8_text out.
Proof. exact Utf8Out.api_apply4_utf8. Qed.
Print Assumptions C18_apply_output_utf8.
