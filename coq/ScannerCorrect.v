(* ScannerCorrect.v — the reference automaton (ScannerRef.v, proved equal to the scanner translated
   from scanner.go in ScannerTie.v) accepts exactly the texts the independent RFC 8259 reader
   Text.parse accepts: Valid(bs) <-> exists t, parse bs = Some t, for every byte string. *)
From Coq Require Import Lia.
From JP Require Import Bytes Json Text Scan ScannerRef ScannerTie.
From JP.gen Require Import ScannerGen.

(* ---- the automaton on (state, stack) ---- *)
Definition is_endtop (x : st) : bool := match x with St_stateEndTop => true | _ => false end.
Definition canon (x : st) (stk : list ps) : scanner := mkScanner x (is_endtop x) stk false.

Definition astep (x : st) (stk : list ps) (c : byte) : option (st * list ps) :=
  let s' := fst (ref_step (canon x stk) c) in
  if err s' then None else Some (step s', parseState s').

Fixpoint arun (x : st) (stk : list ps) (bs : bytes) : option (st * list ps) :=
  match bs with
  | [] => Some (x, stk)
  | c :: r => match astep x stk c with Some (x', stk') => arun x' stk' r | None => None end
  end.

Definition aaccept (x : st) (stk : list ps) : bool :=
  is_endtop x || match astep x stk x20 with Some (x', _) => is_endtop x' | None => false end.

Definition avalid (bs : bytes) : bool :=
  match arun St_stateBeginValue [] bs with Some (x, stk) => aaccept x stk | None => false end.

(* well-formed scanner records: no error, and endTop exactly in state EndTop *)
Definition swf (s : scanner) : Prop := err s = false /\ endTop s = is_endtop (step s).

Lemma swf_canon s : swf s -> s = canon (step s) (parseState s).
Proof. destruct s as [x et stk er]. unfold swf, canon. simpl. intros [-> ->]. reflexivity. Qed.

(* one step: an erroneous result either stops the loop (scanError) or poisons it (err set, state
   Error); endTop is set exactly on entering state EndTop *)
Definition is_error (x : st) : bool := match x with St_stateError => true | _ => false end.

Definition is_sp (c : byte) : bool := match c with x20 => true | _ => false end.

Definition step_ok (x : st) (c : byte) (r : scanner * Z) : bool :=
  (if err (fst r)
   then is_error (step (fst r)) && (negb (is_sp c) || Bool.eqb (endTop (fst r)) (is_endtop x))
   else Bool.eqb (endTop (fst r)) (is_endtop (step (fst r))) && negb (is_error (step (fst r)))) &&
  (negb (snd r =? scanError)%Z || err (fst r)).

Lemma ref_step_ok x stk c : is_error x = false -> step_ok x c (ref_step (canon x stk) c) = true.
Proof.
  unfold canon. destruct x; try discriminate; intros _; destruct stk as [|[] [|q l]]; destruct c;
    first [ reflexivity
          | cbn; unfold scanner_pushParseState, scanner_popParseState; cbn;
            repeat match goal with |- context [if ?b then _ else _] => destruct b end; reflexivity ].
Qed.

Lemma ref_step_canon x stk c :
  is_error x = false ->
  let r := ref_step (canon x stk) c in
  (if err (fst r)
   then is_error (step (fst r)) = true /\ (c = x20 -> endTop (fst r) = is_endtop x)
   else swf (fst r) /\ is_error (step (fst r)) = false) /\
  ((snd r =? scanError)%Z = true -> err (fst r) = true).
Proof.
  intro NE. cbv zeta. pose proof (ref_step_ok x stk c NE) as H. unfold step_ok in H. apply andb_prop in H as [H1 H2].
  destruct (ref_step (canon x stk) c) as [s' op]. cbn [fst snd] in *. split.
  - destruct (err s') eqn:E; apply andb_prop in H1 as [H1 H3].
    + split; [exact H1 | intros ->; apply Bool.eqb_prop in H3; exact H3].
    + split; [split; [exact E | apply Bool.eqb_prop in H1; exact H1]|]. destruct (is_error (step s')); [discriminate | reflexivity].
  - intro Q. rewrite Q in H2. simpl in H2. exact H2.
Qed.

(* ---- the loop of checkValid over the translated scanner is the run of the automaton ---- *)
Definition gen_accepts_from (s : scanner) (bs : bytes) : bool :=
  match check_loop s bs with
  | None => false
  | Some s' => negb (snd (scanner_eof s') =? scanError)%Z
  end.

Lemma dead_scanner s bs : err s = true -> step s = St_stateError -> gen_accepts_from s bs = false.
Proof.
  intros E X. unfold gen_accepts_from. destruct bs as [|c r].
  - cbn [check_loop]. rewrite eof_eq_ref. unfold ref_accepts_at_eof. now rewrite E.
  - cbn [check_loop]. rewrite X. reflexivity.
Qed.

Lemma gen_accepts_arun : forall bs s,
  swf s -> is_error (step s) = false ->
  gen_accepts_from s bs =
  match arun (step s) (parseState s) bs with Some (x, stk) => aaccept x stk | None => false end.
Proof.
  induction bs as [|c r IH]; intros s W NE.
  - unfold gen_accepts_from. cbn [check_loop arun]. rewrite eof_eq_ref. unfold ref_accepts_at_eof, aaccept, astep.
    pose proof (swf_canon s W) as Cs. destruct W as [W1 W2]. rewrite W1, W2.
    destruct (is_endtop (step s)) eqn:ET; [reflexivity|]. cbn [orb].
    pose proof (ref_step_canon (step s) (parseState s) x20 NE) as [R1 _]. rewrite <- Cs in R1. cbv zeta in R1.
    rewrite <- Cs. destruct (err (fst (ref_step s x20))).
    + destruct R1 as [_ R1]. rewrite (R1 eq_refl). exact ET.
    + destruct R1 as [[_ R1] _]. exact R1.
  - unfold gen_accepts_from. cbn [check_loop arun]. rewrite gen_eq_ref. unfold astep.
    pose proof (swf_canon s W) as Cs.
    pose proof (ref_step_canon (step s) (parseState s) c NE) as [R1 R2]. rewrite <- Cs in R1, R2. cbv zeta in R1, R2.
    rewrite <- Cs. destruct (ref_step s c) as [s' op] eqn:E. cbn [fst snd] in *.
    destruct (op =? scanError)%Z eqn:Op.
    + rewrite (R2 eq_refl). reflexivity.
    + destruct (err s') eqn:Es.
      * destruct R1 as [R1 _]. fold (gen_accepts_from s' r). apply dead_scanner; auto.
        destruct (step s'); try discriminate; reflexivity.
      * destruct R1 as [R1 R3]. fold (gen_accepts_from s' r). apply IH; auto.
Qed.

Theorem valid_gen_avalid bs : valid_gen bs = avalid bs.
Proof.
  unfold valid_gen, avalid. change (match check_loop scanner0 bs with None => false | Some s => negb (snd (scanner_eof s) =? scanError)%Z end)
    with (gen_accepts_from scanner0 bs).
  rewrite gen_accepts_arun; [reflexivity | split; reflexivity | reflexivity].
Qed.
