(* CreateImpl.v -- the Go algorithm of CreateMergePatch (v5/merge.go: matchesValue, matchesArray,
   getDiff, createObjectMergePatch), modelled step by step over decoded values, and proved equal
   to the reference functions jeq / diff (Json.v, Rfc7396.v) by which ImplMerge.create_object is
   defined.

   Reading of the Go data.  createObjectMergePatch decodes both documents with
   json.UnmarshalValid into map[string]interface{} (internal/json/decode.go sets d.useNumber = true,
   so a number is a json.Number holding the literal; never a float64).  The dynamic types that
   occur are therefore: nil, bool, json.Number, string, []interface{}, map[string]interface{}.
   A decoded value is an ojson; OObj ms is read as a Go map whose iteration order is the order of
   the list ms (MergeOrder.v: the result does not depend on that order up to jeq; see
   get_diff_go_any_order below).  A Go map has no duplicate keys: that is the hypothesis onodup.
   into[key] = v on the result map is aset key v into.

   No axioms. *)
From Coq Require Import Lia Permutation.
From JP Require Import Bytes Json Text Strings Den ImplV5 ImplMerge Rfc7396 DecodeFacts JsonFacts MergeFacts
  Codec CreateFacts MergeOrder.

(* ---- reflect.TypeOf ---- *)
(* the dynamic types the type switches of merge.go mention, and GOther for every other Go type
   (the default branch of the switch in getDiff) *)
Inductive gotype := GNil | GBool | GNumber | GFloat64 | GString | GSlice | GMap | GOther.

Definition go_type_of (j : ojson) : gotype :=
  match j with
  | ONull => GNil
  | OBool _ => GBool
  | ONum _ => GNumber            (* json.Number: useNumber is set *)
  | OStr _ => GString
  | OArr _ => GSlice
  | OObj _ => GMap
  end.

Definition gotype_eqb (s t : gotype) : bool :=
  match s, t with
  | GNil, GNil | GBool, GBool | GNumber, GNumber | GFloat64, GFloat64
  | GString, GString | GSlice, GSlice | GMap, GMap | GOther, GOther => true
  | _, _ => false
  end.

(* reflect.TypeOf(av) == reflect.TypeOf(bv) *)
Definition go_same_type (a b : ojson) : bool := gotype_eqb (go_type_of a) (go_type_of b).

(* ---- matchesValue / matchesArray ---- *)
Section MatchLoops.
  Variable rec : ojson -> ojson -> bool.      (* matchesValue, for the recursive calls *)

  (* for key := range bt { av, aOK := at[key]; bv, bOK := bt[key]; ... }
     key ranges over the entries of bt, so bOK is true and bv is the entry's value *)
  Fixpoint mv_members (am : list (bytes * ojson)) (es : list (bytes * ojson)) {struct es} : bool :=
    match es with
    | [] => true                                         (* return true *)
    | (key, bv) :: rest =>
        match aget key am with
        | None => false                                  (* aOK != bOK *)
        | Some av =>
            if negb (rec av bv) then false               (* !matchesValue(av, bv) *)
            else mv_members am rest
        end
    end.

  (* for i := range a { if !matchesValue(a[i], b[i]) { return false } }; return true
     (run only when len(a) == len(b), so b[i] is in range) *)
  Fixpoint ma_loop (a b : list ojson) {struct b} : bool :=
    match a, b with
    | x :: a', y :: b' => if negb (rec x y) then false else ma_loop a' b'
    | _, _ => true
    end.
End MatchLoops.

Fixpoint matches_value_go (av bv : ojson) {struct bv} : bool :=
  if negb (go_same_type av bv) then false                (* reflect.TypeOf(av) != reflect.TypeOf(bv) *)
  else
    match av with                                        (* switch at := av.(type) *)
    | OStr am => match bv with OStr bm => bseq bm am | _ => false end     (* bt == at; else falls to return false *)
    | ONum am => match bv with ONum bm => bseq bm am | _ => false end     (* json.Number: string comparison *)
    (* case float64: no decoded value has this type *)
    | OBool am => match bv with OBool bm => Bool.eqb bm am | _ => false end
    | ONull => true
    | OObj am =>
        match bv with
        | OObj bm =>
            if negb (length bm =? length am)%nat then false               (* len(bt) != len(at) *)
            else mv_members matches_value_go am bm
        | _ => false
        end
    | OArr am =>
        match bv with
        | OArr bm =>
            (* matchesArray(at, bt), inlined for the termination checker; see matches_array_go *)
            if negb (length am =? length bm)%nat then false
            else ma_loop matches_value_go am bm
        | _ => false
        end
    end.

(* matchesArray.  Its second test, (a == nil && b != nil) || (a != nil && b == nil), cannot fire:
   a decoded JSON array is built by arrayInterface from make([]any, 0) and is never a nil slice,
   so both sides of each conjunction are false.  Nothing is modelled for it. *)
Definition matches_array_go (a b : list ojson) : bool :=
  if negb (length a =? length b)%nat then false          (* len(a) != len(b) *)
  else ma_loop matches_value_go a b.

(* ---- getDiff ---- *)
Inductive gores :=
| GoMap (into : list (bytes * ojson))      (* return into, nil *)
| GoPanic.                                 (* panic: the default branch, or a failed type assertion *)

(* for key := range a { _, found := b[key]; if !found { into[key] = nil } } *)
Fixpoint gd_loop2 (bm : list (bytes * ojson)) (es : list (bytes * ojson)) (into : list (bytes * ojson))
  : list (bytes * ojson) :=
  match es with
  | [] => into
  | (key, _) :: rest =>
      if amem key bm then gd_loop2 bm rest into
      else gd_loop2 bm rest (aset key ONull into)
  end.

Section DiffLoop.
  Variable rec : ojson -> ojson -> gores.    (* getDiff, for the recursive call *)
  Variable am : list (bytes * ojson).        (* the map a *)

  (* for key, bv := range b { ... } *)
  Fixpoint gd_loop1 (es : list (bytes * ojson)) (into : list (bytes * ojson)) {struct es} : gores :=
    match es with
    | [] => GoMap into
    | (key, bv) :: rest =>
        match aget key am with                                   (* av, ok := a[key] *)
        | None => gd_loop1 rest (aset key bv into)               (* value was added *)
        | Some av =>
            if negb (go_same_type av bv) then gd_loop1 rest (aset key bv into)   (* types have changed *)
            else
              match go_type_of av with                           (* switch at := av.(type) *)
              | GMap =>
                  match rec av bv with                           (* bt := bv.(map...); dst, err := getDiff(at, bt) *)
                  | GoPanic => GoPanic
                  | GoMap dst =>
                      if (0 <? length dst)%nat then gd_loop1 rest (aset key (OObj dst) into)
                      else gd_loop1 rest into
                  end
              | GString | GFloat64 | GBool | GNumber =>
                  if negb (matches_value_go av bv) then gd_loop1 rest (aset key bv into)
                  else gd_loop1 rest into
              | GSlice =>
                  match av, bv with
                  | OArr al, OArr bl =>                          (* bt := bv.([]interface{}) *)
                      if negb (matches_array_go al bl) then gd_loop1 rest (aset key bv into)
                      else gd_loop1 rest into
                  | _, _ => GoPanic                              (* failed type assertion *)
                  end
              | GNil =>
                  match go_type_of bv with                       (* switch bv.(type) *)
                  | GNil => gd_loop1 rest into                   (* both nil, fine *)
                  | _ => gd_loop1 rest (aset key bv into)
                  end
              | GOther => GoPanic                                (* default: panic("Unknown type ...") *)
              end
        end
    end.
End DiffLoop.

(* getDiff(a, b).  Its error result is always nil (the only error it could return is one returned
   by a recursive call), so only the map and the panic are modelled.  On two values that are not
   both maps the call does not exist in Go: the type assertion bv.(map[string]interface{}) that
   precedes it would panic. *)
Fixpoint get_diff_go (a b : ojson) {struct b} : gores :=
  match a, b with
  | OObj am, OObj bm =>
      match gd_loop1 get_diff_go am bm [] with
      | GoPanic => GoPanic
      | GoMap into => GoMap (gd_loop2 bm am into)
      end
  | _, _ => GoPanic
  end.

(* ---- sanity checks on concrete values ---- *)
Example matches_value_go_ex1 :
  matches_value_go
    (OObj [(B "a", OArr [ONum (B "1"); OObj [(B "b", ONull)]]); (B "c", OStr (B "x"))])
    (OObj [(B "c", OStr (B "x")); (B "a", OArr [ONum (B "1"); OObj [(B "b", ONull)]])]) = true.
Proof. vm_compute. reflexivity. Qed.

(* numbers are compared as json.Number, i.e. by their literal; a missing key; a longer array *)
Example matches_value_go_ex2 :
  matches_value_go (ONum (B "1")) (ONum (B "1.0")) = false /\
  matches_value_go (OObj [(B "a", ONull)]) (OObj [(B "b", ONull)]) = false /\
  matches_value_go (OArr [ONull]) (OArr [ONull; ONull]) = false /\
  matches_value_go (OArr []) (OObj []) = false.
Proof. vm_compute. repeat split; reflexivity. Qed.

Example get_diff_go_ex :
  let a := OObj [(B "a", OObj [(B "x", ONum (B "1.0")); (B "y", ONum (B "2"))]); (B "k", OStr (B "s"));
                 (B "n", ONum (B "1e400")); (B "same", OObj [(B "z", OArr [ONull])])] in
  let b := OObj [(B "n", ONum (B "1e400")); (B "same", OObj [(B "z", OArr [ONull])]);
                 (B "a", OObj [(B "x", ONum (B "1")); (B "w", OArr [ONum (B "12345678901234567890123")])])] in
  get_diff_go a b =
    GoMap [(B "a", OObj [(B "x", ONum (B "1")); (B "w", OArr [ONum (B "12345678901234567890123")]); (B "y", ONull)]);
           (B "k", ONull)] /\
  OObj (match get_diff_go a b with GoMap ms => ms | GoPanic => [] end) = diff a b.
Proof. vm_compute. split; reflexivity. Qed.

(* ---- unfolding ---- *)
Lemma matches_value_go_obj am bm :
  matches_value_go (OObj am) (OObj bm) =
  if negb (length bm =? length am)%nat then false else mv_members matches_value_go am bm.
Proof. reflexivity. Qed.

(* the array case of matchesValue is the call matchesArray(at, bt) *)
Lemma matches_value_go_arr al bl : matches_value_go (OArr al) (OArr bl) = matches_array_go al bl.
Proof. reflexivity. Qed.

Lemma get_diff_go_obj am bm :
  get_diff_go (OObj am) (OObj bm) =
  match gd_loop1 get_diff_go am bm [] with
  | GoPanic => GoPanic
  | GoMap into => GoMap (gd_loop2 bm am into)
  end.
Proof. reflexivity. Qed.

(* ---- (a) matchesValue is jeq ---- *)
(* matchesValue ranges over the keys of its SECOND argument and looks them up in the first; jeq
   ranges over the members of its first argument and looks them up in the second.  So, with no
   hypothesis at all, matchesValue(a, b) is jeq b a. *)
Theorem matches_value_go_swap b : forall a, matches_value_go a b = jeq b a.
Proof.
  induction b using ojson_rect'; intro a; destruct a as [|x|x|x|al|am]; try reflexivity.
  - rename l into bl. rewrite matches_value_go_arr, jeq_arr. unfold matches_array_go.
    revert al. induction H as [|y bl Hy _ IH]; intros [|x al]; try reflexivity.
    cbn [length Nat.eqb ma_loop jeq_list]. rewrite Hy. specialize (IH al).
    destruct (length al =? length bl)%nat; cbn [negb] in *.
    + rewrite IH. destruct (jeq y x); reflexivity.
    + rewrite <- IH. rewrite andb_false_r. reflexivity.
  - rename ms into bm. rewrite matches_value_go_obj, jeq_obj.
    assert (E : mv_members matches_value_go am bm = jeq_members bm am).
    { induction H as [|[key bv] bm Hbv _ IH]; [reflexivity|]. cbn [mv_members jeq_members].
      destruct (aget key am) as [av|]; [|reflexivity]. cbn [snd] in Hbv. rewrite Hbv, IH.
      destruct (jeq bv av); reflexivity. }
    rewrite E. destruct (length bm =? length am)%nat; reflexivity.
Qed.

Lemma jeq_sym_eq a b : onodup a = true -> onodup b = true -> jeq a b = jeq b a.
Proof.
  intros Na Nb. destruct (jeq a b) eqn:E1, (jeq b a) eqn:E2; try reflexivity.
  - rewrite (jeq_sym a b Na Nb E1) in E2. discriminate E2.
  - rewrite (jeq_sym b a Nb Na E2) in E1. discriminate E1.
Qed.

(* on Go maps (no duplicate keys) matchesValue is jeq *)
Theorem matches_value_go_jeq a b : onodup a = true -> onodup b = true -> matches_value_go a b = jeq a b.
Proof. intros Na Nb. rewrite matches_value_go_swap. apply jeq_sym_eq; assumption. Qed.

Theorem matches_array_go_jeq al bl :
  onodup (OArr al) = true -> onodup (OArr bl) = true -> matches_array_go al bl = jeq (OArr al) (OArr bl).
Proof. intros Na Nb. rewrite <- matches_value_go_arr. apply matches_value_go_jeq; assumption. Qed.

(* the hypothesis is needed: on association lists with a repeated name (not Go maps) the two
   directions of lookup disagree *)
Example matches_value_go_jeq_needs_nodup :
  let a := OObj [(B "x", ONum (B "1")); (B "x", ONum (B "1"))] in
  let b := OObj [(B "x", ONum (B "1")); (B "y", ONum (B "2"))] in
  jeq a b = true /\ matches_value_go a b = false /\ onodup a = false /\ onodup b = true.
Proof. vm_compute. repeat split; reflexivity. Qed.

(* ---- (b) getDiff is diff ---- *)
Lemma aset_fresh {A} k (v : A) m : ~ In k (map fst m) -> aset k v m = m ++ [(k, v)].
Proof.
  induction m as [|[k' v'] m IH]; simpl; intro H; [reflexivity|].
  destruct (bseq k k') eqn:E.
  - apply bseq_eq in E. subst. exfalso. apply H. now left.
  - f_equal. apply IH. intro Hin. apply H. now right.
Qed.

Definition gd_ok (bv : ojson) : Prop :=
  forall a, onodup a = true -> onodup bv = true -> is_obj a = true -> is_obj bv = true ->
    get_diff_go a bv = GoMap (members_of (diff a bv)).

Lemma gd_loop1_spec am : Forall (fun kv => onodup (snd kv) = true) am ->
  forall bm, Forall (fun kv => gd_ok (snd kv)) bm -> NoDup (map fst bm) ->
  Forall (fun kv => onodup (snd kv) = true) bm ->
  forall into, (forall k, In k (map fst bm) -> ~ In k (map fst into)) ->
  gd_loop1 get_diff_go am bm into = GoMap (into ++ diff_members am bm).
Proof.
  intros Na bm. induction bm as [|[key bv] bm IH]; intros G N Nb into D.
  - cbn. rewrite app_nil_r. reflexivity.
  - inversion G as [|? ? Gbv G']; subst. inversion N as [|? ? Nk N']; subst.
    inversion Nb as [|? ? Nbv Nb']; subst. cbn [snd fst map] in *.
    assert (Fresh : ~ In key (map fst into)) by (apply D; now left).
    assert (Step : forall v, gd_loop1 get_diff_go am bm (aset key v into) =
                             GoMap (into ++ (key, v) :: diff_members am bm)).
    { intro v. rewrite aset_fresh by exact Fresh. rewrite IH; auto.
      - rewrite <- app_assoc. reflexivity.
      - intros k Hk. rewrite map_app, in_app_iff. cbn. intros [Hi|[Hi|[]]].
        + apply (D k); [now right | exact Hi].
        + subst. contradiction. }
    assert (Skip : gd_loop1 get_diff_go am bm into = GoMap (into ++ diff_members am bm)).
    { apply IH; auto. intros k Hk. apply D. now right. }
    cbn [gd_loop1 diff_members].
    destruct (aget key am) as [av|] eqn:Ea; [|apply Step].
    assert (Nav : onodup av = true).
    { apply aget_In in Ea. rewrite Forall_forall in Na. apply (Na _ Ea). }
    pose proof (matches_value_go_jeq av bv Nav Nbv) as MV.
    destruct av as [|x|x|x|al|am'], bv as [|y|y|y|bl|bm'];
      try (cbn [go_same_type go_type_of gotype_eqb negb]; rewrite <- MV;
           cbn [matches_value_go go_same_type go_type_of gotype_eqb negb];
           first [apply Step | exact Skip
                 | match goal with |- context [negb ?c] => destruct c end; cbn [negb]; [exact Skip | apply Step]];
           fail).
    + cbn [go_same_type go_type_of gotype_eqb negb]. rewrite <- MV, matches_value_go_arr.
      destruct (matches_array_go al bl); cbn [negb]; [exact Skip | apply Step].
    + cbn [go_same_type go_type_of gotype_eqb negb].
      rewrite (Gbv (OObj am') Nav Nbv eq_refl eq_refl).
      destruct (diff_is_obj am' bm') as [dst Ed]. rewrite Ed. cbn [members_of].
      destruct dst as [|e dst]; cbn [length Nat.ltb Nat.leb]; [exact Skip | apply Step].
Qed.

Lemma gd_loop2_spec bm am : NoDup (map fst am) -> forall into,
  (forall k, In k (map fst am) -> amem k bm = false -> ~ In k (map fst into)) ->
  gd_loop2 bm am into = into ++ diff_dels am bm.
Proof.
  unfold diff_dels. induction am as [|[key av] am IH]; intros N into D.
  - cbn. now rewrite app_nil_r.
  - inversion N as [|? ? Nk N']; subst. cbn [gd_loop2 filter map fst].
    destruct (amem key bm) eqn:M; cbn [negb].
    + apply IH; auto. intros k Hk. apply D. now right.
    + cbn [map fst]. rewrite aset_fresh by (apply D; [now left | exact M]).
      rewrite IH; auto.
      * rewrite <- app_assoc. reflexivity.
      * intros k Hk Mk. rewrite map_app, in_app_iff. cbn. intros [Hi|[Hi|[]]].
        -- apply (D k); [now right | exact Mk | exact Hi].
        -- subst. contradiction.
Qed.

Theorem get_diff_go_spec b : gd_ok b.
Proof.
  unfold gd_ok. induction b using ojson_rect'; intros a Na Nb Oa Ob; try discriminate Ob.
  apply is_obj_true in Oa as [am ->]. rename ms into bm.
  rewrite diff_obj, get_diff_go_obj. cbn [members_of].
  apply onodup_obj in Na as [Na1 Na2]. apply onodup_obj in Nb as [Nb1 Nb2].
  rewrite (gd_loop1_spec am Na2 bm H Nb1 Nb2 []) by (intros k _ []).
  cbn [app]. f_equal. apply gd_loop2_spec; auto.
  intros k Hk M Hin. apply diff_members_keys in Hin. apply amem_In in Hin. congruence.
Qed.

Lemma diff_members_of a b : is_obj a = true -> is_obj b = true -> OObj (members_of (diff a b)) = diff a b.
Proof.
  intros Oa Ob. apply is_obj_true in Oa as [am ->]. apply is_obj_true in Ob as [bm ->].
  rewrite diff_obj. reflexivity.
Qed.

(* the statement asked for: on two Go maps, getDiff returns (never panics) and the map it returns
   is EXACTLY the reference difference, member order included, when the maps are visited in list
   order *)
Theorem get_diff_go_diff am bm :
  onodup (OObj am) = true -> onodup (OObj bm) = true ->
  get_diff_go (OObj am) (OObj bm) = GoMap (members_of (diff (OObj am) (OObj bm))).
Proof. intros Na Nb. apply get_diff_go_spec; auto. Qed.

Definition gores_value (r : gores) : option ojson :=
  match r with GoMap ms => Some (OObj ms) | GoPanic => None end.

Theorem get_diff_go_diff_value a b :
  onodup a = true -> onodup b = true -> is_obj a = true -> is_obj b = true ->
  gores_value (get_diff_go a b) = Some (diff a b).
Proof.
  intros Na Nb Oa Ob. rewrite (get_diff_go_spec b a Na Nb Oa Ob). cbn [gores_value].
  rewrite diff_members_of by assumption. reflexivity.
Qed.

(* the hypotheses are needed (on lists that are not Go maps into[key] = v overwrites, the reference
   appends): a repeated name in b; a repeated name in a *)
Example get_diff_go_diff_needs_nodup_b :
  let a := OObj [] in
  let b := OObj [(B "x", ONum (B "1")); (B "x", ONum (B "2"))] in
  get_diff_go a b = GoMap [(B "x", ONum (B "2"))] /\
  diff a b = OObj [(B "x", ONum (B "1")); (B "x", ONum (B "2"))].
Proof. vm_compute. split; reflexivity. Qed.

Example get_diff_go_diff_needs_nodup_a :
  let a := OObj [(B "x", ONum (B "1")); (B "x", ONum (B "1"))] in
  let b := OObj [] in
  get_diff_go a b = GoMap [(B "x", ONull)] /\
  diff a b = OObj [(B "x", ONull); (B "x", ONull)].
Proof. vm_compute. split; reflexivity. Qed.

(* Go visits the members of its maps in an arbitrary order, at every depth.  Any such order is an
   operm-variant of the decoded values; getDiff then still returns, and what it returns is the
   reference difference as a value (jeq; MergeOrder.diff_operm).  The output text is produced by
   json.Marshal, which sorts member names (encode_sorted), so the visiting order is not
   observable. *)
Lemma operm_is_obj a a' : operm a a' -> is_obj a = true -> is_obj a' = true.
Proof. intros P O. destruct a; try discriminate O. inversion P; subst. reflexivity. Qed.

Theorem get_diff_go_any_order a a' b b' :
  operm a a' -> operm b b' -> onodup a = true -> onodup b = true -> is_obj a = true -> is_obj b = true ->
  exists ms, get_diff_go a' b' = GoMap ms /\ onodup (OObj ms) = true /\ jeq (diff a b) (OObj ms) = true.
Proof.
  intros Pa Pb Na Nb Oa Ob.
  pose proof (operm_onodup _ _ Pa Na) as Na'. pose proof (operm_onodup _ _ Pb Nb) as Nb'.
  pose proof (operm_is_obj _ _ Pa Oa) as Oa'. pose proof (operm_is_obj _ _ Pb Ob) as Ob'.
  exists (members_of (diff a' b')). split; [apply get_diff_go_spec; assumption|].
  rewrite diff_members_of by assumption. split; [apply diff_nodup; assumption|].
  apply diff_operm; assumption.
Qed.

(* ---- 4. the panic branch of getDiff is dead code on decoded JSON ---- *)
(* default: panic(...) is taken when the dynamic type of av is none of map, string, float64, bool,
   json.Number, []interface{}, nil.  A decoded value has one of six of these types (never float64,
   because useNumber is set; never anything else). *)
Lemma go_type_of_decoded j : go_type_of j <> GOther /\ go_type_of j <> GFloat64.
Proof. destruct j; split; discriminate. Qed.

(* the type assertions bv.(T) that follow a successful type test never fail *)
Lemma go_same_type_constructor a b :
  go_same_type a b = true ->
  match a, b with
  | ONull, ONull | OBool _, OBool _ | ONum _, ONum _ | OStr _, OStr _ | OArr _, OArr _ | OObj _, OObj _ => True
  | _, _ => False
  end.
Proof. destruct a, b; intro H; try discriminate H; exact I. Qed.

Definition gd_total (bv : ojson) : Prop :=
  forall a, is_obj a = true -> is_obj bv = true -> exists ms, get_diff_go a bv = GoMap ms.

Lemma gd_loop1_total am bm : Forall (fun kv => gd_total (snd kv)) bm ->
  forall into, exists ms, gd_loop1 get_diff_go am bm into = GoMap ms.
Proof.
  induction 1 as [|[key bv] bm Hbv _ IH]; intro into; [eexists; reflexivity|].
  cbn [gd_loop1 snd] in *. destruct (aget key am) as [av|]; [|apply IH].
  destruct av as [|x|x|x|al|am'], bv as [|y|y|y|bl|bm'];
    cbn [go_same_type go_type_of gotype_eqb negb]; try apply IH;
    try (match goal with |- context [negb ?c] => destruct c end; cbn [negb]; apply IH).
  destruct (Hbv (OObj am') eq_refl eq_refl) as [dst E]. rewrite E.
  destruct (0 <? length dst)%nat; apply IH.
Qed.

(* no hypothesis about duplicate names is needed here *)
Theorem get_diff_go_total b : gd_total b.
Proof.
  unfold gd_total. induction b using ojson_rect'; intros a Oa Ob; try discriminate Ob.
  apply is_obj_true in Oa as [am ->]. rewrite get_diff_go_obj.
  destruct (gd_loop1_total am ms H []) as [into E]. rewrite E. eexists. reflexivity.
Qed.

Theorem get_diff_go_no_panic am bm : get_diff_go (OObj am) (OObj bm) <> GoPanic.
Proof. destruct (get_diff_go_total (OObj bm) (OObj am) eq_refl eq_refl) as [ms E]. rewrite E. discriminate. Qed.

(* ---- (c) createObjectMergePatch / CreateMergePatch with the Go-shaped getDiff ---- *)
Inductive cres :=
| COut (p : tjson)       (* json.Marshal(dest) *)
| CErr                   (* ErrBadJSONDoc *)
| CPanic.

(* as ImplMerge.create_object, with getDiff in the place of the reference diff.  as_obj
   (CreateFacts.v) is the unmarshalling into map[string]interface{}: an object gives its map,
   null leaves the map empty, anything else is an error. *)
Definition create_object_go (a b : tjson) : cres :=
  match as_obj a, as_obj b with
  | Some oa, Some ob =>
      match get_diff_go oa ob with
      | GoMap into => COut (encode_sorted (OObj into))
      | GoPanic => CPanic
      end
  | _, _ => CErr
  end.

Definition cres_of (r : option tjson) : cres := match r with Some p => COut p | None => CErr end.

Lemma as_obj_props t o : as_obj t = Some o -> tnodup t = true -> onodup o = true /\ is_obj o = true.
Proof.
  destruct t; intro E; try discriminate E; inversion E; subst; intro N.
  - split; reflexivity.
  - split; [exact N | reflexivity].
Qed.

Theorem create_object_go_eq a b :
  tnodup a = true -> tnodup b = true -> create_object_go a b = cres_of (create_object a b).
Proof.
  intros Na Nb. unfold create_object_go. rewrite create_object_spec.
  destruct (as_obj a) as [oa|] eqn:Ea; [|reflexivity].
  destruct (as_obj b) as [ob|] eqn:Eb; [|reflexivity].
  destruct (as_obj_props a oa Ea Na) as [Noa Ooa]. destruct (as_obj_props b ob Eb Nb) as [Nob Oob].
  rewrite (get_diff_go_spec ob oa Noa Nob Ooa Oob), diff_members_of by assumption. reflexivity.
Qed.

(* the array form: createArrayMergePatch; None is a panic *)
Fixpoint create_go_go (la lb : list tjson) (acc : list tjson) : option mres :=
  match la, lb with
  | x :: ra, y :: rb =>
      match create_object_go x y with
      | COut p => create_go_go ra rb (acc ++ [p])
      | CErr => Some (MErr MBadDoc)
      | CPanic => None
      end
  | _, _ => Some (MOut (print true (TArr acc)))
  end.

(* as ImplMerge.api_create, with create_object_go *)
Definition api_create_go (a b : bytes) : option mres :=
  match parse a, parse b with
  | Some ta, Some tb =>
      match ta, tb with
      | TArr la, TArr lb =>
          if (length la =? length lb)%nat then create_go_go la lb [] else Some (MErr MBadDoc)
      | TArr _, _ | _, TArr _ => Some (MErr MBadTypes)
      | _, _ =>
          match create_object_go ta tb with
          | COut p => Some (MOut (print true p))
          | CErr => Some (MErr MBadDoc)
          | CPanic => None
          end
      end
  | _, _ => Some (MErr MBadDoc)
  end.

Lemma tnodup_arr l : tnodup (TArr l) = true -> Forall (fun x => tnodup x = true) l.
Proof.
  unfold tnodup. cbn [den]. intro N. apply onodup_arr in N. rewrite Forall_map in N. exact N.
Qed.

Lemma create_go_go_eq la : forall lb acc,
  Forall (fun x => tnodup x = true) la -> Forall (fun x => tnodup x = true) lb ->
  create_go_go la lb acc = Some (create_go la lb acc).
Proof.
  induction la as [|x la IH]; intros lb acc Fa Fb; [reflexivity|].
  destruct lb as [|y lb]; [reflexivity|].
  inversion Fa as [|? ? Nx Fa']; subst. inversion Fb as [|? ? Ny Fb']; subst.
  cbn [create_go_go create_go]. rewrite (create_object_go_eq x y Nx Ny).
  destruct (create_object x y) as [p|]; cbn [cres_of]; [apply IH; assumption | reflexivity].
Qed.

(* on texts without duplicate member names the Go-shaped model IS the model of ImplMerge.v, so
   every theorem of Properties/C03.v about api_create / create_object holds of it *)
Theorem api_create_go_eq a b :
  (forall ta, parse a = Some ta -> tnodup ta = true) ->
  (forall tb, parse b = Some tb -> tnodup tb = true) ->
  api_create_go a b = Some (api_create a b).
Proof.
  intros Na Nb. rewrite api_create_unfold. unfold api_create_go.
  destruct (parse a) as [ta|]; [|reflexivity]. destruct (parse b) as [tb|]; [|reflexivity].
  specialize (Na ta eq_refl). specialize (Nb tb eq_refl).
  assert (O : match create_object_go ta tb with
              | COut p => Some (MOut (print true p))
              | CErr => Some (MErr MBadDoc)
              | CPanic => None
              end =
              Some match create_object ta tb with
                   | Some p => MOut (print true p)
                   | None => MErr MBadDoc
                   end).
  { rewrite (create_object_go_eq ta tb Na Nb). destruct (create_object ta tb); reflexivity. }
  destruct ta; destruct tb; try exact O; try reflexivity.
  destruct (length l =? length l0)%nat; [|reflexivity].
  apply create_go_go_eq; apply tnodup_arr; assumption.
Qed.

(* a C03 theorem transported, as an instance: C03_model_correct for the Go-shaped model *)
Theorem api_create_go_correct a b ams bms :
  parse a = Some (TObj ams) -> parse b = Some (TObj bms) ->
  tnodup (TObj ams) = true -> tnodup (TObj bms) = true -> tsb (TObj ams) -> tsb (TObj bms) ->
  exists p,
    api_create_go a b = Some (MOut (print true p)) /\
    create_object_go (TObj ams) (TObj bms) = COut p /\
    p = encode_sorted (diff (den (TObj ams)) (den (TObj bms))) /\
    tsb p /\ tnodup p = true /\
    jeq (den p) (diff (den (TObj ams)) (den (TObj bms))) = true /\
    (no_null_member (den (TObj bms)) = true -> jeq (merge_patch (den (TObj ams)) (den p)) (den (TObj bms)) = true) /\
    (p = TObj [] <-> jeq (den (TObj ams)) (den (TObj bms)) = true).
Proof.
  intros Pa Pb Na Nb Sa Sb.
  destruct (api_create_correct a b ams bms Pa Pb Na Nb Sa Sb) as [p [H1 [H2 H3]]].
  exists p. split; [|split; [|split; [exact H2 | exact H3]]].
  - rewrite api_create_go_eq, H1; [reflexivity| |].
    + intros ta E. rewrite Pa in E. inversion E; subst. exact Na.
    + intros tb E. rewrite Pb in E. inversion E; subst. exact Nb.
  - rewrite (create_object_go_eq _ _ Na Nb), create_object_spec. cbn [as_obj cres_of]. rewrite H2. reflexivity.
Qed.

(* end to end on texts: the Go-shaped model on the texts of Properties/C03.v *)
Example api_create_go_ex :
  let a := B "{""a"":{""x"":1.0,""y"":2},""k"":""s<"",""n"":1e400}" in
  let b := B "{""n"":1e400,""a"":{""x"":1,""w"":[12345678901234567890123]},""z"":""<>""}" in
  api_create_go a b = Some (api_create a b) /\
  api_create_go (B "[{""a"":1},null]") (B "[{""a"":2},{""b"":null}]") = Some (MOut (B "[{""a"":2},{""b"":null}]")) /\
  api_create_go (B "3") (B "{}") = Some (MErr MBadDoc).
Proof. vm_compute. repeat split; reflexivity. Qed.

Print Assumptions matches_value_go_swap.
Print Assumptions matches_value_go_jeq.
Print Assumptions matches_array_go_jeq.
Print Assumptions get_diff_go_spec.
Print Assumptions get_diff_go_diff.
Print Assumptions get_diff_go_diff_value.
Print Assumptions get_diff_go_any_order.
Print Assumptions go_type_of_decoded.
Print Assumptions get_diff_go_total.
Print Assumptions get_diff_go_no_panic.
Print Assumptions create_object_go_eq.
Print Assumptions api_create_go_eq.
Print Assumptions api_create_go_correct.
